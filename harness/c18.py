"""C18 - Query strings and urlencoded forms decode to exactly what was sent."""
import itertools
import random
import re
import urllib.parse
from io import BytesIO

from harness import core
from harness.core import hb, hs, Check, Finding

# characters the property names (separators, '=', '&', '+', '%', space) plus hex digits that make
# stray escapes valid, ASCII that urlencode leaves alone or escapes, and non-ASCII of every UTF-8 length
SPECIAL = ['&', '=', '+', '%', ' ', ';', '#', '?', '/', '\\', '"', "'", '\n', '\r', '\t', '\x00', '~', '_', '.', '-']
PLAIN = list('abcxyzAZ0149fFgG')
NONASCII = ['\x80', '\xe9', '\xff', '\u0100', '\u07ff', '\u0800', '\u20ac', '\ud7ff', '\ue000', '\ufffd', '\uffff',
            '\U00010000', '\U0001f600', '\U0010ffff']
# byte-level fragments for the malformed stream: stray '%', truncated / overlong / surrogate / out-of-range UTF-8
ESCAPES = ['%', '%%', '%4', '%41', '%4g', '%g4', '%e9', '%E9', '%C3%A9', '%c3%a9', '%C3', '%A9', '%E2%82%AC', '%E2%82',
           '%E2', '%82%AC', '%F0%9F%98%80', '%F0%9F%98', '%F0%9F', '%F0', '%C0%80', '%C1%BF', '%E0%80%80',
           '%E0%9F%BF', '%E0%A0%80', '%ED%A0%80', '%ED%9F%BF', '%F4%8F%BF%BF', '%F4%90%80%80', '%F0%80%80%80',
           '%F0%8F%BF%BF', '%F5%80%80%80', '%FF', '%FE', '%80', '%BF', '%2B', '%26', '%3D', '%25', '%20', '%00', '%+', '%=',
           '%&', '%25%34%31']
SEPS = ['&', '=', '&&', '==', '=&', '&=', '&=&', '=&=', '&&&', '===']

EXH_ALPHABETS = ['a&=%+', '%41&=', '%C3A9']   # first one is the alphabet named by the design


def gen_text(rng, empty_ok=True):
    k = rng.randrange(10)
    if k == 0 and empty_ok:
        return ''
    if k == 1:
        return rng.choice(PLAIN)
    n = rng.choice([1, 1, 2, 2, 3, 4, 6])
    pool = (PLAIN, SPECIAL, NONASCII)
    w = rng.choice([(6, 1, 1), (2, 4, 1), (1, 1, 4), (2, 2, 2)])
    out = ''.join(rng.choice(rng.choices(pool, w)[0]) for _ in range(n))
    if not out and not empty_ok:
        return rng.choice(PLAIN)
    return out


def gen_pairs(rng):
    n = rng.choice([0, 1, 1, 2, 2, 3, 3, 4, 5, 7])
    keys = [gen_text(rng, empty_ok=False) for _ in range(max(1, rng.randint(1, max(1, n))))]
    out = []
    for _ in range(n):
        # repeated keys are the point of the list promotion: draw keys from a small pool
        out.append((rng.choice(keys), gen_text(rng)))
    return out


def lower_hex(s, rng):
    """a client may send lower-case hex digits in escapes"""
    out, i = [], 0
    while i < len(s):
        if s[i] == '%' and rng.random() < .5:
            out.append(s[i:i + 3].lower())
            i += 3
        else:
            out.append(s[i])
            i += 1
    return ''.join(out)


def encode_pairs(pairs, rng):
    """one of the URL-encodings a client may choose; returns (query string, flavour)"""
    k = rng.randrange(4)
    if k == 0:
        return urllib.parse.urlencode(pairs), 'quote_plus'
    if k == 1:
        return urllib.parse.urlencode(pairs, quote_via=urllib.parse.quote), 'quote'
    if k == 2:
        return lower_hex(urllib.parse.urlencode(pairs), rng), 'lower-hex'
    return urllib.parse.urlencode(pairs, safe='/:@!$\'()*,;?'), 'extra-safe'


# ----------------------------------------------------------------------------------------
# class: ONE query string / body assembled by SEVERAL encoders (a <form> field plus a parameter appended by script with
# encodeURIComponent, a proxy that re-escapes part of the string, hand-written links): every key and every value is
# spelled by an encoder chosen on its own, so the same key text can stand in the string in different spellings
# ('+' / '%20', hex case, over-escaped unreserved characters).  All spellings decode to the same text, so the property
# ("parsing yields the same pairs ... repeated keys as lists in submission order") binds on them alike.
COMP_FLAVOURS = ['plus', 'pct', 'lower', 'over', 'overlow', 'alt', 'safe']


def enc_component(text, flav):
    if flav == 'plus':
        return urllib.parse.quote_plus(text)
    if flav == 'pct':
        return urllib.parse.quote(text, safe='')
    if flav == 'lower':
        return re.sub(r'%[0-9A-F]{2}', lambda m: m.group(0).lower(), urllib.parse.quote_plus(text))
    if flav == 'safe':
        return urllib.parse.quote_plus(text, safe='/:@!$\'()*,;?')
    esc = ['%%%02X' % b for b in text.encode('utf8')]
    if flav == 'over':
        return ''.join(esc)
    if flav == 'overlow':
        return ''.join(esc).lower()
    # 'alt': every other character escaped although it need not be
    return ''.join(''.join('%%%02X' % b for b in c.encode('utf8')) if i % 2 == 0 else urllib.parse.quote_plus(c)
                   for i, c in enumerate(text))


def encode_mixed(pairs, kfl, vfl):
    return '&'.join(enc_component(k, kf) + '=' + enc_component(v, vf) for (k, v), kf, vf in zip(pairs, kfl, vfl))


def gen_raw(rng):
    k = rng.randrange(6)
    if k == 0:
        return ''.join(rng.choice('a&=%+') for _ in range(rng.randint(0, 12)))
    if k == 1:
        return ''.join(rng.choice(ESCAPES + SEPS + PLAIN) for _ in range(rng.randint(0, 6)))
    if k == 2:
        return ''.join(rng.choice(ESCAPES + SEPS + PLAIN + SPECIAL + NONASCII) for _ in range(rng.randint(0, 7)))
    if k == 3:   # a valid query string, damaged
        s = urllib.parse.urlencode(gen_pairs(rng))
        if s:
            p = rng.randrange(len(s))
            s = rng.choice([s[:p], s[p:], s[:p] + rng.choice(SEPS + ESCAPES) + s[p:], s[:p] + s[p + 1:],
                            s + rng.choice(SEPS), rng.choice(SEPS) + s])
        return s
    if k == 4:
        return ''.join('%%%02X' % rng.randrange(256) if rng.random() < .8 else rng.choice('a&=+')
                       for _ in range(rng.randint(1, 8)))
    return ''.join(rng.choice(['%', rng.choice('0123456789abcdefABCDEFgG'), rng.choice(NONASCII), '&', '=', '+'])
                   for _ in range(rng.randint(0, 10)))


def gen_bytes(rng):
    k = rng.randrange(3)
    if k == 0:
        return bytes(rng.randrange(256) for _ in range(rng.randint(0, 8)))
    if k == 1:   # valid text with damage
        b = bytearray(gen_text(rng).encode('utf8') + gen_text(rng).encode('utf8'))
        for _ in range(rng.randint(0, 2)):
            if b:
                p = rng.randrange(len(b))
                if rng.random() < .5:
                    del b[p]
                else:
                    b[p] = rng.randrange(256)
        return bytes(b)
    lead = [0xc0, 0xc1, 0xc2, 0xdf, 0xe0, 0xe1, 0xec, 0xed, 0xee, 0xef, 0xf0, 0xf1, 0xf3, 0xf4, 0xf5, 0xf8, 0xff, 0x41, 0x7f]
    cont = [0x7f, 0x80, 0x8f, 0x90, 0x9f, 0xa0, 0xbf, 0xc0, 0x41]
    return bytes(rng.choice(lead if rng.random() < .4 else cont) for _ in range(rng.randint(1, 7)))


# the Content-Type header in front of an urlencoded body: the media type in several spellings, every kind of
# parameter a client or an HTTP stack may stamp on it - above all `charset=` with UTF-8 aliases, legacy labels,
# labels of codecs that are not text encodings, labels no codec exists for - in several layouts.  None of it may
# change what forms / POST / params show: the escapes of an urlencoded body are UTF-8 whatever the label says.
FORM_TYPE = 'application/x-www-form-urlencoded'
MEDIA = [FORM_TYPE] * 8 + ['Application/X-WWW-Form-UrlEncoded', FORM_TYPE.upper(), FORM_TYPE + ' ', ' ' + FORM_TYPE, 'text/plain',
                           'text/html', 'application/octet-stream', 'application/xml', 'text/json', '', '*/*', 'x',
                           'application/jso', 'multipar/form-data', 'application/x-url-encoded', 'É/é']
CHARSETS = ['utf-8', 'UTF-8', 'utf8', 'utf_8', 'U8', '"utf-8"', "'utf-8'", 'utf-8-sig', 'iso-8859-1', 'ISO-8859-1', 'latin1',
            'latin-1', 'l1', 'iso-8859-15', 'iso-8859-2', 'us-ascii', 'ascii', 'windows-1252', 'cp1252', 'cp1251', 'cp437',
            'utf-16', 'utf-16le', 'utf-16be', 'utf-32', 'utf-7', 'shift_jis', 'euc-jp', 'gbk', 'gb18030', 'big5', 'koi8-r',
            'cp037', 'mac-roman', 'idna', 'punycode', 'rot13', 'rot_13', 'hex', 'base64', 'zlib', 'bz2', 'uu', 'quopri',
            'undefined', 'unicode-escape', 'raw_unicode_escape', 'mbcs', 'oem', 'unicode-1-1-utf-8', 'x-user-defined',
            'x-sjis', 'binary', 'none', 'null', 'bogus', 'utf-9', 'utf', '8', '', '*', '%', 'é', 'utf-8; q=1', 'a b', '=',
            'iso-8859-1,utf-8', '\x00', 'utf-8\x00']
OTHER_PARAMS = ['boundary=x', 'q=0.5', 'version=1', 'name="a;b"', 'x', '', '=', 'charset', 'format=flowed', 'encoding=latin1',
                'accept-charset=iso-8859-1', '_charset_=iso-8859-1']


def gen_ctype(rng, form_only=False):
    """a Content-Type header (None = absent) that is neither multipart/... nor application/json"""
    k = rng.random()
    if k < .06 and not form_only:
        return None
    media = FORM_TYPE if form_only and rng.random() < .8 else rng.choice(MEDIA[:12] if form_only else MEDIA)
    if k < .2:
        return media
    params = []
    for _ in range(rng.choice([1, 1, 1, 2, 3])):
        if rng.random() < .75:
            name = rng.choice(['charset', 'charset', 'charset', 'Charset', 'CHARSET', 'charset ', ' charset'])
            eq = rng.choice(['=', '=', '=', ' = ', '= ', ' ='])
            params.append(name + eq + rng.choice(CHARSETS))
        else:
            params.append(rng.choice(OTHER_PARAMS))
    sep = rng.choice(['; ', '; ', ';', ' ;', ' ; ', ';\t'])
    return media + sep + sep.join(params) + rng.choice(['', '', '', ';', ' '])


def ctype_feature(ctype):
    """fingerprint of the class of header, for the finding key"""
    if ctype is None:
        return 'absent'
    low = ctype.lower()
    if 'charset' in low:
        return 'charset-parameter'
    if ';' in low:
        return 'other-parameter'
    return 'bare-form-type' if low.strip() == FORM_TYPE else 'other-media-type'


def show_pairs(l):
    return ','.join(f'{hs(k)}:{hs(v)}' for k, v in l) if l else '~'


def show_dict(d):
    if not d:
        return 'ok ~'
    out = []
    for k, v in d.items():           # insertion order: a Python dict is ordered, so is the model's
        if isinstance(v, list):
            out.append(f'{hs(k)}:l:' + '/'.join(hs(x) for x in v))
        else:
            out.append(f'{hs(k)}:s:{hs(v)}')
    return 'ok ' + ','.join(out)


HANGS = [0]          # implementation calls that hit the watchdog in this run
HANG_CAP = 10        # after that many the run stops feeding the implementation (the verdict is settled)


def guarded(fn, show):
    try:
        return show(core.with_timeout(fn, 1 if HANGS[0] else 3))
    except core.Hang:
        HANGS[0] += 1
        return 'hang'
    except Exception as e:  # noqa: the class name is the observable
        return 'err ' + type(e).__name__


def expected_dict(pairs):
    """the property's own wording: single values as strings, repeated keys as lists in submission order"""
    d = {}
    for k, v in pairs:
        d.setdefault(k, []).append(v)
    return {k: (vs[0] if len(vs) == 1 else vs) for k, vs in d.items()}


# --------------------------------------------------------------------------------------
# the Request layer inside a real WSGI call: the handler performs an ACCESS SEQUENCE on one request
# (body reads before/after forms, forms twice, params ...), the body arrives with Content-Length or with
# Transfer-Encoding: chunked and no Content-Length, through a stream that short-reads

OPS_SEQS = [['F'], ['O'], ['A'], ['F', 'F'], ['B', 'F'], ['P1', 'F'], ['P3', 'F'], ['P0', 'F'], ['B', 'F', 'B'], ['F', 'B', 'F'],
            ['B', 'O'], ['B', 'A'], ['P2', 'A'], ['Q', 'A'], ['A', 'F', 'O'], ['B', 'B', 'F'], ['P1', 'P1', 'O'],
            ['F', 'P2', 'A'], ['O', 'B', 'O'], ['P999', 'F'], ['B', 'Q', 'A', 'F']]
_APPS = {}


def wsgi_app():
    """one real application; its handler runs the access sequence in app.verif_ops on app.request"""
    app = _APPS.get(core.REPO)
    if app is not None:
        return app
    from ombott import Ombott
    app = Ombott()
    app.verif_ops, app.verif_outs = [], []

    def handler():
        rq, outs = app.request, app.verif_outs
        for op in app.verif_ops:
            if op == 'B':
                outs.append(('B', rq.body.read()))
            elif op[0] == 'P':
                outs.append(('P', rq.body.read(int(op[1:]))))
            elif op == 'F':
                outs.append(('F', show_dict(rq.forms)))
            elif op == 'O':
                outs.append(('O', show_dict(rq.POST)))
            elif op == 'A':
                outs.append(('A', show_dict(rq.params)))
            elif op == 'Q':
                outs.append(('Q', show_dict(rq.query)))
            else:
                raise AssertionError(op)
        return 'ok'
    app.route('/f', method=['POST', 'PUT'], callback=handler)
    _APPS[core.REPO] = app
    return app


def chunk_encode(body, cuts, upper=False, ext=b''):
    """RFC 7230 4.1 chunked coding of `body`, chunk sizes from `cuts` (the rest in one last chunk)"""
    out, pos = b'', 0
    sizes = [c for c in cuts if c > 0]
    while pos < len(body):
        n = min(sizes.pop(0), len(body) - pos) if sizes else len(body) - pos
        out += format(n, 'X' if upper else 'x').encode() + ext + b'\r\n' + body[pos:pos + n] + b'\r\n'
        pos += n
    return out + b'0\r\n\r\n'


def run_form_request(body, qs, framing, sched, ops, cuts=(), ctype='application/x-www-form-urlencoded', method='POST'):
    """-> (status, [(op, output)]) of one WSGI call of the real application"""
    import io
    app = wsgi_app()
    wire = body if framing == 'cl' else chunk_encode(body, cuts)
    st = core.SchedStream(wire, sched)
    env = {'REQUEST_METHOD': method, 'PATH_INFO': '/f', 'SCRIPT_NAME': '', 'QUERY_STRING': qs,
           'SERVER_NAME': 'verif', 'SERVER_PORT': '80', 'SERVER_PROTOCOL': 'HTTP/1.1',
           'wsgi.input': st, 'wsgi.errors': io.StringIO(), 'wsgi.url_scheme': 'http', 'wsgi.version': (1, 0),
           'wsgi.multithread': False, 'wsgi.multiprocess': False, 'wsgi.run_once': False}
    if framing == 'cl':
        env['CONTENT_LENGTH'] = str(len(body))
    else:
        env['HTTP_TRANSFER_ENCODING'] = 'chunked'        # and no CONTENT_LENGTH: content_length == -1
    if ctype is not None:
        env['CONTENT_TYPE'] = ctype
    app.verif_ops, app.verif_outs = list(ops), []
    started = []

    def go():
        out = app(env, lambda status, headers, exc_info=None: started.append(status))
        b''.join(out)
        close = getattr(out, 'close', None)
        if close:
            close()
    try:
        core.with_timeout(go, 3)
        status = int(started[0].split()[0]) if started else None
    except core.Hang:
        HANGS[0] += 1
        status = 'hang'
    except Exception as e:  # noqa: catchall is on, nothing may escape
        status = 'raised ' + type(e).__name__
    return status, list(app.verif_outs)


def gen_access(rng, body_len):
    ops = list(rng.choice(OPS_SEQS)) if rng.random() < .7 else \
        [rng.choice(['B', 'F', 'O', 'A', 'Q', 'P%d' % rng.choice([0, 1, 2, 5, max(0, body_len - 1), body_len, body_len + 3])])
         for _ in range(rng.randint(1, 5))]
    framing = rng.choice(['cl', 'chunked'])
    sched = core.gen_sched(rng, body_len + 12)
    cuts = [rng.choice([1, 2, 3, 5, 16, 40]) for _ in range(rng.randint(0, 6))]
    return ops, framing, sched, cuts


class C18(Check):
    pid = 'C18'
    props_mod = 'OmbottModel.Props.C18'
    tables = []
    design_ref = '6/C18'
    level_text = ('Lean theorems over the model of parse_qsl (scanner index arithmetic as written, setitem list '
                  'promotion), urllib unquote (percent decoding, UTF-8 with replacement) and the urlencode encoder: '
                  'round trip of every pair list with non-empty keys, termination of the scanner on every string '
                  '(each iteration advances; len+1 iterations suffice), no KeyError from the promotion closure; '
                  'model tied to the code by a differential run through parse_qsl and Request.query/.forms/.params.')
    level_note_extra = ('text with lone surrogates is outside Lean Char and outside the generators; the body reader in '
                        'front of forms (Content-Length, size caps) belongs to C04/C13')
    anchors = ['ombott/request_pkg/helpers.py', 'ombott/request_pkg/body_mixin.py', 'ombott/request_pkg/props_mixin.py']
    rule = ('pair lists over plain/special (& = + % space ; # ...)/non-ASCII characters of every UTF-8 length with keys '
            'drawn from a small pool (repeats), encoded by urlencode in four flavours; raw strings from separators, '
            'stray and truncated escapes, overlong/surrogate/out-of-range UTF-8 escapes, damaged valid query strings; '
            'exhaustive strings over {a & = % +}, {% 4 1 & =}, {% C 3 A 9} up to length 6 (quick) / 7 (thorough); '
            'through parse_qsl, parse_qsl(setitem=), Request.query, .forms, .params; the encoder model against '
            'urllib.parse; non-trivial = the string contains a separator or an escape')
    assumptions = ['a str holding lone surrogates is outside the model (Lean Char = Unicode scalar value); the generators '
                   'never produce one (urlencode itself raises on them)',
                   'urllib.parse.unquote/quote_plus/urlencode are library code: modelled directly and validated by the '
                   'correspondence run, not proved against their source',
                   'the request body reaches forms unchanged (C04/C13); a multipart or JSON content type is C07/C12']

    def budget(self, tier, escalated):
        n = 2500 if tier == 'quick' else 40000
        return n * (3 if escalated and tier == 'quick' else 1)

    def nontrivial(self, sample):
        s = str(sample.get('qs', sample.get('text', '')))
        return any(c in s for c in '&=%+')

    # ------------------------------------------------------------------
    def _mods(self):
        from ombott.request_pkg import helpers
        from ombott.request_pkg.request import Request
        return helpers, Request

    def _request(self, Request, qs, body, ctype='application/x-www-form-urlencoded'):
        env = {'REQUEST_METHOD': 'POST', 'PATH_INFO': '/', 'QUERY_STRING': qs, 'CONTENT_LENGTH': str(len(body)),
               'wsgi.input': BytesIO(body)}
        if ctype is not None:
            env['CONTENT_TYPE'] = ctype
        return Request(env)

    def _lines_for(self, qs, sample, helpers, Request, rng, out, full=True):
        """all entry points on one query string"""
        st = self.stats
        parse_qsl = helpers.parse_qsl
        ans = guarded(lambda: parse_qsl(qs), show_pairs)
        kind = 'ans_' + (ans.split(' ')[0] if ans.startswith(('err', 'hang')) else 'pairs')
        st[kind] = st.get(kind, 0) + 1
        out.append((f'qs parse {hs(qs)}', ans, sample))
        if not full:
            return

        def via_setitem():
            d = helpers.FormsDict()
            parse_qsl(qs, setitem=d.__setitem__)
            return d
        out.append((f'qs dict {hs(qs)}', guarded(via_setitem, show_dict), sample))
        out.append((f'qs query {hs(qs)}', guarded(lambda: self._request(Request, qs, b'').query, show_dict), sample))
        try:
            body = qs.encode('latin1')
        except UnicodeEncodeError:
            body = qs.encode('utf8')       # raw UTF-8 bytes in a body: read back as Latin-1 text
        ctype = gen_ctype(rng)
        st['ctype_' + ctype_feature(ctype)] = st.get('ctype_' + ctype_feature(ctype), 0) + 1
        out.append((f'qs formsct {core.opt(ctype, hs)} {hb(body)}',
                    guarded(lambda: self._request(Request, '', body, ctype).forms, show_dict), dict(sample, ctype=ctype)))

    def corr(self, rng, n):
        helpers, Request = self._mods()
        self.stats = st = {}
        out = []
        HANGS[0] = 0

        def bump(k, by=1):
            st[k] = st.get(k, 0) + by

        def spent():
            """a spinning scanner makes every further case cost a watchdog period: stop early"""
            if HANGS[0] >= HANG_CAP:
                st['aborted_after_hangs'] = HANGS[0]
                return True
            return False

        # 1. structured: pair lists through an encoder
        for _ in range(n):
            if spent():
                break
            pairs = gen_pairs(rng)
            qs, flavour = encode_pairs(pairs, rng)
            bump('structured')
            bump('flavour_' + flavour)
            bump('pairs_%d' % min(len(pairs), 5))
            if len({k for k, _ in pairs}) < len(pairs):
                bump('with_repeated_key')
            if any(ord(c) > 127 for k, v in pairs for c in k + v):
                bump('with_non_ascii')
            self._lines_for(qs, dict(kind='pairs', pairs=pairs, qs=qs, flavour=flavour), helpers, Request, rng, out)
        # 2. params: query and body together
        for _ in range(n // 3):
            if spent():
                break
            p1, p2 = gen_pairs(rng), gen_pairs(rng)
            if rng.random() < .5 and p1 and p2:      # a key on both sides
                p2 = p2 + [(p1[0][0], gen_text(rng))]
            qs = urllib.parse.urlencode(p1) if rng.random() < .8 else gen_raw(rng)
            body = (urllib.parse.urlencode(p2) if rng.random() < .8 else gen_raw(rng)).encode('utf8')
            bump('params')
            ctype = gen_ctype(rng)
            out.append((f'qs paramsct {core.opt(ctype, hs)} {hs(qs)} {hb(body)}',
                        guarded(lambda: self._request(Request, qs, body, ctype).params, show_dict),
                        dict(kind='params', qs=qs, body=body.decode('latin1'), ctype=ctype)))
        # 3. malformed raw strings
        for _ in range(n):
            if spent():
                break
            qs = gen_raw(rng)
            bump('raw')
            bump('raw_len_%s' % ('0' if not qs else '1-4' if len(qs) < 5 else '5-12' if len(qs) < 13 else '13+'))
            self._lines_for(qs, dict(kind='raw', qs=qs), helpers, Request, rng, out)
        # 4. exhaustive small scope
        maxlen = 6 if n < 10000 else 7
        for alpha in EXH_ALPHABETS:
            for L in range(0, maxlen + 1):
                for t in itertools.product(alpha, repeat=L):
                    if spent():
                        break
                    qs = ''.join(t)
                    bump('exhaustive')
                    self._lines_for(qs, dict(kind='raw', qs=qs), helpers, Request, rng, out, full=(L <= 4))
        # 5. unquote and the UTF-8 decoder by themselves
        for _ in range(n):
            s = gen_raw(rng)
            bump('unquote')
            out.append((f'qs unquote {hs(s)}', hs(urllib.parse.unquote(s)), dict(kind='unquote', text=s)))
            b = gen_bytes(rng)
            bump('decode')
            out.append((f'qs decode {hb(b)}', hs(b.decode('utf-8', 'replace')), dict(kind='decode', text=b.hex())))
        # 6. the encoder model against urllib (ties the statement of the round trip to the real urlencode)
        for _ in range(n // 2):
            s = gen_text(rng) + gen_text(rng)
            bump('encoder')
            out.append((f'qs quote {hs(s)}', hs(urllib.parse.quote(s, safe='')), dict(kind='enc', text=s)))
            out.append((f'qs quoteplus {hs(s)}', hs(urllib.parse.quote_plus(s)), dict(kind='enc', text=s)))
            pairs = gen_pairs(rng)
            out.append((f'qs urlencode {show_pairs(pairs)}', hs(urllib.parse.urlencode(pairs)),
                        dict(kind='enc', text=str(pairs))))
            out.append((f'qs urlencodeq {show_pairs(pairs)}',
                        hs(urllib.parse.urlencode(pairs, quote_via=urllib.parse.quote)),
                        dict(kind='enc', text=str(pairs))))
        # 7. the Request layer inside a WSGI call: access sequences x both framings x short reads
        for _ in range(n // 2):
            if spent():
                break
            if rng.random() < .75:
                pairs = gen_pairs(rng)
                body = urllib.parse.urlencode(pairs).encode('ascii')
            else:
                pairs = None
                raw = gen_raw(rng)
                try:
                    body = raw.encode('latin1')
                except UnicodeEncodeError:
                    body = raw.encode('utf8')
            qs = urllib.parse.urlencode(gen_pairs(rng)) if rng.random() < .4 else ''
            ops, framing, sched, cuts = gen_access(rng, len(body))
            ctype = gen_ctype(rng) if rng.random() < .6 else FORM_TYPE
            status, outs = run_form_request(body, qs, framing, sched, ops, cuts, ctype=ctype)
            bump('wsgi')
            bump('wsgi_ctype_' + ctype_feature(ctype))
            bump('wsgi_' + framing)
            bump(f'wsgi_status_{status}')
            if any(o[0] in 'BP' for o in ops[:-1]) and any(o in ('F', 'O', 'A') for o in ops[1:]):
                bump('wsgi_body_read_before_forms')
            sample = dict(kind='wsgi', pairs=pairs, body=body.decode('latin1'), qs=qs, framing=framing, sched=sched[:40],
                          ops=ops, cuts=cuts, ctype=ctype)
            k = 0
            for op in ops:
                got = outs[k][1] if k < len(outs) else f'status={status}'
                k += 1
                if op in ('F', 'O'):
                    out.append((f'qs formsct {core.opt(ctype, hs)} {hb(body)}', got, sample))
                elif op == 'A':
                    out.append((f'qs paramsct {core.opt(ctype, hs)} {hs(qs)} {hb(body)}', got, sample))
                elif op == 'Q':
                    out.append((f'qs query {hs(qs)}', got, sample))
        return out

    # ------------------------------------------------------------------
    # independent oracle, from the property text
    def _oracle_pairs(self, pairs, flavour='quote_plus'):
        """returns None or (key, what)"""
        helpers, Request = self._mods()
        mixed = isinstance(flavour, (list, tuple)) and flavour[0] == 'mixed'
        if mixed:
            qs = encode_mixed(pairs, flavour[1], flavour[2])
        else:
            enc = {'quote_plus': lambda p: urllib.parse.urlencode(p),
                   'quote': lambda p: urllib.parse.urlencode(p, quote_via=urllib.parse.quote)}[flavour]
            qs = enc(pairs)
        bad = self._oracle_total(qs)
        if bad:
            return bad
        got = helpers.parse_qsl(qs)
        if got != list(pairs):
            return self._classify(pairs, got, 'pairs'), f'parse_qsl({qs!r}) = {got!r}, sent {list(pairs)!r}'
        exp = expected_dict(pairs)
        if mixed:       # the setitem mode of the scanner on its own, and the three Request views below
            d = {}
            helpers.parse_qsl(qs, setitem=d.__setitem__)
            if d != exp:
                return (self._classify(pairs, d, 'setitem') + ':mixed-spellings',
                        f'parse_qsl({qs!r}, setitem=) built {d!r}, expected {exp!r}')
        for name, d in (('query', self._request(Request, qs, b'').query),
                        ('forms', self._request(Request, '', qs.encode('ascii')).forms),
                        ('params', self._request(Request, qs, b'').params),
                        ('params', self._request(Request, '', qs.encode('ascii')).params)):
            if dict(d) != exp:
                return (self._classify(pairs, d, name) + (':mixed-spellings' if mixed else ''),
                        f'Request.{name} for {qs!r} = {dict(d)!r}, expected {exp!r}')
        return None

    @staticmethod
    def _classify(pairs, got, where):
        """fingerprint of the failing class, not of the input"""
        text = ''.join(k + v for k, v in pairs)
        if where != 'pairs' and len({k for k, _ in pairs}) < len(pairs):
            feat = 'repeated-key'
        elif ' ' in text or '+' in text:
            feat = 'plus-or-space'
        elif any(ord(c) > 127 for c in text):
            feat = 'non-ascii'
        elif any(c in text for c in '&=%'):
            feat = 'separator-or-percent'
        else:
            feat = 'plain'
        return f'roundtrip-{where}:{feat}'

    def _oracle_wsgi(self, pairs, framing, sched, ops, cuts):
        """the same pairs sent as an urlencoded body to a real application whose handler performs the access
        sequence `ops`: every forms/POST/params answer is the sent pairs, every body read the sent bytes"""
        body = urllib.parse.urlencode(pairs).encode('ascii')
        status, outs = run_form_request(body, '', framing, list(sched), ops, cuts)
        exp = sorted(show_dict(expected_dict(pairs))[3:].split(','))
        seen_body = False
        nforms = 0
        for i, op in enumerate(ops):
            if op in ('F', 'O', 'A'):
                where = 'after-body-read' if seen_body else 'repeated' if nforms else 'first'
                nforms += 1
                if i >= len(outs):
                    return (f'wsgi-forms:{framing}:{where}:status',
                            f'{framing} body {body!r}, handler accesses {ops}: request answered {status} at access {i} ({op})')
                got = outs[i][1]
                if not got.startswith('ok ') or sorted(got[3:].split(',')) != exp:
                    return (f'wsgi-forms:{framing}:{where}',
                            f'{framing} body {body!r}, handler accesses {ops}: access {i} ({op}) gave {got!r}, '
                            f'sent {list(pairs)!r}')
            elif op == 'B' or op[0] == 'P':
                seen_body = True
                if i >= len(outs):
                    return (f'wsgi-body:{framing}:status', f'{framing} body {body!r}, accesses {ops}: answered {status}')
                want = body if op == 'B' else body[:int(op[1:])]
                if outs[i][1] != want:
                    return (f'wsgi-body:{framing}', f'{framing} body {body!r}, accesses {ops}: access {i} ({op}) read '
                                                     f'{outs[i][1]!r}')
        if status != 200:
            return f'wsgi-status:{framing}', f'{framing} body {body!r}, accesses {ops}: status {status}'
        return None

    def _oracle_ctype(self, pairs, flavour, ctype):
        """the pairs sent as an urlencoded body under the Content-Type `ctype` (the form type with any parameters, or no
        header): forms / POST / params are the sent pairs, escapes decoded as UTF-8 whatever the header says, nothing
        raises - read from a Request object and inside a WSGI call under both framings"""
        helpers, Request = self._mods()
        enc = {'quote_plus': lambda p: urllib.parse.urlencode(p),
               'quote': lambda p: urllib.parse.urlencode(p, quote_via=urllib.parse.quote)}[flavour]
        body = enc(pairs).encode('ascii')
        exp = expected_dict(pairs)
        feat = ctype_feature(ctype)
        for name in ('forms', 'POST', 'params'):
            try:
                d = core.with_timeout(lambda: dict(getattr(self._request(Request, '', body, ctype), name)), 2)
            except core.Hang:
                return 'hang', f'Request.{name} does not terminate on {body!r} under Content-Type {ctype!r}'
            except Exception as e:  # noqa
                return (f'content-type:{feat}:raises:{type(e).__name__}',
                        f'Request.{name} raises {type(e).__name__}: {e} for body {body!r} under Content-Type {ctype!r}')
            if d != exp:
                return (f'content-type:{feat}:{self._classify(pairs, d, name)}',
                        f'Request.{name} for body {body!r} under Content-Type {ctype!r} = {d!r}, expected {exp!r}')
        want = sorted(show_dict(exp)[3:].split(','))
        for framing in ('cl', 'chunked'):
            status, outs = run_form_request(body, '', framing, [], ['F', 'A', 'O'], [5, 3], ctype=ctype)
            got = [sorted(o[1][3:].split(',')) if o[1].startswith('ok ') else o[1] for o in outs]
            if status != 200 or got != [want] * 3:
                return (f'content-type:{feat}:wsgi:{framing}',
                        f'{framing} body {body!r} under Content-Type {ctype!r}: status {status}, forms/params/POST = '
                        f'{[o[1] for o in outs]!r}, sent {list(pairs)!r}')
        return None

    def _oracle_total(self, qs, ctype=FORM_TYPE):
        helpers, Request = self._mods()
        try:
            body = qs.encode('latin1')
        except UnicodeEncodeError:
            body = qs.encode('utf8')
        for name, fn in (('parse_qsl', lambda: helpers.parse_qsl(qs)),
                         ('query', lambda: self._request(Request, qs, b'').query),
                         ('forms', lambda: self._request(Request, '', body, ctype).forms),
                         ('params', lambda: self._request(Request, qs, body, ctype).params)):
            try:
                core.with_timeout(fn, 2)
            except core.Hang:
                return 'hang', f'{name} does not terminate on {qs!r}'
            except Exception as e:  # noqa
                under = f' (Content-Type {ctype!r})' if name in ('forms', 'params') and ctype != FORM_TYPE else ''
                return f'raises:{type(e).__name__}', f'{name} raises {type(e).__name__}: {e} on {qs!r}{under}'
        return None

    def search(self, rng, n, seeds):
        findings, evals = [], 0
        cases = []
        for s in seeds:
            if s.get('kind') == 'pairs':
                cases.append(('pairs', [tuple(p) for p in s['pairs']], 'quote_plus'))
            if 'qs' in s:
                cases.append(('raw', s['qs'], None))
            if s.get('kind') == 'params':
                cases.append(('raw', s['body'], None))
        # the edge cases the property names, always
        named = [[('a', 'b')], [('a', '')], [('a', '1'), ('a', '2')], [('a', '1'), ('b', 'x'), ('a', '2'), ('a', '3')],
                 [('a b', 'c d')], [('a+b', 'c+d')], [('a&b', 'c=d')], [('a=b', 'c&d')], [('%', '%41')], [('k', '%')],
                 [('\xe9', '\u20ac'), ('\U0001f600', 'x')], [(' ', ' ')], [('=', '=')], [('&', '&')], [('+', '+')],
                 [('k', 'v')] * 3, [('a', ''), ('a', '')]]
        for p in named:
            cases.append(('pairs', p, 'quote_plus'))
            cases.append(('pairs', p, 'quote'))
        # one string, several encoders: every named case under every PAIR of component encoders (keys of the odd pairs
        # spelled by the second one), then generated pairs with an encoder drawn per key and per value
        mrng = random.Random(rng.random())
        spell = [[('full name', 'Ann'), ('full name', 'Bob'), ('full name', 'Cy')], [('caf\xe9', '1'), ('caf\xe9', '2')],
                 [('tag', 'a'), ('x', 'y'), ('tag', 'b'), ('tag', 'c')], [('a b', '1'), ('a+b', '2'), ('a b', '3'), ('a+b', '4')],
                 [('k~._-', 'v'), ('k~._-', 'w')]]
        for p in named + spell:
            for f1 in COMP_FLAVOURS:
                for f2 in COMP_FLAVOURS:
                    if f1 != f2:
                        cases.append(('pairs', p, ['mixed', [(f1, f2)[i % 2] for i in range(len(p))], [f2] * len(p)]))
        for _ in range(n // 2):
            pairs = [(k, v) for k, v in gen_pairs(mrng) if k]
            cases.append(('pairs', pairs, ['mixed', [mrng.choice(COMP_FLAVOURS) for _ in pairs],
                                           [mrng.choice(COMP_FLAVOURS) for _ in pairs]]))
        for alpha in EXH_ALPHABETS[:1]:
            for L in range(0, 5):
                for t in itertools.product(alpha, repeat=L):
                    cases.append(('raw', ''.join(t), None))
        for _ in range(n // 2):
            pairs = [(k, v) for k, v in gen_pairs(rng) if k]
            cases.append(('pairs', pairs, rng.choice(['quote_plus', 'quote'])))
        for _ in range(n // 2):
            cases.append(('raw', gen_raw(rng), None))
        # the Content-Type axis: the form type with every kind of parameter (charset labels above all) or no header,
        # over bodies with non-ASCII escapes (named and generated) and over raw strings (totality)
        for s in seeds:
            if s.get('ctype') is not None and s.get('pairs') and all(k for k, _ in s['pairs']) and \
                    s['ctype'].lower().strip().startswith(FORM_TYPE):
                cases.append(('ctype', [tuple(p) for p in s['pairs']], ['quote_plus', s['ctype']]))
        nonascii = [[('name', 'Zo\xeb')], [('\xe9', '\u20ac'), ('\U0001f600', 'x')], [('a', '\xe9'), ('a', '\xff'), ('b', '+&=%')],
                    [('k\u0100', 'v')], [('a', 'b')], [('a b', '100%')]]
        for cs in CHARSETS:
            for j, layout in enumerate(('%s; charset=%s', '%s;charset=%s', '%s; Charset=%s', '%s ; q=1; charset=%s;')):
                cases.append(('ctype', nonascii[(len(cs) + j) % len(nonascii)], [('quote_plus', 'quote')[j % 2],
                                                                                 layout % (FORM_TYPE, cs)]))
            cases.append(('rawct', rng.choice(['%', 'a=%E9', '%C3%A9=%', 'a=%FF&b=%C3', '=&%4']), FORM_TYPE + '; charset=' + cs))
        for _ in range(n // 3):
            pairs = [(k, v) for k, v in gen_pairs(rng) if k]
            if rng.random() < .6:
                pairs.append((gen_text(rng, False), rng.choice(NONASCII) + gen_text(rng)))
            cases.append(('ctype', pairs, [rng.choice(['quote_plus', 'quote']), gen_ctype(rng, form_only=True)]))
        for _ in range(n // 4):
            cases.append(('rawct', gen_raw(rng), gen_ctype(rng, form_only=True)))
        # the Request layer in a WSGI call: every access sequence x both framings x whole / one-byte / ragged reads
        for s in seeds:
            if s.get('kind') == 'wsgi' and s.get('pairs') is not None and all(k for k, _ in s['pairs']):
                cases.append(('wsgi', [tuple(p) for p in s['pairs']], (s['framing'], s['sched'], s['ops'], s['cuts'])))
        for p in named[:8] + [[('a', '1'), ('b', 'x y'), ('a', '2'), ('\xe9', '+&=%')]]:
            for ops in OPS_SEQS:
                for framing in ('cl', 'chunked'):
                    for sched, cuts in (([], []), ([1] * 400, [1, 2]), ([3, 1, 2, 5, 1, 1, 4], [4, 1, 7])):
                        cases.append(('wsgi', p, (framing, sched, ops, cuts)))
        for _ in range(n // 3):
            pairs = [(k, v) for k, v in gen_pairs(rng) if k]
            ops, framing, sched, cuts = gen_access(rng, len(urllib.parse.urlencode(pairs)))
            cases.append(('wsgi', pairs, (framing, sched, ops, cuts)))
        hangs = 0
        for kind, x, fl in cases:
            if hangs >= 4:           # one class of finding, and every further instance costs a watchdog period
                break
            evals += 1
            try:
                bad = (self._oracle_pairs(x, fl) if kind == 'pairs' else self._oracle_wsgi(x, *fl) if kind == 'wsgi'
                       else self._oracle_ctype(x, *fl) if kind == 'ctype' else self._oracle_total(x, fl) if kind == 'rawct'
                       else self._oracle_total(x))
            except core.Hang:
                bad = ('hang', f'does not terminate on {x!r}')
            except Exception as e:  # noqa
                bad = (f'raises:{type(e).__name__}', f'{type(e).__name__}: {e} on {x!r}')
            if bad and bad[0] == 'hang':
                hangs += 1
            if bad:
                findings.append(Finding(f'C18:{bad[0]}', bad[1], dict(kind=kind, value=x, flavour=fl)))
        findings.sort(key=lambda f: len(repr(f.replay['value'])) + len(repr(f.replay.get('flavour') or '')))      # report the smallest input of each class
        return evals, findings

    def replay(self, data):
        """input-level replays carry {kind, value, flavour}; correspondence replays carry the sample of the
        disagreeing line (and the line itself with both answers); proof replays carry no input"""
        i = data.get('input')
        if not isinstance(i, dict):
            return dict(note='no input in this replay file (proof obligation): see "theorem" / "build_log" in it')
        helpers, Request = self._mods()
        if i.get('kind') == 'wsgi' and 'value' not in i and i.get('pairs') is not None:   # a correspondence sample
            i = dict(kind='wsgi', value=i['pairs'], flavour=(i['framing'], i['sched'], i['ops'], i['cuts']))
        if i.get('kind') == 'ctype' and 'value' in i:
            pairs = [tuple(p) for p in i['value']]
            flavour, ctype = i['flavour']
            body = urllib.parse.urlencode(pairs, **({'quote_via': urllib.parse.quote} if flavour == 'quote' else {})).encode('ascii')
            return dict(input=i, body=body.decode('ascii'), content_type=ctype, expected=expected_dict(pairs),
                        forms_now=guarded(lambda: dict(self._request(Request, '', body, ctype).forms), lambda d: d),
                        params_now=guarded(lambda: dict(self._request(Request, '', body, ctype).params), lambda d: d),
                        oracle=self._oracle_ctype(pairs, flavour, ctype))
        if i.get('kind') == 'rawct' and 'value' in i:
            qs, ctype = i['value'], i['flavour']
            body = qs.encode('latin1', 'replace')
            return dict(input=i, content_type=ctype,
                        forms_now=guarded(lambda: dict(self._request(Request, '', body, ctype).forms), lambda d: d),
                        oracle=self._oracle_total(qs, ctype))
        if i.get('kind') == 'wsgi' and 'value' in i:
            pairs = [tuple(p) for p in i['value']]
            framing, sched, ops, cuts = i['flavour']
            body = urllib.parse.urlencode(pairs).encode('ascii')
            status, outs = run_form_request(body, '', framing, list(sched), ops, cuts)
            return dict(input=i, body=body.decode('ascii'), framing=framing, accesses=ops, status_now=status,
                        outputs_now=[(o, v if isinstance(v, str) else v.decode('latin1')) for o, v in outs],
                        expected=show_dict(expected_dict(pairs)), oracle=self._oracle_wsgi(pairs, framing, sched, ops, cuts))
        if 'value' not in i:                       # a correspondence sample
            if i.get('kind') == 'pairs':
                i = dict(kind='pairs', value=i['pairs'], flavour='quote_plus', qs=i.get('qs'))
            else:
                i = dict(kind='raw', value=i.get('qs', i.get('body', i.get('text', ''))))
        out = dict(input=i)
        if data.get('line'):
            out.update(line=data['line'], recorded_impl=data.get('observed_impl'), recorded_model=data.get('observed_model'))
        if i['kind'] == 'pairs':
            pairs = [tuple(p) for p in i['value']]
            try:
                r = self._oracle_pairs(pairs, i.get('flavour') or 'quote_plus')
            except core.Hang:
                r = ('hang', 'does not terminate')
            fl = i.get('flavour')
            if isinstance(fl, (list, tuple)) and fl and fl[0] == 'mixed':
                qs = encode_mixed(pairs, fl[1], fl[2])
                out.update(query_string=qs, expected=expected_dict(pairs), oracle=r)
            else:
                out.update(query_string=urllib.parse.urlencode(pairs), oracle=r)
                qs = i.get('qs') or urllib.parse.urlencode(pairs)
        else:
            qs = i['value']
            out.update(oracle=self._oracle_total(qs))
        out['parse_qsl_now'] = guarded(lambda: helpers.parse_qsl(qs), lambda l: [list(p) for p in l])
        out['query_now'] = guarded(lambda: dict(self._request(Request, qs, b'').query), lambda d: d)
        return out


# the cache layer of the request object (cache_in / __setitem__ / __delitem__ / _on_env_changed / copy): an extra
# correspondence stream and oracle shared with the other two checks that serve `cache_unobservable`
from harness import envcachelib as _envcache  # noqa: E402
_envcache.install(C18)

# the accessors of FormsDict (item / get / attribute access, copy) on Request.query / .forms / .params: an extra
# correspondence stream and oracle
from harness import helperslib as _helpers  # noqa: E402
_helpers.install(C18)
