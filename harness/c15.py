"""C15 - Cookies round-trip; forged signed cookies are never deserialised."""
import base64
import binascii
import hashlib
import hmac
import io
import pickle
import types
from http.cookies import SimpleCookie, CookieError, _quote, _unquote

from harness import core
from harness.core import hs, hb, hbl, hsl, Check, Finding

KNOWN_KEY = 'C15:plain-cookie:char>=U+0100'

# ----------------------------------------------------------------------------------------
# pools

NAMES_OK = ['a', 'sid', 'Name', 'x-y', 'a.b', 'n1', '!#%&', 'ab|c~', "it's", 'A:b', 'session_id', 'Z']
NAMES_BAD = ['path', 'Expires', 'HttpOnly', 'max-age', 'a b', 'a=b', 'caf\xe9', '', 'a;b', 'a,b', 'a"b', 'n\n',
             'a/b', 'a(b)']
# a name starting with '$' is RFC 2109 attribute syntax: SimpleCookie lets it be set and ignores it when
# parsing; it is outside "cookie names" (hypothesis LegalName of the theorems)
NAMES_DOLLAR = ['$x', '$Version']

TEXTS = ['v', 'hello', 'a b', 'a;b', 'a,b', 'a=b', '"', 'a"b', '"q"', '\\', 'a\\b', '\\073', '\\"', 'a\\', '\\1', '\\101x',
         ' lead', 'trail ', 'caf\xe9', '\xff', '\x80\x81', '\xa0', 'a\nb', '\t', '\x00', '\x7f', '\r\n', '!sig?msg', '!?',
         '1', '0', 'x' * 300, 'a; path=/', 'k=v; k2=v2', '[1,2]', '{a}', '(a)<b>@c', '/', 'a\x0bb', '%41', '+', "'",
         '\xe9\xe8\xea', '\xc3\xa9', '\\351', '"\\']
TEXTS_WIDE = ['\u20ac', '\xe9\u20ac', '\u65e5\u672c', 'a\u0100', '\U0001d11e', 'x\U0001f600y', '\u0100', '\uffff', 'e\u0301']

OBJS = [1, 0, -5, 10 ** 30, 1.5, [None], True, (1, 2), [1, 'a', None], {'k': [1, 2, {'n': None}]}, b'bytes\x00\xff',
        ('t', ('u', ['v', {'w': (1,)}])), [], {}, (), 'ZZ-not-used', {1, 2}, frozenset([3]), [[[[['deep']]]]],
        {'user': 'bob', 'roles': ['a', 'b'], 'id': 7}, 2 ** 64, -1.25e-7, ['\u20ac', '\xe9', '\U0001d11e'], bytearray(b'ba')]
OBJS = [o for o in OBJS if not isinstance(o, str)]

SECRETS = ['s3cret', 'k', 'another secret', 'caf\xe9\u20ac', b'bytes\xff\x00key', 'K' * 100, ' ', '0']

SPECIALS = '";\\ =?!,\t$[]\x7f\xe9\xff'
B64 = 'ABCDEFGHIJKLMNOPQRSTUVWXYZabcdefghijklmnopqrstuvwxyz0123456789+/'


def tob(s):
    return s.encode('utf8') if isinstance(s, str) else bytes(s)


def enc_val(v):
    """protocol token of a cookie value (text or object of OBJS)"""
    if isinstance(v, str):
        return 't' + hs(v)
    return 'o' + hb(str(obj_index(v)).encode())


def obj_index(v):
    for i, o in enumerate(OBJS):
        if type(o) is type(v) and repr(o) == repr(v):
            return i
    raise KeyError(repr(v))


def gen_text(rng, wide_ok=True):
    k = rng.randrange(10)
    if k < 6:
        return rng.choice(TEXTS)
    if k < 7 and wide_ok:
        return rng.choice(TEXTS_WIDE)
    alphabet = ['a', 'B', '0', ' ', ';', ',', '=', '"', '\\', '0', '7', '3', '1', '\n', '\xe9', '\xff', '\x80', '?', '!',
                '/', '\x01']
    if wide_ok:
        alphabet += ['\u20ac', '\u0100']
    return ''.join(rng.choice(alphabet) for _ in range(rng.randint(1, 8)))


def gen_value(rng, secret):
    if secret and rng.random() < .6:
        return rng.choice(OBJS)
    return gen_text(rng)


# ----------------------------------------------------------------------------------------
# instrumented loader + the real application

class LoaderFailed(Exception):
    pass


class _SafeUnpickler(pickle.Unpickler):
    OK = {('builtins', n) for n in ('complex', 'set', 'frozenset', 'bytearray')}

    def find_class(self, module, name):
        if (module, name) in self.OK:
            return super().find_class(module, name)
        raise pickle.UnpicklingError(f'global {module}.{name} refused by the harness')


GENUINE = set()      # every byte string this harness itself pickled


def dumps(obj):
    b = pickle.dumps(obj, -1)
    GENUINE.add(b)
    return b


class Loader:
    """stands in for the `pickle` module inside ombott.common_helpers: records every byte string handed
    to `loads` (the observation the property is about).  Only payloads this harness produced itself are
    really unpickled (with a restricted Unpickler); anything else -- which only a faulty tree feeds to the
    loader -- is refused without being parsed, so attacker-shaped bytes can neither run anything nor make
    the unpickler allocate gigabytes (a tampered length field did: one call took minutes)."""

    def __init__(self):
        self.calls = []

    def dumps(self, *a, **kw):
        b = pickle.dumps(*a, **kw)
        GENUINE.add(b)
        return b

    def loads(self, data, *a, **kw):
        data = bytes(data)
        self.calls.append(data)
        if data not in GENUINE:
            raise LoaderFailed('not a payload pickled by the harness')
        try:
            return _SafeUnpickler(io.BytesIO(data)).load()
        except Exception as e:   # noqa
            raise LoaderFailed(type(e).__name__) from e


PATHS = ['direct', 'copy', 'copy2', 'redirect', 'raised', 'errpage']
COOKIE_KEY = 'HTTP_COOKIE'


class Real:
    """the real default application (the one `redirect()` works on) with a handler that sets cookies and
    lets the response reach the server along one of PATHS, one that reads a cookie, and one that reads and
    changes cookies on one request object"""

    def __init__(self):
        import importlib
        ombott_mod = importlib.import_module('ombott.ombott')
        rmod = importlib.import_module('ombott.response')
        self.ch = importlib.import_module('ombott.common_helpers')
        self.loader = Loader()
        self._orig_pickle = self.ch.pickle
        self.ch.pickle = self.loader
        self.app = app = ombott_mod.default_app()
        self.job = None
        self.res = None
        self.via = None
        HTTPResponse, HTTPError = rmod.HTTPResponse, rmod.HTTPError

        def set_all(resp, jobs, outs):
            for name, value, secret, opts in jobs:
                try:
                    resp.set_cookie(name, value, secret=secret, **opts)
                    outs.append('ok')
                except Exception as e:     # noqa
                    outs.append(type(e).__name__)

        def h_set():
            path, jobs, raised = self.job
            outs = []
            self.res, self.via = outs, 'ok'
            set_all(app.response, jobs, outs)
            try:
                if path == 'copy':
                    raise app.response.copy(cls=HTTPResponse)
                if path == 'copy2':
                    raise app.response.copy(cls=HTTPResponse).copy(cls=HTTPResponse)
                if path == 'redirect':
                    ombott_mod.redirect('/elsewhere')
                if path == 'raised':
                    r = HTTPResponse('moved on')
                    set_all(r, raised, outs)
                    raise r
                if path == 'errpage':
                    raise HTTPError(404, 'nothing here')
            except CookieError:
                self.via = 'CookieError'
            return b''

        def h_get():
            name, secret = self.job
            self.res = self._read(app.request, name, secret)
            return b''

        def h_req():
            reqs = {0: app.request}
            answers = []
            for op in self.job:
                t = op[0]
                if t == 'c':
                    reqs[1] = reqs[0].copy()
                elif t == 'g':
                    self.loader.calls = []
                    r = self._read(reqs[op[1]], op[2], op[3])
                    answers.append((r, list(self.loader.calls)))
                elif t == 's':
                    reqs[op[1]][op[2]] = op[3]
                elif t == 'd':
                    del reqs[op[1]][op[2]]
            self.res = answers
            return b''

        app.route('/c15/set', 'GET', h_set, overwrite=True)
        app.route('/c15/get', 'GET', h_get, overwrite=True)
        app.route('/c15/req', 'GET', h_req, overwrite=True)
        import inspect
        fn = inspect.unwrap(self.ch.cookie_decode)       # a decorated (memoised ...) decoder still has its source function
        code = [c for c in getattr(getattr(fn, '__code__', None), 'co_consts', ())
                if isinstance(c, types.CodeType) and c.co_name == '_lscmp']
        self.lscmp = types.FunctionType(code[0], {'__builtins__': __builtins__}) if code else None

    @staticmethod
    def _read(req, name, secret):
        try:
            return ('ok', req.get_cookie(name, secret=secret))
        except Exception as e:     # noqa
            return ('err', e)

    def close(self):
        self.ch.pickle = self._orig_pickle
        for p in ('/c15/set', '/c15/get', '/c15/req'):
            try:
                self.app.remove_route(p)
            except Exception:   # noqa
                pass

    def _call(self, path, cookie=None):
        seen = {}

        def sr(status, headers, exc=None):
            seen['status'], seen['headers'], seen['exc'] = status, headers, exc
        env = {'REQUEST_METHOD': 'GET', 'PATH_INFO': path, 'wsgi.input': io.BytesIO(b''),
               'wsgi.errors': io.StringIO(), 'SERVER_NAME': 'x', 'SERVER_PORT': '80', 'wsgi.url_scheme': 'http'}
        if cookie is not None:
            env[COOKIE_KEY] = cookie
        self.res = None
        out = core.with_timeout(lambda: self.app(env, sr), 20)
        close = getattr(out, 'close', None)
        if close:
            close()
        return seen

    def set_cookies(self, jobs, path='direct', raised=()):
        """jobs = [(name, value, secret, options)] set on the live response (`raised`: on the raised object);
        returns (outcomes, Set-Cookie values as the server got them); self.via tells whether copy() raised"""
        self.job = (path, list(jobs), list(raised))
        seen = self._call('/c15/set')
        return self.res, [v for n, v in seen['headers'] if n == 'Set-Cookie']

    def get_cookie(self, header, name, secret):
        """returns (('ok', value) | ('err', exc), loader calls)"""
        self.job = (name, secret)
        self.loader.calls = []
        self._call('/c15/get', header)
        return self.res, list(self.loader.calls)

    def req_ops(self, header, ops):
        """ops on ONE request object: ('g', i, name, secret) | ('s', i, key, value) | ('d', i, key) | ('c',);
        returns the answers of the reads [((kind, value), loader calls)]"""
        self.job = ops
        self._call('/c15/req', header)
        return self.res


def client_header(set_cookies):
    """what a browser sends back: the name=value part of every Set-Cookie line"""
    return '; '.join(h.split(';')[0] for h in set_cookies)


def canon_result(res):
    kind, v = res
    if kind == 'err':
        if isinstance(v, CookieError):
            return 'err CookieError'
        if isinstance(v, binascii.Error):
            return 'err B64Error'
        if isinstance(v, LoaderFailed):
            return 'err UnpickleError'
        return 'err ' + type(v).__name__
    if v is None:
        return 'ok none'
    try:
        return 'ok ' + enc_val(v)
    except KeyError:
        return 'ok unknown-object ' + repr(v)[:60]


def pk_table(pairs):
    """graph of pickle.dumps on the (name, value) pairs a line needs"""
    seen, out = set(), []
    for name, value in pairs:
        ent = f'{hs(name)}/{enc_val(value)}/{hb(dumps((name, value)))}'
        if ent not in seen:
            seen.add(ent)
            out.append(ent)
    return ','.join(out) if out else '~'


def sign(name, value, secret):
    """an independent re-implementation of the documented wire format, used to forge with the key"""
    msg = base64.b64encode(dumps((name, value)))
    sig = base64.b64encode(hmac.new(tob(secret), msg, hashlib.md5).digest())
    return (b'!' + sig + b'?' + msg).decode('ascii')


def sign_raw(msg, secret):
    sig = base64.b64encode(hmac.new(tob(secret), msg, hashlib.md5).digest())
    return (b'!' + sig + b'?' + msg).decode('latin1')


# ----------------------------------------------------------------------------------------
# tampering of one cookie inside a Cookie header

def locate(header, name):
    """(start, end) of the value of cookie `name` in a header built by client_header"""
    pos = 0
    for part in header.split('; '):
        k, _, v = part.partition('=')
        if k == name:
            s = pos + len(k) + 1
            return s, s + len(v)
        pos += len(part) + 2
    raise KeyError(name)


def tampers(rng, header, name, positions=None):
    """yield (kind, tampered header); every single-byte substitution (3 replacement bytes + the case flip), deletion and
    truncation at the chosen positions of the cookie's value, plus length changes"""
    s, e = locate(header, name)
    val = header[s:e]
    idx = list(range(len(val))) if positions is None else positions(val)
    for p in idx:
        c = val[p]
        reps = set()
        reps.add(rng.choice([x for x in B64 if x != c]))
        reps.add(rng.choice([x for x in SPECIALS if x != c]))
        r = chr(rng.choice([x for x in range(1, 256) if x not in (10, 13, ord(c))]))
        reps.add(r)
        if c.isalpha() and c.isascii():
            reps.add(c.swapcase())          # the nearest miss for a sloppy comparison
        for r in sorted(reps):
            yield 'subst', header[:s] + val[:p] + r + val[p + 1:] + header[e:]
        yield 'delete', header[:s] + val[:p] + val[p + 1:] + header[e:]
        yield 'truncate', header[:s] + val[:p]
        if p % 3 == 0 and not (p == 0 and c == '"'):
            # (an insertion before the opening quote is outside signature and payload: it changes the cookie-pair
            # syntax, e.g. `n=="..."` makes SimpleCookie see the illegal key `n=`)
            yield 'insert', header[:s] + val[:p] + rng.choice(B64 + '=\\" ') + val[p:] + header[e:]
    yield 'truncate', header[:s]
    q = val.find('?')
    if q > 4:
        # the end of the signature text: the last base64 character carries few significant bits and anything
        # after the padding is ignored by a lenient decoder -- the nearest misses for a decode-then-compare check
        i = B64.find(val[q - 3])
        if i >= 0:
            for d in (1, 2, 15):
                yield 'subst', header[:s] + val[:q - 3] + B64[(i & ~15) | ((i + d) & 15)] + val[q - 2:] + header[e:]
        for extra in ('A', '=', 'AAAA'):
            yield 'insert', header[:s] + val[:q] + extra + val[q:] + header[e:]
    yield 'append', header[:s] + val + 'A' + header[e:]
    if val.endswith('"'):
        yield 'append', header[:s] + val[:-1] + '="' + header[e:]
        yield 'append', header[:s] + val[:-1] + 'AAAA"' + header[e:]


def sample_positions(rng, k):
    def f(val):
        n = len(val)
        q = val.find('?')
        fixed = {0, 1, 2, n - 1, n - 2, n - 3, q - 4, q - 3, q - 2, q - 1, q, q + 1}
        fixed |= {rng.randrange(n) for _ in range(k)}
        return sorted(p for p in fixed if 0 <= p < n)
    return f


def swap_sig(h1, name1, h2, name2):
    """header 1 with the signature part of its cookie replaced by that of cookie 2"""
    s1, e1 = locate(h1, name1)
    s2, e2 = locate(h2, name2)
    v1, v2 = h1[s1:e1], h2[s2:e2]
    if '?' not in v1 or '?' not in v2:
        return None
    return h1[:s1] + v2[:v2.index('?')] + v1[v1.index('?'):] + h1[e1:]


# ----------------------------------------------------------------------------------------
# random Cookie headers for the parser line (structured + malformed)

def gen_header(rng):
    parts = []
    for _ in range(rng.randint(0, 4)):
        k = rng.randrange(12)
        key = rng.choice(NAMES_OK + ['path', 'Secure', '$Version', 'HttpOnly', 'expires', 'a,b', 'x=y', 'Domain', 'k'])
        if k < 5:
            v = _quote(gen_text(rng, wide_ok=False))
        elif k < 7:
            v = ''.join(rng.choice(B64 + '[]!?"\\ ;=,') for _ in range(rng.randint(0, 8)))
        elif k == 7:
            v = 'Wed, 01 Jan 2025 00:00:00 GMT'
        elif k == 8:
            parts.append(key)
            continue
        elif k == 9:
            v = '"' + ''.join(rng.choice('ab\\"; \n\xe9') for _ in range(rng.randint(0, 6))) + rng.choice(['"', ''])
        else:
            v = rng.choice(['', 'v', '1', '/'])
        parts.append(key + rng.choice(['=', '=', ' = ', '= ']) + v)
    h = rng.choice(['; ', ';', ' ', '; ', ', ']).join(parts)
    if rng.random() < .2 and h:
        p = rng.randrange(len(h))
        h = h[:p] + rng.choice(SPECIALS + '\n') + h[p + rng.randint(0, 1):]
    return h


def parse_real(h):
    try:
        return 'ok ' + (','.join(f'{hs(c.key)}={hs(c.value)}' for c in SimpleCookie(h).values()) or '~')
    except CookieError:
        return 'err CookieError'


def _lit(text):
    """inverse of repr for the values of the pools"""
    return eval(text, {'__builtins__': {}, 'frozenset': frozenset, 'bytearray': bytearray, 'set': set})


def enc_jobs(jobs):
    return ' '.join(f'{hs(nm)}:{enc_val(v)}:{hb(tob(s or ""))}' for nm, v, s, _ in jobs)


def enc_rop(op):
    t = op[0]
    if t == 'c':
        return 'c'
    if t == 'g':
        return f'g{op[1]}:{hs(op[2])}:{hb(tob(op[3] or ""))}'
    if t == 's':
        return f's{op[1]}:{hs(op[2])}:{hs(op[3])}'
    return f'd{op[1]}:{hs(op[2])}'


def gen_req_seqs(rng, header, nm, s, forged, other_header, other_cookie):
    """operation sequences on ONE request object: read, change the Cookie header through item assignment or
    deletion (also on a request.copy()), read again.  `forged` = altered versions of `header`;
    `other_cookie` = (name, secret) present in `other_header`"""
    K = COOKIE_KEY
    f1 = rng.choice(forged) if forged else header[:-2]
    on, os_ = other_cookie
    seqs = [
        [('g', 0, nm, s), ('s', 0, K, f1), ('g', 0, nm, s)],
        [('g', 0, nm, s), ('s', 0, K, other_header), ('g', 0, nm, s), ('g', 0, on, os_)],
        [('g', 0, nm, s), ('d', 0, K), ('g', 0, nm, s)],
        [('g', 0, nm, s), ('c',), ('s', 1, K, f1), ('g', 1, nm, s), ('g', 0, nm, s)],
        [('g', 0, nm, s), ('c',), ('d', 1, K), ('g', 1, nm, s), ('g', 0, nm, s), ('s', 0, K, other_header),
         ('g', 0, on, os_), ('g', 1, on, os_)],
        [('g', 0, nm, s), ('s', 0, rng.choice(['HTTP_X_Y', 'QUERY_STRING', 'HTTP_ACCEPT', 'wsgi.url_scheme']), 'v'),
         ('g', 0, nm, s)],
        [('s', 0, K, other_header), ('g', 0, on, os_), ('g', 0, nm, s)],
        [('g', 0, nm, s), ('s', 0, K, header), ('g', 0, nm, s), ('s', 0, K, ''), ('g', 0, nm, s),
         ('s', 0, K, header), ('g', 0, nm, s)],
        [('g', 0, on, os_), ('s', 0, K, other_header), ('g', 0, on, os_), ('s', 0, K, f1), ('g', 0, on, os_),
         ('g', 0, nm, s)],
    ]
    return seqs


class C15(Check):
    pid = 'C15'
    props_mod = 'OmbottModel.Props.C15'
    tables = []
    design_ref = '6/C15'
    level_category = 'proof'
    level_text = ('Lean theorems over the model of cookie_encode/cookie_decode/_lscmp, set_cookie, the Set-Cookie '
                  'emission and Request.cookies/get_cookie: the constant-time compare is equality for all byte lists; '
                  'the decoder hands bytes to the unpickler only when the MAC of the presented message verifies, so every '
                  'tampered or wrongly keyed cookie reads as absent with an empty loader-call list; signed and plain '
                  '(all characters < U+0100) cookies round-trip through quote/transcode/parse/unquote. Structural proof '
                  'under library contracts + differential correspondence (every single-byte substitution, deletion, '
                  'truncation, signature swap, length change) with an instrumented loader.')
    level_note_extra = ('unforgeability of HMAC-MD5 is a cryptographic assumption (the theorems speak of inputs whose '
                        'signature part is not the MAC of the message part they present); in the general theorems hmac/base64/'
                        'pickle and the SimpleCookie header reader are parameters with named contracts; for the library as the '
                        'driver instantiates it the base64 and tokeniser contracts are proved in Lean (Lemmas/B64.lean, '
                        'Lemmas/CookieTok.lean), leaving pickle.loads(pickle.dumps(x)) == x and agreement of the Lean '
                        'MD5/HMAC/base64/cookie-tokeniser with CPython (compared on every run); names starting with "$", '
                        'reserved attribute names and an empty plain value are outside the round-trip statement; plain text '
                        'with a character >= U+0100 is the recorded finding C15:plain-cookie:char>=U+0100')
    anchors = ['ombott/common_helpers.py', 'ombott/response.py', 'ombott/request_pkg/props_mixin.py',
               'ombott/request_pkg/helpers.py', 'ombott/request_pkg/request.py']
    rule = ('cookie names (legal, reserved, illegal) x values (separators, quotes, backslashes, octal look-alikes, '
            'Latin-1, control characters, BMP/astral text, nested picklable objects) x secrets (text, bytes, long), set '
            'through a real Ombott() WSGI call and read back through a second one; for each signed cookie every '
            'single-byte substitution (3 replacement bytes), deletion, truncation and insertion at sampled (quick) or all '
            '(thorough) positions, the end of the signature text (low-bit substitutes, bytes after the padding), signature '
            'swaps, length changes, replay under another name, forging with the key; the same cookies emitted through '
            'response.copy(), a copy of the copy, redirect(), a raised HTTPResponse carrying its own cookies and an error '
            'page after set_cookie; one request object read, its Cookie header changed or deleted through request[...] '
            '(also on request.copy()), read again; '
            'pickle.loads replaced by a recording loader; compared: outcome, returned value, loader-call list; plus the '
            'unit functions _lscmp, cookie_encode, cookie_decode and the http.cookies quoting/tokenising the model '
            're-implements; non-trivial = line reaches the MAC comparison or the quoting')
    assumptions = ['HMAC-MD5 unforgeability (the theorems speak of inputs whose signature part differs from the MAC of the '
                   'presented message)',
                   'pickle.dumps/loads, hmac, base64 and SimpleCookie behave as the contracts of Props/C15 state (exercised, '
                   'not proved)',
                   'the client returns the name=value part of each Set-Cookie line unchanged']

    def budget(self, tier, escalated):
        self._tier = tier
        n = 150 if tier == 'quick' else 1500
        # escalation stays modest: a run on a drifted/faulty tree must still finish in about two minutes on a
        # loaded machine (every scenario already contains the directed cases)
        return n * 3 // 2 if escalated and tier == 'quick' else n

    def nontrivial(self, sample):
        return sample.get('kind') in ('get', 'dec', 'set', 'quote', 'parse', 'lscmp')

    # ------------------------------------------------------------------
    def corr(self, rng, n):
        self.stats = st = {}

        def bump(k, d=1):
            st[k] = st.get(k, 0) + d

        real = Real()
        out = []
        try:
            # --- unit lines ------------------------------------------------------------
            for _ in range(n * 4):
                a = bytes(rng.choice(b'ab\x00\xff') for _ in range(rng.randint(0, 6)))
                k = rng.randrange(6)
                b = a if k == 0 else a[:-1] if k == 1 else a + b'a' if k == 2 else \
                    bytes(rng.choice(b'ab\x00\xff') for _ in range(rng.randint(0, 6))) if k == 3 else \
                    (a[:1] + bytes([a[0] ^ 1]) + a[2:] if len(a) > 1 else a + a) if k == 4 else a[::-1]
                if real.lscmp is not None:
                    out.append((f'cookie lscmp {hb(a)} {hb(b)}', '1' if real.lscmp(a, b) else '0',
                                dict(kind='lscmp', a=a.hex(), b=b.hex())))
            for _ in range(n // 2 + 5):
                m = bytes(rng.randrange(256) for _ in range(rng.choice([0, 1, 3, 55, 56, 57, 63, 64, 65, 119, 120, 130])))
                key = bytes(rng.randrange(256) for _ in range(rng.choice([0, 1, 16, 63, 64, 65, 100])))
                out.append((f'cookie md5 {hb(m)}', hb(hashlib.md5(m).digest()), dict(kind='md5')))
                out.append((f'cookie hmac {hb(key)} {hb(m)}', hb(hmac.new(key, m, hashlib.md5).digest()), dict(kind='hmac')))
                out.append((f'cookie b64 {hb(m[:20])}', hb(base64.b64encode(m[:20])), dict(kind='b64')))
                e = base64.b64encode(m[:20])
                out.append((f'cookie unb64 {hb(e)}', 'ok ' + hb(m[:20]), dict(kind='unb64')))
            for _ in range(n * 6):
                t = gen_text(rng)
                out.append((f'cookie quote {hs(t)}', hs(_quote(t)), dict(kind='quote', text=t)))
                q = rng.choice([_quote(t), '"' + t + '"', t, '"' + t])
                out.append((f'cookie unquote {hs(q)}', hs(_unquote(q)), dict(kind='unquote', text=q)))
            for _ in range(n * 12):
                h = gen_header(rng)
                out.append((f'cookie parse {hs(h)}', parse_real(h), dict(kind='parse', header=h)))
                bump('parse:' + parse_real(h)[:3])

            # --- scenarios through the real application ------------------------------
            prev = None
            for rnd in range(n):
                jobs = []
                for _ in range(rng.choice([1, 1, 1, 2, 3])):
                    name = rng.choice(NAMES_OK * 6 + NAMES_BAD + NAMES_DOLLAR)
                    secret = rng.choice([None, None, ''] + SECRETS * 2)
                    value = gen_value(rng, secret)
                    if rng.random() < .03:
                        value = 'y' * rng.choice([4096, 4097])
                    jobs.append((name, value, secret, {}))
                outs, setc = real.set_cookies(jobs)
                pairs = [(nm, v) for nm, v, s, _ in jobs if s]
                ops = enc_jobs(jobs)
                header = client_header(setc)
                out.append((f'cookie set {pk_table(pairs)} {ops}',
                            f'out={",".join(outs)} hdrs={hsl(setc)} cookie={hs(header)}',
                            dict(kind='set', jobs=[(nm, repr(v)[:40], repr(s)) for nm, v, s, _ in jobs])))
                for o in outs:
                    bump('set:' + o)
                alive = [(nm, v, s) for (nm, v, s, _), o in zip(jobs, outs) if o == 'ok']
                # the same cookies reaching the server through copy() / redirect() / a raised response / an error page
                # (a '$name' cookie turns into an attribute of its neighbour when the jar is re-parsed by copy(): the
                # model's jar has no attributes, and such names are outside the property's cookie names)
                for path in (rng.sample(PATHS[1:], 3) if not any(j[0].startswith('$') for j in jobs) else []):
                    raised = []
                    if path == 'raised':
                        for _ in range(rng.choice([0, 1, 2])):
                            rs = rng.choice([None] + SECRETS)
                            raised.append((rng.choice(NAMES_OK + [jobs[0][0]]), gen_value(rng, rs), rs, {}))
                    vouts, vsetc = real.set_cookies(jobs, path, raised)
                    vpairs = pairs + [(nm, v) for nm, v, s, _ in raised if s]
                    if real.via == 'ok':
                        ans = f'out={",".join(vouts)} via=ok hdrs={hsl(vsetc)} cookie={hs(client_header(vsetc))}'
                    else:
                        ans = f'out={",".join(vouts)} via={real.via}'
                    bump(f'via:{path}:{real.via}')
                    out.append((f'cookie setvia {pk_table(vpairs)} {path} {enc_jobs(jobs)} -- {enc_jobs(raised)}'.rstrip(),
                                ans, dict(kind='set', path=path, jobs=[(nm, repr(v)[:40], repr(s)) for nm, v, s, _ in jobs])))

                def get_line(hdr, name, secret, pairs_, tag):
                    res, calls = real.get_cookie(hdr, name, secret)
                    ans = f'{canon_result(res)} calls={hbl(calls)}'
                    bump(f'get:{tag}:{ans.split(" ")[0]}-{ans.split(" ")[1][:1]}')
                    if calls:
                        bump('loader-called:' + tag)
                    out.append((f'cookie get {pk_table(pairs_)} {hs(hdr)} {hs(name)} {hb(tob(secret or ""))}', ans,
                                dict(kind='get', tag=tag, header=hdr, name=name, secret=repr(secret))))

                # honest read-back, with the right / no / another secret, and of an absent name
                for nm, v, s in alive:
                    get_line(header, nm, s, pairs, 'honest')
                    get_line(header, nm, None, pairs, 'nosecret')
                    other = rng.choice([x for x in SECRETS if tob(x) != tob(s or '')])
                    get_line(header, nm, other, pairs, 'wrongsecret')
                get_line(header, 'absent', rng.choice(SECRETS), pairs, 'absent')
                # tampering of every signed cookie
                signed = [(nm, v, s) for nm, v, s in alive if s and nm not in NAMES_DOLLAR]
                for nm, v, s in signed[:2]:
                    pos = None if (self._tier == 'thorough' and rnd % 10 == 0) or rnd == 0 else sample_positions(rng, 4)
                    for kind, th in tampers(rng, header, nm, pos):
                        get_line(th, nm, s, pairs, kind)
                    # signature swaps: same secret other value, same value other secret
                    v2 = rng.choice([o for o in OBJS if repr(o) != repr(v)])
                    s2 = rng.choice([x for x in SECRETS if tob(x) != tob(s)])
                    for (vv, ss) in ((v2, s), (v, s2)):
                        h2 = f'{nm}={_quote(sign(nm, vv, ss))}'
                        sw = swap_sig(header, nm, h2, nm)
                        if sw:
                            get_line(sw, nm, s, pairs, 'sigswap')
                    # a validly signed cookie replayed under another name: MAC verifies, name differs
                    other_name = rng.choice([x for x in NAMES_OK if x != nm])
                    rp = f'{other_name}={_quote(sign(nm, v, s))}'
                    get_line(rp, other_name, s, pairs, 'replay')
                    # forged with the key: junk payloads, payload for another name
                    for junk in (b'\x00junk', b'', b'garbage!'):
                        msg = base64.b64encode(junk)
                        get_line(f'{nm}={_quote(sign_raw(msg, s))}', nm, s, pairs, 'keyed-junk')
                    get_line(f'{nm}={_quote(sign_raw(b"abcde", s))}', nm, s, pairs, 'keyed-badb64')
                    pr = pairs + [(other_name, v)]
                    get_line(f'{nm}={_quote(sign(other_name, v, s))}', nm, s, pr, 'keyed-othername')
                # one request object read, changed through item assignment, read again
                if prev is not None:
                    p_header, p_pairs, p_alive = prev
                    for nm, v, s in (signed[:1] or alive[:1]):
                        forged = [th for _, th in tampers(rng, header, nm, sample_positions(rng, 2))] if s else []
                        oc = (p_alive[0][0], p_alive[0][2]) if p_alive else ('absent', 'k')
                        for seq in rng.sample(gen_req_seqs(rng, header, nm, s, forged, p_header, oc), 4):
                            answers = real.req_ops(header, seq)
                            if answers is None:     # a faulty tree made an operation of the sequence raise
                                ans = 'raised'
                            else:
                                ans = ' | '.join(f'{canon_result(r)} calls={hbl(c)}' for r, c in answers) or '~'
                            bump('req-seq')
                            out.append((f'cookie req {pk_table(pairs + p_pairs)} {hs(header)} '
                                        + ' '.join(enc_rop(o) for o in seq), ans,
                                        dict(kind='get', tag='req', header=header, seq=[list(map(str, o)) for o in seq])))
                prev = (header, pairs, alive)
                # unit level: cookie_encode / cookie_decode
                for nm, v, s in signed[:1]:
                    data = real.ch.cookie_encode((nm, v), s)
                    out.append((f'cookie enc {pk_table(pairs)} {hs(nm)} {enc_val(v)} {hb(tob(s))}', hb(data),
                                dict(kind='enc', name=nm)))
                    for d in (data, data[:-1], data[1:], data.replace(b'?', b'', 1), b'!' + data, data + b'=',
                              data[:5] + bytes([data[5] ^ 1]) + data[6:]):
                        real.loader.calls = []
                        try:
                            r = real.ch.cookie_decode(d, s)
                            ans = 'ok none' if r is None else f'ok {hs(r[0])}/{enc_val(r[1])}'
                        except Exception as e:   # noqa
                            ans = canon_result(('err', e))
                        out.append((f'cookie dec {pk_table(pairs)} {hb(d)} {hb(tob(s))}',
                                    f'{ans} calls={hbl(real.loader.calls)}', dict(kind='dec', data=d.hex())))
        finally:
            real.close()
        return out

    _tier = 'quick'

    # ------------------------------------------------------------------
    # independent oracle from the property text; real code only
    def _oracle_roundtrip(self, real, name, value, secret, opts=None, path='direct'):
        """set on a response, let that response reach the server along `path` (returned directly, copied,
        redirected, raised, error page), return the cookie in a new request, read it back"""
        job = [(name, value, secret, opts or {})]
        if path == 'raised-own':           # the cookie lives on the raised HTTPResponse itself
            outs, setc = real.set_cookies([], 'raised', job)
        else:
            outs, setc = real.set_cookies(job, path)
        if real.via != 'ok':
            return [(f'C15:emission:{path}:{real.via}', f'cookie {name!r}={value!r:.40}: {path} raised {real.via}')]
        if outs != ['ok']:
            return [('C15:set-refused', f'set_cookie({name!r}, {value!r:.40}, secret={secret!r}) raised {outs[0]}')]
        for h in setc:
            if any(c in h for c in '\r\n\0'):
                return [('C15:set-cookie-ctl', f'Set-Cookie line {h!r} contains CR/LF/NUL')]
        header = client_header(setc)
        res, calls = real.get_cookie(header, name, secret)
        if res == ('ok', value) and type(res[1]) is type(value):
            return []
        via = '' if path == 'direct' else ':via-' + path
        if isinstance(value, str) and not secret:
            key = KNOWN_KEY if any(ord(c) >= 0x100 for c in value) else 'C15:plain-cookie:roundtrip' + via
        else:
            key = 'C15:signed-cookie:roundtrip' + via
        return [(key, f'cookie {name!r} set to {value!r:.60} (secret={secret!r}, response path {path}) '
                      f'read back as {res!r:.80}')]

    def _oracle_reread(self, real, rng, a, b):
        """ONE request object: read, change the Cookie header through request[...] (or on a request.copy()),
        read again.  a, b = (name, value, secret) of two different cookies.  What a read must give is decided
        here by plain bookkeeping of which header the request object currently carries."""
        (na, va, sa), (nb, vb, sb) = a, b
        _, ca = real.set_cookies([(na, va, sa, {})])
        _, cb = real.set_cookies([(nb, vb, sb, {})])
        ha, hb_ = client_header(ca), client_header(cb)
        forged = [th for _, th in tampers(rng, ha, na, sample_positions(rng, 3))] if sa else []
        orig = SimpleCookie(ha)[na].value
        good_forged = []
        for th in forged:
            try:
                sc = SimpleCookie(th)
                now = sc[na].value if na in sc else None
            except CookieError:
                now = None
            if now != orig:
                good_forged.append(th)
        if sa:     # re-signed with another secret, and the payload of b under a's name
            good_forged.append(f'{na}={_quote(sign(na, va, sa + "x" if isinstance(sa, str) else sa + b"x"))}')
        known = {ha: {(na, tob(sa or '')): va}, hb_: {(nb, tob(sb or '')): vb}}
        bad, n = [], 0
        for seq in gen_req_seqs(rng, ha, na, sa, good_forged, hb_, (nb, sb)):
            cur = {0: ha}
            how = {0: 'initial'}
            answers = real.req_ops(ha, seq)
            k = 0
            for op in seq:
                t = op[0]
                if t == 'c':
                    cur[1], how[1] = cur[0], 'copy'
                elif t == 's':
                    if op[2] == COOKIE_KEY:
                        cur[op[1]] = op[3]
                        how[op[1]] = ('copy+' if op[1] == 1 else '') + 'setitem'
                elif t == 'd':
                    if op[2] == COOKIE_KEY:
                        cur[op[1]] = None
                        how[op[1]] = ('copy+' if op[1] == 1 else '') + 'delitem'
                elif t == 'g':
                    n += 1
                    (kind, val), calls = answers[k]
                    k += 1
                    h = cur[op[1]]
                    exp = known.get(h, {}).get((op[2], tob(op[3] or '')))
                    if not op[3] and h in known:      # read without a secret: plain text only
                        exp = known[h].get((op[2], b''))
                    inp = dict(kind='reread', a=[na, repr(va), repr(sa)], b=[nb, repr(vb), repr(sb)],
                               seq=[list(o) for o in seq], header=ha)
                    tag = how[op[1]]
                    if kind == 'err':
                        bad.append((f'C15:reread:exception:{tag}', f'after {tag}: get_cookie raised {type(val).__name__}', inp))
                    elif h not in known:
                        if val is not None:
                            bad.append((f'C15:reread:stale-or-forged-accepted:{tag}',
                                        f'after {tag} the request carries {str(h)[:60]!r} but {op[2]!r} read as {val!r:.60}', inp))
                        if calls:
                            bad.append((f'C15:reread:loader-called:{tag}',
                                        f'after {tag} the request carries a forged/empty header but the unpickler was called', inp))
                    elif val != exp or (exp is not None and type(val) is not type(exp)):
                        bad.append((f'C15:reread:stale:{tag}',
                                    f'after {tag} the request carries {h[:60]!r}: {op[2]!r} read as {val!r:.60}, expected {exp!r:.60}',
                                    inp))
        return bad, n

    @staticmethod
    def _mutate(v):
        """changes a mutable container in place the way a handler would; returns False when v is immutable"""
        if isinstance(v, list):
            v.append('added-by-handler')
        elif isinstance(v, dict):
            v['added-by-handler'] = 1
            for x in v.values():
                if isinstance(x, list):
                    x.clear()
        elif isinstance(v, set):
            v.add('added-by-handler')
        elif isinstance(v, bytearray):
            v.extend(b'!')
        else:
            return False
        return True

    def _oracle_mutated_value(self, real, name, value, secret):
        """the value one request reads belongs to that request: a handler that edits the object it got from
        get_cookie must not change what a LATER request carrying the same cookie bytes reads (round trip: the value
        read back is the value that was set, every time)"""
        import copy as _copy
        outs, setc = real.set_cookies([(name, _copy.deepcopy(value), secret, {})])
        if outs != ['ok']:
            return [], 0
        header = client_header(setc)
        bad = []
        reads = 0
        for round_ in range(3):
            res, _calls = real.get_cookie(header, name, secret)
            reads += 1
            if res[0] != 'ok' or res[1] != value or type(res[1]) is not type(value):
                bad.append(('C15:signed-cookie:value-shared-across-requests',
                            f'cookie {name!r} set to {value!r:.60}; read number {round_ + 1} of the same cookie bytes (after an earlier '
                            f'handler edited the object it had been given) gave {res!r:.80}',
                            dict(kind='mutated', name=name, value=repr(value), secret=repr(secret))))
                break
            if not self._mutate(res[1]):
                break
        return bad, reads

    def _oracle_tamper(self, real, name, value, secret, all_positions, rng):
        bad = []
        outs, setc = real.set_cookies([(name, value, secret, {})])
        if outs != ['ok']:
            return [('C15:set-refused', f'set_cookie({name!r}, ..., secret) raised {outs[0]}')], 1
        header = client_header(setc)
        orig = SimpleCookie(header)[name].value
        n = 0
        cases = list(tampers(rng, header, name, None if all_positions else sample_positions(rng, 6)))
        v2 = 'other value' if value != 'other value' else 'yet another'
        for vv, ss in ((v2, secret), (value, secret + 'x' if isinstance(secret, str) else secret + b'x')):
            sw = swap_sig(header, name, f'{name}={_quote(sign(name, vv, ss))}', name)
            if sw:
                cases.append(('sigswap', sw))
        for kind, th in cases:
            try:
                seen = SimpleCookie(th)
                now = seen[name].value if name in seen else None
            except CookieError:
                now = None
            if now == orig:
                continue        # the cookie the server sees is unchanged (e.g. a harmless backslash): not tampered
            n += 1
            res, calls = real.get_cookie(th, name, secret)
            if calls:
                bad.append((f'C15:tamper:loader-called:{kind}', f'{kind}: tampered header {th!r:.120} reached the unpickler',
                            dict(kind='tamper', name=name, value=repr(value), secret=repr(secret), header=th)))
            if res[0] == 'err':
                bad.append((f'C15:tamper:exception:{kind}', f'{kind}: tampered header {th!r:.120} raised {type(res[1]).__name__}',
                            dict(kind='tamper', name=name, value=repr(value), secret=repr(secret), header=th)))
            elif res[1] is not None:
                bad.append((f'C15:tamper:accepted:{kind}', f'{kind}: tampered header {th!r:.120} read as {res[1]!r:.60}',
                            dict(kind='tamper', name=name, value=repr(value), secret=repr(secret), header=th)))
        # another secret
        for other in ('not the secret', b'\x01\x02'):
            if tob(other) == tob(secret):
                continue
            n += 1
            res, calls = real.get_cookie(header, name, other)
            if calls or res != ('ok', None):
                bad.append(('C15:wrong-secret:' + ('loader-called' if calls else 'accepted'),
                            f'cookie signed with {secret!r} read with {other!r}: {res!r:.60}, loader calls {len(calls)}',
                            dict(kind='wrongsecret', name=name, value=repr(value), secret=repr(secret), other=repr(other))))
        # a validly signed cookie presented under another name reads as absent
        other_name = 'othername' if name != 'othername' else 'othername2'
        n += 1
        res, calls = real.get_cookie(f'{other_name}={_quote(sign(name, value, secret))}', other_name, secret)
        if res != ('ok', None):
            bad.append(('C15:replay-under-other-name:accepted',
                        f'cookie signed for {name!r} presented as {other_name!r} read as {res!r:.60}',
                        dict(kind='replay', name=name, value=repr(value), secret=repr(secret), other_name=other_name)))
        return bad, n

    def search(self, rng, n, seeds):
        real = Real()
        findings, evals = [], 0
        try:
            # round trips: every text of the pools (plain and signed), every object (signed)
            rt = []
            for t in TEXTS + TEXTS_WIDE:
                if t:
                    rt.append((rng.choice(NAMES_OK), t, None, None))
                    rt.append((rng.choice(NAMES_OK), t, rng.choice(SECRETS), None))
            for o in OBJS:
                rt.append((rng.choice(NAMES_OK), o, rng.choice(SECRETS), None))
            for nm in NAMES_OK:
                rt.append((nm, 'v', None, None))
                rt.append((nm, 'v', 'k', dict(path='/', httponly=True, max_age=3600)))
            for _ in range(n * 3):
                s = rng.choice([None] + SECRETS)
                v = gen_value(rng, s)
                if v == '':
                    continue
                rt.append((rng.choice(NAMES_OK), v, s, rng.choice([None, None, dict(path='/x'), dict(secure=True)])))
            rt = [x + ('direct',) for x in rt]
            # the other ways a response with cookies reaches the server: values that need quoting, every path
            via_paths = ['copy', 'copy2', 'redirect', 'raised', 'raised-own', 'errpage']
            quoting = ['a b', 'a;b, c=d', '"q"', 'a\\b', 'caf\xe9', '!sig?msg', 'v', 'x/y']
            for path in via_paths:
                for t in quoting:
                    rt.append((rng.choice(NAMES_OK), t, None, None, path))
                for o in rng.sample(OBJS, 4) + ['text under a secret']:
                    rt.append((rng.choice(NAMES_OK), o, rng.choice(SECRETS), None, path))
                rt.append((rng.choice(NAMES_OK), 'a b', 'k', dict(path='/', httponly=True), path))
            for _ in range(n):
                s = rng.choice([None] + SECRETS)
                v = gen_value(rng, s)
                if v == '':
                    continue
                rt.append((rng.choice(NAMES_OK), v, s, None, rng.choice(via_paths)))
            for name, value, secret, opts, path in rt:
                evals += 1
                try:
                    bad = self._oracle_roundtrip(real, name, value, secret, opts, path)
                except Exception as e:    # noqa
                    bad = [('C15:oracle-exception', f'{type(e).__name__}: {e}')]
                for key, what in bad:
                    findings.append(Finding(key, what, dict(kind='roundtrip', name=name, value=repr(value),
                                                            secret=repr(secret), opts=opts, path=path)))
            # one request object re-read after its Cookie header changed
            for i in range(max(4, n // 10)):
                na, nb = rng.sample(NAMES_OK, 2)
                sa = rng.choice(SECRETS) if i % 4 else None
                a = (na, rng.choice(OBJS) if sa else rng.choice(['plain text', 'a b;c', 'v']), sa)
                sb = rng.choice(SECRETS + [None])
                b = (nb, rng.choice(OBJS) if sb else rng.choice(['other', 'x y']), sb)
                try:
                    bad, k = self._oracle_reread(real, rng, a, b)
                except Exception as e:    # noqa
                    bad, k = [('C15:oracle-exception', f'{type(e).__name__}: {e}', {})], 1
                evals += k
                for key, what, inp in bad:
                    findings.append(Finding(key, what, inp))
            # a handler edits the object it was given: later requests with the same cookie still read what was set
            for o in OBJS:
                if isinstance(o, (list, dict, set, bytearray)):
                    for secret in rng.sample(SECRETS, 2):
                        try:
                            bad, k = self._oracle_mutated_value(real, rng.choice(NAMES_OK), o, secret)
                        except Exception as e:    # noqa
                            bad, k = [('C15:oracle-exception', f'{type(e).__name__}: {e}', {})], 1
                        evals += k
                        for key, what, inp in bad:
                            findings.append(Finding(key, what, inp))
            # tampering
            for i in range(max(3, n // 6)):
                name = rng.choice(NAMES_OK)
                secret = rng.choice(SECRETS)
                value = rng.choice(OBJS + TEXTS[:8])
                try:
                    bad, k = self._oracle_tamper(real, name, value, secret, all_positions=(i < 2), rng=rng)
                except Exception as e:    # noqa
                    bad, k = [('C15:oracle-exception', f'{type(e).__name__}: {e}', {})], 1
                evals += k
                for key, what, inp in bad:
                    findings.append(Finding(key, what, inp))
        finally:
            real.close()
        return evals, findings

    def replay(self, data):
        i = data['input']
        real = Real()
        try:
            if i['kind'] == 'reread':
                import random
                a = (i['a'][0], _lit(i['a'][1]), _lit(i['a'][2]))
                seq = [tuple(o) for o in i['seq']]
                answers = real.req_ops(i['header'], seq)
                return dict(input=i, reads=[(repr(r), len(c)) for r, c in answers],
                            note='each read must reflect the Cookie header the request object carries at that moment',
                            oracle=[(k, w) for k, w, _ in self._oracle_reread(
                                real, random.Random(0), a, (i['b'][0], _lit(i['b'][1]), _lit(i['b'][2])))[0]][:5])
            name, value, secret = i['name'], _lit(i['value']), _lit(i['secret'])
            if i['kind'] == 'mutated':
                bad, k = self._oracle_mutated_value(real, name, value, secret)
                return dict(input=i, reads=k, oracle=[(a, b) for a, b, _ in bad],
                            expected='every read of the same signed cookie bytes gives the value that was set, whatever earlier '
                                     'handlers did to the objects they had been given')
            if i['kind'] == 'roundtrip':
                path = i.get('path', 'direct')
                job = [(name, value, secret, i.get('opts') or {})]
                outs, setc = real.set_cookies([], 'raised', job) if path == 'raised-own' else real.set_cookies(job, path)
                header = client_header(setc)
                res, calls = real.get_cookie(header, name, secret)
                return dict(input=i, set_cookie=setc, cookie_header=header, read_back=repr(res), loader_calls=len(calls),
                            oracle=self._oracle_roundtrip(real, name, value, secret, i.get('opts'), path))
            if i['kind'] == 'tamper':
                res, calls = real.get_cookie(i['header'], name, secret)
                return dict(input=i, read_back=repr(res), loader_calls=[c.hex() for c in calls],
                            expected='absent (None) with zero loader calls')
            if i['kind'] == 'wrongsecret':
                outs, setc = real.set_cookies([(name, value, secret, {})])
                res, calls = real.get_cookie(client_header(setc), name, _lit(i['other']))
                return dict(input=i, read_back=repr(res), loader_calls=len(calls), expected='absent, zero loader calls')
            if i['kind'] == 'replay':
                h = f'{i["other_name"]}={_quote(sign(name, value, secret))}'
                res, calls = real.get_cookie(h, i['other_name'], secret)
                return dict(input=i, header=h, read_back=repr(res), expected='absent')
            return dict(input=i, note='unknown replay kind')
        finally:
            real.close()


# the cache layer of the request object (cache_in / __setitem__ / __delitem__ / _on_env_changed / copy): an extra
# correspondence stream and oracle shared with the other two checks that serve `cache_unobservable`
from harness import envcachelib as _envcache  # noqa: E402
_envcache.install(C15)

# the request helper classes (WSGIHeaderDict, CookieDict) and the small accessors of props_mixin (auth, remote_route,
# is_xhr): an extra correspondence stream and oracle
from harness import helperslib as _helpers  # noqa: E402
_helpers.install(C15)
