"""C15 - Cookies round-trip; forged signed cookies are never deserialised."""
import base64
import binascii
import hashlib
import hmac
import io
import pickle
import types
from http.cookies import SimpleCookie, CookieError, _quote, _unquote

from harness import core
from harness.core import hs, hb, hbl, hsl, Check, Finding

KNOWN_KEY = 'C15:plain-cookie:char>=U+0100'

# ----------------------------------------------------------------------------------------
# pools

NAMES_OK = ['a', 'sid', 'Name', 'x-y', 'a.b', 'n1', '!#%&', 'ab|c~', "it's", 'A:b', 'session_id', 'Z']
NAMES_BAD = ['path', 'Expires', 'HttpOnly', 'max-age', 'a b', 'a=b', 'caf\xe9', '', 'a;b', 'a,b', 'a"b', 'n\n',
             'a/b', 'a(b)']
# a name starting with '$' is RFC 2109 attribute syntax: SimpleCookie lets it be set and ignores it when
# parsing; it is outside "cookie names" (hypothesis LegalName of the theorems)
NAMES_DOLLAR = ['$x', '$Version']

TEXTS = ['v', 'hello', 'a b', 'a;b', 'a,b', 'a=b', '"', 'a"b', '"q"', '\\', 'a\\b', '\\073', '\\"', 'a\\', '\\1', '\\101x',
         ' lead', 'trail ', 'caf\xe9', '\xff', '\x80\x81', '\xa0', 'a\nb', '\t', '\x00', '\x7f', '\r\n', '!sig?msg', '!?',
         '1', '0', 'x' * 300, 'a; path=/', 'k=v; k2=v2', '[1,2]', '{a}', '(a)<b>@c', '/', 'a\x0bb', '%41', '+', "'",
         '\xe9\xe8\xea', '\xc3\xa9', '\\351', '"\\']
TEXTS_WIDE = ['\u20ac', '\xe9\u20ac', '\u65e5\u672c', 'a\u0100', '\U0001d11e', 'x\U0001f600y', '\u0100', '\uffff', 'e\u0301']

OBJS = [1, 0, -5, 10 ** 30, 1.5, [None], True, (1, 2), [1, 'a', None], {'k': [1, 2, {'n': None}]}, b'bytes\x00\xff',
        ('t', ('u', ['v', {'w': (1,)}])), [], {}, (), 'ZZ-not-used', {1, 2}, frozenset([3]), [[[[['deep']]]]],
        {'user': 'bob', 'roles': ['a', 'b'], 'id': 7}, 2 ** 64, -1.25e-7, ['\u20ac', '\xe9', '\U0001d11e'], bytearray(b'ba')]
OBJS = [o for o in OBJS if not isinstance(o, str)]

SECRETS = ['s3cret', 'k', 'another secret', 'caf\xe9\u20ac', b'bytes\xff\x00key', 'K' * 100, ' ', '0']

SPECIALS = '";\\ =?!,\t$[]\x7f\xe9\xff'
B64 = 'ABCDEFGHIJKLMNOPQRSTUVWXYZabcdefghijklmnopqrstuvwxyz0123456789+/'


def tob(s):
    return s.encode('utf8') if isinstance(s, str) else bytes(s)


def enc_val(v):
    """protocol token of a cookie value (text or object of OBJS)"""
    if isinstance(v, str):
        return 't' + hs(v)
    return 'o' + hb(str(obj_index(v)).encode())


def obj_index(v):
    for i, o in enumerate(OBJS):
        if type(o) is type(v) and repr(o) == repr(v):
            return i
    raise KeyError(repr(v))


def gen_text(rng, wide_ok=True):
    k = rng.randrange(10)
    if k < 6:
        return rng.choice(TEXTS)
    if k < 7 and wide_ok:
        return rng.choice(TEXTS_WIDE)
    alphabet = ['a', 'B', '0', ' ', ';', ',', '=', '"', '\\', '0', '7', '3', '1', '\n', '\xe9', '\xff', '\x80', '?', '!',
                '/', '\x01']
    if wide_ok:
        alphabet += ['\u20ac', '\u0100']
    return ''.join(rng.choice(alphabet) for _ in range(rng.randint(1, 8)))


def gen_value(rng, secret):
    if secret and rng.random() < .6:
        return rng.choice(OBJS)
    return gen_text(rng)


# ----------------------------------------------------------------------------------------
# instrumented loader + the real application

class LoaderFailed(Exception):
    pass


class _SafeUnpickler(pickle.Unpickler):
    OK = {('builtins', n) for n in ('complex', 'set', 'frozenset', 'bytearray')}

    def find_class(self, module, name):
        if (module, name) in self.OK:
            return super().find_class(module, name)
        raise pickle.UnpicklingError(f'global {module}.{name} refused by the harness')


class Loader:
    """stands in for the `pickle` module inside ombott.common_helpers: records every byte string handed
    to `loads` (the observation the property is about) and unpickles with a restricted Unpickler so that
    a faulty tree feeding attacker bytes to the loader cannot run anything"""

    def __init__(self):
        self.calls = []

    def dumps(self, *a, **kw):
        return pickle.dumps(*a, **kw)

    def loads(self, data, *a, **kw):
        self.calls.append(bytes(data))
        try:
            return _SafeUnpickler(io.BytesIO(bytes(data))).load()
        except Exception as e:   # noqa
            raise LoaderFailed(type(e).__name__) from e


class Real:
    """one real Ombott() application with a handler that sets cookies and one that reads one"""

    def __init__(self):
        import importlib
        from ombott import Ombott
        self.ch = importlib.import_module('ombott.common_helpers')
        self.loader = Loader()
        self._orig_pickle = self.ch.pickle
        self.ch.pickle = self.loader
        self.app = app = Ombott()
        self.job = None
        self.res = None

        def h_set():
            outs = []
            for name, value, secret, opts in self.job:
                try:
                    app.response.set_cookie(name, value, secret=secret, **opts)
                    outs.append('ok')
                except Exception as e:     # noqa
                    outs.append(type(e).__name__)
            self.res = outs
            return b''

        def h_get():
            name, secret = self.job
            try:
                self.res = ('ok', app.request.get_cookie(name, secret=secret))
            except Exception as e:     # noqa
                self.res = ('err', e)
            return b''

        app.route('/set', 'GET', h_set)
        app.route('/get', 'GET', h_get)
        code = [c for c in self.ch.cookie_decode.__code__.co_consts
                if isinstance(c, types.CodeType) and c.co_name == '_lscmp']
        self.lscmp = types.FunctionType(code[0], {'__builtins__': __builtins__}) if code else None

    def close(self):
        self.ch.pickle = self._orig_pickle

    def _call(self, path, cookie=None):
        seen = {}

        def sr(status, headers, exc=None):
            seen['status'], seen['headers'], seen['exc'] = status, headers, exc
        env = {'REQUEST_METHOD': 'GET', 'PATH_INFO': path, 'wsgi.input': io.BytesIO(b''),
               'wsgi.errors': io.StringIO(), 'SERVER_NAME': 'x', 'SERVER_PORT': '80', 'wsgi.url_scheme': 'http'}
        if cookie is not None:
            env['HTTP_COOKIE'] = cookie
        self.res = None
        out = core.with_timeout(lambda: self.app(env, sr))
        close = getattr(out, 'close', None)
        if close:
            close()
        return seen

    def set_cookies(self, jobs):
        """jobs = [(name, value, secret, options)]; returns (outcomes, Set-Cookie values as the server got them)"""
        self.job = jobs
        seen = self._call('/set')
        return self.res, [v for n, v in seen['headers'] if n == 'Set-Cookie']

    def get_cookie(self, header, name, secret):
        """returns (('ok', value) | ('err', exc), loader calls)"""
        self.job = (name, secret)
        self.loader.calls = []
        self._call('/get', header)
        return self.res, list(self.loader.calls)


def client_header(set_cookies):
    """what a browser sends back: the name=value part of every Set-Cookie line"""
    return '; '.join(h.split(';')[0] for h in set_cookies)


def canon_result(res):
    kind, v = res
    if kind == 'err':
        if isinstance(v, CookieError):
            return 'err CookieError'
        if isinstance(v, binascii.Error):
            return 'err B64Error'
        if isinstance(v, LoaderFailed):
            return 'err UnpickleError'
        return 'err ' + type(v).__name__
    if v is None:
        return 'ok none'
    try:
        return 'ok ' + enc_val(v)
    except KeyError:
        return 'ok unknown-object ' + repr(v)[:60]


def pk_table(pairs):
    """graph of pickle.dumps on the (name, value) pairs a line needs"""
    seen, out = set(), []
    for name, value in pairs:
        ent = f'{hs(name)}/{enc_val(value)}/{hb(pickle.dumps((name, value), -1))}'
        if ent not in seen:
            seen.add(ent)
            out.append(ent)
    return ','.join(out) if out else '~'


def sign(name, value, secret):
    """an independent re-implementation of the documented wire format, used to forge with the key"""
    msg = base64.b64encode(pickle.dumps((name, value), -1))
    sig = base64.b64encode(hmac.new(tob(secret), msg, hashlib.md5).digest())
    return (b'!' + sig + b'?' + msg).decode('ascii')


def sign_raw(msg, secret):
    sig = base64.b64encode(hmac.new(tob(secret), msg, hashlib.md5).digest())
    return (b'!' + sig + b'?' + msg).decode('latin1')


# ----------------------------------------------------------------------------------------
# tampering of one cookie inside a Cookie header

def locate(header, name):
    """(start, end) of the value of cookie `name` in a header built by client_header"""
    pos = 0
    for part in header.split('; '):
        k, _, v = part.partition('=')
        if k == name:
            s = pos + len(k) + 1
            return s, s + len(v)
        pos += len(part) + 2
    raise KeyError(name)


def tampers(rng, header, name, positions=None):
    """yield (kind, tampered header); every single-byte substitution (3 replacement bytes + the case flip), deletion and
    truncation at the chosen positions of the cookie's value, plus length changes"""
    s, e = locate(header, name)
    val = header[s:e]
    idx = list(range(len(val))) if positions is None else positions(val)
    for p in idx:
        c = val[p]
        reps = set()
        reps.add(rng.choice([x for x in B64 if x != c]))
        reps.add(rng.choice([x for x in SPECIALS if x != c]))
        r = chr(rng.choice([x for x in range(1, 256) if x not in (10, 13, ord(c))]))
        reps.add(r)
        if c.isalpha() and c.isascii():
            reps.add(c.swapcase())          # the nearest miss for a sloppy comparison
        for r in sorted(reps):
            yield 'subst', header[:s] + val[:p] + r + val[p + 1:] + header[e:]
        yield 'delete', header[:s] + val[:p] + val[p + 1:] + header[e:]
        yield 'truncate', header[:s] + val[:p]
        if p % 3 == 0 and not (p == 0 and c == '"'):
            # (an insertion before the opening quote is outside signature and payload: it changes the cookie-pair
            # syntax, e.g. `n=="..."` makes SimpleCookie see the illegal key `n=`)
            yield 'insert', header[:s] + val[:p] + rng.choice(B64 + '=\\" ') + val[p:] + header[e:]
    yield 'truncate', header[:s]
    yield 'append', header[:s] + val + 'A' + header[e:]
    if val.endswith('"'):
        yield 'append', header[:s] + val[:-1] + '="' + header[e:]
        yield 'append', header[:s] + val[:-1] + 'AAAA"' + header[e:]


def sample_positions(rng, k):
    def f(val):
        n = len(val)
        q = val.find('?')
        fixed = {0, 1, 2, n - 1, n - 2, n - 3, q - 1, q, q + 1}
        fixed |= {rng.randrange(n) for _ in range(k)}
        return sorted(p for p in fixed if 0 <= p < n)
    return f


def swap_sig(h1, name1, h2, name2):
    """header 1 with the signature part of its cookie replaced by that of cookie 2"""
    s1, e1 = locate(h1, name1)
    s2, e2 = locate(h2, name2)
    v1, v2 = h1[s1:e1], h2[s2:e2]
    if '?' not in v1 or '?' not in v2:
        return None
    return h1[:s1] + v2[:v2.index('?')] + v1[v1.index('?'):] + h1[e1:]


# ----------------------------------------------------------------------------------------
# random Cookie headers for the parser line (structured + malformed)

def gen_header(rng):
    parts = []
    for _ in range(rng.randint(0, 4)):
        k = rng.randrange(12)
        key = rng.choice(NAMES_OK + ['path', 'Secure', '$Version', 'HttpOnly', 'expires', 'a,b', 'x=y', 'Domain', 'k'])
        if k < 5:
            v = _quote(gen_text(rng, wide_ok=False))
        elif k < 7:
            v = ''.join(rng.choice(B64 + '[]!?"\\ ;=,') for _ in range(rng.randint(0, 8)))
        elif k == 7:
            v = 'Wed, 01 Jan 2025 00:00:00 GMT'
        elif k == 8:
            parts.append(key)
            continue
        elif k == 9:
            v = '"' + ''.join(rng.choice('ab\\"; \n\xe9') for _ in range(rng.randint(0, 6))) + rng.choice(['"', ''])
        else:
            v = rng.choice(['', 'v', '1', '/'])
        parts.append(key + rng.choice(['=', '=', ' = ', '= ']) + v)
    h = rng.choice(['; ', ';', ' ', '; ', ', ']).join(parts)
    if rng.random() < .2 and h:
        p = rng.randrange(len(h))
        h = h[:p] + rng.choice(SPECIALS + '\n') + h[p + rng.randint(0, 1):]
    return h


def parse_real(h):
    try:
        return 'ok ' + (','.join(f'{hs(c.key)}={hs(c.value)}' for c in SimpleCookie(h).values()) or '~')
    except CookieError:
        return 'err CookieError'


def _lit(text):
    """inverse of repr for the values of the pools"""
    return eval(text, {'__builtins__': {}, 'frozenset': frozenset, 'bytearray': bytearray, 'set': set})


class C15(Check):
    pid = 'C15'
    props_mod = 'OmbottModel.Props.C15'
    tables = []
    design_ref = '6/C15'
    level_category = 'proof'
    level_text = ('Lean theorems over the model of cookie_encode/cookie_decode/_lscmp, set_cookie, the Set-Cookie '
                  'emission and Request.cookies/get_cookie: the constant-time compare is equality for all byte lists; '
                  'the decoder hands bytes to the unpickler only when the MAC of the presented message verifies, so every '
                  'tampered or wrongly keyed cookie reads as absent with an empty loader-call list; signed and plain '
                  '(all characters < U+0100) cookies round-trip through quote/transcode/parse/unquote. Structural proof '
                  'under library contracts + differential correspondence (every single-byte substitution, deletion, '
                  'truncation, signature swap, length change) with an instrumented loader.')
    level_note_extra = ('unforgeability of HMAC-MD5 is a cryptographic assumption (the theorems speak of inputs whose '
                        'signature part is not the MAC of the message part they present); in the general theorems hmac/base64/'
                        'pickle and the SimpleCookie header reader are parameters with named contracts; for the library as the '
                        'driver instantiates it the base64 and tokeniser contracts are proved in Lean (Lemmas/B64.lean, '
                        'Lemmas/CookieTok.lean), leaving pickle.loads(pickle.dumps(x)) == x and agreement of the Lean '
                        'MD5/HMAC/base64/cookie-tokeniser with CPython (compared on every run); names starting with "$", '
                        'reserved attribute names and an empty plain value are outside the round-trip statement; plain text '
                        'with a character >= U+0100 is the recorded finding C15:plain-cookie:char>=U+0100')
    anchors = ['ombott/common_helpers.py', 'ombott/response.py', 'ombott/request_pkg/props_mixin.py',
               'ombott/request_pkg/helpers.py']
    rule = ('cookie names (legal, reserved, illegal) x values (separators, quotes, backslashes, octal look-alikes, '
            'Latin-1, control characters, BMP/astral text, nested picklable objects) x secrets (text, bytes, long), set '
            'through a real Ombott() WSGI call and read back through a second one; for each signed cookie every '
            'single-byte substitution (3 replacement bytes), deletion, truncation and insertion at sampled (quick) or all '
            '(thorough) positions, signature swaps, length changes, replay under another name, forging with the key; '
            'pickle.loads replaced by a recording loader; compared: outcome, returned value, loader-call list; plus the '
            'unit functions _lscmp, cookie_encode, cookie_decode and the http.cookies quoting/tokenising the model '
            're-implements; non-trivial = line reaches the MAC comparison or the quoting')
    assumptions = ['HMAC-MD5 unforgeability (the theorems speak of inputs whose signature part differs from the MAC of the '
                   'presented message)',
                   'pickle.dumps/loads, hmac, base64 and SimpleCookie behave as the contracts of Props/C15 state (exercised, '
                   'not proved)',
                   'the client returns the name=value part of each Set-Cookie line unchanged']

    def budget(self, tier, escalated):
        self._tier = tier
        n = 150 if tier == 'quick' else 1500
        return n * (3 if escalated and tier == 'quick' else 1)

    def nontrivial(self, sample):
        return sample.get('kind') in ('get', 'dec', 'set', 'quote', 'parse', 'lscmp')

    # ------------------------------------------------------------------
    def corr(self, rng, n):
        self.stats = st = {}

        def bump(k, d=1):
            st[k] = st.get(k, 0) + d

        real = Real()
        out = []
        try:
            # --- unit lines ------------------------------------------------------------
            for _ in range(n * 4):
                a = bytes(rng.choice(b'ab\x00\xff') for _ in range(rng.randint(0, 6)))
                k = rng.randrange(6)
                b = a if k == 0 else a[:-1] if k == 1 else a + b'a' if k == 2 else \
                    bytes(rng.choice(b'ab\x00\xff') for _ in range(rng.randint(0, 6))) if k == 3 else \
                    (a[:1] + bytes([a[0] ^ 1]) + a[2:] if len(a) > 1 else a + a) if k == 4 else a[::-1]
                if real.lscmp is not None:
                    out.append((f'cookie lscmp {hb(a)} {hb(b)}', '1' if real.lscmp(a, b) else '0',
                                dict(kind='lscmp', a=a.hex(), b=b.hex())))
            for _ in range(n // 2 + 5):
                m = bytes(rng.randrange(256) for _ in range(rng.choice([0, 1, 3, 55, 56, 57, 63, 64, 65, 119, 120, 130])))
                key = bytes(rng.randrange(256) for _ in range(rng.choice([0, 1, 16, 63, 64, 65, 100])))
                out.append((f'cookie md5 {hb(m)}', hb(hashlib.md5(m).digest()), dict(kind='md5')))
                out.append((f'cookie hmac {hb(key)} {hb(m)}', hb(hmac.new(key, m, hashlib.md5).digest()), dict(kind='hmac')))
                out.append((f'cookie b64 {hb(m[:20])}', hb(base64.b64encode(m[:20])), dict(kind='b64')))
                e = base64.b64encode(m[:20])
                out.append((f'cookie unb64 {hb(e)}', 'ok ' + hb(m[:20]), dict(kind='unb64')))
            for _ in range(n * 6):
                t = gen_text(rng)
                out.append((f'cookie quote {hs(t)}', hs(_quote(t)), dict(kind='quote', text=t)))
                q = rng.choice([_quote(t), '"' + t + '"', t, '"' + t])
                out.append((f'cookie unquote {hs(q)}', hs(_unquote(q)), dict(kind='unquote', text=q)))
            for _ in range(n * 12):
                h = gen_header(rng)
                out.append((f'cookie parse {hs(h)}', parse_real(h), dict(kind='parse', header=h)))
                bump('parse:' + parse_real(h)[:3])

            # --- scenarios through the real application ------------------------------
            for rnd in range(n):
                jobs = []
                for _ in range(rng.choice([1, 1, 1, 2, 3])):
                    name = rng.choice(NAMES_OK * 6 + NAMES_BAD + NAMES_DOLLAR)
                    secret = rng.choice([None, None, ''] + SECRETS * 2)
                    value = gen_value(rng, secret)
                    if rng.random() < .03:
                        value = 'y' * rng.choice([4096, 4097])
                    jobs.append((name, value, secret, {}))
                outs, setc = real.set_cookies(jobs)
                pairs = [(nm, v) for nm, v, s, _ in jobs if s]
                ops = ' '.join(f'{hs(nm)}:{enc_val(v)}:{hb(tob(s or ""))}' for nm, v, s, _ in jobs)
                header = client_header(setc)
                out.append((f'cookie set {pk_table(pairs)} {ops}',
                            f'out={",".join(outs)} hdrs={hsl(setc)} cookie={hs(header)}',
                            dict(kind='set', jobs=[(nm, repr(v)[:40], repr(s)) for nm, v, s, _ in jobs])))
                for o in outs:
                    bump('set:' + o)
                alive = [(nm, v, s) for (nm, v, s, _), o in zip(jobs, outs) if o == 'ok']

                def get_line(hdr, name, secret, pairs_, tag):
                    res, calls = real.get_cookie(hdr, name, secret)
                    ans = f'{canon_result(res)} calls={hbl(calls)}'
                    bump(f'get:{tag}:{ans.split(" ")[0]}-{ans.split(" ")[1][:1]}')
                    if calls:
                        bump('loader-called:' + tag)
                    out.append((f'cookie get {pk_table(pairs_)} {hs(hdr)} {hs(name)} {hb(tob(secret or ""))}', ans,
                                dict(kind='get', tag=tag, header=hdr, name=name, secret=repr(secret))))

                # honest read-back, with the right / no / another secret, and of an absent name
                for nm, v, s in alive:
                    get_line(header, nm, s, pairs, 'honest')
                    get_line(header, nm, None, pairs, 'nosecret')
                    other = rng.choice([x for x in SECRETS if tob(x) != tob(s or '')])
                    get_line(header, nm, other, pairs, 'wrongsecret')
                get_line(header, 'absent', rng.choice(SECRETS), pairs, 'absent')
                # tampering of every signed cookie
                signed = [(nm, v, s) for nm, v, s in alive if s and nm not in NAMES_DOLLAR]
                for nm, v, s in signed[:2]:
                    pos = None if (self._tier == 'thorough' and rnd % 10 == 0) or rnd == 0 else sample_positions(rng, 4)
                    for kind, th in tampers(rng, header, nm, pos):
                        get_line(th, nm, s, pairs, kind)
                    # signature swaps: same secret other value, same value other secret
                    v2 = rng.choice([o for o in OBJS if repr(o) != repr(v)])
                    s2 = rng.choice([x for x in SECRETS if tob(x) != tob(s)])
                    for (vv, ss) in ((v2, s), (v, s2)):
                        h2 = f'{nm}={_quote(sign(nm, vv, ss))}'
                        sw = swap_sig(header, nm, h2, nm)
                        if sw:
                            get_line(sw, nm, s, pairs, 'sigswap')
                    # a validly signed cookie replayed under another name: MAC verifies, name differs
                    other_name = rng.choice([x for x in NAMES_OK if x != nm])
                    rp = f'{other_name}={_quote(sign(nm, v, s))}'
                    get_line(rp, other_name, s, pairs, 'replay')
                    # forged with the key: junk payloads, payload for another name
                    for junk in (b'\x00junk', b'', b'garbage!'):
                        msg = base64.b64encode(junk)
                        get_line(f'{nm}={_quote(sign_raw(msg, s))}', nm, s, pairs, 'keyed-junk')
                    get_line(f'{nm}={_quote(sign_raw(b"abcde", s))}', nm, s, pairs, 'keyed-badb64')
                    pr = pairs + [(other_name, v)]
                    get_line(f'{nm}={_quote(sign(other_name, v, s))}', nm, s, pr, 'keyed-othername')
                # unit level: cookie_encode / cookie_decode
                for nm, v, s in signed[:1]:
                    data = real.ch.cookie_encode((nm, v), s)
                    out.append((f'cookie enc {pk_table(pairs)} {hs(nm)} {enc_val(v)} {hb(tob(s))}', hb(data),
                                dict(kind='enc', name=nm)))
                    for d in (data, data[:-1], data[1:], data.replace(b'?', b'', 1), b'!' + data, data + b'=',
                              data[:5] + bytes([data[5] ^ 1]) + data[6:]):
                        real.loader.calls = []
                        try:
                            r = real.ch.cookie_decode(d, s)
                            ans = 'ok none' if r is None else f'ok {hs(r[0])}/{enc_val(r[1])}'
                        except Exception as e:   # noqa
                            ans = canon_result(('err', e))
                        out.append((f'cookie dec {pk_table(pairs)} {hb(d)} {hb(tob(s))}',
                                    f'{ans} calls={hbl(real.loader.calls)}', dict(kind='dec', data=d.hex())))
        finally:
            real.close()
        return out

    _tier = 'quick'

    # ------------------------------------------------------------------
    # independent oracle from the property text; real code only
    def _oracle_roundtrip(self, real, name, value, secret, opts=None):
        """set on a response, return it in a request, read it back"""
        outs, setc = real.set_cookies([(name, value, secret, opts or {})])
        if outs != ['ok']:
            return [('C15:set-refused', f'set_cookie({name!r}, {value!r:.40}, secret={secret!r}) raised {outs[0]}')]
        for h in setc:
            if any(c in h for c in '\r\n\0'):
                return [('C15:set-cookie-ctl', f'Set-Cookie line {h!r} contains CR/LF/NUL')]
        header = client_header(setc)
        res, calls = real.get_cookie(header, name, secret)
        if res == ('ok', value) and type(res[1]) is type(value):
            return []
        if isinstance(value, str) and not secret:
            key = KNOWN_KEY if any(ord(c) >= 0x100 for c in value) else 'C15:plain-cookie:roundtrip'
        else:
            key = 'C15:signed-cookie:roundtrip'
        return [(key, f'cookie {name!r} set to {value!r:.60} (secret={secret!r}) read back as {res!r:.80}')]

    def _oracle_tamper(self, real, name, value, secret, all_positions, rng):
        bad = []
        outs, setc = real.set_cookies([(name, value, secret, {})])
        if outs != ['ok']:
            return [('C15:set-refused', f'set_cookie({name!r}, ..., secret) raised {outs[0]}')], 1
        header = client_header(setc)
        orig = SimpleCookie(header)[name].value
        n = 0
        cases = list(tampers(rng, header, name, None if all_positions else sample_positions(rng, 6)))
        v2 = 'other value' if value != 'other value' else 'yet another'
        for vv, ss in ((v2, secret), (value, secret + 'x' if isinstance(secret, str) else secret + b'x')):
            sw = swap_sig(header, name, f'{name}={_quote(sign(name, vv, ss))}', name)
            if sw:
                cases.append(('sigswap', sw))
        for kind, th in cases:
            try:
                seen = SimpleCookie(th)
                now = seen[name].value if name in seen else None
            except CookieError:
                now = None
            if now == orig:
                continue        # the cookie the server sees is unchanged (e.g. a harmless backslash): not tampered
            n += 1
            res, calls = real.get_cookie(th, name, secret)
            if calls:
                bad.append((f'C15:tamper:loader-called:{kind}', f'{kind}: tampered header {th!r:.120} reached the unpickler',
                            dict(kind='tamper', name=name, value=repr(value), secret=repr(secret), header=th)))
            if res[0] == 'err':
                bad.append((f'C15:tamper:exception:{kind}', f'{kind}: tampered header {th!r:.120} raised {type(res[1]).__name__}',
                            dict(kind='tamper', name=name, value=repr(value), secret=repr(secret), header=th)))
            elif res[1] is not None:
                bad.append((f'C15:tamper:accepted:{kind}', f'{kind}: tampered header {th!r:.120} read as {res[1]!r:.60}',
                            dict(kind='tamper', name=name, value=repr(value), secret=repr(secret), header=th)))
        # another secret
        for other in ('not the secret', b'\x01\x02'):
            if tob(other) == tob(secret):
                continue
            n += 1
            res, calls = real.get_cookie(header, name, other)
            if calls or res != ('ok', None):
                bad.append(('C15:wrong-secret:' + ('loader-called' if calls else 'accepted'),
                            f'cookie signed with {secret!r} read with {other!r}: {res!r:.60}, loader calls {len(calls)}',
                            dict(kind='wrongsecret', name=name, value=repr(value), secret=repr(secret), other=repr(other))))
        # a validly signed cookie presented under another name reads as absent
        other_name = 'othername' if name != 'othername' else 'othername2'
        n += 1
        res, calls = real.get_cookie(f'{other_name}={_quote(sign(name, value, secret))}', other_name, secret)
        if res != ('ok', None):
            bad.append(('C15:replay-under-other-name:accepted',
                        f'cookie signed for {name!r} presented as {other_name!r} read as {res!r:.60}',
                        dict(kind='replay', name=name, value=repr(value), secret=repr(secret), other_name=other_name)))
        return bad, n

    def search(self, rng, n, seeds):
        real = Real()
        findings, evals = [], 0
        try:
            # round trips: every text of the pools (plain and signed), every object (signed)
            rt = []
            for t in TEXTS + TEXTS_WIDE:
                if t:
                    rt.append((rng.choice(NAMES_OK), t, None, None))
                    rt.append((rng.choice(NAMES_OK), t, rng.choice(SECRETS), None))
            for o in OBJS:
                rt.append((rng.choice(NAMES_OK), o, rng.choice(SECRETS), None))
            for nm in NAMES_OK:
                rt.append((nm, 'v', None, None))
                rt.append((nm, 'v', 'k', dict(path='/', httponly=True, max_age=3600)))
            for _ in range(n * 3):
                s = rng.choice([None] + SECRETS)
                v = gen_value(rng, s)
                if v == '':
                    continue
                rt.append((rng.choice(NAMES_OK), v, s, rng.choice([None, None, dict(path='/x'), dict(secure=True)])))
            for name, value, secret, opts in rt:
                evals += 1
                try:
                    bad = self._oracle_roundtrip(real, name, value, secret, opts)
                except Exception as e:    # noqa
                    bad = [('C15:oracle-exception', f'{type(e).__name__}: {e}')]
                for key, what in bad:
                    findings.append(Finding(key, what, dict(kind='roundtrip', name=name, value=repr(value),
                                                            secret=repr(secret), opts=opts)))
            # tampering
            for i in range(max(3, n // 6)):
                name = rng.choice(NAMES_OK)
                secret = rng.choice(SECRETS)
                value = rng.choice(OBJS + TEXTS[:8])
                try:
                    bad, k = self._oracle_tamper(real, name, value, secret, all_positions=(i < 2), rng=rng)
                except Exception as e:    # noqa
                    bad, k = [('C15:oracle-exception', f'{type(e).__name__}: {e}', {})], 1
                evals += k
                for key, what, inp in bad:
                    findings.append(Finding(key, what, inp))
        finally:
            real.close()
        return evals, findings

    def replay(self, data):
        i = data['input']
        real = Real()
        try:
            name, value, secret = i['name'], _lit(i['value']), _lit(i['secret'])
            if i['kind'] == 'roundtrip':
                outs, setc = real.set_cookies([(name, value, secret, i.get('opts') or {})])
                header = client_header(setc)
                res, calls = real.get_cookie(header, name, secret)
                return dict(input=i, set_cookie=setc, cookie_header=header, read_back=repr(res), loader_calls=len(calls),
                            oracle=self._oracle_roundtrip(real, name, value, secret, i.get('opts')))
            if i['kind'] == 'tamper':
                res, calls = real.get_cookie(i['header'], name, secret)
                return dict(input=i, read_back=repr(res), loader_calls=[c.hex() for c in calls],
                            expected='absent (None) with zero loader calls')
            if i['kind'] == 'wrongsecret':
                outs, setc = real.set_cookies([(name, value, secret, {})])
                res, calls = real.get_cookie(client_header(setc), name, _lit(i['other']))
                return dict(input=i, read_back=repr(res), loader_calls=len(calls), expected='absent, zero loader calls')
            if i['kind'] == 'replay':
                h = f'{i["other_name"]}={_quote(sign(name, value, secret))}'
                res, calls = real.get_cookie(h, i['other_name'], secret)
                return dict(input=i, header=h, read_back=repr(res), expected='absent')
            return dict(input=i, note='unknown replay kind')
        finally:
            real.close()
