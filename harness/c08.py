"""C08 - Concurrent requests on one application never see each other."""
import json
import multiprocessing
import os

from harness import core, sched, tsconc
from harness.core import Check, Finding

KINDS = ['cookies', 'headers', 'status', 'raised', 'errpage', 'crash', 'body',
         'notfound', 'notallowed', 'badpath', 'empty', 'head', 's204',
         'toolarge', 'badjson', 'errjson', 'crashjson', 'copyhdr', 'badmultipart', 'chunked', 'multipart', 'chunkedmp', 'routed', 'routedsel', 'signed', 'signeddict', 'mutator', 'reader', 'reader799', 'statica', 'staticb']
QUICK_KINDS = ['cookies', 'headers', 'status']

# application configurations (DESIGN.md 6/C08 kinds "error page"): plain, debug pages, custom
# @app.error handlers that look at app.response, before/after_request hooks that write and read it
CFGS = {
    'plain': dict(debug=False, custom=[], before=[], after=[]),
    'debug': dict(debug=True, custom=[], before=[], after=[]),
    'custom': dict(debug=False, custom=[400, 413, 418], before=[], after=[]),
    'hooks': dict(debug=False, custom=[],
                  before=[('sethdr', 'X-Own', 'hook'), ('path',)],
                  after=[('rdstatus',), ('rdhdr', 'X-Own'), ('path',), ('rdhdr', 'Content-Type')]),
    'debughooks': dict(debug=True, custom=[413],
                       before=[('sethdr', 'X-Own', 'hook')],
                       after=[('rdstatus',), ('rdhdr', 'X-Own'), ('query', 'q')]),
}

# pairs of requests that end on an object shared by everybody (the mapped errors of errors_map) or
# on error pages that show the exception, with the configuration of the application
ERROR_PAIRS = [
    ('toolarge', 'toolarge', 'debug'), ('toolarge', 'toolarge', 'custom'), ('badjson', 'badjson', 'debug'),
    ('toolarge', 'badjson', 'plain'), ('badjson', 'toolarge', 'custom'), ('errjson', 'toolarge', 'debug'),
    ('toolarge', 'errjson', 'plain'), ('crash', 'toolarge', 'debug'), ('toolarge', 'crashjson', 'debug'),
    ('crashjson', 'errjson', 'debug'), ('cookies', 'toolarge', 'hooks'), ('toolarge', 'headers', 'hooks'),
    ('status', 'raised', 'hooks'), ('raised', 'status', 'debughooks'), ('copyhdr', 'headers', 'plain'),
    ('headers', 'copyhdr', 'hooks'), ('badmultipart', 'badmultipart', 'debug'), ('badmultipart', 'badjson', 'debug'),
    ('errpage', 'status', 'plain'), ('cookies', 'errpage', 'plain'), ('body', 'cookies', 'plain'), ('raised', 'raised', 'plain'),
    ('headers', 'body', 'plain'), ('body', 'body', 'plain'),
]

# a cold process: lazily filled module-level caches (the error page template lines, the filter cache) are
# emptied before every scheduled run; error pages on both threads, and a later request on thread 1
COLD_PAIRS = [
    ('notfound', 'errpage', 'plain', 'notfound'), ('errpage', 'notfound', 'debug', 'crash'),
    ('notallowed', 'crash', 'plain', 'errpage'), ('crash', 'errjson', 'debug', 'notfound'),
    ('errjson', 'notfound', 'plain', 'notallowed'), ('toolarge', 'notfound', 'plain', 'errpage'),
]

# the routing step itself: two requests through the SAME route object with wildcard filters, and
# signed cookies with mutable payloads presented by both requests
ROUTE_PAIRS = [
    ('routed', 'routed', 'plain'), ('routed', 'routedsel', 'plain'), ('routedsel', 'routedsel', 'hooks'),
    ('routedsel', 'routed', 'plain'), ('signed', 'signed', 'plain'), ('signeddict', 'signeddict', 'plain'),
    ('signed', 'cookies', 'plain'),
]

# what the framework hands to application code is mutated in place by one request; the other request (same
# raw inputs, same static route) must not notice; also the custom reason phrase of an unlisted status code.
# (a, b, cfg, later requests of thread 1)
MUT_PAIRS = [
    ('mutator', 'reader', 'plain', ('reader',)), ('reader', 'mutator', 'plain', ('reader799',)),
    ('mutator', 'reader799', 'debug', ('mutator', 'reader')), ('reader799', 'mutator', 'plain', ()),
    # a route served repeatedly on thread 1 while thread 2 serves a different static route
    ('statica', 'staticb', 'plain', ('statica',)), ('staticb', 'statica', 'plain', ('staticb', 'statica')),
]

# bodies whose decoding is interleaved: preemption points inside _iter_chunked / _iter_body / _body_read /
# MultipartMarkup.parse / FieldStorage.read (all under ombott/request_pkg, which the scheduler traces)
BODY_PAIRS = [
    ('chunked', 'chunked', 'plain'), ('chunked', 'body', 'plain'), ('body', 'chunked', 'plain'),
    ('multipart', 'multipart', 'plain'), ('multipart', 'chunked', 'plain'), ('chunkedmp', 'multipart', 'plain'),
    ('chunked', 'chunkedmp', 'hooks'),
]


def mk(kind, p, rid, app=1):
    """request of kind `kind`; every payload is a function of (kind, p, rid) only"""
    r = dict(app=app, rid=rid, method='GET', qs='q=q%d&x=%d' % (p, p), cookie='c=ck%d; d=dk%d' % (p, p),
             hdrs={'X-K': 'hk%d' % p}, body='', ctype=None, kind='handler', ops=[], out=('ret', 'body%d' % p),
             name=kind)
    if kind == 'cookies':
        r['ops'] = [('cookie', 'c'), ('setcookie', 's1', 'v%d' % p), ('cookie', 'd'), ('setcookie', 's2', 'w%d' % p),
                    ('cookie', 'c'), ('path',)]
    elif kind == 'headers':
        r['ops'] = [('header', 'X-K'), ('sethdr', 'X-A', 'a%d' % p), ('addhdr', 'X-A', 'b%d' % p), ('rdhdr', 'X-A'),
                    ('ctype', 'text/plain'), ('envget', 'HTTP_X_K'), ('rdhdr', 'Content-Type')]
    elif kind == 'status':
        r['ops'] = [('path',), ('query', 'q'), ('status', 201 + p % 2), ('rdstatus',), ('query', 'x'), ('method',),
                    ('url',), ('rdstatus',)]
    elif kind == 'raised':
        r['ops'] = [('path',), ('sethdr', 'X-Lost', 'l%d' % p), ('query', 'q')]
        r['out'] = ('raise', 203, 'raised%d' % p, {'X-R': 'r%d' % p})
    elif kind == 'errpage':
        r['ops'] = [('query', 'q'), ('sethdr', 'X-Lost', 'l%d' % p)]
        r['out'] = ('error', 418, 'teapot%d' % p)
    elif kind == 'crash':
        r['ops'] = [('sethdr', 'X-B', 'b%d' % p), ('path',)]
        r['out'] = ('crash',)
    elif kind == 'body':
        r.update(method='POST', body='f=f%d&g=g%d' % (p, p), ctype='application/x-www-form-urlencoded')
        r['ops'] = [('form', 'f'), ('body',), ('form', 'g'), ('path',), ('query', 'q')]
    elif kind in ('notfound', 'notallowed', 'badpath'):
        r['kind'] = kind
    elif kind == 'empty':
        r['ops'] = [('status', 202), ('cookie', 'c')]
        r['out'] = ('empty',)
    elif kind == 'head':
        r['method'] = 'HEAD'
        r['ops'] = [('path',), ('sethdr', 'X-H', 'h%d' % p), ('method',)]
    elif kind == 's204':
        r['ops'] = [('status', 204), ('sethdr', 'X-N', 'n%d' % p)]
    elif kind == 'toolarge':
        # body over max_memfile_size: request.forms ends on the shared errors_map[BodySizeError]
        r.update(method='POST', body='f=' + 'x' * (tsconc.MEMFILE_MAX + 8 + p), ctype='application/x-www-form-urlencoded')
        r['ops'] = [('sethdr', 'X-Own', 'o%d' % p), ('path',)]
        r['out'] = ('failform',)
        if p % 2:
            r['hdrs'] = dict(r['hdrs'], Accept='application/json')
    elif kind == 'badjson':
        # not JSON: request.json ends on the shared errors_map[BodyParsingError]
        r.update(method='POST', body='{bad%d' % p, ctype='application/json')
        r['ops'] = [('sethdr', 'X-Own', 'o%d' % p), ('query', 'q')]
        r['out'] = ('failjson',)
        if p % 2 == 0:
            r['hdrs'] = dict(r['hdrs'], Accept='application/json')
    elif kind == 'badmultipart':
        # a part header without a colon, different in every request: errors_map[BodyParsingError]
        r.update(method='POST', body='--b\r\nBadHeader-%d\r\n\r\nv\r\n--b--\r\n' % p,
                 ctype='multipart/form-data; boundary=b')
        r['ops'] = [('sethdr', 'X-Own', 'o%d' % p)]
        r['out'] = ('failmultipart',)
        if p % 2:
            r['hdrs'] = dict(r['hdrs'], Accept='application/json')
    elif kind == 'chunked':
        # the body travels chunked; chunk sizes (and so the size lines' digits) depend on the request
        r.update(method='POST', body='f=f%d&g=%s&h=h%d' % (p, 'g' * (3 + p % 4), p), ctype='application/x-www-form-urlencoded',
                 chunks=[1 + p % 3, 4 + p % 5, 11])
        r['ops'] = [('body',), ('form', 'f'), ('form', 'g'), ('form', 'h'), ('path',)]
    elif kind in ('multipart', 'chunkedmp'):
        # an upload with its own part headers next to two fields; `chunkedmp` sends it chunked
        r.update(method='POST', boundary='bnd%d' % p,
                 parts=[('f', None, None, {}, 'f%d' % p),
                        ('u', 'n%d.txt' % p, 'text/x-p%d' % p, {'X-P': 'pp%d' % p}, 'DATA%d' % p * (1 + p % 3)),
                        ('g', None, None, {}, 'g%d' % p)])
        if kind == 'chunkedmp':
            r['chunks'] = [29 + p % 4, 5, 64]
        r['ops'] = [('form', 'f'), ('file', 'u', 'filename'), ('file', 'u', 'ctype'), ('file', 'u', 'hdr:X-P'),
                    ('file', 'u', 'data'), ('form', 'g'), ('file', 'nope', 'filename'), ('body',)]
    elif kind == 'routed':
        # ONE route object with every filter kind; the matched values (and their lengths) depend on p
        vals = dict(a=(-1) ** p * (7 * p + 3) * 10 ** (p % 3), b=p + 0.5 * (p % 2) + (0.25 if p % 3 == 0 else 0),
                    c='q' * (1 + p % 4), d='aa', e='/'.join('s%d' % i * (1 + p % 2) for i in range(1 + p % 3)), s='w%d' % p * (1 + p % 3))
        r['rule'] = '/w/<a:int>/<b:float>x<c.re(q+)>/<d.rex((aa)|(b))[1]>z/<s>/<e.path()>/end'
        r['path'] = '/w/%d/%sx%s/%sz/%s/%s/end' % (vals['a'], repr(float(vals['b'])), vals['c'], vals['d'], vals['s'], vals['e'])
        r['kwargs'] = dict(vals, b=float(vals['b']))
        r['ops'] = [('kwargs',), ('path',), ('urlargs',), ('query', 'q')]
        r['out'] = ('ret', 'routed')
    elif kind == 'routedsel':
        # two routes that differ only in the selector of their rex filter: [1] takes (aa), [2] takes (b)
        sel = 1 + p % 2
        r['rule'] = '/v/<d.rex((aa)|(b))[%d]>z/<s>/t' % sel
        r['path'] = '/v/%sz/%s/t' % ('aa' if sel == 1 else 'b', 'n%d' % p * (1 + p % 3))
        r['kwargs'] = dict(d='aa' if sel == 1 else 'b', s='n%d' % p * (1 + p % 3))
        r['ops'] = [('kwargs',), ('urlargs',), ('path',)]
        r['out'] = ('ret', 'sel%d' % sel)
    elif kind in ('signed', 'signeddict'):
        # the SAME signed cookie text in every request of the kind; the handler edits the decoded
        # (mutable) payload in place and sets it again
        pl = [1, 2, 'x'] if kind == 'signed' else {'n': 1, 'l': 'x'}
        r['signed'] = {'s': pl}
        r['ops'] = [('scookie_edit', 's', pl, 'm%d' % p), ('cookie', 'c'), ('scookie', 's')]
    elif kind in ('mutator', 'reader', 'reader799'):
        # ONE static route, the SAME raw query string / Cookie header / form body for every request of these
        # kinds (any cache keyed by the raw input is hit).  The mutator changes in place every object the
        # framework hands it; a reader must see what its own request carries, fresh.
        r.update(rid=900, rule='/static/mr', path='/static/mr', method='POST', qs='l=1&l=2&q=same',
                 cookie='c=same; flash=f', hdrs={'X-K': 'same'}, body='f=same&m=1&m=2',
                 ctype='application/x-www-form-urlencoded', kwargs={})
        if kind == 'mutator':
            r['ops'] = [('mutate', 'urlargs'), ('mutate', 'cookies'), ('mutate', 'query'), ('mutate', 'forms'),
                        ('mutate', 'params'), ('mutate', 'post'), ('mutate', 'files'), ('envset', 'x.inj', 'm'),
                        ('envset', 'HTTP_X_INJ', 'm'), ('extset', 'foo', 'm'), ('sethdr', 'X-Inj', 'm'),
                        ('statusline', '799 Quota exceeded for tenant acme'), ('rdstatus',)]
            r['out'] = ('ret', 'mutated')
        else:
            r['ops'] = [('whoami',), ('kwargs',), ('dump', 'urlargs'), ('dump', 'cookies'), ('dump', 'query'),
                        ('dump', 'forms'), ('dump', 'params'), ('dump', 'post'), ('dump', 'files'), ('dump', 'headers'),
                        ('envget', 'x.inj'), ('extget', 'foo'), ('rdhdr', 'X-Inj'), ('cookie', 'flash')]
            if kind == 'reader':
                r['ops'] += [('status', 799), ('rdstatus',)]
                r['out'] = ('ret', 'read')
            else:
                r['out'] = ('error', 799, 'quota')
    elif kind in ('statica', 'staticb'):
        # two different static routes: each request must run the handler of its own route
        name = '/static/%s' % kind[-1]
        r.update(rid=901 if kind == 'statica' else 902, rule=name, path=name, kwargs={})
        r['ops'] = [('whoami',), ('kwargs',), ('dump', 'urlargs'), ('path',), ('sethdr', 'X-Who', kind), ('setcookie', 'who', kind),
                    ('status', 201 if kind == 'statica' else 202)]
        r['out'] = ('ret', kind)
    elif kind in ('listener', 'listener2', 'setter', 'ticker'):
        # event subscriptions on the request object (C10 only: a listener belongs to ONE application's request
        # object, for all its threads - so these kinds are not in KINDS).  `listener` subscribes to env_changed
        # and then stores through `app.request[...]`; `setter` only stores (and reads back what depends on the
        # stored key); `ticker` uses a user event name.  Every stored value is new (a store of the value already
        # there emits nothing).
        sets = [('header', 'X-K'), ('reqset', 'HTTP_X_K', 'n%d' % p), ('header', 'X-K'), ('cookie', 'c'),
                ('reqset', 'HTTP_X_FORWARDED_HOST', 'fh%d' % p), ('envget', 'HTTP_X_FORWARDED_HOST'),
                ('header', 'X-Forwarded-Host'), ('reqset', 'x.k%d' % (p % 2), 'k%d' % p), ('envget', 'x.k%d' % (p % 2)),
                ('path',)]
        if kind == 'listener':
            r['ops'] = [('listen', 'env_changed')] + sets
        elif kind == 'listener2':
            # two subscriptions, one taken back; a copy of the request has no listeners of its own
            r['ops'] = [('listen', 'env_changed'), ('listen', 'env_changed'), ('reqset', 'x.two', 't%d' % p),
                        ('unlisten', 'env_changed'), ('copy',), ('cset', 0, 'HTTP_X_K', 'cp%d' % p), ('cheader', 0, 'X-K')] + sets
        elif kind == 'ticker':
            r['ops'] = [('listen', 'tick'), ('reqemit', 'tick', 'HTTP_X_K'), ('listen', 'env_changed'),
                        ('reqemit', 'tick', 'QUERY_STRING')] + sets + [('reqemit', 'tick', 'x.k%d' % (p % 2))]
        else:
            r['ops'] = sets + [('reqemit', 'tick', 'HTTP_X_K'), ('reqemit', 'env_changed', 'PATH_INFO'), ('method',)]
    elif kind == 'errjson':
        r['hdrs'] = dict(r['hdrs'], Accept='application/json')
        r['ops'] = [('sethdr', 'X-Own', 'o%d' % p), ('query', 'q')]
        r['out'] = ('error', 418, 'teapot%d' % p)
    elif kind == 'crashjson':
        r['hdrs'] = dict(r['hdrs'], Accept='application/json')
        r['ops'] = [('path',)]
        r['out'] = ('crash',)
    elif kind == 'copyhdr':
        # the cached header view, a copy, edits of the copy: the original must not move
        r['ops'] = [('header', 'X-K'), ('cookie', 'c'), ('copy',), ('cset', 0, 'HTTP_X_K', 'edited%d' % p),
                    ('cheader', 0, 'X-K'), ('header', 'X-K'), ('cset', 0, 'HTTP_COOKIE', 'c=zz'), ('cookie', 'c'),
                    ('cset', 0, 'QUERY_STRING', 'q=zz'), ('query', 'q'), ('cset', 0, 'PATH_INFO', '/zz'),
                    ('cpath', 0), ('path',), ('envget', 'HTTP_X_K')]
    else:
        raise ValueError(kind)
    return r


def base_case(kinds, cfg='plain', later=None):
    """one fresh application, thread i serves a request of kinds[i-1]; `later`: kinds of requests
    thread 1 serves afterwards (the same thread back-to-back, and "every later request")"""
    threads = {i + 1: [('serve', mk(k, i + 1, i + 1))] for i, k in enumerate(kinds)}
    for j, k in enumerate(later or ()):
        threads[1].append(('serve', mk(k, len(kinds) + 1 + j, len(kinds) + 1 + j)))
    return dict(apps=[1], threads=threads, switches=[], cfg={1: CFGS[cfg]})


# --------------------------------------------------------------------------------------
# the oracle: every thread's observations equal those of its request served alone

def solo_obs(req, cache, cfg=None):
    """the request served alone, on a fresh application, in a forked child of this (so far untouched)
    process: nothing a concurrent run may have left in module level objects can reach the reference"""
    key = json.dumps([req, cfg], sort_keys=True)
    if key not in cache:
        case = dict(apps=[req['app']], threads={1: [('serve', req)]}, switches=[], cfg=cfg or {})
        cache[key] = tsconc.pristine(lambda: tsconc.run_case(case).obs.get(1, []))
    return cache[key]


def diff_key(a, b):
    """fingerprint of the first difference between two observation lists"""
    for i in range(max(len(a), len(b))):
        x = a[i] if i < len(a) else None
        y = b[i] if i < len(b) else None
        if x == y:
            continue
        if x is None or y is None:
            return 'observation-count'
        if x[1].startswith('x:') or y[1].startswith('x:'):
            return 'exception'
        if x[1].startswith('r:') and y[1].startswith('r:'):
            return 'handler-read'
        if x[1].startswith('w:') and y[1].startswith('w:'):
            xs, ys = x[1].split('\n\n', 1), y[1].split('\n\n', 1)
            xh, yh = xs[0].split('\n'), ys[0].split('\n')
            if xh[0] != yh[0]:
                return 'response-status'
            if xh[1:] != yh[1:]:
                return 'response-headers'
            return 'response-body'
        return 'observation-kind'
    return None


def check_case(case, w, cache):
    """None or (key, what): compares each thread with the solo run of its request"""
    for tid in sorted(case['threads']):
        expect = []
        for it in case['threads'][tid]:
            if it[0] == 'serve':
                expect += solo_obs(it[1], cache, case.get('cfg'))
        got = w.obs.get(tid, [])
        k = diff_key(got, expect)
        if k:
            names = '+'.join(it[1].get('name', '?') for it in case['threads'][tid] if it[0] == 'serve')
            return (k, 'thread %d (%s) under the schedule differs from the same request served alone: got %r expected %r'
                    % (tid, names, got[:6], expect[:6]))
    sh = w.shared_handouts()
    if sh:
        return ('shared-object', 'the framework handed the SAME object to two different requests: %r' % (sh,))
    ref = module_ref(case, cache)
    if ref is not None and w.module_state != ref:
        bad = [n for (n, a), (_, b) in zip(w.module_state, ref) if a != b]
        return ('module-state', 'after the scheduled run the module-level objects %s differ from what the same requests '
                'leave behind when served one after the other in a fresh process: %r'
                % (bad, [a for (n, a) in w.module_state if n in bad][:1]))
    return None


def module_ref(case, cache):
    """the module-level state the requests of the case leave behind when served without preemption in a
    forked child of the untouched process"""
    key = '__module__' + json.dumps([case['threads'], case.get('cfg')], sort_keys=True, default=str)
    if key not in cache:
        seq = dict(case, switches=[])
        cache[key] = tsconc.pristine(lambda: tsconc.run_case(seq).module_state)
    return cache[key]


def run_one(case, cache):
    """(line, impl answer, events, finding|None, world)"""
    w = tsconc.run_case(case)
    ev = [t for t, _ in w.sched.events]
    return tsconc.case_line(case, ev), w.answer(), check_case(case, w, cache), w


def shard(args):
    """worker: one base case and its schedules"""
    kinds, mode, seed, count = args[:4]
    cfg = args[4] if len(args) > 4 else 'plain'
    part, nparts, cap = args[5] if len(args) > 5 and args[5] else (0, 1, 0)
    later = args[6] if len(args) > 6 else None
    cache = {}
    out = {}
    finds = []
    stats = dict(schedules=0, points=0)
    base = base_case(kinds, cfg, later)
    try:
        # the references first, while this process has not run anything concurrently
        for tid in sorted(base['threads']):
            for it in base['threads'][tid]:
                solo_obs(it[1], cache, base.get('cfg'))
        module_ref(base, cache)
        line, ans, bad, w0 = run_one(base, cache)
        order = w0.sched.order
        total = w0.sched.step
        cases = []
        if mode == 'single':
            # every single preemption point of thread 1, handing over to each other thread
            # (long programs are cut into `nparts` shards; `cap` > 0 thins the points of very long ones)
            n1 = order[0][1]
            if later:
                # sweep the whole run of thread 1's FIRST request (the later ones follow unpreempted)
                first = dict(base, threads={1: base['threads'][1][:1]})
                n1 = min(n1, tsconc.pristine(lambda: tsconc.run_case(first).sched.step))
            stride = 1 if not cap or n1 <= cap else -(-n1 // cap)
            ks = [k for k in range(1 + (seed % stride), n1 + 1, stride)]
            ks = [k for i, k in enumerate(ks) if i % nparts == part]
            for k in ks:
                for t in range(2, len(kinds) + 1):
                    cases.append([(k, t)])
            stats['points'] = len(ks)
        else:
            import random
            rng = random.Random(seed)
            n = len(kinds)
            for _ in range(count):
                npre = rng.randint(2, 6)
                pts = sorted(rng.sample(range(1, total + 1), min(npre, total)))
                cases.append([(p, rng.randint(1, n)) for p in pts])
        out[(line, ans)] = dict(kinds=kinds, cfg=cfg, later=later, switches=[])
        for sw in cases:
            c = dict(base, switches=sw)
            line, ans, bad, w = run_one(c, cache)
            stats['schedules'] += 1
            if (line, ans) not in out:
                out[(line, ans)] = dict(kinds=kinds, cfg=cfg, later=later, switches=sw)
            if bad:
                finds.append((bad[0], bad[1], dict(case=c)))
        labels = tsconc.labels_by_thread(w0.sched.events)
        return dict(ok=True, cases=[(l, a, s) for (l, a), s in out.items()], finds=finds[:20], stats=stats,
                    base=(tsconc.case_line(base, [t for t, _ in w0.sched.events], op='labels'), labels))
    except sched.SchedTimeout as e:
        return dict(ok=False, err='scheduler timeout: %s' % e)
    except tsconc.ChildFailed as e:
        return dict(ok=False, err='reference run failed: %s' % e)


def run_shards(jobs, procs=None, timeout=2700, fn=None):   # generous: a loaded machine must not turn a slow run into an INFRA error
    fn = fn or shard
    procs = procs or max(2, min(14, (os.cpu_count() or 4) - 2))
    if len(jobs) <= 1 or procs <= 1:
        return [fn(j) for j in jobs]
    ctx = multiprocessing.get_context('fork')
    pool = ctx.Pool(min(procs, len(jobs)), maxtasksperchild=1)    # every shard starts from this process' state
    try:
        res = pool.map_async(fn, jobs, chunksize=1).get(timeout=timeout)
    except multiprocessing.TimeoutError:
        pool.terminate()
        raise core.Infra('scheduled runs did not finish in %ds' % timeout)
    finally:
        pool.terminate()
    return res


class C08(Check):
    pid = 'C08'
    props_mod = 'OmbottModel.Props.C08'
    tables = ['tsprops']
    drv_shard_min = 200          # a model line replays two or three whole requests: shard early
    design_ref = '6/C08'
    level_category = 'proof'
    level_text = ('Lean theorem one_app_noninterference over the step model of ts_props / HeaderDict._ts, of a served '
                  'request (wsgi, _handle, hooks, handler, _cast incl. HTML/JSON/debug/custom error pages, headerlist) and of '
                  'the shared HTTPError objects of errors_map: for one application, any number of threads, arbitrary '
                  '(adaptive) handler programs and every interleaving (unbounded list of thread ids) each thread reads and '
                  'produces exactly what it does alone; served_requests_serve shows the hypothesis for every request '
                  'program the driver runs. Tied to the code by schedule-controlled runs of real threads (baton + '
                  'sys.settrace, line granularity, incl. inside the chunked / multipart body decoders). Proof of the model '
                  '+ schedule-controlled correspondence; partial for thread switches inside one source line.')
    level_note_extra = ('partial: CPython may switch threads between bytecodes of one line; the scheduler exercises line '
                        'boundaries only. Shared non thread-local objects touched while serving are enumerated by the '
                        'extractor (Gen/Tsprops.lean: tsSharedTouched, tsErrorsMap) and must be read-only or idempotent; '
                        'the body decoders are covered by the scheduled runs against pristine solo references, not by '
                        'the model (their results are data of the request there).')
    technique = 'Lean 4 proof + schedule-controlled differential correspondence'
    anchors = ['ombott/common_helpers.py', 'ombott/response.py', 'ombott/request_pkg/request.py', 'ombott/ombott.py']
    rule = ('2-3 real threads on one fresh application, serialised by the baton scheduler; request kinds: cookies, '
            'headers, status, raised response, error page (HTML, JSON, debug, custom @app.error handler), crash, '
            'requests failing onto the SAME shared errors_map object (oversized form, invalid JSON, malformed '
            'multipart with request-specific text), urlencoded / chunked / multipart / chunked-multipart bodies with '
            'uploads, Request.copy() with edits of the copy after header views were cached, before/after_request '
            'hooks, 404/405/bad path/empty/HEAD/204, two requests through ONE route object with int/float/re/rex[selector]/path '
            'filters and different matched values (handler kwargs, url_args), signed cookies with mutable payloads '
            'edited in place (same raw cookie on both threads and back-to-back), a mutator that changes IN PLACE every '
            'object the framework hands it (url_args, cookies, query, forms, params, POST, files, environ, extension '
            'attribute, response headers, custom reason phrase of an unlisted code) against readers with the same '
            'raw inputs on the same static route, two different static routes (handler identity), identity (`is`) '
            'of handed-out objects across requests; every scheduled run starts COLD '
            '(lazily filled module-level caches emptied: template lines, filter cache; found by walking the package) '
            'and the module-level state left behind is compared with that of an unpreempted run in a fresh process; quick: every single preemption point of thread 1 (every k-th '
            'line for programs over 900 lines) x ~45 ordered pairs of kinds and application configurations, plus '
            'random 2-6 preemptions over 2-3 threads; thorough: all pairs, all points. Every thread is compared with '
            'its request served alone in a forked child of the untouched process, and each schedule is replayed in '
            'the model through the recorded order of thread-store accesses; non-trivial = the schedule preempts')
    assumptions = ['thread switches happen at source-line boundaries inside ombott/* and the handlers (sub-line '
                   'interleavings are not exercised; the model step is one attribute access, which is finer than a line)',
                   'the application object is constructed before the request threads start',
                   'handlers reach request and response state only through app.request / app.response',
                   'no code writes the shared HTTPError objects of errors_map (tied: generated table + probe; model '
                   'step errSet is excluded by Prog.Serves)',
                   'lazily filled module-level caches are init-once cells whose content is a function of the tree (model: '
                   'tmplLoad / template_cache_init_once; code: cold runs + module-state comparison)',
                   'router answer, parsed query/cookie/form/upload values, status phrases and the error page templates '
                   'are data of the request in the model (properties C01, C02, C04-C07, C15, C18, C20)']

    def __init__(self):
        self.stats = {}
        self._sweep = None

    def budget(self, tier, escalated):
        self._tier = tier
        n = 1 if tier == 'quick' else 4
        return n * (2 if escalated and tier == 'quick' else 1)

    def nontrivial(self, sample):
        return bool(sample.get('switches'))

    # ------------------------------------------------------------------
    def _jobs(self, rng, n):
        thorough = n >= 4
        kinds = KINDS if thorough else QUICK_KINDS
        jobs = []
        for a in kinds:
            for b in kinds:
                jobs.append(((a, b), 'single', 0, 0, 'plain'))
        for a, b, cfg in ERROR_PAIRS:
            # quick: every second line or so (offset varies with the seed); thorough: every line
            jobs.append(((a, b), 'single', rng.randrange(1000), 0, cfg, (0, 1, 0 if thorough else 300)))
        for a, b, cfg in ROUTE_PAIRS:
            jobs.append(((a, b), 'single', 0, 0, cfg))
        for a, b, cfg, later in COLD_PAIRS:
            jobs.append(((a, b), 'single', 0, 0, cfg, None, (later,)))
        for a, b, cfg, later in MUT_PAIRS:
            jobs.append(((a, b), 'single', rng.randrange(1000), 0, cfg, (0, 1, 0 if thorough else 450), later))
        # the same raw signed cookie back-to-back on one thread while another thread presents it too
        jobs.append((('signed', 'signed'), 'single', 0, 0, 'plain', None, ('signed', 'signeddict')))
        off = rng.randrange(1000)
        for a, b, cfg in BODY_PAIRS:
            nparts = 4
            for part in range(nparts):
                # quick: at most ~900 preemption points per pair (every k-th line, the offset varies with the seed)
                jobs.append(((a, b), 'single', off, 0, cfg, (part, nparts, 0 if thorough else 600)))
        if thorough:
            for a, b, cfg in ERROR_PAIRS:
                for c2 in CFGS:
                    if c2 != cfg:
                        jobs.append(((a, b), 'single', 0, 0, c2))
        nrand = 24 * n
        for i in range(nrand):
            k = rng.choice([2, 3, 3])
            ks = tuple(rng.choice(KINDS) for _ in range(k))
            jobs.append((ks, 'random', rng.randrange(1 << 30), 40 if not thorough else 120, rng.choice(sorted(CFGS))))
        if n >= 2 and not thorough:      # escalated quick run: a sample of the remaining pairs as well
            rest = [(a, b) for a in KINDS for b in KINDS if a not in QUICK_KINDS or b not in QUICK_KINDS]
            for a, b in rng.sample(rest, min(len(rest), 10 * n)):
                jobs.append(((a, b), 'single', rng.randrange(1000), 0, rng.choice(sorted(CFGS)), (0, 1, 300)))
        return jobs

    def _run(self, rng, n):
        if getattr(self, '_tier', 'quick') == 'quick':
            n = min(n, 3)           # an escalated quick run stays a quick run
        if self._sweep is not None and (self._sweep[0] >= n or self._sweep[1][1]):
            return self._sweep[1]   # enough explored already, or failing schedules already in hand
        jobs = self._jobs(rng, n)
        res = run_shards(jobs)
        cases, finds, bases = [], [], []
        st = dict(schedules=0, base_cases=len(jobs), preemption_points=0, kinds={})
        for j, r in zip(jobs, res):
            if not r.get('ok'):
                raise core.Infra(r.get('err', 'worker failed'))
            cases += r['cases']
            finds += r['finds']
            bases.append(r['base'])
            st['schedules'] += r['stats']['schedules']
            st['preemption_points'] += r['stats']['points']
            for k in j[0]:
                st['kinds'][k] = st['kinds'].get(k, 0) + 1
        st['distinct_model_lines'] = len({c[0] for c in cases})
        self.stats.update(st)
        self._labels(bases)
        self._sweep = (n, (cases, finds))
        return cases, finds

    def _labels(self, bases):
        """diagnostics only: does the model make the same sequence of thread-store accesses as the code"""
        try:
            outs = core.run_driver([b[0] for b in bases])
        except Exception as e:     # the driver may not be built when the proof is broken
            self.stats['label_sequences'] = 'not compared (%s)' % type(e).__name__
            return
        same = tot = 0
        first = None
        for (line, labels), o in zip(bases, outs):
            model = {}
            for part in o.split(' ; '):
                t, _, ls = part.partition(' ')
                model[int(t[1:])] = [] if ls == '-' else ls.split(',')
            for t, ls in labels.items():
                tot += 1
                real = [x.replace('?', 'c') for x in ls]
                if real == model.get(t):
                    same += 1
                elif first is None:
                    i = next((i for i, (x, y) in enumerate(zip(real, model.get(t, []))) if x != y),
                             min(len(real), len(model.get(t, []))))
                    first = 'thread %d differs at access %d: code %s model %s' % (
                        t, i, real[i:i + 3], model.get(t, [])[i:i + 3])
        self.stats['label_sequences'] = '%d of %d thread programs make exactly the access sequence of the code' % (same, tot)
        if first:
            self.stats['label_first_difference'] = first

    def corr(self, rng, n):
        cases, _ = self._run(rng, n)
        return cases

    def search(self, rng, n, seeds):
        cases, finds = self._run(rng, n)
        evals = self.stats.get('schedules', 0)
        out = [Finding('C08:' + k, what, rep) for k, what, rep in finds]
        # disagreeing correspondence inputs are re-run against the solo oracle as well
        cache = {}
        for s in seeds[:50]:
            try:
                c = dict(base_case(tuple(s['kinds']), s.get('cfg', 'plain'), s.get('later')), switches=[tuple(x) for x in s['switches']])
                bad = tsconc.pristine(lambda: run_one(c, {})[2])
                evals += 1
                if bad:
                    out.append(Finding('C08:' + bad[0], bad[1], dict(case=c)))
            except (sched.SchedTimeout, tsconc.ChildFailed) as e:
                raise core.Infra(str(e))
        return evals, out

    def replay(self, data):
        case = data['input']['case']
        case['threads'] = {int(k): [tuple(it) if it[0] == 'construct' else ('serve', _detuple(it[1])) for it in v]
                           for k, v in case['threads'].items()}
        case['switches'] = [tuple(x) for x in case['switches']]
        case['cfg'] = {int(k): dict(v, before=[tuple(o) for o in v.get('before', [])],
                                   after=[tuple(o) for o in v.get('after', [])])
                       for k, v in (case.get('cfg') or {}).items()}
        cache = {}
        try:
            solo = {t: [o for it in items if it[0] == 'serve' for o in solo_obs(it[1], cache, case.get('cfg'))]
                    for t, items in case['threads'].items()}

            def go():
                line, ans, bad, w = run_one(case, cache)
                return bad, w.sched.order, {t: w.obs.get(t, []) for t in case['threads']}
            bad, order, observed = tsconc.pristine(go)
        except (sched.SchedTimeout, tsconc.ChildFailed) as e:
            raise core.Infra(str(e))
        return dict(switches=case['switches'], executed_order=order, observed=observed, served_alone=solo,
                    verdict=('differs: %s' % (bad,) if bad else 'equal to the solo runs'))


def _detuple(req):
    """JSON turned the tuples of a request into lists"""
    r = dict(req)
    r['ops'] = [tuple(_detuple(x) if isinstance(x, dict) else x for x in op) for op in r.get('ops', [])]
    r['out'] = tuple(r['out'])
    return r
