"""The composed stream: ONE real `Ombott()` with a registration history (routes, method tables,
wildcards of every filter kind), hooks, custom error handlers and zoo handler programs, ONE request
through `app(environ, start_response)`, compared with `App.serve` of lean/OmbottModel/Model/App.lean
(driver line `app serve`, lean/OmbottModel/Drv/App.lean).  Routing, dispatch, kwargs, casting, header
emission and error pages are exercised against one model in one call.

`install(cls)` adds the stream (correspondence + oracle + replay) to a check class, the same way
`harness/envcachelib.py` does.

case := dict(kind='app', spec=<zoo app spec>, ops=[['A', rule, methods, name, overwrite] | ['D', k, methods]],
             progs={op index: [effs, res, echo]}, req=dict(verb, path, decodable, fw, accept, env), warm=None | req)
"""
import html
import io
import os
import re

from harness import core, wsgizoo as zoo
from harness import router_gen as G
from harness.core import hb, hs, hsl, Finding

VERBS = ['GET', 'POST', 'PUT', 'DELETE', 'PATCH', 'OPTIONS', 'HEAD']
REG_NAMES = VERBS + ['ANY', 'ANY', 'GET', 'GET', 'get', 'Post', 'any', 'head', 'FOO']
REQ_VERBS = VERBS + ['HEAD', 'HEAD', 'GET', 'GET', 'get', 'hEAD', 'post', 'FOO', 'BAR', 'ANY', 'head']

RULES = ['/', '/a', '/a/b', '/a/:x', '/a/<x:int>', '/<p:path>', '/u/<x>/e', '/a/<x:re:[a-z]+>', '/ab', '/a/:y',
         '/a/<z:int>', '/u/<k>/e', '/<q.path()>', '/f/<v:float>', '/i/<n:int>/<m:int>', '/s/<name>/<rest:path>',
         '/d/<day:re:[0-9][0-9]>-<mon>', '/x/<a>/<b>']
PATH_OF = {':x': ['q', 'zz', 'b'], ':y': ['q'], '<x:int>': ['12', '-7', '007'], '<z:int>': ['12'], '<p:path>': ['zz/y', 'a'],
           '<q.path()>': ['zz/y'], '<x>': ['m', 'é'], '<k>': ['m'], '<x:re:[a-z]+>': ['abc'], '<v:float>': ['1.5', '-0.25', '3'],
           '<n:int>': ['1', '42'], '<m:int>': ['2', '-3'], '<name>': ['n', '<i>&"\''], '<rest:path>': ['r/s', 't'],
           '<day:re:[0-9][0-9]>': ['07', '31'], '<mon>': ['may'], '<a>': ['1', 'x y'], '<b>': ['2']}
MISS_PATHS = ['/nope/x', '/a/', '/a/b/c/d', '', '/', '/zz<q>"\'&', '/u/m', '/i/1/x', '//', '/http://[', '/a/http://[x', '//[x']

ACCEPTS = [None, None, None, '', 'text/html', '*/*', 'text/html, application/json', 'Application/JSON']
JSON_ACCEPTS = ['application/json', 'application/json, text/html;q=0.5', 'application/json; charset=utf-8']


def path_for_rule(rng, rule):
    p = rule
    for k in sorted(PATH_OF, key=len, reverse=True):
        while k in p:
            p = p.replace(k, rng.choice(PATH_OF[k]), 1)
    return p


# --------------------------------------------------------------------------------------
# generator

def gen_prog(rng, g):
    k = rng.random()
    if k < .25:
        res = ('ret', ('t', rng.choice(zoo.TEXTS)))
        effs = []
    else:
        res = ('ret', g.out(2)) if k < .75 else ('rr', g.resp(2)) if k < .88 else ('ex',)
        effs = g.effs()
    return [effs, res, rng.random() < .4]


def gen_req(rng, target_paths, reg_names):
    from harness import c20
    r = rng.random()
    if target_paths and r < .8:
        path = rng.choice(target_paths)
        if rng.random() < .12:
            path = G.mutate(rng, path)
    elif r < .93:
        path = rng.choice(MISS_PATHS)
    else:
        path = ''.join(rng.choice(G.PATH_ALPHA) for _ in range(rng.randint(0, 6)))
    if rng.random() < .2:
        path = rng.choice(['/', '//']) + path.lstrip('/')
    k = rng.random()
    if reg_names and k < .45:
        verb = rng.choice(sorted(reg_names))
        if rng.random() < .2:
            verb = verb.lower()
    elif k < .7:
        verb = 'HEAD'
    else:
        verb = rng.choice(REQ_VERBS)
    env = c20.gen_urlenv(rng, rich=rng.random() < .5)
    if rng.random() < .7:
        env['script'] = rng.choice([None, None, '', '/app'])      # keep most URLs simple; the rest is C20's axis
    return dict(verb=verb, path=path, decodable=rng.random() >= .04, fw=rng.random() < .3,
                accept=rng.choice(ACCEPTS), env=env)


def gen_case(rng):
    g = zoo.Gen(rng)
    g.catchall_off = False
    spec = g.app() if rng.random() < .55 else dict(before=[], after=[], errh=[])
    spec.pop('edits', None)         # hooks that edit their own list show from the second request on: C03/C09's axis
    spec.pop('catchall', None)
    ops, asts, paths, names = [], [], [], set()
    n_add = rng.choice([1, 1, 2, 2, 3, 4])
    adds = []
    for _ in range(n_add):
        if adds and rng.random() < .25:
            rule = ops[rng.choice(adds)][1]                  # more methods / a clash / an overwrite on a known rule
            ast = None
        elif rng.random() < .6:
            rule, ast = rng.choice(RULES), None
        else:
            rule, ast = G.gen_rule(rng, asts)
            if ast is not None:
                asts.append(ast)
        ms = rng.sample(REG_NAMES, rng.choice([1, 1, 2, 3]))
        if rng.random() < .02:
            ms.append(rng.choice(['G\nT', 'PO\0ST', 'X\rY']))       # a name `_hval` refuses in the Allow header
        arg = ms[0] if (len(ms) == 1 and rng.random() < .3) else ms
        adds.append(len(ops))
        ops.append(['A', rule, arg, rng.choice([None] * 6 + ['n1', 'n2']), rng.random() < .15])
        names |= {m.upper() for m in ms}
        for _ in range(2):          # two paths per rule: a warm-up and the measured request differ in their values
            if ast is not None:
                paths.append('/' + G.path_for(rng, ast))
            else:
                paths.append(path_for_rule(rng, rule))
        if rng.random() < .2:
            k = rng.choice(adds)
            dm = ops[k][2] if isinstance(ops[k][2], list) else [ops[k][2]]
            ops.append(['D', k, [m.upper() for m in rng.sample(dm, rng.randint(1, len(dm)))] if rng.random() < .8
                        else [rng.choice(VERBS)]])
    progs = {}
    for i in adds:
        if rng.random() < .88:
            progs[i] = gen_prog(rng, g)
    req = gen_req(rng, paths, names)
    if rng.random() < .3 and json_safe(spec, progs):
        req['accept'] = rng.choice(JSON_ACCEPTS)
    warm = None
    if rng.random() < .45:
        warm = gen_req(rng, paths, names)          # a request served before the measured one (not modelled:
        warm['accept'] = None                      # the answer to a request does not depend on earlier ones)
    return dict(kind='app', spec=spec, ops=ops, progs=progs, req=req, warm=warm)


def json_safe(spec, progs):
    """a JSON error body is modelled for errors that carry no exception object"""
    for p in progs.values():
        if not zoo.json_safe(spec, dict(route=('h', p[0], p[1]))):
            return False
    return zoo.json_safe(spec, dict(route=('nf',)))


def systematic_cases():
    """the cross-cutting corners, deterministically"""
    plain = dict(before=[], after=[], errh=[])
    hooked = dict(before=[([('sh', 'X-B', '1'), ('ck', 'k', 'v')], ('ok',))], after=[([('ah', 'X-A', '2')], ('ok',))], errh=[])
    env = dict(fproto=None, scheme='http', fhost=None, host='h.example', sname='srv', sport='80', qs='q=<i>&"x\'', script=None)
    out = []

    def case(spec, ops, progs, verb, path, accept=None, warm=None, decodable=True, fw=False):
        rq = dict(verb=verb, path=path, decodable=decodable, fw=fw, accept=accept, env=dict(env))
        out.append(dict(kind='app', spec=dict(spec), ops=[list(o) for o in ops], progs={k: list(v) for k, v in progs.items()},
                        req=rq, warm=warm))
    two = [['A', '/u/:a', ['GET'], None, False], ['A', '/u/:b', ['POST'], None, False], ['A', '/u/:c', ['ANY'], None, False]]
    echo = {0: [[], ('ret', ('t', 'x')), True], 1: [[], ('ret', ('t', 'x')), True], 2: [[], ('ret', ('t', 'x')), True]}
    for spec in (plain, hooked):
        for verb in ('GET', 'POST', 'HEAD', 'PUT', 'head', 'BAR'):
            case(spec, two, echo, verb, '/u/v1')
            case(spec, two, echo, verb, '/u/v2', warm=dict(verb='GET', path='/u/warm', decodable=True, fw=False, accept=None, env=dict(env)))
        for verb in ('GET', 'HEAD', 'PUT', 'DELETE'):
            for accept in (None, 'application/json'):
                ops = [['A', '/a/<x:int>', ['GET', 'POST'], None, False], ['A', '/a/b', ['PUT'], None, False]]
                case(spec, ops, {}, verb, '/a/12', accept)
                case(spec, ops, {}, verb, '/a/b', accept)
                case(spec, ops, {}, verb, '/a/<b>"\'&', accept)
                case(spec, ops + [['D', 0, ['GET', 'POST']]], {}, verb, '/a/12', accept)
        case(spec, two, echo, 'GET', '/u/v', decodable=False)
    errh = dict(before=[], after=[], errh=[(404, ('c', ('t', 'custom 404'))), (405, ('bd',))])
    for verb in ('GET', 'PUT'):
        case(errh, [['A', '/a', ['GET'], None, False]], {}, verb, '/a')
        case(errh, [['A', '/a', ['GET'], None, False]], {}, verb, '/b')
    # a handler that sets headers / cookies and then fails, with a wildcard call
    case(hooked, [['A', '/w/<n:int>', ['GET'], None, False]], {0: [[('sh', 'X-H', 'v'), ('ck', 'c', 'd')], ('ex',), False]}, 'GET', '/w/5')
    case(hooked, [['A', '/w/<n:int>', ['GET'], None, False]],
         {0: [[('sh', 'X-H', 'v')], ('rr', ('r', True, dict(status=404, headers=[], cookies=[]), ('t', 'gone'))), False]}, 'GET', '/w/5')
    return out


# --------------------------------------------------------------------------------------
# the real application

class AppRunner(G.Runner):
    """plays registration ops on the zoo application; the callbacks are zoo handler programs"""

    def __init__(self, app, log, progs):
        super().__init__()
        self.app = app
        self.router = app.router
        self.log = log
        self.progs = progs

    def add(self, rule, methods, name=None, overwrite=False):
        idx = len(self.ops)
        bad = self._scan_filters(rule) if rule else []
        app, log = self.app, self.log

        def handler(**kw):
            log.append('h')
            meth = app.request.environ.get('ombott.route')
            self.calls.append((idx, getattr(meth, 'name', None), dict(kw)))
            effs, res, echo = self.progs.get(idx) or self.progs.get(str(idx)) or ([], ('ret', ('t', 'h%d' % idx)), False)
            try:
                zoo.run_effs(app.response, effs)
                if echo and res[0] == 'ret':
                    return G.enc_kwargs(kw)
                return zoo.finish(log, res, app)
            except Exception as e:
                from ombott import HTTPResponse
                if not isinstance(e, HTTPResponse):
                    log.failed = True
                raise
        try:
            route = self.router.add(rule, methods, handler, name, overwrite=overwrite)
            self.routes[idx] = route
            ans = 'ok:' + hs(route.pattern)
        except Exception as e:
            ans = 'err:' + G.err_name(e)
        cerr = ';'.join('%s=%s' % (hs(k), v) for k, v in bad) if bad else '~'
        self.ops.append('A|%s|%s|%s|%d|%s' % (hs(rule), hsl([methods] if isinstance(methods, str) else methods),
                                              '~' if name is None else hs(name), 1 if overwrite else 0, cerr))
        self.answers.append(ans)
        return ans


def environ_fix(rq, log):
    """environ overrides for `zoo.serve_one` (absent url keys really absent)"""
    from harness import c20
    raw = rq['path'].encode('utf8') + (b'' if rq['decodable'] else b'\xff')

    def fix(env):
        for _, key in c20.URL_KEYS:
            env.pop(key, None)
        env.pop('HTTP_ACCEPT', None)
        c20.put_urlenv(env, rq['env'])
        env['REQUEST_METHOD'] = rq['verb']
        env['PATH_INFO'] = raw.decode('latin1')
        if rq['accept'] is not None:
            env['HTTP_ACCEPT'] = rq['accept']
        return env
    return raw, fix


def zoo_req(rq):
    return dict(id=1, method=rq['verb'], fw=rq['fw'], path_ok=rq['decodable'], tail='', query='', route=('nf',), json=False)


def url_state(rq, config):
    """(`fullpath` parameter of the model, does Request.url raise?)"""
    from harness import c20
    from ombott.request_pkg import Request
    raw, fix = environ_fix(rq, [])
    env = fix(c20.base_env(rq['verb']))
    if rq['decodable']:
        env['PATH_INFO'] = raw.decode('utf8')
    fp, _ = c20.fullpath_of(env, config)
    fp = c20.lib_param(env, fp)
    try:
        Request(dict(env), config=config).url
        err = None
    except Exception as e:
        err = type(e).__name__
    return fp, err


def allow_refused(app, rq):
    """the 405 this request gets would carry an Allow value `_hval` refuses (a listed seam of App.serve)"""
    if not rq['decodable']:
        return False
    verb = rq['verb'].upper()
    cands = [verb] + (['GET'] if verb == 'HEAD' else []) + ['ANY']
    ep, err = app.router.resolve('/' + rq['path'].lstrip('/'), cands)
    return bool(err) and err[0] == 405 and bool(re.search(r'[\r\n\0]', err[2]))


def run_real(case, validate=False):
    """-> (runner, observations of the measured request | None when Request.url raises, url error name, fullpath parameter)"""
    log = zoo.Log()
    spec = case['spec']
    app = zoo.make_app(spec, log)
    run = AppRunner(app, log, case['progs'])
    for op in case['ops']:
        if op[0] == 'A':
            run.add(op[1], op[2], op[3], op[4])
        else:
            run.remove_method(op[1], op[2])
    cur = dict(routes=set(), prog=None)
    warm = case.get('warm')
    if warm:
        _, werr = url_state(warm, app.config)
        if werr is None:
            _, fix = environ_fix(warm, log)
            try:
                zoo.serve_one(app, log, cur, zoo_req(warm), env_cls=fix)
            except Exception:
                pass
    rq = case['req']
    fp, uerr = url_state(rq, app.config)
    run.calls = []
    if uerr is not None:
        return run, None, 'url-error:' + uerr, fp
    if allow_refused(app, rq):
        return run, None, 'allow-refused', fp
    _, fix = environ_fix(rq, log)
    obs = zoo.serve_one(app, log, cur, zoo_req(rq), env_cls=fix, validate=validate)
    return run, obs, None, fp


def o(x):
    return '~' if x is None else hs(x)


def line_of(case, run, fp):
    from harness import c20
    spec, rq = case['spec'], case['req']
    toks = ['app', 'serve', str(len(run.ops))] + list(run.ops) + zoo.ser_app(spec)
    progs = case['progs']
    toks.append(str(len(progs)))
    for i in sorted(progs, key=int):
        effs, res, echo = progs[i]
        toks += [str(i), zoo.b01(echo)] + zoo.ser_effs(effs) + zoo.ser_res(res)
    raw = rq['path'].encode('utf8') + (b'' if rq['decodable'] else b'\xff')
    envt = run._env_txt(run.env_for(rq['path'].strip('/'))) if rq['decodable'] else '~'
    toks += ['1', hs(rq['verb']), hb(raw), zoo.b01(rq['fw']), o(rq['accept']), c20.urlenv_args(rq['env'], fp), envt]
    return ' '.join(toks)


def plain_spec(spec):
    return not spec['before'] and not spec['after'] and not spec['errh']


def answer_of(case, run, obs, uerr):
    reg = 'reg=' + (','.join(run.answers) if run.answers else '-') + ' '
    if uerr is not None:
        return reg + 'outside:' + uerr
    ev = '.'.join(obs['log']) if obs['log'] else '-'
    called = 'h' in obs['log']
    if called and run.calls:
        idx, mname, kw = run.calls[0]
        call = '%d:%s:%s' % (idx, hs(mname or ''), G.enc_kwargs(kw))
    else:
        call = '-'
    if obs['escaped']:
        return reg + f'call={call} ev={ev} escaped'
    st = obs['starts']
    xh = xp = '0'
    if len(st) == 1:
        status, headers, exc = st[0]
        hd = ','.join(f'{hs(k)}:{hs(v)}' for k, v in headers) if headers else '~'
        start = f'n=1 status={hs(status)} hdrs={hd} exc={1 if exc else 0}'
        cl = '-' if exc or obs['cl'] is None else str(int(obs['cl']))
        xh = 'c' if exc else '1'
        # a routing error (or an undecodable path) of an application without hooks / error handlers is also
        # what Model/ErrorPage describes
        routing_error = not case['req']['decodable'] or not called
        xp = '1' if plain_spec(case['spec']) and routing_error else '-'
    else:
        start = f'n={len(st)}'
        cl = '-'
    return reg + f'call={call} ev={ev} {start} body={hb(obs["data"])} shape={obs["shape"] or "-"} cl={cl} xh={xh} xp={xp}'


def run_case(case, stats=None):
    """-> (line, implementation answer, sample) or None (outside the domain of the encoding)"""
    try:
        run, obs, uerr, fp = zoo.watchdog(lambda: run_real(case), 8)
    except zoo.HangB:
        if stats is not None:
            stats['app:hang'] = stats.get('app:hang', 0) + 1
        return None
    if run.env_overflow:
        return None
    line = line_of(case, run, fp)
    if run.env_overflow:
        return None
    ans = answer_of(case, run, obs, uerr)
    if stats is not None:
        def bump(k):
            stats[k] = stats.get(k, 0) + 1
        bump('app:cases')
        if uerr:
            bump('app:outside:' + uerr.split(':')[0])
        elif obs['starts']:
            code = obs['starts'][0][0][:3]
            bump('app:status:' + code)
            if 'h' in obs['log']:
                bump('app:handler-called')
                if run.calls and run.calls[0][2]:
                    bump('app:handler-with-kwargs')
                if run.calls and run.calls[0][1] and run.calls[0][1] != case['req']['verb'].upper():
                    bump('app:fallback-' + run.calls[0][1])
            if obs['starts'][0][2]:
                bump('app:catchall')
            if case['req']['verb'] == 'HEAD':
                bump('app:head')
            if case.get('warm'):
                bump('app:warmed')
            if any(k.lower() == 'allow' for k, _ in obs['starts'][0][1]):
                bump('app:allow-header')
            if obs['data'].startswith(b'<!doctype html><html><head><title>Error: '):
                bump('app:html-error-page')
            if obs['data'].startswith(b'{"body": '):
                bump('app:json-error-body')
        for a in run.answers:
            bump('app:reg:' + a.split(':')[0] + (':' + a.split(':')[1] if a.startswith('err') else ''))
    return line, ans, dict(kind='app', case=pack(case))


def corr_stream(rng, n, stats):
    out = []
    cases = [gen_case(rng) for _ in range(n)] + systematic_cases()
    for case in cases:
        r = run_case(case, stats)
        if r is not None:
            out.append(r)
    return out


# --------------------------------------------------------------------------------------
# independent oracle, written from the property texts (C01, C02, C03, C14, C20) on the real code only

MARK = 'zq9'


def in_domain(case):
    """the quantifiers of the five properties: decodable path handled by the C03 clauses; rules of the plain
    matcher's domain; statuses / iterables / header names of C03's domain; hooks that do not fail by a statement"""
    from harness.c03 import C03
    chk = C03()
    spec = case['spec']
    for p in case['progs'].values():
        if not chk._in_domain(spec, dict(path_ok=True, route=('h', p[0], p[1]))):
            return False
    return chk._in_domain(spec, dict(path_ok=True, route=('nf',)))


def expected_routing(case):
    """C01 + C02 said directly: shadow method tables kept from the ops, the rule a path selects from the plain
    rule-by-rule matcher.  -> ('skip',) | ('404',) | ('405', [names]) | ('call', op index, method, kwargs | None)"""
    rules, table, pat_of, spec_of, ok = {}, {}, {}, {}, True
    run = G.Runner()
    for i, op in enumerate(case['ops']):
        if op[0] == 'A':
            _, rule, methods, name, ow = op
            ans = run.add(rule, methods, name, ow)
            ms = [m.upper() for m in ([methods] if isinstance(methods, str) else methods)]
            try:
                pat, filters, params = G.rule_spec(rule)
            except Exception:
                if ans.startswith('ok:'):
                    return ('skip',)
                continue
            if ans.startswith('ok:'):
                rules[pat] = filters
                table.setdefault(pat, {})
                for m in ms:
                    table[pat][m] = (i, params)
                pat_of[i] = pat
            elif ans != 'err:RouteMethodError':
                # another rejection (syntax, filter mismatch, name clash after the methods were stored): not
                # what these properties speak about
                if ans == 'err:RouteBuildError':
                    return ('skip',)
        else:
            run.remove_method(op[1], op[2])
            if op[1] in run.routes and op[1] in pat_of:
                for m in op[2]:
                    table[pat_of[op[1]]].pop(m, None)
    rq = case['req']
    verb = rq['verb'].upper()
    cands = [verb] + (['GET'] if verb == 'HEAD' else []) + ['ANY']
    spec = G.spec_resolve(rules, rq['path'].strip('/'))
    if spec[0] == 'skip':
        return ('skip',)
    if spec[0] == 'none':
        return ('404',)
    t = table[spec[1]]
    exp = next((m for m in cands if m in t), None)
    if exp is None:
        return ('405', sorted(t))
    idx, params = t[exp]
    kw = {k: v for k, v in zip(params, spec[2]) if not k.startswith('anon-')}
    return ('call', idx, exp, kw)


def oracle_case(case):
    """-> [(key, what)]"""
    from harness.c03 import C03, start_registration
    bad = []
    run, obs, uerr, _ = zoo.watchdog(lambda: run_real(case, validate=True), 20)
    if uerr is not None:
        return bad
    spec, rq = case['spec'], case['req']
    log, starts = obs['log'], obs['starts']
    called = 'h' in log
    # -- C03 on the composed run: the route result is what the real router did
    if called and run.calls:
        p = case['progs'].get(run.calls[0][0]) or case['progs'].get(str(run.calls[0][0])) or [[], ('ret', ('t', 'h')), False]
        res = ('ret', ('t', 'echo')) if (p[2] and p[1][0] == 'ret') else p[1]      # an echoing handler returns text
        route = ('h', p[0], res)
    else:
        route = ('nf',)
    zreq = dict(zoo_req(rq), route=route)
    for key, what in C03()._clauses(spec, zreq, obs, start_registration(spec)):
        bad.append(('app:' + key, what))
    if obs['escaped'] or obs['complaints'] or len(starts) != 1:
        return bad
    status, headers, exc = starts[0]
    code = int(status[:3])
    # -- C14: no emitted header value carries CR, LF or NUL, whatever the handler program tried
    for k, v in headers:
        if re.search(r'[\r\n\0]', v):
            bad.append(('app:header-control-char', f'header {k!r} emitted with value {v!r}'))
    if not rq['decodable']:
        return bad
    # -- C01 / C02 through the whole application
    hooks_quiet = all(h[1][0] == 'ok' for h in spec['before'])
    exp = expected_routing(case)
    if exp[0] != 'skip' and hooks_quiet:
        after_quiet = all(h[1][0] == 'ok' for h in spec['after'])
        errh = {c for c, _ in spec['errh']}
        if exp[0] == 'call':
            if not called:
                bad.append(('app:handler-not-called', f'{rq["verb"]} {rq["path"]!r}: handler of op {exp[1]} ({exp[2]}) expected, none ran (status {status})'))
            else:
                idx, mname, kw = run.calls[0]
                if (idx, mname) != (exp[1], exp[2]):
                    bad.append(('app:wrong-handler', f'{rq["verb"]} {rq["path"]!r}: handler of op {exp[1]} ({exp[2]}) expected, op {idx} ({mname}) ran'))
                elif kw != exp[3]:
                    bad.append(('app:kwargs', f'{rq["verb"]} {rq["path"]!r}: handler of op {idx} called with {kw!r}, its rule binds {exp[3]!r}'))
        else:
            if called:
                bad.append(('app:handler-called', f'{rq["verb"]} {rq["path"]!r}: expected {exp[0]}, but handler of op {run.calls[0][0] if run.calls else "?"} ran'))
            elif after_quiet and not exc:
                want = int(exp[0])
                if want not in errh and code != want:
                    bad.append(('app:status-404-405', f'{rq["verb"]} {rq["path"]!r}: expected {want}, answered {status!r}'))
                if want == 405 and code == 405 and 405 not in errh:
                    allow = [v for k, v in headers if k.lower() == 'allow']
                    have = allow[0].split(',') if allow and allow[0] else []
                    if len(allow) != 1 or have != exp[1]:
                        bad.append(('app:allow', f'{rq["verb"]} {rq["path"]!r}: Allow {allow!r}, registered {exp[1]}'))
    # -- C20: a framework page shows request text only escaped
    if obs['data'].startswith(b'<!doctype html><html><head><title>Error: ') or exc:
        page = obs['data'].decode('utf8', 'replace')
        for part in (rq['path'], rq['env'].get('qs') or '', rq['env'].get('host') or '', rq['env'].get('fhost') or ''):
            for m in re.findall(r'[<>"\'][^<>"\']{0,6}', part):
                probe = m + MARK
                # only markers we planted are conclusive: a raw special character followed by the marker text
                if MARK in part and probe in page:
                    bad.append(('app:error-page-taint', f'request text {probe!r} appears unescaped in the {code} page'))
    return bad


def pep_case(case):
    """the same case with an environ a PEP 3333 server can send (the oracle runs under wsgiref.validate)"""
    c = dict(case, req=dict(case['req'], env=dict(case['req']['env'])), warm=None)
    rq, env = c['req'], c['req']['env']
    if env['scheme'] not in ('http', 'https'):
        env['scheme'] = 'http'
    env['sname'] = env['sname'] or 'srv'
    env['sport'] = env['sport'] or '80'
    if not env['script'] or not env['script'].startswith('/') or env['script'] == '/':
        env['script'] = ''            # the validator reads the key
    if (rq['path'] or not rq['decodable']) and not rq['path'].startswith('/'):
        rq['path'] = '/' + rq['path']
    if case.get('warm'):
        c['warm'] = pep_case(dict(case, req=case['warm'], warm=None))['req']
    return c


def taint(case):
    """plant the marker behind every special character of the request texts"""
    c = dict(case, req=dict(case['req'], env=dict(case['req']['env'])))
    mark = lambda s: re.sub(r'([<>"\'])', lambda m: m.group(1) + MARK, s) if s else s
    c['req']['path'] = mark(c['req']['path'])
    for k in ('qs', 'host', 'fhost'):
        c['req']['env'][k] = mark(c['req']['env'][k])
    return c


def search_stream(rng, n, pid, seeds, stats):
    findings, evals = [], 0
    cases = [unpack(s['case']) for s in seeds if isinstance(s, dict) and s.get('kind') == 'app' and 'case' in s]
    cases += systematic_cases()
    cases += [gen_case(rng) for _ in range(n)]
    for case in cases:
        if len({f.key for f in findings}) >= 6 or len(findings) >= 40:
            break
        try:
            if not in_domain(case):
                continue
            case = pep_case(case)
            evals += 1
            variants = [case]
            if any(ch in case['req']['path'] + (case['req']['env'].get('qs') or '') for ch in '<>"\''):
                variants.append(taint(case))
            for c in variants:
                for key, what in oracle_case(c):
                    findings.append(Finding(f'{pid}:{key}', what, dict(probe='app', case=pack(c))))
        except zoo.HangB:
            findings.append(Finding(f'{pid}:app:hang', 'request did not finish within 20 s', dict(probe='app', case=pack(case))))
    stats['app:oracle-evals'] = stats.get('app:oracle-evals', 0) + evals
    return evals, findings


def pack(case):
    from harness.c03 import enc
    return enc(dict(case, progs={str(k): v for k, v in case['progs'].items()}))


def unpack(d):
    from harness.c03 import dec

    def lists(x):
        return [lists(i) for i in x] if isinstance(x, (list, tuple)) else x
    c = dec(d)
    c = dict(c)
    c['spec'] = dict(before=[tuple(h) for h in c['spec']['before']], after=[tuple(h) for h in c['spec']['after']],
                     errh=[tuple(e) for e in c['spec']['errh']])
    c['ops'] = [lists(o) for o in c['ops']]
    c['progs'] = {int(k): list(v) for k, v in c['progs'].items()}
    c['req'] = dict(c['req'], env=dict(c['req']['env']))
    if c.get('warm'):
        c['warm'] = dict(c['warm'], env=dict(c['warm']['env']))
    return c


def replay_case(data):
    case = unpack(data['case'] if 'case' in data else data)
    run, obs, uerr, fp = run_real(case)
    out = dict(line=line_of(case, run, fp), impl=answer_of(case, run, obs, uerr))
    try:
        out['oracle'] = oracle_case(case) if in_domain(case) else 'outside the oracle domain'
    except zoo.HangB:
        out['oracle'] = [['app:hang', 'did not finish']]
    out['violates'] = bool(out['oracle']) and out['oracle'] != 'outside the oracle domain'
    if obs:
        out['observed'] = dict(events=list(obs['log']), start_response=obs['starts'], calls=run.calls,
                               body_head=obs['data'][:120].hex())
    return out


# --------------------------------------------------------------------------------------
# hooking the stream into an existing check

APP_ANCHORS = ['ombott/ombott.py', 'ombott/response.py', 'ombott/router/radirouter.py', 'ombott/error_render.py',
               'ombott/common_helpers.py']
APP_RULE = (' || composed stream (app): a real Ombott() with a registration history (1-4 rules from a pool with every filter '
            'kind + generated rules, method tables with ANY / spellings / clashes / overwrite / remove_method), hooks, custom '
            'error handlers and a zoo handler program per route (some echo their kwargs), optionally one unmodelled warm-up '
            'request, then ONE request (verbs incl. HEAD / fallbacks / unregistered, matching, mutated, missing and undecodable '
            'paths, Accept, url environ) through app(environ, start_response) vs App.serve: registration answers, handler call '
            '(id, method, kwargs), events, status line, header list, body, framework Content-Length, plus the agreement bits of '
            'Model/Headers and Model/ErrorPage with Model/Wsgi; oracle: C01/C02/C03/C14/C20 said directly on the composed run')
APP_ASSUMPTIONS = ['composed stream: route hooks (on_route / error(404, rule)), a 405 whose Allow value _hval refuses and a '
                   'request whose Request.url raises are outside App.serve (listed seams); the filter handlers\' answers and '
                   'urljoin\'s authority validation are shipped as in C01 / C20']


def install(cls, quick=(700, 250), thorough=(30000, 6000)):
    """adds the composed stream to check class `cls`"""
    pid = cls.pid
    cls.anchors = list(cls.anchors) + [a for a in APP_ANCHORS if a not in cls.anchors]
    cls.tables = list(cls.tables) + [t for t in ('wsgi', 'router', 'headers', 'errorpage') if t not in cls.tables]
    cls.rule = cls.rule + APP_RULE
    cls.assumptions = list(cls.assumptions) + APP_ASSUMPTIONS
    o_budget, o_corr, o_search, o_replay, o_nontrivial = cls.budget, cls.corr, cls.search, cls.replay, cls.nontrivial

    def budget(self, tier, escalated):
        self._app = (tier, escalated)
        return o_budget(self, tier, escalated)

    def sizes(self):
        tier, esc = getattr(self, '_app', ('quick', False))
        a, b = quick if tier == 'quick' else thorough
        return (a * 3, b * 3) if (esc and tier == 'quick') else (a, b)

    def corr(self, rng, n):
        out = o_corr(self, rng, n)
        if os.environ.get('VERIF_NO_APP'):       # measurement aid: what the check sees without the composed stream
            return out
        if getattr(self, 'stats', None) is None:
            self.stats = {}
        out += corr_stream(rng, sizes(self)[0], self.stats)
        return out

    def search(self, rng, n, seeds):
        evals, findings = o_search(self, rng, n, [s for s in seeds if not (isinstance(s, dict) and s.get('kind') == 'app')])
        if os.environ.get('VERIF_NO_APP'):
            return evals, findings
        if getattr(self, 'stats', None) is None:
            self.stats = {}
        ev, fs = search_stream(rng, sizes(self)[1], pid, seeds, self.stats)
        return evals + ev, list(findings) + fs

    def replay(self, data):
        i = data.get('input')
        if isinstance(i, dict) and (i.get('probe') == 'app' or i.get('kind') == 'app'):
            return replay_case(i)
        return o_replay(self, data)

    def nontrivial(self, sample):
        if isinstance(sample, dict) and sample.get('kind') == 'app':
            return bool(sample.get('case', {}).get('ops'))
        return o_nontrivial(self, sample)

    cls.budget, cls.corr, cls.search, cls.replay, cls.nontrivial = budget, corr, search, replay, nontrivial
    return cls
