"""C12 - malformed request bodies yield client errors, never server faults."""
import re

from harness import core, formlib as fl
from harness.core import hb, hs, Check, Finding

CRLF = b'\r\n'

BAD_NAMES = ['a"b', 'a\nb', 'a\rb', 'a\x1cb', 'a b', '"', 'a\x85', 'a\x0bb', '']
MUT_ALPHA = b'\r\n-xb:;="\xff\xc3'


def gen_fields_wild(rng, boundary):
    """field lists inside and outside the C07 domain"""
    fields = fl.gen_fields(rng, boundary, maxn=4)
    if rng.random() < .3 and fields:
        i = rng.randrange(len(fields))
        f = list(fields[i])
        f[1] = rng.choice(BAD_NAMES)
        if f[0] == 'f' and rng.random() < .5:
            f[2] = rng.choice(BAD_NAMES)
        fields[i] = tuple(f)
    return fields


def mutate(rng, boundary, body):
    """grammar mutations of a well-formed form body"""
    t = fl.delim(boundary)
    body = bytearray(body)
    for _ in range(rng.choice([1, 1, 1, 2, 3])):
        k = rng.randrange(18)
        i = rng.randrange(len(body) + 1)
        s = bytes(body)
        if k == 0 and body:
            del body[min(i, len(body) - 1)]
        elif k == 1:
            body[i:i] = bytes([rng.choice(MUT_ALPHA)])
        elif k == 2 and body:
            body[min(i, len(body) - 1)] = rng.choice(MUT_ALPHA)
        elif k == 3:                                   # duplicated delimiter
            body[i:i] = t + rng.choice([b'', CRLF, b'--', b'\r', b'-', b'x', CRLF + CRLF, CRLF + CRLF + CRLF])
        elif k == 4:                                   # missing delimiter
            j = s.find(t, rng.randrange(len(s) + 1))
            if j >= 0:
                del body[j:j + len(t)]
        elif k == 5:                                   # header without colon
            j = s.find(b': ')
            if j >= 0:
                del body[j:j + 2]
        elif k == 6:                                   # empty header value
            j = s.find(b'Content-Disposition: ')
            if j >= 0:
                e = s.find(CRLF, j)
                body[j + 20:e] = rng.choice([b'', b' ', b'  '])
        elif k == 7:                                   # missing name
            j = s.find(b' name="')
            if j >= 0:
                e = s.find(b'"', j + 7)
                body[j:e + 1] = rng.choice([b'', b' name', b' Name=x', b' nam="x"'])
        elif k == 8:                                   # non-UTF-8 byte in a header / a value
            j = s.find(rng.choice([b'name="', b'\r\n\r\n', b'filename="']))
            if j >= 0:
                body[j + 6:j + 6] = rng.choice([b'\xff', b'\xc3', b'\xed\xa0\x80', b'\xc0\x80'])
        elif k == 9:                                   # empty header block / broken header end
            j = s.find(b'Content-Disposition')
            if j >= 0:
                e = s.find(CRLF + CRLF, j)
                body[j:e] = rng.choice([b'', b'x', b':', b'Content-Type: a'])
        elif k in (14, 15):                            # extra part headers: parameters a parser might act on
            starts = [m for m in range(len(s)) if s.startswith(b'Content-Disposition: ', m)]
            if starts:
                j = rng.choice(starts)
                e = s.find(CRLF, j)
                if e >= 0:
                    body[e:e] = CRLF + rng.choice([
                        b'Content-Type: text/plain; charset=klingon', b'Content-Type: text/plain; charset=hex',
                        b'Content-Type: text/plain; charset=x-user-defined', b'Content-Type: text/plain; charset=utf-16',
                        b'Content-Type: text/plain; charset=', b'Content-Type: text/plain; charset="latin1"',
                        b'Content-Type: text/plain; charset=ascii', b'Content-Type: ; charset=utf-8; boundary=zz',
                        b'Content-Transfer-Encoding: base64', b'Content-Transfer-Encoding: quoted-printable',
                        b'Content-Length: 0', b'Content-Length: -1', b'X-Part: ' + b'y' * 40,
                        b'Content-Disposition: form-data; name="dup"'])
        elif k in (16, 17):                            # amplification: a short token repeated many times inside a part header
            # (algorithmic-complexity class: a parser that backtracks or rescans must still answer, and answer 2xx/4xx)
            sites = [m + len(t_) for t_ in (b' name="', b' filename="', b'form-data;', b'Content-Type: ', b'Content-Disposition: ')
                     for m in range(len(s)) if s.startswith(t_, m)]
            if sites:
                j = rng.choice(sites)
                tok = rng.choice([b'\\"', b'"', b';', b'=', b'\\', b' ', b'a;', b'="', b'";', b'\t', b'(', b'\\"x', b'""', b';=', b'a="b";'])
                rep = tok * rng.choice([20, 33, 48, 64, 70])
                if rng.random() < .5:                  # and the quoted string it sits in never closes
                    e = s.find(b'"', j)
                    le = s.find(CRLF, j)
                    if 0 <= e < le:
                        del body[e]
                body[j:j] = rep
        elif k == 10:
            j = s.find(CRLF)
            if j >= 0:
                body[j:j + 2] = rng.choice([b'\n', b'\r', b'\r\r\n', b'\r\n\n'])
        elif k == 11:
            body[0:0] = rng.choice([b'\r\n', b'\r', b'pre\r\n', b'\rx', b'-', b'x', b'--'])
        elif k == 12:
            body[i:i] = rng.choice([b'\r\n\r', b'\r\n\n', b'\r\n\r\n', b'\r\r', b'\n\n'])
        else:                                          # truncation
            del body[i:]
    return bytes(body)


JSON_POOL = [b'{}', b'{"a": 1}', b'{"a": {"b": [1, 2]}}', b'[]', b'[1]', b'1', b'0', b'"s"', b'null', b'true', b'false', b'',
             b' ', b'{', b'{"a"}', b'{"a": }', b'nul', b'\xff', b'{"a": "\xff"}', b'\xef\xbb\xbf{}', b'\xff\xfe{\x00}\x00',
             b'{"a": 1} x', b'NaN', b'[' * 3000, b'[' * 3000 + b']' * 3000, b'{"a":' * 2000, b'{"\xc3\xa9": "\xe4\xb8\xad"}', b'1e999',
             b'{"a": 1, "a": 2}', b'""', b'[{}]', b'1' * 5000, b'[-' + b'9' * 4400 + b']', b'{"n": ' + b'7' * 6000 + b'}']
URL_POOL = [b'', b'a=1', b'a=1&b=2', b'a', b'&&', b'=', b'a=%zz', b'%', b'a=%C3%A9', b'a=\xff', b'a+b=c+d', b'a=1&a=2', b'\x00=\x00',
            b'a=' + b'x' * 50, b';', b'a=1;b=2', b'%u1234=1', b'a%3Db=c%26d']


def gen_ct(rng, boundary):
    k = rng.random()
    if k < .5:
        return fl.content_type_for(boundary, fl.needs_quote(boundary) or rng.random() < .3), 'multipart'
    if k < .62:
        return rng.choice(['multipart/form-data', 'multipart/form-data; boundary=', 'Multipart/form-data; boundary=' + boundary,
                           'multipart/form-data; Boundary=' + boundary, 'multipart/', 'multipart/form-data; boundary="',
                           'multipart/form-data; boundary=a\rb', 'multipart/form-data; boundary="\r"',
                           'multipart/form-data; boundary=other', 'MULTIPART/FORM-DATA; boundary=' + boundary]), 'multipart-odd'
    if k < .72:
        return rng.choice(['application/x-www-form-urlencoded', 'application/x-www-form-urlencoded; charset=utf-8']), 'urlencoded'
    if k < .9:
        return rng.choice(['application/json', 'application/json; charset=utf-8', 'Application/JSON', 'application/jsonx',
                           ' application/json', 'application/json ;x', 'application/json\xa0', 'application/json;']), 'json'
    return rng.choice([None, '', 'text/plain', 'application/octet-stream', ';', 'application', 'é/è']), 'other'


def gen_payload(rng, boundary, kind):
    """(payload, description)"""
    k = rng.random()
    if kind in ('multipart', 'multipart-odd') or k < .15:
        fields = gen_fields_wild(rng, boundary)
        body = fl.encode_form(boundary, fields, rng.choice([CRLF, CRLF, b'', b'epilogue']))
        r = rng.random()
        if r < .25:
            return body, 'wellformed'
        if r < .85:
            return mutate(rng, boundary, body), 'mutated'
        return bytes(rng.choice(MUT_ALPHA + b'\x00x') for _ in range(rng.randint(0, 40))), 'random'
    if kind == 'json':
        if k < .8:
            return rng.choice(JSON_POOL), 'json'
        return bytes(rng.choice(b'{}[]":,1a \xff') for _ in range(rng.randint(0, 12))), 'json-random'
    if k < .6:
        return rng.choice(URL_POOL), 'urlencoded'
    return bytes(rng.randrange(256) for _ in range(rng.randint(0, 30))), 'random'


def gen_case(rng):
    b = fl.gen_boundary(rng)
    ct, kind = gen_ct(rng, b)
    payload, pk = gen_payload(rng, b, kind)
    chunked = rng.random() < .4
    n = len(payload)
    if chunked:
        wire = fl.chunked_encode(payload, [rng.randint(1, 30) for _ in range(rng.randint(0, 5))], rng.random() < .2)
        r = rng.random()
        if r < .15 and wire:              # broken chunked framing
            i = rng.randrange(len(wire))
            wire = rng.choice([wire[:i], wire[:i] + b'x' + wire[i:], wire[:i] + wire[i + 1:], payload])
        cl = rng.choice([None, None, None, '', str(n), '0'])
    else:
        wire = payload
        cl = rng.choice([str(n)] * 8 + [str(max(0, n - rng.randint(1, 5))), str(n + rng.randint(1, 5)), '0', None, '', '-1', '-7'])
    mm_ = rng.choice([1, 2, 3, 7, 8, 16, 40, 64, max(1, n - 1), max(1, n), n + 1, 300, 102400, 102400])
    max_body = rng.choice([None] * 6 + [0, 10, max(0, n - 1), n])
    accs = [rng.choice('bjpfF') for _ in range(rng.choice([1, 1, 2, 3]))]
    return dict(boundary=b, ct=ct, kind=kind, payload_kind=pk, payload=payload.hex(), wire=wire.hex(), chunked=chunked, cl=cl,
                max_memfile=mm_, max_body=max_body, sched=core.gen_sched(rng, len(wire)), accs=accs)


CALL_BUDGET = 2        # CPU seconds per body-accessor call (core.with_timeout budgets CPU time)
HANG_CAP = 4           # hanging calls per input class and stage after which the class is no longer exercised


def run_case(rig, c, record=True, catch=True):
    return core.with_timeout(lambda: rig.post(c['ct'], bytes.fromhex(c['wire']), c['accs'], cl=c['cl'], chunked=c['chunked'],
                                              max_memfile=c['max_memfile'], sched=c['sched'], max_body=c['max_body'],
                                              record=record, catch=catch), CALL_BUDGET)


def hang_class(c):
    """inputs that take the same path to a loop: content-type class x whether a form accessor is read"""
    return '%s/%s' % (c['kind'], 'form' if any(a in 'pfF' for a in c['accs']) else 'raw')


class HangCap:
    """a hang is established by the first input that shows it; every further one costs a full watchdog budget, so
    a class is dropped after HANG_CAP hangs (and the whole stage after 3 * HANG_CAP)"""

    def __init__(self, stats, stage):
        self.n, self.stats, self.stage = {}, stats, stage

    def skip(self, c):
        if self.n.get(hang_class(c), 0) >= HANG_CAP or sum(self.n.values()) >= 3 * HANG_CAP:
            k = 'hangs_capped_' + self.stage
            self.stats[k] = self.stats.get(k, 0) + 1
            return True
        return False

    def hang(self, c):
        self.n[hang_class(c)] = self.n.get(hang_class(c), 0) + 1
        k = 'hangs_' + self.stage
        self.stats[k] = self.stats.get(k, 0) + 1


def small_cases():
    """truncation at every offset of small bodies, under both framings and several buffers"""
    forms = [('b', [('t', 'a', 'x')]), ('b', [('f', 'a', 'f', None, b'x\r\n-')]), ('-', [('t', 'a', ''), ('t', 'a', 'y')])]
    for b, fields in forms:
        body = fl.encode_form(b, fields)
        ct = fl.content_type_for(b, False)
        for cut in range(len(body) + 1):
            p = body[:cut]
            for chunked in (False, True):
                for mm_ in (7, 102400):
                    for acc in ('f', 'F', 'b'):
                        wire = fl.chunked_encode(p, [5]) if chunked else p
                        yield dict(boundary=b, ct=ct, kind='multipart', payload_kind='truncated', payload=p.hex(), wire=wire.hex(),
                                   chunked=chunked, cl=None if chunked else str(len(p)), max_memfile=mm_, max_body=None, sched=[],
                                   accs=[acc])


class C12(Check):
    pid = 'C12'
    props_mod = 'OmbottModel.Props.C12'
    tables = ['forms', 'multipart']
    design_ref = '6/C12'
    level_text = ('Lean theorems over the model of the body accessors (body, json, POST, forms, files with their environ caches, '
                  '_get_body_string, _raise over the generated errors_map, _raise_parsing_error, the catch-all of _handle) on top '
                  'of the multipart markup and field models: for every content type, content length, reader result (parts or '
                  'RequestError class), buffer size and accessor sequence every outcome is a 2xx or a 4xx; every delivered '
                  'field is the complete data of a delimiter-terminated part. Model tied to the code by a differential run '
                  'through a real Ombott() WSGI call on every run.')
    level_note_extra = ('the body readers are an input of this model (parts yielded or RequestError class; C04/C05/C13 model '
                        'them); json.loads is a parameter assumed to raise only ValueError or RecursionError; parse_qsl is total '
                        '(C18)')
    anchors = ['ombott/request_pkg/body_mixin.py', 'ombott/request_pkg/multipart.py', 'ombott/request_pkg/request.py',
               'ombott/request_pkg/errors.py', 'ombott/ombott.py']
    rule = ('payloads: form bodies from field lists inside and outside the C07 domain, grammar-mutated (missing/duplicated '
            'delimiters, header without colon, empty header value, missing name, non-UTF-8 header/value bytes, empty header '
            'block, broken CRLFs, preamble, truncation), truncation at every offset of small bodies, random bytes, JSON '
            '(valid, non-object, empty, invalid, non-UTF-8, nested beyond the recursion limit), urlencoded text x content '
            'types (multipart quoted/unquoted/odd spellings/without or with a bad boundary, urlencoded, JSON spellings, other, '
            'none) x Content-Length (exact, short, long, 0, negative, absent) or chunked (valid, broken) x max_memfile_size x '
            'max_body_size x read schedules x accessor sequences of 1-3 of body/json/POST/forms/files; the oracle also '
            're-reads forms/files/POST/params after a failed access (same 4xx, never a mapping). non-trivial = the '
            'outcome list contains an error')
    assumptions = ['the body readers raise only RequestError subclasses or deliver parts (C04/C05/C13); CONTENT_LENGTH is an '
                   'integer literal',
                   'json.loads raises only ValueError (incl. JSONDecodeError, UnicodeDecodeError) or RecursionError',
                   'urllib.parse.unquote / parse_qsl are total (C18)',
                   're (MULTIPART_BOUNDARY_PATT, FieldStorage._patt) as the direct functions of Model/Forms.lean (probed tables)',
                   'CONTENT_TYPE is a native (Latin-1) string: str.lower only maps ASCII and Latin-1 capitals']

    def __init__(self):
        self.stats = {}

    def bump(self, k, n=1):
        self.stats[k] = self.stats.get(k, 0) + n

    def budget(self, tier, escalated):
        n = 3000 if tier == 'quick' else 60000
        return n * (3 if escalated and tier == 'quick' else 1)

    def nontrivial(self, sample):
        return bool(sample.get('has_error'))

    # ------------------------------------------------------------------
    def _line(self, c, res):
        cl = int(c['cl'] or -1)
        return fl.req_line(c['ct'], cl, c['max_memfile'], res['rec'], c['accs'])

    def corr(self, rng, n):
        rig = fl.Rig()
        out = []
        cases = list(small_cases()) if n >= 1000 else []
        cases = cases[:: 3 if n < 5000 else 1]
        cases += [gen_case(rng) for _ in range(n)]
        cap = HangCap(self.stats, 'corr')
        for c in cases:
            if cap.skip(c):
                continue
            try:
                res = run_case(rig, c)
            except core.Hang:
                cap.hang(c)
                continue
            line = self._line(c, res)
            self.bump('framing=%s' % res['rec']['framing'])
            self.bump('status=%s' % res['status'])
            self.bump('ct=' + c['kind'])
            self.bump('payload=' + c['payload_kind'])
            for o in res['outs']:
                self.bump('outcome=' + ' '.join(o.split()[:2])[:24] if not o.startswith('ok') else 'outcome=ok')
            if line is None:
                self.bump('not-modelled-framing')
                continue
            out.append((line, fl.req_answer(res), dict(c, has_error=any(not o.startswith('ok') for o in res['outs']))))
        self.stats['corr_lines'] = len(out)
        return out

    # ------------------------------------------------------------------
    # independent oracle: status class, nothing on wsgi.errors, nothing escapes, no hang; delivered data is followed by
    # the delimiter in the sent body
    def _oracle(self, rig, c):
        c = dict(c)
        try:
            res = run_case(rig, c, record=False, catch=False)
        except core.Hang:
            return 'hang:' + hang_class(c), f'the request did not complete within {CALL_BUDGET} s of CPU time'
        if res['escaped']:
            return 'escaped:' + res['escaped'], f'{res["escaped"]} escaped the application'
        st = res['status']
        if st is None or not (200 <= st < 300 or 400 <= st < 500) or res['errors']:
            m = re.findall(r'^(\w+(?:\.\w+)*)(?::|$)', res['errors'], flags=re.M)
            cls = m[-1].split('.')[-1] if m else '-'
            acc = c['accs'][len(res['outs']) - 1] if res['outs'] else '?'
            return f'status-{st}:{cls}', f'{fl.ACC_ATTR.get(acc, acc)} answered {st}: {res["errors"].strip().splitlines()[-1:] }'
        # a failed form parse stays failed: once forms/files/POST raised a 4xx, every later access to
        # forms/files/POST/params of that request raises the same 4xx - none returns a mapping
        if any(a in 'pfF' for a in c['accs']):
            again = dict(c, accs=list(c['accs']) + ['f', 'F', 'p', 'P', [a for a in c['accs'] if a in 'pfF'][0]])
            try:
                res2 = run_case(rig, again, record=False, catch=True)
            except core.Hang:
                return 'hang:' + hang_class(c), f'the request did not complete within {CALL_BUDGET} s of CPU time'
            first = None
            for a, o in zip(again['accs'], res2['outs']):
                if a not in 'pfFP':
                    continue
                if first is None:
                    if not o.startswith('ok'):
                        first = (a, o)
                elif o != first[1]:
                    return ('reread-after-error:' + fl.ACC_ATTR[a],
                            f'{fl.ACC_ATTR[first[0]]} answered {first[1]}, {fl.ACC_ATTR[a]} read afterwards answered {o[:80]}')
        # delivered fields
        if c['kind'] == 'multipart' and st == 200:
            payload = bytes.fromhex(c['payload'])
            t = fl.delim(c['boundary'])
            from ombott.request_pkg.helpers import FileUpload
            for a, v in res['values']:
                if a not in 'pfF' or not isinstance(v, dict):
                    continue
                for k, val in v.items():
                    for it in (val if isinstance(val, list) else [val]):
                        if isinstance(it, FileUpload):
                            s, e = it.file._st, it.file._end
                            if not (0 <= s <= e and payload[e:e + len(t)] == t):
                                return 'truncated-upload', f'upload {k!r} window [{s}:{e}] is not followed by the delimiter'
                        elif isinstance(it, str):
                            if it.encode('utf8') + t not in payload:
                                return 'truncated-field', f'field {k!r} = {it!r} is not followed by the delimiter in the body'
        return None

    def search(self, rng, n, seeds):
        rig = fl.Rig()
        findings, evals = [], 0
        cases = [s for s in seeds if 'wire' in s]
        cases += list(small_cases())[::2]
        # the sites named by the property
        b = 'bnd'
        ct = fl.content_type_for(b, False)
        named = [b'--bnd\r\nContent-Disposition: form-data\r\n\r\nx\r\n--bnd--\r\n',                      # missing name
                 b'--bnd\r\nContent-Disposition form-data; name="a"\r\n\r\nx\r\n--bnd--\r\n',              # missing colon
                 b'--bnd\r\nContent-Disposition:\r\n\r\nx\r\n--bnd--\r\n',                                 # empty header value
                 b'--bnd\r\nContent-Disposition: form-data; name="\xff"\r\n\r\nx\r\n--bnd--\r\n',          # non-UTF-8 header
                 b'--bnd\r\nContent-Disposition: form-data; name="a"\r\n\r\n\xff\r\n--bnd--\r\n',          # non-UTF-8 value
                 b'--bnd\r\n\r\n\r\nx\r\n--bnd--\r\n',                                                    # empty header block
                 b'--bnd\r\nContent-Disposition: form-data; name="a"\r\n\r\nx\r\n--bnd\r\n--bnd--\r\n',     # duplicated delimiter
                 b'--bnd\r\nContent-Disposition: form-data; name="a"\r\n\r\nx',                            # missing delimiter
                 b'pre\r\n--bnd\r\nContent-Disposition: form-data; name="a"\r\n\r\nx\r\n--bnd--\r\n',
                 b'--bnd\r\nContent-Disposition: form-data; name="a"\r\n\r\n' + b'x' * 200 + b'\r\n--bnd--\r\n']
        for p in named:
            for acc in 'fFpb':
                for chunked in (False, True):
                    for mm_ in (64, 102400):
                        wire = fl.chunked_encode(p, [9]) if chunked else p
                        cases.append(dict(boundary=b, ct=ct, kind='multipart', payload_kind='named', payload=p.hex(), wire=wire.hex(),
                                          chunked=chunked, cl=None if chunked else str(len(p)), max_memfile=mm_, max_body=None,
                                          sched=[], accs=[acc]))
        for ctj in ('application/json', 'application/json; charset=utf-8'):
            for p in JSON_POOL:
                for acc in 'jfp':
                    cases.append(dict(boundary=b, ct=ctj, kind='json', payload_kind='json', payload=p.hex(), wire=p.hex(), chunked=False,
                                      cl=str(len(p)), max_memfile=102400, max_body=None, sched=[], accs=[acc]))
        for odd in ('multipart/form-data', 'multipart/form-data; boundary=a\rb', 'Multipart/form-data; boundary=bnd'):
            for acc in 'fFpbj':
                cases.append(dict(boundary=b, ct=odd, kind='multipart-odd', payload_kind='named', payload=named[0].hex(),
                                  wire=named[0].hex(), chunked=False, cl=str(len(named[0])), max_memfile=102400, max_body=None,
                                  sched=[], accs=[acc]))
        # smallest inputs first, so that the first input showing a failure is a small one
        cases += sorted((gen_case(rng) for _ in range(n)), key=lambda c: (len(c['wire']), len(c['accs'])))
        cap = HangCap(self.stats, 'search')
        for c in cases:
            if cap.skip(c):
                continue
            evals += 1
            bad = self._oracle(rig, c)
            if bad and bad[0].startswith('hang'):
                cap.hang(c)
            if bad:
                findings.append(Finding('C12:' + bad[0], bad[1], {k: v for k, v in c.items() if k != 'has_error'}))
        return evals, findings

    def replay(self, data):
        c = data['input']
        rig = fl.Rig()
        try:
            res = run_case(rig, c, record=False, catch=False)
        except core.Hang:
            return dict(input={k: v for k, v in c.items() if k not in ('wire', 'payload')},
                        payload=repr(bytes.fromhex(c['payload'])), wire=repr(bytes.fromhex(c['wire'])),
                        oracle=['hang:' + hang_class(c), f'the request did not complete within {CALL_BUDGET} s of CPU time'])
        return dict(input={k: v for k, v in c.items() if k not in ('wire', 'payload')}, payload=repr(bytes.fromhex(c['payload'])),
                    wire=repr(bytes.fromhex(c['wire'])), status=res['status'], outcomes=res['outs'],
                    wsgi_errors=res['errors'][-600:], escaped=res['escaped'], oracle=self._oracle(rig, c))
