"""C02 - Method dispatch: verb, ANY and HEAD fallbacks, 405 with exact Allow."""
import io
import threading

from harness import core
from harness.core import Check, Finding
from harness import router_gen as G
from harness.c01 import play as _play1

VERBS = ['GET', 'POST', 'PUT', 'DELETE', 'PATCH', 'OPTIONS', 'HEAD']
REG_NAMES = VERBS + ['ANY', 'ANY', 'GET', 'GET', 'get', 'Post', 'any', 'head', 'FOO', 'foo', 'Get']
REQ_VERBS = VERBS + ['ANY', 'get', 'hEAD', 'post', 'FOO', 'foo', 'BAR', 'options', 'HEAD', 'HEAD', 'GET']

RULES = ['/', '/a', '/a/b', '/a/:x', '/a/<x:int>', '/<p:path>', '/u/<x>/e', '/a/<x:re:[a-z]+>', '/ab', '/a/:y',
         '/a/<z:int>', '/u/<k>/e', '/<q.path()>']


PATH_OF = {':x': 'q', ':y': 'q', '<x:int>': '12', '<z:int>': '12', '<p:path>': 'zz/y', '<q.path()>': 'zz/y',
           '<x>': 'm', '<k>': 'm', '<x:re:[a-z]+>': 'abc'}


def path_of(rule):
    p = rule
    for k, v in PATH_OF.items():
        p = p.replace(k, v)
    return p


def respell(rng, m):
    k = rng.random()
    if k < .55:
        return m
    if k < .8:
        return m.lower()
    return m.capitalize()


# ---------------------------------------------------------------------------------------------
# the overlap axis: a second request is served from start to end, on another thread, while the first one is
# in flight.  History op `['V', verb, path, where]`: the request of this op is in flight - `where` = 'before'
# (before_request hook: nothing routed yet), 'handler' (inside its handler, when it reaches one) or 'after'
# (after_request hook: the dispatcher has answered or raised its 404 / 405, nothing is written yet) - when the
# request of the NEXT op (always a `W`) is served on a second thread.  Deterministic: the window starts the
# thread and joins it.  The method tables are not touched by requests, so the model answers both as plain `W`.
WINDOWS = ['before', 'handler', 'after', 'after']


class Runner(G.Runner):
    """G.Runner whose record of handler calls is kept per thread, plus overlapped requests"""

    def __init__(self):
        self._tl = threading.local()
        self._window = None
        super().__init__()
        self.app.add_hook('before_request', lambda: self._enter('before'))
        self.app.add_hook('after_request', lambda: self._enter('after'))

    @property
    def calls(self):
        # (the registered handlers note their call here: that is the window inside the handler)
        if getattr(self._tl, 'inflight', False):
            self._enter('handler')
        return self._tl.__dict__.setdefault('calls', [])

    @calls.setter
    def calls(self, v):
        self._tl.calls = v

    def _enter(self, where):
        w = self._window
        if w and w['where'] == where and w['thread'] == threading.get_ident():
            self._window = None
            t = threading.Thread(target=w['run'], daemon=True)
            t.start()
            t.join(60)        # (the watchdog of the outer request interrupts the wait)

    def plain(self, verb, path):
        """one request through Ombott.__call__, no watchdog of its own: (status, Allow, handler calls)"""
        self.calls = []
        got = {}

        def sr(status, headers, exc_info=None):
            got['status'] = int(status.split()[0])
            got['headers'] = headers
        environ = {
            'REQUEST_METHOD': verb, 'PATH_INFO': path.encode('utf8').decode('latin1'),
            'SERVER_NAME': 'h', 'SERVER_PORT': '80', 'wsgi.url_scheme': 'http',
            'wsgi.input': io.BytesIO(b''), 'wsgi.errors': io.StringIO(), 'SERVER_PROTOCOL': 'HTTP/1.1',
        }
        self._tl.inflight = True
        try:
            out = self.app(environ, sr)
        finally:
            self._tl.inflight = False
        if hasattr(out, 'close'):
            out.close()
        allow = [v for k, v in got.get('headers', []) if k.lower() == 'allow']
        return got.get('status'), (allow[-1] if allow else None), list(self.calls)

    def overlapped(self, verb_a, path_a, where, verb_b, path_b):
        """((status, Allow, calls) of A, the same of B): B served whole while A is in the window"""
        box = {}

        def other():
            try:
                box['b'] = self.plain(verb_b, path_b)
            except BaseException as e:      # noqa
                box['b'] = ('exception %s: %s' % (type(e).__name__, e), None, [])
        self._window = dict(where=where, thread=threading.get_ident(), run=other)
        try:
            a = core.with_timeout(lambda: self.plain(verb_a, path_a), 10)
        finally:
            self._window = None
        if 'b' not in box:
            # the window was not reached (no handler ran): serve B afterwards, the answers must be the same
            box['b'] = core.with_timeout(lambda: self.plain(verb_b, path_b))
            box['late'] = True
        return a, box['b'], bool(box.get('late'))

    def _ans(self, st):
        status, allow, calls = st
        if status == 200 and len(calls) == 1:
            idx, mname, kw = calls[0]
            return 'hit:%d:%s:%s' % (idx, core.hs(mname or ''), G.enc_kwargs(kw))
        if status == 404:
            return '404'
        if status == 405:
            return '405:' + core.hs(allow or '')
        return 'status:%s' % status

    def overlap(self, verb_a, path_a, where, verb_b, path_b):
        env_a, env_b = self.env_for(path_a.strip('/')), self.env_for(path_b.strip('/'))
        a, b, late = self.overlapped(verb_a, path_a, where, verb_b, path_b)
        for verb, path, env, st in ((verb_a, path_a, env_a, a), (verb_b, path_b, env_b, b)):
            self.ops.append('W|%s|%s|%s' % (core.hs(verb), core.hs(path), self._env_txt(env)))
            self.answers.append(self._ans(st))
        return late


def play(run, ops):
    """c01.play plus the overlapped pairs"""
    i = 0
    while i < len(ops):
        op = ops[i]
        if op[0] == 'V' and i + 1 < len(ops) and ops[i + 1][0] == 'W':
            run.overlap(op[1], op[2], op[3], ops[i + 1][1], ops[i + 1][2])
            i += 2
        else:
            _play1(run, [['W'] + list(op[1:3]) if op[0] == 'V' else op])
            i += 1


def gen_history(rng):
    """1-3 routes; a sequence of edits (add on a new or existing route in varying method order and
    spelling, overwrite=True, adds that will be rejected, remove_method of some / all / absent
    methods) and after EVERY edit a probe round: each route (and sometimes a path that matches
    nothing) x several verbs incl. HEAD, an unregistered verb and a registered one, through
    Ombott.__call__ and RadiRouter.resolve.  So probe->remove->probe, probe->overwrite->probe and
    probe->rejected add->probe on one route occur in almost every history."""
    ops = []
    rules = rng.sample(RULES, rng.randint(1, 3))
    paths = [path_of(r) for r in rules]
    shadow = {}                 # rule -> set of upper-case names believed registered (generator's guess)
    adds = {}                   # rule -> op indices of adds on it
    n_edits = rng.randint(3, 8)
    for step in range(n_edits):
        k = rng.random()
        rule = rng.choice(rules)
        reg = shadow.setdefault(rule, set())
        if k < .45 or not adds.get(rule):
            pool = [m for m in VERBS + ['ANY', 'FOO'] if m not in reg] or VERBS
            ms = rng.sample(pool, min(len(pool), rng.choice([1, 1, 2, 3])))
            ow = rng.random() < .15
            kind = 'add'
        elif k < .6:
            # will be rejected (some name already there) unless overwrite
            ms = rng.sample(sorted(reg), 1) if reg else ['GET']
            ms += rng.sample(VERBS, rng.choice([0, 1]))
            ow = False
            kind = 'clash'
        elif k < .72:
            ms = (rng.sample(sorted(reg), min(len(reg), rng.choice([1, 2]))) if reg else ['GET']) + \
                rng.sample(VERBS, rng.choice([0, 1]))
            ow = True
            kind = 'overwrite'
        else:
            kind = 'remove'
        if kind != 'remove':
            rng.shuffle(ms)
            ms = [respell(rng, m) for m in ms]
            arg = ms[0] if (len(ms) == 1 and rng.random() < .3) else ms
            adds.setdefault(rule, []).append(len(ops))
            ops.append(['A', rule, arg, None, ow])
            up = {m.upper() for m in ms}
            if ow or not (up & reg):
                reg |= up
        else:
            i = rng.choice(adds[rule])
            r = rng.random()
            if r < .25 and reg:
                ms = sorted(reg)                      # everything: the route stays, Allow becomes empty
            elif r < .8 and reg:
                ms = rng.sample(sorted(reg), min(len(reg), rng.choice([1, 1, 2])))
            else:
                ms = [rng.choice(VERBS + ['BAR'])]
            if rng.random() < .15:
                ms = [m.lower() for m in ms]          # remove_method takes names as they are: no effect
            else:
                reg -= set(ms)
            ops.append(['D', i, ms])
        # probe round
        targets = list(paths)
        if rng.random() < .3:
            targets.append(rng.choice(['/nope/x', '/a/', '/a/b/c/d', '']))
        for p in targets:
            verbs = ['HEAD', rng.choice(REQ_VERBS)]
            if reg:
                verbs.append(respell(rng, rng.choice(sorted(reg))))
            # the unregistered verb always (405 with the current Allow unless ANY is there)
            for v in ['BAR'] + rng.sample(verbs, rng.choice([1, 2, len(verbs)])):
                if rng.random() < .55:
                    ops.append(['W', v, p])
                else:
                    vu = v.upper()
                    ops.append(['R', p, [vu] + (['GET'] if vu == 'HEAD' else []) + ['ANY']])
        # overlapped pairs: two requests of this round in flight at the same time (two routes with their own
        # method sets, a route and a path that matches nothing, the same route twice), every window
        if rng.random() < .4:
            for _ in range(rng.choice([1, 1, 2])):
                pa = rng.choice(paths)
                others = [p for p in paths if p != pa]
                r = rng.random()
                pb = rng.choice(others) if others and r < .7 else rng.choice(['/nope/x', '/a/b/c/d']) if r < .85 else pa
                if rng.random() < .3:
                    pa, pb = pb, pa
                va, vb = (rng.choice(['BAR', 'BAR', 'HEAD', rng.choice(REQ_VERBS)]) for _ in range(2))
                ops.append(['V', va, pa, rng.choice(WINDOWS)])
                ops.append(['W', vb, pb])
    return ops


class C02(Check):
    pid = 'C02'
    props_mod = 'OmbottModel.Props.C02'
    tables = ['router']
    design_ref = '6/C02'
    anchors = ['ombott/router/radirouter.py', 'ombott/ombott.py']
    level_text = ('Lean theorems over the model of Route method tables, RadiRouter.add/resolve and Ombott.to_route '
                  '(candidate lists regenerated from the live to_route): first registered of [verb, GET for HEAD, '
                  'ANY] wins, otherwise 405 with the sorted duplicate-free registered names, 404 exactly when the '
                  'tree lookup finds no route, for every history of add/overwrite/rejected add/remove_method; tied '
                  'to the code by differential runs through RadiRouter.resolve and Ombott.__call__.')
    level_note_extra = 'str.upper is a parameter of the theorems (ASCII in the correspondence run)'
    rule = ('1-3 routes from a 13-rule pool; 3-8 edits (add in varying method order and spelling over the seven verbs, '
            'ANY and a made-up verb; clashing adds; overwrite=True; remove_method of some/all/absent names) with a '
            'probe round after EVERY edit: every route (and non-matching paths) x HEAD, an unregistered verb, '
            'registered and random verbs through Ombott.__call__ (status, Allow, handler, method) and '
            'RadiRouter.resolve; overlapped pairs in ~40% of the rounds: a second request (another route with its own '
            'method set, a non-matching path, the same route) served from start to end on a second thread while the '
            'first is in flight - in its before_request hook, inside its handler, or in its after_request hook (the '
            'dispatcher has raised its 404/405, nothing written yet); in the model a request is a function of the '
            'method tables only (driver op W returns the state unchanged), so both are answered as plain W; '
            'non-trivial = the history contains a 405 or a fallback hit')
    assumptions = ['str.upper on method names is a parameter of the model (ASCII in the correspondence run)',
                   'which route a path selects is C01\'s business (404/405 split is stated relative to the tree lookup)',
                   'overlap of two requests is exercised at three windows of the first one (hooks, handler) with the second '
                   'served whole; arbitrary line-level interleavings on one application are C08\'s business']

    def __init__(self):
        self.stats = {}

    def budget(self, tier, escalated):
        n = 700 if tier == "quick" else 30000
        return n * (3 if escalated and tier == 'quick' else 1)

    def nontrivial(self, sample):
        return bool(sample.get('interesting'))

    def _bump(self, k, n=1):
        self.stats[k] = self.stats.get(k, 0) + n

    def corr(self, rng, n):
        out = []
        for _ in range(n):
            ops = gen_history(rng)
            run = Runner()
            try:
                play(run, ops)
            except core.Hang:
                self._bump('hang-skipped')
                continue
            interesting = False
            # density of edit sequences seen from one path: 405, then an edit, then 405 again
            last = {}            # path -> (kind of the last edit since the last 405 on it, seen a 405 before)
            for op, (o, ans) in zip(ops, zip(run.ops, run.answers)):
                if op[0] in ('A', 'D'):
                    kind = ('remove' if op[0] == 'D' else 'rejected-add' if ans.startswith('err:') else
                            'overwrite' if op[4] else 'add')
                    for pth in list(last):
                        if last[pth][1]:
                            last[pth] = (kind, True)
                elif op[0] in ('R', 'W', 'V') and ans.startswith('405'):
                    pth = op[2] if op[0] in ('W', 'V') else op[1]
                    k = last.get(pth)
                    if k and k[0]:
                        self._bump('seq-405-%s-405' % k[0])
                    if ans == '405:-':
                        self._bump('405-empty-allow')
                    last[pth] = (None, True)
            for i, op in enumerate(ops):
                if op[0] == 'V':
                    self._bump('overlap-%s:%s+%s' % (op[3], run.answers[i].split(':')[0], run.answers[i + 1].split(':')[0]))
                    if run.answers[i].startswith('405') and run.answers[i + 1].startswith('405') and \
                            run.answers[i] != run.answers[i + 1]:
                        self._bump('overlap-405s-with-different-allow')
            for op, ans in zip(run.ops, run.answers):
                self._bump(op[0] + ':' + ans.split(':')[0])
                if ans.startswith('405'):
                    interesting = True
                if ans.startswith('hit:') and op[0] == 'W':
                    verb = core.unhs(op.split('|')[1]).upper()
                    got = core.unhs(ans.split(':')[2])
                    if got != verb:
                        self._bump('fallback-' + ('GET-for-HEAD' if got == 'GET' else got))
                        interesting = True
            self._bump('ops', len(run.ops))
            out.append((run.line(), run.answer(), dict(ops=ops, interesting=interesting)))
        return out

    # ------------------------------------------------------------------
    def oracle(self, ops):
        """independent statement check on the real code: shadow method tables kept from the ops,
        the route a path selects taken from the plain rule-by-rule matcher"""
        run = Runner()
        rules = {}
        table = {}        # pattern -> {METHOD: handler id}
        pat_of = {}       # add op index -> pattern
        bad = []
        done = set()

        def judge(via, verb, path, cands, st, note, suffix):
            """one request (st = its (status, Allow, calls) when it was already served) against the statement"""
            if via == 'W':
                vu = verb.upper()
                cands = [vu] + (['GET'] if vu == 'HEAD' else []) + ['ANY']
            spec = G.spec_resolve(rules, path.strip('/'))
            if spec[0] == 'skip':
                return
            if via == 'R':
                ep, err = run.router.resolve(path, cands)
                if ep:
                    status, allow, got = 200, None, (run._hid(ep[0]), ep[0].name)
                else:
                    status, allow, got = err[0], (err[2] if err[0] == 405 else None), None
            else:
                status, allow, calls = st if st is not None else run.wsgi_raw(verb, path)
                got = (calls[0][0], calls[0][1]) if len(calls) == 1 else None
            ctx = f'table={ {k: sorted(v) for k, v in table.items()}!r} via={via} request={(verb, path) if via == "W" else (path, cands)!r}' + \
                (' ' + note if note else '')
            if spec[0] == 'none':
                if status != 404:
                    bad.append(('non-matching-not-404' + suffix, f'path matches no route, answered {status}: {ctx}'))
                return
            t = table[spec[1]]
            if status == 404:
                bad.append(('matching-404' + suffix, f'path matches route {spec[1]!r}, answered 404: {ctx}'))
                return
            exp = next((m for m in cands if m in t), None)
            if exp is None:
                if status != 405:
                    bad.append(('no-405' + suffix, f'no candidate of {cands} registered, answered {status}: {ctx}'))
                else:
                    want = sorted(t)
                    have = allow.split(',') if allow else []
                    if have != want:
                        bad.append(('allow' + suffix, f'Allow {allow!r}, registered {want}: {ctx}'))
            else:
                if status == 405:
                    bad.append(('false-405' + suffix, f'{exp} is registered, answered 405: {ctx}'))
                elif status != 200 or got != (t[exp], exp):
                    bad.append(('wrong-handler' + suffix, f'expected handler of {exp} (op {t[exp]}), got {got} status {status}: {ctx}'))

        for i, op in enumerate(ops):
            if op[0] == 'A':
                _, rule, methods, name, ow = op
                ans = run.add(rule, methods, None, ow)
                ms = [m.upper() for m in ([methods] if isinstance(methods, str) else methods)]
                try:
                    pat, filters, params = G.rule_spec(rule)
                except Exception:
                    continue
                t = table.get(pat, {})
                clash = [m for m in ms if m in t]
                if ans.startswith('ok:'):
                    if clash and not ow:
                        bad.append(('add-accepted', f'{rule!r} {ms} accepted although {clash} already registered'))
                    rules[pat] = filters
                    table.setdefault(pat, {})
                    for m in ms:
                        table[pat][m] = i
                    pat_of[i] = pat
                elif ans == 'err:RouteMethodError':
                    if not clash or ow:
                        bad.append(('add-rejected', f'{rule!r} {ms} rejected although none of them is registered'))
                else:
                    return bad          # some other rejection: not this property's business
            elif op[0] == 'D':
                run.remove_method(op[1], op[2])
                if op[1] in run.routes:
                    for m in op[2]:
                        table[pat_of[op[1]]].pop(m, None)
            elif op[0] in ('R', 'W', 'V'):
                run.ops.append('N')          # keeps Runner positions (= handler ids) equal to op positions
                run.answers.append('skip')
                if i in done:
                    continue                 # the partner of an overlapped pair: judged with it
                if op[0] == 'V' and i + 1 < len(ops) and ops[i + 1][0] == 'W':
                    nxt = ops[i + 1]
                    done.add(i + 1)
                    a, b, late = run.overlapped(op[1], op[2], op[3], nxt[1], nxt[2])
                    tag = 'overlapped(%s%s)' % (op[3], ', window not reached' if late else '')
                    judge('W', op[1], op[2], None, a, '%s with %r' % (tag, nxt[1:]), ':overlap' if not late else '')
                    judge('W', nxt[1], nxt[2], None, b, '%s inside %r' % (tag, op[1:3]), ':overlap' if not late else '')
                elif op[0] == 'R':
                    if op[2]:
                        judge('R', None, op[1], list(op[2]), None, '', '')
                else:
                    judge('W', op[1], op[2], None, None, '', '')
        return bad

    def search(self, rng, n, seeds):
        findings, evals = [], 0
        cases = [s['ops'] for s in seeds if 'ops' in s]
        cases.append([['A', '/a', ['GET'], None, False], ['W', 'HEAD', '/a'], ['W', 'POST', '/a'], ['W', 'POST', '/b']])
        cases.append([['A', '/a', ['any', 'put', 'Get'], None, False], ['W', 'post', '/a'], ['D', 0, ['ANY']],
                      ['W', 'post', '/a'], ['W', 'HEAD', '/a']])
        for w in WINDOWS[:3]:
            cases.append([['A', '/a', ['GET'], None, False], ['A', '/u/<x>/e', ['put', 'DELETE'], None, False],
                          ['V', 'POST', '/a', w], ['W', 'POST', '/u/m/e'], ['V', 'GET', '/a', w], ['W', 'BAR', '/u/m/e'],
                          ['V', 'BAR', '/u/m/e', w], ['W', 'HEAD', '/a'], ['V', 'BAR', '/a', w], ['W', 'GET', '/nope']])
        for _ in range(n):
            cases.append(gen_history(rng))
        for ops in cases:
            evals += 1
            try:
                bad = self.oracle(ops)
            except core.Hang:
                bad = [('hang', 'request did not return within the watchdog')]
            except Exception as e:
                bad = [('exception', f'{type(e).__name__}: {e}')]
            for key, what in bad:
                findings.append(Finding(f'C02:{key}', what, dict(ops=ops)))
        return evals, findings

    def replay(self, data):
        ops = data['input']['ops']
        run = Runner()
        play(run, ops)
        return dict(ops=ops, implementation=list(zip(run.ops, run.answers)) if len(run.ops) < 40 else run.answers,
                    oracle=self.oracle(ops))


# the composed stream (one real application, one request, against App.serve of Model/App.lean)
from harness import applib as _applib  # noqa: E402
_applib.install(C02, quick=(300, 120), thorough=(10000, 3000))

# the registration surface (Ombott.route in every call form, shortcuts, hooks, error handlers, aliases, run): an extra
# correspondence stream and oracle
from harness import regapilib as _regapi  # noqa: E402
_regapi.install(C02)
