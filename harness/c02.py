"""C02 - Method dispatch: verb, ANY and HEAD fallbacks, 405 with exact Allow."""
from harness import core
from harness.core import Check, Finding
from harness import router_gen as G
from harness.c01 import play

VERBS = ['GET', 'POST', 'PUT', 'DELETE', 'PATCH', 'OPTIONS', 'HEAD']
REG_NAMES = VERBS + ['ANY', 'ANY', 'GET', 'GET', 'get', 'Post', 'any', 'head', 'FOO', 'foo', 'Get']
REQ_VERBS = VERBS + ['ANY', 'get', 'hEAD', 'post', 'FOO', 'foo', 'BAR', 'options', 'HEAD', 'HEAD', 'GET']

RULES = ['/', '/a', '/a/b', '/a/:x', '/a/<x:int>', '/<p:path>', '/u/<x>/e', '/a/<x:re:[a-z]+>', '/ab', '/a/:y',
         '/a/<z:int>', '/u/<k>/e', '/<q.path()>']


PATH_OF = {':x': 'q', ':y': 'q', '<x:int>': '12', '<z:int>': '12', '<p:path>': 'zz/y', '<q.path()>': 'zz/y',
           '<x>': 'm', '<k>': 'm', '<x:re:[a-z]+>': 'abc'}


def path_of(rule):
    p = rule
    for k, v in PATH_OF.items():
        p = p.replace(k, v)
    return p


def respell(rng, m):
    k = rng.random()
    if k < .55:
        return m
    if k < .8:
        return m.lower()
    return m.capitalize()


def gen_history(rng):
    """1-3 routes; a sequence of edits (add on a new or existing route in varying method order and
    spelling, overwrite=True, adds that will be rejected, remove_method of some / all / absent
    methods) and after EVERY edit a probe round: each route (and sometimes a path that matches
    nothing) x several verbs incl. HEAD, an unregistered verb and a registered one, through
    Ombott.__call__ and RadiRouter.resolve.  So probe->remove->probe, probe->overwrite->probe and
    probe->rejected add->probe on one route occur in almost every history."""
    ops = []
    rules = rng.sample(RULES, rng.randint(1, 3))
    paths = [path_of(r) for r in rules]
    shadow = {}                 # rule -> set of upper-case names believed registered (generator's guess)
    adds = {}                   # rule -> op indices of adds on it
    n_edits = rng.randint(3, 8)
    for step in range(n_edits):
        k = rng.random()
        rule = rng.choice(rules)
        reg = shadow.setdefault(rule, set())
        if k < .45 or not adds.get(rule):
            pool = [m for m in VERBS + ['ANY', 'FOO'] if m not in reg] or VERBS
            ms = rng.sample(pool, min(len(pool), rng.choice([1, 1, 2, 3])))
            ow = rng.random() < .15
            kind = 'add'
        elif k < .6:
            # will be rejected (some name already there) unless overwrite
            ms = rng.sample(sorted(reg), 1) if reg else ['GET']
            ms += rng.sample(VERBS, rng.choice([0, 1]))
            ow = False
            kind = 'clash'
        elif k < .72:
            ms = (rng.sample(sorted(reg), min(len(reg), rng.choice([1, 2]))) if reg else ['GET']) + \
                rng.sample(VERBS, rng.choice([0, 1]))
            ow = True
            kind = 'overwrite'
        else:
            kind = 'remove'
        if kind != 'remove':
            rng.shuffle(ms)
            ms = [respell(rng, m) for m in ms]
            arg = ms[0] if (len(ms) == 1 and rng.random() < .3) else ms
            adds.setdefault(rule, []).append(len(ops))
            ops.append(['A', rule, arg, None, ow])
            up = {m.upper() for m in ms}
            if ow or not (up & reg):
                reg |= up
        else:
            i = rng.choice(adds[rule])
            r = rng.random()
            if r < .25 and reg:
                ms = sorted(reg)                      # everything: the route stays, Allow becomes empty
            elif r < .8 and reg:
                ms = rng.sample(sorted(reg), min(len(reg), rng.choice([1, 1, 2])))
            else:
                ms = [rng.choice(VERBS + ['BAR'])]
            if rng.random() < .15:
                ms = [m.lower() for m in ms]          # remove_method takes names as they are: no effect
            else:
                reg -= set(ms)
            ops.append(['D', i, ms])
        # probe round
        targets = list(paths)
        if rng.random() < .3:
            targets.append(rng.choice(['/nope/x', '/a/', '/a/b/c/d', '']))
        for p in targets:
            verbs = ['HEAD', rng.choice(REQ_VERBS)]
            if reg:
                verbs.append(respell(rng, rng.choice(sorted(reg))))
            # the unregistered verb always (405 with the current Allow unless ANY is there)
            for v in ['BAR'] + rng.sample(verbs, rng.choice([1, 2, len(verbs)])):
                if rng.random() < .55:
                    ops.append(['W', v, p])
                else:
                    vu = v.upper()
                    ops.append(['R', p, [vu] + (['GET'] if vu == 'HEAD' else []) + ['ANY']])
    return ops


class C02(Check):
    pid = 'C02'
    props_mod = 'OmbottModel.Props.C02'
    tables = ['router']
    design_ref = '6/C02'
    anchors = ['ombott/router/radirouter.py', 'ombott/ombott.py']
    level_text = ('Lean theorems over the model of Route method tables, RadiRouter.add/resolve and Ombott.to_route '
                  '(candidate lists regenerated from the live to_route): first registered of [verb, GET for HEAD, '
                  'ANY] wins, otherwise 405 with the sorted duplicate-free registered names, 404 exactly when the '
                  'tree lookup finds no route, for every history of add/overwrite/rejected add/remove_method; tied '
                  'to the code by differential runs through RadiRouter.resolve and Ombott.__call__.')
    level_note_extra = 'str.upper is a parameter of the theorems (ASCII in the correspondence run)'
    rule = ('1-3 routes from a 13-rule pool; 3-8 edits (add in varying method order and spelling over the seven verbs, '
            'ANY and a made-up verb; clashing adds; overwrite=True; remove_method of some/all/absent names) with a '
            'probe round after EVERY edit: every route (and non-matching paths) x HEAD, an unregistered verb, '
            'registered and random verbs through Ombott.__call__ (status, Allow, handler, method) and '
            'RadiRouter.resolve; non-trivial = the history contains a 405 or a fallback hit')
    assumptions = ['str.upper on method names is a parameter of the model (ASCII in the correspondence run)',
                   'which route a path selects is C01\'s business (404/405 split is stated relative to the tree lookup)']

    def __init__(self):
        self.stats = {}

    def budget(self, tier, escalated):
        n = 700 if tier == "quick" else 30000
        return n * (3 if escalated and tier == 'quick' else 1)

    def nontrivial(self, sample):
        return bool(sample.get('interesting'))

    def _bump(self, k, n=1):
        self.stats[k] = self.stats.get(k, 0) + n

    def corr(self, rng, n):
        out = []
        for _ in range(n):
            ops = gen_history(rng)
            run = G.Runner()
            try:
                play(run, ops)
            except core.Hang:
                self._bump('hang-skipped')
                continue
            interesting = False
            # density of edit sequences seen from one path: 405, then an edit, then 405 again
            last = {}            # path -> (kind of the last edit since the last 405 on it, seen a 405 before)
            for op, (o, ans) in zip(ops, zip(run.ops, run.answers)):
                if op[0] in ('A', 'D'):
                    kind = ('remove' if op[0] == 'D' else 'rejected-add' if ans.startswith('err:') else
                            'overwrite' if op[4] else 'add')
                    for pth in list(last):
                        if last[pth][1]:
                            last[pth] = (kind, True)
                elif op[0] in ('R', 'W') and ans.startswith('405'):
                    pth = op[2] if op[0] == 'W' else op[1]
                    k = last.get(pth)
                    if k and k[0]:
                        self._bump('seq-405-%s-405' % k[0])
                    if ans == '405:-':
                        self._bump('405-empty-allow')
                    last[pth] = (None, True)
            for op, ans in zip(run.ops, run.answers):
                self._bump(op[0] + ':' + ans.split(':')[0])
                if ans.startswith('405'):
                    interesting = True
                if ans.startswith('hit:') and op[0] == 'W':
                    verb = core.unhs(op.split('|')[1]).upper()
                    got = core.unhs(ans.split(':')[2])
                    if got != verb:
                        self._bump('fallback-' + ('GET-for-HEAD' if got == 'GET' else got))
                        interesting = True
            self._bump('ops', len(run.ops))
            out.append((run.line(), run.answer(), dict(ops=ops, interesting=interesting)))
        return out

    # ------------------------------------------------------------------
    def oracle(self, ops):
        """independent statement check on the real code: shadow method tables kept from the ops,
        the route a path selects taken from the plain rule-by-rule matcher"""
        from ombott.router.radirouter import Route
        run = G.Runner()
        rules = {}
        table = {}        # pattern -> {METHOD: handler id}
        pat_of = {}       # add op index -> pattern
        bad = []
        for i, op in enumerate(ops):
            if op[0] == 'A':
                _, rule, methods, name, ow = op
                ans = run.add(rule, methods, None, ow)
                ms = [m.upper() for m in ([methods] if isinstance(methods, str) else methods)]
                try:
                    pat, filters, params = G.rule_spec(rule)
                except Exception:
                    continue
                t = table.get(pat, {})
                clash = [m for m in ms if m in t]
                if ans.startswith('ok:'):
                    if clash and not ow:
                        bad.append(('add-accepted', f'{rule!r} {ms} accepted although {clash} already registered'))
                    rules[pat] = filters
                    table.setdefault(pat, {})
                    for m in ms:
                        table[pat][m] = i
                    pat_of[i] = pat
                elif ans == 'err:RouteMethodError':
                    if not clash or ow:
                        bad.append(('add-rejected', f'{rule!r} {ms} rejected although none of them is registered'))
                else:
                    return bad          # some other rejection: not this property's business
            elif op[0] == 'D':
                run.remove_method(op[1], op[2])
                if op[1] in run.routes:
                    for m in op[2]:
                        table[pat_of[op[1]]].pop(m, None)
            elif op[0] in ('R', 'W'):
                run.ops.append('N')          # keeps Runner positions (= handler ids) equal to op positions
                run.answers.append('skip')
                if op[0] == 'R':
                    path, cands = op[1], list(op[2])
                    if not cands:
                        continue
                else:
                    verb = op[1].upper()
                    path, cands = op[2], [verb] + (['GET'] if verb == 'HEAD' else []) + ['ANY']
                spec = G.spec_resolve(rules, path.strip('/'))
                if spec[0] == 'skip':
                    continue
                if op[0] == 'R':
                    ep, err = run.router.resolve(path, cands)
                    if ep:
                        status, allow, got = 200, None, (run._hid(ep[0]), ep[0].name)
                    else:
                        status, allow, got = err[0], (err[2] if err[0] == 405 else None), None
                else:
                    status, allow, calls = run.wsgi_raw(op[1], op[2])
                    got = (calls[0][0], calls[0][1]) if len(calls) == 1 else None
                ctx = f'table={ {k: sorted(v) for k, v in table.items()}!r} via={op[0]} request={op[1:]!r}'
                if spec[0] == 'none':
                    if status != 404:
                        bad.append(('non-matching-not-404', f'path matches no route, answered {status}: {ctx}'))
                    continue
                t = table[spec[1]]
                if status == 404:
                    bad.append(('matching-404', f'path matches route {spec[1]!r}, answered 404: {ctx}'))
                    continue
                exp = next((m for m in cands if m in t), None)
                if exp is None:
                    if status != 405:
                        bad.append(('no-405', f'no candidate of {cands} registered, answered {status}: {ctx}'))
                    else:
                        want = sorted(t)
                        have = allow.split(',') if allow else []
                        if have != want:
                            bad.append(('allow', f'Allow {allow!r}, registered {want}: {ctx}'))
                else:
                    if status == 405:
                        bad.append(('false-405', f'{exp} is registered, answered 405: {ctx}'))
                    elif status != 200 or got != (t[exp], exp):
                        bad.append(('wrong-handler', f'expected handler of {exp} (op {t[exp]}), got {got} status {status}: {ctx}'))
        return bad

    def search(self, rng, n, seeds):
        findings, evals = [], 0
        cases = [s['ops'] for s in seeds if 'ops' in s]
        cases.append([['A', '/a', ['GET'], None, False], ['W', 'HEAD', '/a'], ['W', 'POST', '/a'], ['W', 'POST', '/b']])
        cases.append([['A', '/a', ['any', 'put', 'Get'], None, False], ['W', 'post', '/a'], ['D', 0, ['ANY']],
                      ['W', 'post', '/a'], ['W', 'HEAD', '/a']])
        for _ in range(n):
            cases.append(gen_history(rng))
        for ops in cases:
            evals += 1
            try:
                bad = self.oracle(ops)
            except core.Hang:
                bad = [('hang', 'request did not return within the watchdog')]
            except Exception as e:
                bad = [('exception', f'{type(e).__name__}: {e}')]
            for key, what in bad:
                findings.append(Finding(f'C02:{key}', what, dict(ops=ops)))
        return evals, findings

    def replay(self, data):
        ops = data['input']['ops']
        run = G.Runner()
        play(run, ops)
        return dict(ops=ops, implementation=list(zip(run.ops, run.answers)) if len(run.ops) < 40 else run.answers,
                    oracle=self.oracle(ops))


# the composed stream (one real application, one request, against App.serve of Model/App.lean)
from harness import applib as _applib  # noqa: E402
_applib.install(C02, quick=(300, 120), thorough=(10000, 3000))

# the registration surface (Ombott.route in every call form, shortcuts, hooks, error handlers, aliases, run): an extra
# correspondence stream and oracle
from harness import regapilib as _regapi  # noqa: E402
_regapi.install(C02)
