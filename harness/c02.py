"""C02 - Method dispatch: verb, ANY and HEAD fallbacks, 405 with exact Allow."""
from harness import core
from harness.core import Check, Finding
from harness import router_gen as G
from harness.c01 import play

VERBS = ['GET', 'POST', 'PUT', 'DELETE', 'PATCH', 'OPTIONS', 'HEAD']
REG_NAMES = VERBS + ['ANY', 'ANY', 'GET', 'GET', 'get', 'Post', 'any', 'head', 'FOO', 'foo', 'Get']
REQ_VERBS = VERBS + ['ANY', 'get', 'hEAD', 'post', 'FOO', 'foo', 'BAR', 'options', 'HEAD', 'HEAD', 'GET']

RULES = ['/', '/a', '/a/b', '/a/:x', '/a/<x:int>', '/<p:path>', '/u/<x>/e', '/a/<x:re:[a-z]+>', '/ab', '/a/:y',
         '/a/<z:int>', '/u/<k>/e', '/<q.path()>']


def gen_history(rng):
    """1-4 routes with random method tables, re-registration with and without overwrite,
    per-method removal; then every kind of verb on matching and non-matching paths"""
    ops = []
    n_rules = rng.randint(1, 4)
    rules = rng.sample(RULES, n_rules)
    add_idx = []
    for _ in range(rng.randint(1, 9)):
        k = rng.random()
        if k < .75 or not add_idx:
            rule = rng.choice(rules)
            ms = rng.sample(REG_NAMES, rng.choice([1, 1, 1, 2, 2, 3, 5]))
            if rng.random() < .15:
                ms = ms[0]
            add_idx.append(len(ops))
            ops.append(['A', rule, ms, None, rng.random() < .3])
        else:
            i = rng.choice(add_idx)
            ms = rng.sample(REG_NAMES, rng.choice([1, 1, 2]))
            if rng.random() < .5:
                am = ops[i][2]
                ms = [rng.choice([am] if isinstance(am, str) else am).upper()] + ms[1:]
            ops.append(['D', i, ms])
    paths = []
    for r in rules:
        p = (r.replace(':x', 'q').replace(':y', 'q').replace('<x:int>', '12').replace('<z:int>', '12')
             .replace('<p:path>', 'zz/y').replace('<q.path()>', 'zz/y').replace('<x>', 'm').replace('<k>', 'm')
             .replace('<x:re:[a-z]+>', 'abc'))
        paths.append(p)
    paths += ['/nope/x', '/a/', '/a/b/c/d', '']
    for _ in range(rng.randint(6, 16)):
        v = rng.choice(REQ_VERBS)
        p = rng.choice(paths)
        if rng.random() < .6:
            ops.append(['W', v, p])
        else:
            vu = v.upper()
            ops.append(['R', p, [vu] + (['GET'] if vu == 'HEAD' else []) + ['ANY']])
    return ops


class C02(Check):
    pid = 'C02'
    props_mod = 'OmbottModel.Props.C02'
    tables = ['router']
    design_ref = '6/C02'
    anchors = ['ombott/router/radirouter.py', 'ombott/ombott.py']
    level_text = ('Lean theorems over the model of Route method tables, RadiRouter.add/resolve and Ombott.to_route '
                  '(candidate lists regenerated from the live to_route): first registered of [verb, GET for HEAD, '
                  'ANY] wins, otherwise 405 with the sorted duplicate-free registered names, 404 exactly when the '
                  'tree lookup finds no route, for every history of add/overwrite/rejected add/remove_method; tied '
                  'to the code by differential runs through RadiRouter.resolve and Ombott.__call__.')
    level_note_extra = 'str.upper is a parameter of the theorems (ASCII in the correspondence run)'
    rule = ('1-4 routes from a 13-rule pool with random method tables over the seven verbs, ANY, lower/mixed case and '
            'a made-up verb; re-registration with/without overwrite, remove_method; then 6-16 requests (every verb '
            'spelling x matching / non-matching paths) through Ombott.__call__ (status, Allow, handler, method) '
            'and RadiRouter.resolve; non-trivial = the history contains a 405 or a fallback hit')
    assumptions = ['str.upper on method names is a parameter of the model (ASCII in the correspondence run)',
                   'which route a path selects is C01\'s business (404/405 split is stated relative to the tree lookup)']

    def __init__(self):
        self.stats = {}

    def budget(self, tier, escalated):
        n = 1200 if tier == "quick" else 60000
        return n * (3 if escalated and tier == 'quick' else 1)

    def nontrivial(self, sample):
        return bool(sample.get('interesting'))

    def _bump(self, k, n=1):
        self.stats[k] = self.stats.get(k, 0) + n

    def corr(self, rng, n):
        out = []
        for _ in range(n):
            ops = gen_history(rng)
            run = G.Runner()
            try:
                play(run, ops)
            except core.Hang:
                self._bump('hang-skipped')
                continue
            interesting = False
            for op, ans in zip(run.ops, run.answers):
                self._bump(op[0] + ':' + ans.split(':')[0])
                if ans.startswith('405'):
                    interesting = True
                if ans.startswith('hit:') and op[0] == 'W':
                    verb = core.unhs(op.split('|')[1]).upper()
                    got = core.unhs(ans.split(':')[2])
                    if got != verb:
                        self._bump('fallback-' + ('GET-for-HEAD' if got == 'GET' else got))
                        interesting = True
            self._bump('ops', len(run.ops))
            out.append((run.line(), run.answer(), dict(ops=ops, interesting=interesting)))
        return out

    # ------------------------------------------------------------------
    def oracle(self, ops):
        """independent statement check on the real code: shadow method tables kept from the ops,
        the route a path selects taken from the plain rule-by-rule matcher"""
        from ombott.router.radirouter import Route
        run = G.Runner()
        rules = {}
        table = {}        # pattern -> {METHOD: handler id}
        pat_of = {}       # add op index -> pattern
        bad = []
        for i, op in enumerate(ops):
            if op[0] == 'A':
                _, rule, methods, name, ow = op
                ans = run.add(rule, methods, None, ow)
                ms = [m.upper() for m in ([methods] if isinstance(methods, str) else methods)]
                try:
                    pat, params, filters, _, _ = Route.parse_rule(rule)
                except Exception:
                    continue
                t = table.get(pat, {})
                clash = [m for m in ms if m in t]
                if ans.startswith('ok:'):
                    if clash and not ow:
                        bad.append(('add-accepted', f'{rule!r} {ms} accepted although {clash} already registered'))
                    rules[pat] = filters
                    table.setdefault(pat, {})
                    for m in ms:
                        table[pat][m] = i
                    pat_of[i] = pat
                elif ans == 'err:RouteMethodError':
                    if not clash or ow:
                        bad.append(('add-rejected', f'{rule!r} {ms} rejected although none of them is registered'))
                else:
                    return bad          # some other rejection: not this property's business
            elif op[0] == 'D':
                run.remove_method(op[1], op[2])
                if op[1] in run.routes:
                    for m in op[2]:
                        table[pat_of[op[1]]].pop(m, None)
            elif op[0] in ('R', 'W'):
                if op[0] == 'R':
                    path, cands = op[1], list(op[2])
                    if not cands:
                        continue
                else:
                    verb = op[1].upper()
                    path, cands = op[2], [verb] + (['GET'] if verb == 'HEAD' else []) + ['ANY']
                spec = G.spec_resolve(rules, path.strip('/'))
                if spec[0] == 'skip':
                    continue
                if op[0] == 'R':
                    ep, err = run.router.resolve(path, cands)
                    if ep:
                        status, allow, got = 200, None, (run._hid(ep[0]), ep[0].name)
                    else:
                        status, allow, got = err[0], (err[2] if err[0] == 405 else None), None
                else:
                    status, allow, calls = run.wsgi_raw(op[1], op[2])
                    got = (calls[0][0], calls[0][1]) if len(calls) == 1 else None
                ctx = f'table={ {k: sorted(v) for k, v in table.items()}!r} via={op[0]} request={op[1:]!r}'
                if spec[0] == 'none':
                    if status != 404:
                        bad.append(('non-matching-not-404', f'path matches no route, answered {status}: {ctx}'))
                    continue
                t = table[spec[1]]
                if status == 404:
                    bad.append(('matching-404', f'path matches route {spec[1]!r}, answered 404: {ctx}'))
                    continue
                exp = next((m for m in cands if m in t), None)
                if exp is None:
                    if status != 405:
                        bad.append(('no-405', f'no candidate of {cands} registered, answered {status}: {ctx}'))
                    else:
                        want = sorted(t)
                        have = allow.split(',') if allow else []
                        if have != want:
                            bad.append(('allow', f'Allow {allow!r}, registered {want}: {ctx}'))
                else:
                    if status == 405:
                        bad.append(('false-405', f'{exp} is registered, answered 405: {ctx}'))
                    elif status != 200 or got != (t[exp], exp):
                        bad.append(('wrong-handler', f'expected handler of {exp} (op {t[exp]}), got {got} status {status}: {ctx}'))
        return bad

    def search(self, rng, n, seeds):
        findings, evals = [], 0
        cases = [s['ops'] for s in seeds if 'ops' in s]
        cases.append([['A', '/a', ['GET'], None, False], ['W', 'HEAD', '/a'], ['W', 'POST', '/a'], ['W', 'POST', '/b']])
        cases.append([['A', '/a', ['any', 'put', 'Get'], None, False], ['W', 'post', '/a'], ['D', 0, ['ANY']],
                      ['W', 'post', '/a'], ['W', 'HEAD', '/a']])
        for _ in range(n):
            cases.append(gen_history(rng))
        for ops in cases:
            evals += 1
            try:
                bad = self.oracle(ops)
            except core.Hang:
                bad = [('hang', 'request did not return within the watchdog')]
            except Exception as e:
                bad = [('exception', f'{type(e).__name__}: {e}')]
            for key, what in bad:
                findings.append(Finding(f'C02:{key}', what, dict(ops=ops)))
        return evals, findings

    def replay(self, data):
        ops = data['input']['ops']
        run = G.Runner()
        play(run, ops)
        return dict(ops=ops, implementation=list(zip(run.ops, run.answers)) if len(run.ops) < 40 else run.answers,
                    oracle=self.oracle(ops))
