"""Seeded faults for C06 (BUILDING.md "Checking that the check can fail").

    git -C /repo worktree add --detach /work/r/x HEAD
    PYTHONPATH=. /venv/bin/python -m harness.selftest_c06 /work/r/x [F1 F3 ...]
    git -C /repo worktree remove --force /work/r/x

Each fault is applied to the scratch copy alone (never to /repo), the repository's own tests are
run there, then `./check C06` with OMBOTT_REPO pointing at the copy; expected: exit 1 with an
input-level replay (kind=input) for every fault.  R1/R2 are the reverts of the two `fix:` commits."""
import glob
import json
import os
import shutil
import subprocess
import sys

V = os.path.dirname(os.path.dirname(os.path.abspath(__file__)))
F = 'ombott/request_pkg/multipart.py'

REVERTS = {'R1-final-hyphen-slice': 'a4e1c04', 'R2-chunk-after-closing-delimiter': 'ae26df4'}

FAULTS = {
    'F1-forget-trest-at-chunk-end': (
        "        self.trest_len, self.trest = trest_len, trest\n",
        "        self.trest_len, self.trest = None, None\n"),
    'F2-block-stride-tlen-1': (          # the repository's own test goes red as well
        "            start += tlen\n",
        "            start += tlen - 1\n"),
    'F3-hee-offset': (
        "                return base + expected_len - CRLFx2_LEN\n",
        "                return base + expected_len - CRLFx2_LEN + 1\n"),
    'F3b-hee-slice': (
        "            self.headers_end_expected = CRLFx2[len(end_head):]\n",
        "            self.headers_end_expected = CRLFx2[len(end_head) + 1:]\n"),
    'F4-tail-trest-len-not-decremented': (
        "                        trest_len -= part_len\n",
        "                        pass\n"),
    'F5-start-boundary-virtual-prefix': (
        "            self.trest = boundary\n            self.trest_len = len(boundary)\n",
        "            self.trest = boundary[1:]\n            self.trest_len = len(boundary) - 1\n"),
    'F6-single-byte-after-delim-map-swapped': (
        "            CR: self._eat_lf,\n            HYPHEN: self._eat_last_hyphen\n",
        "            CR: self._eat_last_hyphen,\n            HYPHEN: self._eat_lf\n"),
    'F7-abs-start-after-headers': (
        "                start_next_sec = end_section + CRLFx2_LEN\n                cur_meth = eat_data\n"
        "                skip_start = 0\n",
        "                start_next_sec = end_section + CRLFx2_LEN\n                cur_meth = eat_data\n"
        "                skip_start = 0 if end_section >= 0 else 1\n"),
    'F8-match-tail-first-candidate-only': (   # the repository's own test goes red as well
        "            if s[start + search_pos:end] == thead:  # if s_tail == token_head\n                return i\n",
        "            if s[start + search_pos:end] == thead:  # if s_tail == token_head\n                return i\n"
        "            return\n"),
    'F9-block-end-off-by-one': (
        "            if end > chunk_len:\n",
        "            if end >= chunk_len:\n"),
}


def run(scratch, only):
    for name in list(REVERTS) + list(FAULTS):
        if only and name.split('-')[0] not in only:
            continue
        subprocess.run(['git', '-C', scratch, 'reset', '-q', '--hard', 'HEAD'], check=True)
        if name in REVERTS:
            subprocess.run(['git', '-C', scratch, 'revert', '-n', REVERTS[name]], check=True, capture_output=True)
        else:
            a, b = FAULTS[name]
            p = os.path.join(scratch, F)
            src = open(p).read()
            assert src.count(a) == 1, (name, src.count(a))
            open(p, 'w').write(src.replace(a, b))
        t = subprocess.run(['/venv/bin/python', '-m', 'pytest', '-q', '-p', 'no:cacheprovider'], cwd=scratch,
                           capture_output=True, text=True)
        shutil.rmtree(os.path.join(V, 'replays'), ignore_errors=True)
        c = subprocess.run(['./check', 'C06'], cwd=V, capture_output=True, text=True,
                           env=dict(os.environ, OMBOTT_REPO=scratch))
        keys = []
        for f in glob.glob(os.path.join(V, 'replays', '*.json')):
            d = json.load(open(f))
            keys.append((d['kind'], d.get('key')))
        print(name, '| repo tests', 'green' if t.returncode == 0 else 'RED', '| check rc', c.returncode, '|',
              c.stdout.strip().split('\n')[-1], '|', sorted(keys))
        sys.stdout.flush()
    subprocess.run(['git', '-C', scratch, 'reset', '-q', '--hard', 'HEAD'], check=True)
    shutil.rmtree(os.path.join(V, 'replays'), ignore_errors=True)


if __name__ == '__main__':
    run(sys.argv[1], sys.argv[2:])
