"""C14 - Response header values cannot split the response and are wire-safe."""
import io
import math
import random

from harness import core
from harness.core import hs, hb, Check, Finding

# ----------------------------------------------------------------------------------------
# value / name / status pools

NAMES = ['Content-Type', 'content-type', 'CONTENT-TYPE', 'Content-Length', 'content-length',
         'cOnTeNt-LeNgTh', 'Content-MD5', 'Content-Md5', 'content-md5', 'Last-Modified', 'last-modified',
         'Allow', 'ALLOW', 'allow', 'Content-Range', 'content-range', 'Content-Encoding', 'content-encoding',
         'Content-Language', 'CONTENT-LANGUAGE', 'Expires', 'X-A', 'x-a', 'X-B', 'Set-Cookie', 'X_y',
         'x1a', 'Content_Length', 'Location']
ENTITY_304 = ['Allow', 'Content-Encoding', 'Content-Language', 'Content-Length', 'Content-Range',
              'Content-Type', 'Content-Md5', 'Last-Modified']       # RFC 2616 10.3.5 (names title-cased)
ENTITY_204 = ['Content-Type']
STATUSES = [200, 200, 204, 304, 304, 404, 500, 100, 101, 206, 999]
BAD_STATUSES = [0, 99, 1000, -1]
BASE_TEXT = ['x', '', 'text/plain', 'a b', '12', 'caf\xe9', '\xff\x80', '\u20acuro', '\u65e5\u672c', '\U0001d11e',
             'a\U0001f600b\xe9\u20ac', 'GET, POST', 'bytes 0-3/10', '\x7f', 'a\tb', 'a\x0bb', 'a\x0cb', 'a\x1fb',
             '\x85', 'a\xa0b', 'a\u2028b', ' ', 'W/"etag"']
CTL = ['\r', '\n', '\0', '\r\n']


class Obj:
    def __str__(self):
        return 'obj'


OTHERS = {'object': lambda: object(), 'list': lambda: ['a'], 'tuple': lambda: ('a',), 'dict': lambda: {'a': 1},
          'strobj': lambda: Obj(), 'set': lambda: {1}, 'complex': lambda: 1j, 'bytearray': lambda: bytearray(b'x')}


def gen_text(rng):
    k = rng.randrange(10)
    if k < 4:
        return rng.choice(BASE_TEXT)
    if k < 8:                    # a control character at a chosen position
        base = rng.choice(BASE_TEXT)
        pos = rng.randint(0, len(base))
        return base[:pos] + rng.choice(CTL) + base[pos:]
    n = rng.randint(0, 6)
    return ''.join(rng.choice(['a', 'Z', '0', ' ', ';', '=', '"', '\\', '\xe9', '\xa0', '\u0100', '\u20ac', '\ud7ff',
                               '\ue000', '\uffff', '\U00010000', '\U0010ffff', '\r', '\n', '\0', '\x01', '\x7f',
                               '\x80']) for _ in range(n))


def gen_val(rng):
    """a tagged, JSON-able value description"""
    k = rng.randrange(20)
    if k < 11:
        return ['s', gen_text(rng)]
    if k < 13:
        return ['i', rng.choice([0, 1, -1, 42, 10 ** 20, -7, 255, 1024])]
    if k < 15:
        return ['f', rng.choice(['1.5', '-0.0', '1e+100', 'nan', 'inf', '-inf', '0.1', '3.0'])]
    if k == 15:
        return ['b', rng.random() < .5]
    if k == 16:
        return ['n']
    if k == 17:
        return ['y', rng.choice([b'x', b'', b'a\nb', b'\xff']).hex()]
    return ['o', rng.choice(sorted(OTHERS))]


def mk(v):
    t = v[0]
    if t == 's':
        return v[1]
    if t == 'i':
        return v[1]
    if t == 'f':
        return float(v[1])
    if t == 'b':
        return bool(v[1])
    if t == 'n':
        return None
    if t == 'y':
        return bytes.fromhex(v[1])
    return OTHERS[v[1]]()


def enc_val(v):
    t = v[0]
    if t == 's':
        return 's' + hs(v[1])
    if t == 'i':
        return 'i%d' % v[1]
    if t == 'f':
        return 'f' + hs(str(float(v[1])))
    if t == 'b':
        return 'bT' if v[1] else 'bF'
    if t == 'n':
        return 'n'
    if t == 'y':
        return 'y' + hb(bytes.fromhex(v[1]))
    return 'o'


def text_of(v):
    """str() of an acceptable value, None for the refused types"""
    return None if v[0] in 'yo' else str(mk(v))


def has_ctl(s):
    return '\r' in s or '\n' in s or '\0' in s


# ----------------------------------------------------------------------------------------
# class: text that is not well-formed Unicode (lone surrogates).  Python strings that came from the OS (os.fsdecode file
# names, os.environ, sys.argv: U+DC80..U+DCFF stand for undecodable bytes), from json.loads of an escaped half pair, or from
# a 'surrogatepass' decode carry them.  Such a text has no UTF-8 form, so the only way to satisfy "every emitted value
# decodes back to the original text as UTF-8" is to emit nothing for it (refuse at the setter or fail the header list);
# any emitted value must still decode back to exactly the text that was set.  ORACLE-ONLY stream (not fed to the model).
SUR_UNITS = ['\udc80', '\udce9', '\udcff', '\udcc3\udca9', '\udce2\udc82\udcac', '\ud800', '\udbff', '\udc00', '\udc7f',
             '\udd00', '\udfff', '\ude00\ud83d', '\udcc3(', '\udcf0\udc9f\udc98\udc80']
SUR_BASES = ['', 'ab', 'attachment; filename="caf.txt"', 'caf\xe9', '\u20acuro', '\U0001f600', 'a b']


def has_sur(s):
    return any(0xD800 <= ord(c) <= 0xDFFF for c in s)


def gen_sur_text(rng):
    base = rng.choice(SUR_BASES)
    for _ in range(rng.choice([1, 1, 1, 2, 3])):
        pos = rng.randint(0, len(base))
        if rng.random() < .7:
            u = rng.choice(SUR_UNITS)
        else:
            u = ''.join(chr(rng.choice([rng.randint(0xDC80, 0xDCFF), rng.randint(0xD800, 0xDFFF)]))
                        for _ in range(rng.randint(1, 4)))
        base = base[:pos] + u + base[pos:]
    return base


def sur_ops(rng, ops):
    """put an ill-formed text into some string values of an op list (every place a value can stand)"""
    def sub(v):
        if isinstance(v, list) and v and v[0] == 's' and not has_ctl(v[1]) and rng.random() < .5:
            return ['s', gen_sur_text(rng)]
        return v
    out = []
    for op in ops:
        op = list(op)
        t = op[0]
        if t in ('set', 'app', 'sdf', 'prop'):
            op[2] = sub(op[2])
        elif t in ('init', 'errh', 'err'):
            op[2] = [[k, sub(v)] for k, v in op[2]]
            if t == 'init':
                op[3] = [[k, sub(v)] for k, v in op[3]]
        elif t == 'ck' and isinstance(op[2], str) and rng.random() < .5:
            op[2] = gen_sur_text(rng)
        out.append(op)
    return out


def ops_texts(ops):
    """every text offered as a header / cookie value by an op list"""
    out = []
    for op in ops:
        t = op[0]
        vs = []
        if t in ('set', 'app', 'sdf', 'prop'):
            vs = [op[2]]
        elif t in ('init', 'errh', 'err'):
            vs = [v for _, v in op[2]] + ([v for _, v in op[3]] if t == 'init' else [])
        elif t == 'ck':
            out.append(str(op[2]))
        for v in vs:
            if isinstance(v, list) and v and v[0] == 's':
                out.append(v[1])
    return out


# ----------------------------------------------------------------------------------------
# the CONTAINER in which the `headers` constructor argument arrives (class: what is handed to a constructor is not
# always a list of pairs).  Sequence-like: the loop sees (name, value) pairs.  dict-like: asked for .items().
# Mappings that are not a dict - a HeaderDict filled through its constructor or update() (neither validates), the
# .headers of another response or of an upload, a read-only mapping proxy: holding a value is no proof that the value
# went through a guarded setter, so nothing of it may reach the header list unvalidated.
SEQ_SHAPES = ['list', 'tuple', 'gen']
DICT_SHAPES = ['dict', 'odict']
MAP_SHAPES = ['hd', 'hdu', 'resp', 'upload', 'proxy']
ALL_SHAPES = SEQ_SHAPES + DICT_SHAPES + MAP_SHAPES


def op_shape(op):
    if op[0] == 'init':
        return op[4] if len(op) > 4 else 'list'
    if op[0] == 'errh':
        return op[3]
    return None


def mk_container(shape, pairs):
    """the object handed over as `headers=`: `pairs` = [[name, value description], ...]"""
    import collections
    import types
    from ombott.common_helpers import HeaderDict
    items = [(k, mk(v)) for k, v in pairs]
    if shape == 'list':
        return items
    if shape == 'tuple':
        return tuple(items)
    if shape == 'gen':
        return (p for p in items)
    if shape == 'dict':
        return dict(items)
    if shape == 'odict':
        return collections.OrderedDict(items)
    if shape == 'hd':               # HeaderDict(mapping): stored as given
        return HeaderDict(dict(items))
    if shape == 'hdu':              # HeaderDict().update(mapping): stored as given
        h = HeaderDict()
        h.update(dict(items))
        return h
    if shape == 'resp':             # the live .headers of another response object
        from ombott.response import HTTPResponse
        other = HTTPResponse()
        other.headers.update(dict(items))
        return other.headers
    if shape == 'upload':           # the .headers of an upload
        from ombott.request_pkg.helpers import FileUpload
        return FileUpload(io.BytesIO(b''), 'f', 'f.txt', dict(items)).headers
    if shape == 'proxy':
        return types.MappingProxyType(dict(items))
    raise ValueError(shape)


def gen_shaped(rng):
    """-> (pairs, shape) for a constructor's `headers` argument"""
    k = rng.randrange(10)
    if k < 4:
        return gen_pairs(rng), 'list'
    shape = rng.choice(ALL_SHAPES)
    pairs = gen_pairs(rng)
    if shape in MAP_SHAPES and rng.random() < .35:      # keys of two characters are taken apart by the unpacking loop
        pairs = [[rng.choice(['TE', 'Xa', 'x1', 'X-A']), gen_val(rng)] for _ in range(rng.randint(1, 3))]
    return pairs, shape


def gen_pairs(rng, maxn=3):
    return [[rng.choice(NAMES), gen_val(rng)] for _ in range(rng.randint(0, maxn))]


def gen_status(rng, none_ok=True):
    k = rng.randrange(12)
    if k == 0 and none_ok:
        return None
    if k == 1:
        return rng.choice(BAD_STATUSES)
    return rng.choice(STATUSES)


def gen_op(rng):
    k = rng.randrange(100)
    name = rng.choice(NAMES)
    if k < 22:
        return ['set', name, gen_val(rng)]
    if k < 44:
        return ['app', name, gen_val(rng)]
    if k < 56:
        v = gen_val(rng)
        while v == ['o', 'list']:      # setdefault(key, list) is the documented unguarded path (not a single value)
            v = gen_val(rng)
        return ['sdf', name, v]
    if k < 68:
        p, v = rng.choice(['ct', 'cl', 'ex']), gen_val(rng)
        if p == 'ex' and v[0] != 's':
            # the date writer's own failures are a parameter of the model; keep to the classes Py.Err names
            from ombott.response import http_date
            try:
                http_date(mk(v))
            except (ValueError, TypeError, KeyError, IndexError, AttributeError) as e:
                if type(e).__name__ not in ('ValueError', 'TypeError', 'KeyError', 'IndexError', 'AttributeError'):
                    v = ['i', 0]
            except Exception:   # noqa  (OverflowError for inf / 1e100)
                v = ['i', 86400]
        return ['prop', p, v]
    if k < 72:
        return ['del', name]
    if k < 75:
        return ['clr', [rng.choice(NAMES) for _ in range(rng.randint(0, 2))]]
    if k < 84:
        return ['st', gen_status(rng, none_ok=False)]
    if k < 90:
        pairs, shape = gen_shaped(rng)
        return ['init', gen_status(rng), pairs, gen_pairs(rng, 2), shape]
    if k < 96:
        return ['err', gen_status(rng), gen_pairs(rng)]
    return ['ck', rng.choice(['a', 'sid', 'B']), rng.choice(['v', 'a b', 'caf\xe9', 'x;y', '\u20ac', ''])]


def gen_ops(rng):
    ops = [gen_op(rng) for _ in range(rng.randint(1, 7))]
    if rng.random() < .5:     # make 204/304 frequent as the *final* status
        ops.insert(rng.randint(0, len(ops)), ['st', rng.choice([204, 304, 304])])
    return ops


PROPS = {'ct': 'content_type', 'cl': 'content_length', 'ex': 'expires'}
PROP_NAMES = {'ct': 'Content-Type', 'cl': 'Content-Length', 'ex': 'Expires'}


def enc_pairs(pairs):
    return ','.join(f'{hs(k)}={enc_val(v)}' for k, v in pairs) if pairs else '~'


def enc_op(op):
    from ombott.response import http_date
    t = op[0]
    if t in ('set', 'app', 'sdf'):
        return f'{t}:{hs(op[1])}:{enc_val(op[2])}'
    if t == 'prop':
        fmt = '-'
        if op[1] == 'ex' and op[2][0] != 's':
            # the outcome of calendar/email.utils on a non-str is a parameter of the model
            try:
                fmt = 'k' + hs(http_date(mk(op[2])))
            except Exception as e:
                fmt = 'e' + type(e).__name__
        return f'prop:{op[1]}:{enc_val(op[2])}:{fmt}'
    if t == 'del':
        return f'del:{hs(op[1])}'
    if t == 'clr':
        return 'clr:' + core.hsl(op[1])
    if t == 'st':
        return f'st:{op[1]}'
    if t == 'init' and op_shape(op) in MAP_SHAPES:      # the model is told the KEYS only: the values are never its business
        return f'initmap:{core.opt(op[1])}:{core.hsl([k for k, _ in op[2]])}:{enc_pairs(op[3])}'
    if t == 'init':
        return f'init:{core.opt(op[1])}:{enc_pairs(op[2])}:{enc_pairs(op[3])}'
    if t == 'err':
        return f'err:{core.opt(op[1])}:{enc_pairs(op[2])}'
    if t == 'ck':
        from http.cookies import SimpleCookie
        c = SimpleCookie()
        c[op[1]] = op[2]
        return f'ck:{hs(op[1])}:{hs(c[op[1]].OutputString())}'
    raise ValueError(op)


def apply_op(resp, op, raise_last=False):
    """run one operation on a real response object; returns 'ok' or the exception class name.
    With raise_last an `err` operation raises the HTTPError instead of applying it itself."""
    from ombott.response import HTTPError
    t = op[0]
    try:
        if t == 'set':
            resp.headers[op[1]] = mk(op[2])
        elif t == 'app':
            resp.headers.append(op[1], mk(op[2]))
        elif t == 'sdf':
            resp.headers.setdefault(op[1], mk(op[2]))
        elif t == 'prop':
            setattr(resp, PROPS[op[1]], mk(op[2]))
        elif t == 'del':
            del resp.headers[op[1]]
        elif t == 'clr':
            resp.headers.clear(*op[1])
        elif t == 'st':
            resp.status = op[1]
        elif t == 'init':
            resp.__init__('', op[1], mk_container(op_shape(op), op[2]), **{k: mk(v) for k, v in _dedup(op[3])})
        elif t == 'errh':       # HTTPError(status, body, headers=<container>)
            e = HTTPError(op[1], '', headers=mk_container(op[3], op[2]))
            if raise_last:
                return e
            e.apply(resp)
        elif t == 'err':
            e = HTTPError(op[1], '', **{k: mk(v) for k, v in _dedup(op[2])})
            if raise_last:
                return e
            e.apply(resp)
        elif t == 'ck':
            resp.set_cookie(op[1], op[2])
        return 'ok'
    except Exception as e:      # noqa
        return type(e).__name__


def _dedup(pairs):
    """keyword arguments: a repeated name keeps its first position and takes the last value"""
    d = {}
    for k, v in pairs:
        d[k] = v
    return list(d.items())


def norm_ops(ops):
    """make the op list say what the Python call will really receive (kwargs are a dict)"""
    out = []
    for op in ops:
        if op[0] == 'init':
            sh = op_shape(op)
            hdrs = [list(p) for p in _dedup(op[2])] if sh in DICT_SHAPES + MAP_SHAPES else op[2]
            out.append(['init', op[1], hdrs, [list(p) for p in _dedup(op[3])], sh])
        elif op[0] == 'errh':
            out.append(['errh', op[1], [list(p) for p in _dedup(op[2])] if op[3] in DICT_SHAPES + MAP_SHAPES else op[2], op[3]])
        elif op[0] == 'err':
            out.append(['err', op[1], [list(p) for p in _dedup(op[2])]])
        else:
            out.append(op)
    return out


def _hx(x):
    """hex of a text; anything that is not encodable text (a faulty tree can emit it) is flagged, not raised"""
    try:
        return hs(x)
    except Exception:   # noqa
        return '!' + type(x).__name__


def show_hl(hl):
    return ','.join(f'{_hx(n)}={_hx(v)}' for n, v in hl) if hl else '~'


def safe_headerlist(resp):
    """resp.headerlist, or the exception it raises (only a faulty tree raises here)"""
    try:
        return resp.headerlist, None
    except Exception as e:   # noqa
        return [], type(e).__name__


def run_unit(ops, cls_name='Response'):
    """ops on a fresh object; returns (outcomes, resp)"""
    import importlib
    response = importlib.import_module('ombott.response')
    resp = getattr(response, cls_name)()
    outs = [apply_op(resp, op) for op in ops]
    return outs, resp


class _EH(dict):
    """error_handlers whose .get always answers with a fixed-length body"""

    def __init__(self, base, body):
        super().__init__(base)
        self._body = body

    def get(self, k, d=None):
        return lambda e: self._body


def run_wsgi(ops, body):
    """ops inside a handler of a real Ombott() application called through WSGI; returns
    (outcomes, headerlist seen inside the handler, status line, header list given to start_response)"""
    from ombott import Ombott
    app = Ombott()
    app.error_handlers = _EH(app.error_handlers, body)
    seen = {}

    def handler():
        resp = app.response
        outs = []
        for i, op in enumerate(ops):
            r = apply_op(resp, op, raise_last=(i == len(ops) - 1))
            if not isinstance(r, str):
                outs.append('ok')
                seen['outs'] = outs
                raise r
            outs.append(r)
        seen['outs'] = outs
        return body

    app.route('/h', 'GET', handler)

    def start_response(status, headers, exc_info=None):
        seen['status'], seen['headers'], seen['exc'] = status, headers, exc_info

    env = {'REQUEST_METHOD': 'GET', 'PATH_INFO': '/h', 'wsgi.input': io.BytesIO(b''),
           'wsgi.errors': io.StringIO(), 'SERVER_NAME': 'x', 'SERVER_PORT': '80', 'wsgi.url_scheme': 'http'}
    out = core.with_timeout(lambda: app(env, start_response))
    close = getattr(out, 'close', None)
    if close:
        close()
    return seen


def status_code_of(line):
    if line is None:
        return '~'
    return line.split()[0]


class C14(Check):
    pid = 'C14'
    props_mod = 'OmbottModel.Props.C14'
    tables = ['headers']
    design_ref = '6/C14'
    level_text = ('Lean theorems over the model of _hval, the HeaderDict setters, HeaderProperty, '
                  'BaseResponse.__init__/HTTPError(**options) and headerlist for all values, names, operation '
                  'sequences and statuses (CR/LF/NUL rejected and never stored or emitted, Latin-1/UTF-8 round trip '
                  'of every emitted value, list order, 204/304 blacklist over the table probed from the live class); '
                  'model tied to the code by a differential run of operation sequences on real response objects and '
                  'through real Ombott() WSGI calls every time.')
    level_note_extra = ('header names are ASCII in the model (str.title() beyond ASCII is not modelled); lone '
                        'surrogates are outside Char; str() of floats and email.utils.formatdate are parameters; '
                        'unguarded paths that are not single-value setters (update, setdefault with a list, cookie '
                        'attributes) are outside the statement')
    anchors = ['ombott/common_helpers.py', 'ombott/response.py']
    rule = ('operation sequences (1-8 ops) over item assignment / append / setdefault / the three header attributes / '
            'del / clear / status / __init__(headers, **more) with `headers` arriving as list / tuple / generator / dict / OrderedDict / '
            'HeaderDict filled by its constructor or update() / another response\'s or an upload\'s .headers / mapping proxy '
            '/ HTTPError(**options) / set_cookie, values from ASCII, '
            'Latin-1, BMP, astral text, CR LF NUL and other control characters inserted at every position, ints, floats, '
            'bools, None, bytes, objects; header names in varied case; statuses incl. 204/304 and invalid ones; each '
            'sequence run on a fresh response object and (half of them) inside a handler of a real Ombott() called '
            'through WSGI; non-trivial = some operation offers a control character, a non-ASCII value or a refused type')
    assumptions = ['header names are ASCII (str.title() of non-ASCII names is not modelled)',
                   'str(float) and email.utils.formatdate/calendar.timegm results are shipped to the model as parameters',
                   'a Python str holding lone surrogates is outside the model (Lean Char = Unicode scalar value)']

    def budget(self, tier, escalated):
        n = 6000 if tier == 'quick' else 200000
        return n * (2 if escalated and tier == 'quick' else 1)

    def nontrivial(self, sample):
        s = str(sample)
        return any(x in s for x in ('\\r', '\\n', '\\x00', '\\u', '\\x', "'y'", "'o'"))

    # ------------------------------------------------------------------
    def corr(self, rng, n):
        self.stats = st = {}

        def bump(k, d=1):
            st[k] = st.get(k, 0) + d

        out = []
        for i in range(n):
            ops = norm_ops(gen_ops(rng))
            enc = ' '.join(enc_op(op) for op in ops)
            for op in ops:
                bump('op:' + op[0])
            if i % 2 == 0:
                outs, resp = run_unit(ops, rng.choice(['Response', 'HTTPResponse']))
                hl, exc = safe_headerlist(resp)
                ans = f'out={",".join(outs)} st={core.opt(resp.status_code)} hl={show_hl(hl) if exc is None else "!" + exc}'
                out.append((f'hdr run {enc}', ans, dict(kind='run', ops=ops)))
                bump('mode:unit')
                final_status = resp.status_code
            else:
                body = b'B' * rng.choice([0, 1, 5, 12])
                seen = run_wsgi(ops, body)
                if seen.get('exc') is not None:
                    ans = f'wsgi-500 out={",".join(seen["outs"])} hl={show_hl(seen["headers"])}'
                else:
                    ans = (f'out={",".join(seen["outs"])} st={status_code_of(seen["status"])} '
                           f'hl={show_hl(seen["headers"])}')
                out.append((f'hdr wsgi {len(body)} {enc}', ans, dict(kind='wsgi', ops=ops, body=len(body))))
                bump('mode:wsgi')
                final_status = status_code_of(seen.get('status'))
            bump(f'final-status:{final_status}')
            for o in [t for t in ans.split(' ') if t.startswith('out=')][0][4:].split(','):
                bump('outcome:' + o)
            if ans.startswith('wsgi-500'):
                bump('wsgi-catch-all')
        return out

    # ------------------------------------------------------------------
    # independent oracle, written from the property text; real code only
    def _check_emitted(self, hl, where, status):
        """clauses on an emitted header list; returns [(key, what)]"""
        bad = []
        for name, val in hl:
            if not isinstance(val, str):
                bad.append((f'C14:not-native-string:{where}', f'{name}: emitted value {val!r} is not a str'))
                continue
            if has_ctl(val):
                bad.append((f'C14:ctl-emitted:{where}', f'{name}: emitted value {val!r} contains CR/LF/NUL'))
            try:
                val.encode('latin1').decode('utf8')
            except UnicodeError:
                bad.append((f'C14:not-latin1-utf8:{where}', f'{name}: emitted value {val!r} is not UTF-8 carried in Latin-1'))
        for code, names in ((204, ENTITY_204), (304, ENTITY_304)):
            if str(status) == str(code):
                for name, _ in hl:
                    if name.title() in names:
                        kind = 'exact' if name == name.title() else 'case'
                        bad.append((f'C14:entity-header-emitted:{code}:{kind}',
                                    f'status {code} emitted the entity header {name!r}'))
        return bad

    def _check_sur(self, hl, where, sur, offered=()):
        """ill-formed texts (lone surrogates) were offered: whatever is emitted must decode back to a text that was set.
        An emitted value whose decoded form is none of the offered texts but equals an offered ill-formed text once the
        surrogates are dropped / escaped / replaced is that text, mangled."""
        bad = []
        if not sur:
            return bad
        forms = {}
        for t in sur:
            for err in ('surrogateescape', 'ignore', 'replace', 'backslashreplace', 'xmlcharrefreplace', 'surrogatepass'):
                try:
                    forms.setdefault(t.encode('utf8', err).decode('latin1'), (t, err))
                except UnicodeError:
                    pass
        for name, val in hl:
            try:
                if val.encode('latin1').decode('utf8') in offered:
                    continue        # a faithful emission of a (well-formed) text that was set as well
            except (UnicodeError, AttributeError):
                pass
            if isinstance(val, str) and val and val in forms:
                t, err = forms[val]
                bad.append((f'C14:ill-formed-text-emitted:{where}',
                            f'{name}: the value {t!r} has no UTF-8 form but was emitted as {val!r} ({err}); '
                            f'the wire bytes do not decode back to the text that was set'))
            elif isinstance(val, str) and has_sur(val):
                bad.append((f'C14:ill-formed-text-emitted:{where}', f'{name}: emitted value {val!r} carries a lone surrogate'))
        return bad

    def _oracle_ops(self, ops, mode, body_len=3):
        """run the ops one by one on the real code and check every clause after each step"""
        import importlib
        response = importlib.import_module('ombott.response')
        bad = []
        offered = ops_texts(ops)
        sur = [t for t in offered if has_sur(t)]
        if mode == 'wsgi':
            try:
                seen = run_wsgi(ops, b'B' * body_len)
            except UnicodeEncodeError:
                if sur:
                    return bad      # the response failed as a whole: nothing reached the server
                raise
            if 'headers' not in seen and sur:
                return bad
            outs = seen['outs']
            bad += self._check_emitted(seen['headers'], 'start_response', status_code_of(seen['status']))
            bad += self._check_sur(seen['headers'], 'start_response', sur, offered)
            # rejected values must have raised
            for op, o in zip(ops, outs):
                bad += self._check_guard(op, o)
            return bad
        resp = response.Response()
        for op in ops:
            before, _ = safe_headerlist(resp)
            o = apply_op(resp, op)
            bad += self._check_guard(op, o)
            hl, exc = safe_headerlist(resp)
            if exc is not None:
                if exc == 'UnicodeEncodeError' and sur:
                    return bad      # ill-formed text was offered: emitting nothing at all keeps every clause
                bad.append((f'C14:headerlist-raises:{exc}', f'after {op!r} reading headerlist raises {exc}'))
                return bad
            bad += self._check_emitted(hl, 'headerlist', resp.status_code)
            bad += self._check_sur(hl, 'headerlist', sur, offered)
            t = op[0]
            if t in ('set', 'app', 'sdf', 'prop') and o != 'ok' and op[2][0] != 'o' and hl != before:
                bad.append((f'C14:rejected-but-changed:{t}', f'{op!r} raised {o} but the header list changed'))
            # an accepted value comes out as the UTF-8 bytes of its text, read as Latin-1
            if t in ('set', 'app', 'prop') and o == 'ok':
                name = op[1] if t != 'prop' else PROP_NAMES[op[1]]
                txt = text_of(op[2])
                if t == 'prop' and op[1] == 'ex' and op[2][0] != 's':
                    txt = None
                blk = {204: ENTITY_204, 304: ENTITY_304}.get(resp.status_code, [])
                if txt is not None and name.title() not in blk:
                    ncookies = len(resp._cookies) if resp._cookies else 0
                    mine = [v for n, v in hl[:len(hl) - ncookies] if n == name]
                    try:
                        back = mine[-1].encode('latin1').decode('utf8') if mine else None
                    except UnicodeError:
                        back = None
                    if back != txt:
                        bad.append((f'C14:roundtrip:{t}', f'{op!r}: emitted {mine!r} does not decode back to {txt!r}'))
        return bad

    def _check_guard(self, op, outcome):
        bad = []
        t = op[0]
        vals = []
        if t in ('set', 'app', 'sdf', 'prop'):
            vals = [op[2]]
        elif t == 'init':
            # a mapping that is not a dict: what the constructor makes of it is its own business (HEAD: it raises), the
            # clause that binds is the emitted list (_check_emitted: no CR/LF/NUL, native strings) - checked after the step
            vals = ([] if op_shape(op) in MAP_SHAPES else [v for _, v in op[2]]) + [v for _, v in op[3]]
        elif t == 'errh':
            vals = [] if op[3] in MAP_SHAPES else [v for _, v in op[2]]
        elif t == 'err':
            vals = [v for _, v in op[2]]
        if t == 'prop' and op[1] == 'ex' and op[2][0] != 's':
            return bad     # the writer turns it into a date or fails on its own
        st_bad = t in ('init', 'err', 'errh') and op[1] in BAD_STATUSES and op[1] != 0
        for v in vals:
            txt = text_of(v)
            if txt is None:
                if outcome == 'ok' and not st_bad:
                    bad.append((f'C14:wrong-type-accepted:{t}', f'{op!r}: a {v[0]} value was accepted'))
            elif has_ctl(txt):
                if outcome == 'ok':
                    bad.append((f'C14:guard-missed:{t}', f'{op!r}: value with CR/LF/NUL was accepted'))
        return bad

    def _oracle_multi(self, name, vals, status):
        """a list-valued header is emitted once per value in order"""
        import importlib
        response = importlib.import_module('ombott.response')
        resp = response.HTTPResponse('', status)
        for v in vals:
            resp.headers.append(name, v)
        hl, exc = safe_headerlist(resp)
        if exc is not None:
            return [(f'C14:headerlist-raises:{exc}', f'{name}: appended {vals!r}, headerlist raises {exc}')]
        try:
            got = [v.encode('latin1').decode('utf8') for n, v in hl if n == name]
        except Exception as e:   # noqa
            return [('C14:multi-not-wire-safe', f'{name}: appended {vals!r}, emitted {hl!r}: {type(e).__name__}')]
        if got != [str(v) for v in vals]:
            return [('C14:multi-order', f'{name}: appended {vals!r}, emitted {got!r}')]
        return []

    def search(self, rng, n, seeds):
        findings, evals = [], 0
        cases = []
        # directed: every entry point x each of CR, LF, NUL at first/middle/last position
        for ctl in ('\r', '\n', '\0'):
            for txt in (ctl + 'ab', 'a' + ctl + 'b', 'ab' + ctl):
                v = ['s', txt]
                for op in (['set', 'X-A', v], ['app', 'X-A', v], ['sdf', 'X-A', v], ['prop', 'ct', v],
                           ['prop', 'cl', v], ['prop', 'ex', v], ['init', 200, [['X-A', v]], []],
                           ['init', 200, [], [['X-A', v]]], ['err', 404, [['X-A', v]]]):
                    cases.append(([['set', 'X-B', ['s', 'ok']], ['app', 'X-A', ['s', 'first']], op], 'unit', 3))
                    cases.append(([['app', 'X-A', ['s', 'first']], op], 'wsgi', 3))
        # directed: the constructors handed every kind of container (list, tuple, generator, dict, OrderedDict, HeaderDict
        # filled by its constructor / by update(), another response's .headers, an upload's .headers, a mapping proxy)
        # holding a value with CR / LF / NUL: BaseResponse.__init__ and HTTPError(headers=...), direct and raised in a handler
        for ctl in ('\r', '\n', '\0', '\r\n'):
            for txt in (ctl + 'ab', 'a' + ctl + 'Set-Cookie: sid=x', 'ab' + ctl):
                v = ['s', txt]
                for shape in ALL_SHAPES:
                    for name in ('X-Trace', 'TE'):
                        for op in (['init', 200, [[name, v]], [], shape], ['init', None, [['X-B', ['s', 'ok']], [name, v]], [], shape],
                                   ['errh', 404, [[name, v]], shape]):
                            cases.append(([['app', 'X-A', ['s', 'first']], op], 'unit', 3))
                            cases.append(([op], 'wsgi', 3))
        for shape in ALL_SHAPES:            # and values of a refused type in every container
            for v in (['y', b'x'.hex()], ['o', 'object'], ['o', 'list']):
                cases.append(([['init', 200, [['X-Trace', v]], [], shape]], 'unit', 3))
                cases.append(([['errh', 500, [['X-Trace', v]], shape]], 'wsgi', 3))
        # directed: every entity header in three spellings on 204/304, all entry points
        for code, names in ((204, ENTITY_204), (304, ENTITY_304)):
            for nm in names:
                for spell in (nm, nm.lower(), nm.upper()):
                    v = ['s', '7']
                    for op in (['set', spell, v], ['app', spell, v], ['sdf', spell, v]):
                        cases.append(([op, ['st', code]], 'unit', 3))
                    cases.append(([['st', code], ['set', spell, v]], 'wsgi', 3))
                    cases.append(([['err', code, [[spell, v]]]], 'wsgi', 3))
        # directed: ill-formed text (lone surrogates: OS-provided names, half pairs) x every entry point x both modes
        srng = random.Random(rng.random())
        sur_texts = [b[:len(b) // 2] + u + b[len(b) // 2:] for u in SUR_UNITS for b in ('', 'attachment; filename="caf.txt"')]
        for txt in sur_texts:
            v = ['s', txt]
            for op in (['set', 'X-A', v], ['app', 'X-A', v], ['sdf', 'X-C', v], ['prop', 'ct', v],
                       ['init', 200, [['X-A', v]], []], ['init', 200, [], [['X-A', v]]], ['err', 404, [['X-A', v]]],
                       ['errh', 404, [['X-A', v]], 'list'], ['errh', 404, [['X-A', v]], 'dict'], ['ck', 'sid', txt]):
                cases.append(([['set', 'X-B', ['s', 'ok']], op], 'unit', 3))
                cases.append(([['app', 'X-A', ['s', 'first']], op], 'wsgi', 3))
        for _ in range(n // 4):
            cases.append((sur_ops(srng, norm_ops(gen_ops(srng))), srng.choice(['unit', 'wsgi']), srng.choice([0, 3])))
        for s in seeds:
            if 'ops' in s:
                cases.append((s['ops'], s.get('kind', 'run') if s.get('kind') != 'run' else 'unit', s.get('body', 3)))
        for _ in range(n // 2):
            cases.append((norm_ops(gen_ops(rng)), rng.choice(['unit', 'wsgi']), rng.choice([0, 3])))
        for ops, mode, bl in cases:
            evals += 1
            try:
                bad = self._oracle_ops(ops, mode, bl)
            except Exception as e:   # noqa
                bad = [('C14:oracle-exception', f'{type(e).__name__}: {e}')]
            for key, what in bad:
                findings.append(Finding(key, what, dict(kind='ops', ops=ops, mode=mode, body=bl)))
        for _ in range(max(20, n // 20)):
            evals += 1
            name = rng.choice(NAMES)
            vals = [mk(v) for v in (gen_val(rng) for _ in range(rng.randint(2, 5)))]
            vals = [v for v in vals if isinstance(v, (str, int, float, bool, type(None))) and not has_ctl(str(v))]
            status = rng.choice([200, 404, 500])
            if not vals:
                continue
            for key, what in self._oracle_multi(name, vals, status):
                findings.append(Finding(key, what, dict(kind='multi', name=name, vals=[str(v) for v in vals],
                                                        status=status)))
        return evals, findings

    def replay(self, data):
        i = data['input']
        if i.get('kind') == 'multi':
            return dict(input=i, oracle=self._oracle_multi(i['name'], i['vals'], i['status']))
        ops = i['ops']
        res = dict(input=i, oracle=self._oracle_ops(ops, i.get('mode', 'unit'), i.get('body', 3)))
        if i.get('mode') == 'wsgi':
            seen = run_wsgi(ops, b'B' * i.get('body', 3))
            res['observed'] = dict(outcomes=seen.get('outs'), status=seen.get('status'), headers=seen.get('headers'))
        else:
            outs, resp = run_unit(ops)
            res['observed'] = dict(outcomes=outs, status=resp.status_code, headerlist=safe_headerlist(resp))
        return res


# the composed stream (one real application, one request, against App.serve of Model/App.lean)
from harness import applib as _applib  # noqa: E402
_applib.install(C14, quick=(250, 100), thorough=(8000, 2500))

# the response-side helper classes (HeaderDict full API, HeaderProperty, copy, delete_cookie, WSGIFileWrapper, _closeiter)
from harness import resphelplib as _resphelp  # noqa: E402
_resphelp.install(C14)
