"""The class / configuration machinery every application object is built on, as an extra stream of C10:
ombott/common_helpers.py (`_MetaSimpleConfig`, `SimpleConfig`, `NameSpace`, `cached_property`, `proxy`), ombott/mixable.py
(`MixableMeta`), `DefaultConfig` / `RequestConfig`, `Ombott.__init__` / `setup` / `_hooks`, `BaseRequest.__new__` / `setup` /
`copy`.

* correspondence: self-contained `config w|cp|px|mx ...` lines (Drv/Config.lean) - a whole operation sequence on the REAL
  metaclasses / classes / applications from the state after `import ombott`, the answers canonicalised (sorted listings,
  dict values written out, error class names) - against Model/Config.lean.
* oracle (real code only, written from what the machinery promises; Finding keys `C10:config:<site>`):
  - cross-app: what application B shows of its configuration (config, request config, the dicts they refer to, hook lists)
    is identical before and after framework-level operations on application A (construct, setup, serve a request incl.
    failing ones, request.copy(), add_hook) and after A REBINDS entries of its own config;
  - get_from: exactly the holder's keys, each value the very object of src / kw / class default in that order, a new
    NameSpace each call;  the metaclass refuses unknown keys / two different holders;  cached_property runs the getter
    exactly when the instance has no attribute, per instance;  MixableMeta builds own + unshadowed non-dunder mixin
    attributes and calls the specials in mixin order;  proxy forwards to the current target, each name to itself.
  In-place mutation of a shared mutable default (errors_map / domain_map) by APPLICATION code is outside C10 (the property
  speaks about serving, copying and constructing); the oracle never does it, the correspondence stream does (the model
  says exactly where it shows).
"""
import io
import types

from harness import core
from harness.core import hs, Finding
from harness.tables.config import canon_other, key_name


def bump(stats, key, n=1):
    stats[key] = stats.get(key, 0) + n


def mods():
    from ombott import common_helpers as ch, mixable
    from ombott.ombott import Ombott, DefaultConfig
    from ombott.request_pkg.request import RequestConfig
    return ch, mixable, Ombott, DefaultConfig, RequestConfig


class Opaque:
    pass


# --------------------------------------------------------------------------------------
# canonical forms (mirror of Drv/Config.lean)

def read_val(s):
    if s == 'n':
        return None
    if s in ('b0', 'b1'):
        return s == 'b1'
    if s == 'x':
        return Opaque()
    if s[0] == 'i':
        return int(s[1:])
    if s[0] == 's':
        return core.unhs(s[1:])
    raise ValueError(s)


def tok_val(v):
    if v is None:
        return 'n'
    if isinstance(v, bool):
        return 'b1' if v else 'b0'
    if isinstance(v, int):
        return 'i%d' % v
    return 's' + hs(v)


def show_scalar(v):
    if v is None:
        return 'n'
    if isinstance(v, bool):
        return 'b1' if v else 'b0'
    if isinstance(v, int):
        return 'i%d' % v
    if isinstance(v, str):
        return 's' + hs(v)
    if isinstance(v, list):
        return 'l' + ('.'.join(getattr(f, '__name__', '?') for f in v) if v else '~')
    if isinstance(v, dict):
        return 'r'
    if isinstance(v, Opaque) or callable(v) or isinstance(v, (types.MethodType, types.FunctionType)):
        return 'x'
    return 's' + hs(canon_other(v))


def show_val(v):
    if isinstance(v, dict):
        return 'd{' + '&'.join(sorted('%s:%s' % (key_name(k), show_scalar(x)) for k, x in v.items())) + '}'
    return show_scalar(v)


def show_items(items):
    items = list(items)
    return '+'.join(sorted('%s=%s' % (k, show_val(v)) for k, v in items)) if items else '~'


def show_dot(l):
    return '.'.join(l) if l else '~'


def exc(e):
    return 'e' + type(e).__name__


def tok_dict(d):
    return '+'.join('%s=%s' % (k, tok_val(v)) for k, v in d) if d else '~'


def tok_body(body):
    out = []
    for k, v in body:
        if isinstance(v, list):
            out.append('%s=d%s' % (k, '&'.join('%s:%s' % (a, tok_val(b)) for a, b in v)))
        else:
            out.append('%s=%s' % (k, tok_val(v)))
    return '+'.join(out) if out else '~'


def tok_src(s):
    if s[0] == 'N':
        return 'N'
    if s[0] == 'L':
        return 'L' + tok_dict(s[1])
    return 'T' + s[1]


def tok_op(op):
    k = op[0]
    if k == 'C':
        return 'C/%s/%s/%s' % (op[1], show_dot(op[2]), tok_body(op[3]))
    if k == 'G':
        return 'G/%s/%s/%s' % (op[1], op[2], tok_val(op[3]))
    if k == 'F':
        return 'F/%s/%s/%s/%s' % (op[1], op[2], tok_src(op[3]), tok_dict(op[4]))
    if k in ('A', 'S'):
        return '%s/%d/%s' % (k, op[1], tok_src(op[2]))
    if k == 'Y':
        return 'Y/%d/%s' % (op[1], op[2])
    if k in ('V', 'hl'):
        return '%s/%d' % (k, op[1])
    if k in ('ha', 'hr'):
        return '%s/%d/%s/%s' % (k, op[1], op[2], op[3])
    if k in ('nG', 'ns', 'nD'):
        return '%s/%s/%s/%s' % (k, op[1], op[2], tok_val(op[3]))
    if k == 'nd':
        return 'nd/%s/%s/%s' % (op[1], op[2], tok_dict(op[3]))
    if k == 'nu':
        return 'nu/%s/%s' % (op[1], tok_dict(op[2]))
    if k == 'dm':
        return 'dm/%s/%s/%s/%s' % (op[1], op[2], op[3], tok_val(op[4]))
    return '/'.join(str(x) for x in op)      # H K I ni ng


# --------------------------------------------------------------------------------------
# running the real code

def _environ(path='/', method='GET', body=b''):
    return {'REQUEST_METHOD': method, 'PATH_INFO': path, 'SCRIPT_NAME': '', 'QUERY_STRING': '', 'SERVER_NAME': 'h',
            'SERVER_PORT': '80', 'SERVER_PROTOCOL': 'HTTP/1.1', 'wsgi.url_scheme': 'http', 'wsgi.input': io.BytesIO(body),
            'wsgi.errors': io.StringIO(), 'CONTENT_LENGTH': str(len(body)), 'wsgi.version': (1, 0),
            'wsgi.multithread': False, 'wsgi.multiprocess': False, 'wsgi.run_once': False}


def serve(app, path='/nothing', method='GET', body=b''):
    out = []
    res = app(_environ(path, method, body), lambda status, headers, exc_info=None: out.append(status))
    data = b''.join(res)
    if hasattr(res, 'close'):
        res.close()
    return out, data


class Pristine:
    """the module-level state the `w` lines may touch in place (the shared mutable defaults, RequestConfig's holder
    registration) is put back after every case: each line starts from the state after `import ombott`"""

    def __enter__(self):
        ch, mixable, Ombott, DC, RC = mods()
        self.saved = [(d, dict(d)) for cls in (DC, RC) for k, d in cls.__dict__.items() if isinstance(d, dict) and not k.startswith('__')]
        self.rc_keys = [k for k in ('__keys__', '__keys_holder__') if k in RC.__dict__]
        return self

    def __exit__(self, *a):
        ch, mixable, Ombott, DC, RC = mods()
        for d, snap in self.saved:
            if d != snap or list(d) != list(snap):
                d.clear()
                d.update(snap)
        for k in ('__keys__', '__keys_holder__'):
            if k in RC.__dict__ and k not in self.rc_keys:
                delattr(RC, k)
        return False


def run_w(ops):
    ch, mixable, Ombott, DC, RC = mods()
    classes = {'SimpleConfig': ch.SimpleConfig, 'DefaultConfig': DC, 'RequestConfig': RC}
    apps, regs, funcs = {}, {}, {}
    meta = type(ch.SimpleConfig)

    def target(t):
        if t[0] == 'a':
            return apps[int(t[1:])].config
        if t[0] == 'r':
            return apps[int(t[1:])].request.config
        return regs[t[1:]]

    def src(s):
        if s[0] == 'N':
            return None
        if s[0] == 'L':
            return dict(s[1])
        return target(s[1])

    def fn(name):
        if name not in funcs:
            def f(*a, **kw):
                return None
            f.__name__ = name
            funcs[name] = f
        return funcs[name]

    out = []
    with Pristine():
        for op in ops:
            k = op[0]
            try:
                if k == 'C':
                    body = {a: (dict(b) if isinstance(b, list) else b) for a, b in op[3]}
                    classes[op[1]] = meta(op[1], tuple(classes[b] for b in op[2]), body)
                    ans = 'ok'
                elif k == 'H':
                    classes[op[1]].keys_holder(classes[op[2]])
                    ans = 'ok'
                elif k == 'K':
                    ans = show_dot(sorted(classes[op[1]].keys()))
                elif k == 'I':
                    ans = show_items(classes[op[1]].items())
                elif k == 'G':
                    ans = show_val(classes[op[1]].get(op[2], op[3]))
                elif k == 'F':
                    cls = classes[op[2]]
                    s, kw = src(op[3]), dict(op[4])
                    regs[op[1]] = cls.get_from(s, **kw) if len(op[1]) % 2 else cls(s, **kw)
                    ans = show_items(regs[op[1]].items())
                elif k == 'A':
                    apps[op[1]] = Ombott(src(op[2]))
                    ans = 'ok'
                elif k == 'S':
                    apps[op[1]].setup(src(op[2]))
                    ans = 'ok'
                elif k == 'Y':
                    regs[op[2]] = apps[op[1]].request.copy().config
                    ans = 'ok'
                elif k == 'V':
                    try:    # what is compared is the configuration afterwards: serving only reads it (a configuration
                        serve(apps[op[1]])   # made of arbitrary scalars may well make the request fail)
                    except Exception:   # noqa
                        pass
                    ans = 'ok'
                elif k == 'ni':
                    ans = show_items(target(op[1]).items())
                elif k == 'ng':
                    ans = show_val(target(op[1])[op[2]])
                elif k == 'nG':
                    ans = show_val(target(op[1]).get(op[2], op[3]))
                elif k == 'ns':
                    t = target(op[1])
                    if len(op[2]) % 2:
                        t[op[2]] = op[3]
                    else:
                        setattr(t, op[2], op[3])
                    ans = 'ok'
                elif k == 'nd':
                    target(op[1])[op[2]] = dict(op[3])
                    ans = 'ok'
                elif k == 'nD':
                    ans = show_val(target(op[1]).setdefault(op[2], op[3]))
                elif k == 'nu':
                    target(op[1]).update(dict(op[2]))
                    ans = 'ok'
                elif k == 'dm':
                    d = target(op[1])[op[2]]
                    dk = ([x for x in d if key_name(x) == op[3]] + [op[3]])[0] if isinstance(d, dict) else op[3]
                    d[dk] = op[4]
                    ans = 'ok'
                elif k == 'ha':
                    apps[op[1]].add_hook(op[2], fn(op[3]))
                    ans = 'ok'
                elif k == 'hr':
                    ans = show_val(apps[op[1]].remove_hook(op[2], fn(op[3])))
                elif k == 'hl':
                    ans = show_items(apps[op[1]]._hooks.items())
                else:
                    raise RuntimeError('bad op ' + k)
            except Exception as e:   # noqa: the class is the observation
                ans = exc(e)
            out.append(ans)
    return ';'.join(out)


def run_cp(ops):
    ch = mods()[0]
    st = dict(runs=0, mode='o')

    class K:
        @ch.cached_property
        def prop(self):
            st['runs'] += 1
            if st['mode'] == 'a':
                raise AttributeError('inner')
            if st['mode'] == 'v':
                raise ValueError('inner')
            return st['runs']
    insts = {}
    out = []
    for op in ops:
        before = st['runs']
        try:
            if op[0] == 'c':
                v = K.prop
                ans = 'x' if isinstance(v, ch.cached_property) else show_scalar(v)
            else:
                o = insts.setdefault(op[1], K())
                if op[0] == 'g':
                    st['mode'] = op[2]
                    ans = show_scalar(o.prop)
                elif op[0] == 'd':
                    del o.prop
                    ans = 'n'
                else:
                    o.prop = op[2]
                    ans = 'n'
        except Exception as e:   # noqa
            ans = exc(e)
        out.append('%s/%d' % (ans, st['runs'] - before))
    out.append('runs=%d' % st['runs'])
    return ';'.join(out)


def tok_cp(op):
    if op[0] == 'c':
        return 'c'
    if op[0] == 's':
        return 's/%d/%s' % (op[1], tok_val(op[2]))
    return '/'.join(str(x) for x in op)


def run_px(injs, own, targets, ops, form=0):
    ch = mods()[0]

    class Tgt:
        def __init__(self, name, meths):
            self.name = name
            for m in meths:
                setattr(self, m, (lambda m: lambda arg: 't%s.%s.%s' % (name, m, arg))(m))
    tg = {n: Tgt(n, ms) for n, ms in targets}
    cls = type('PX', (), {k: (lambda k: lambda s, arg: 'o%s.%s' % (k, arg))(k) for k in own})
    for i, (prop, attrs) in enumerate(injs):
        if (i + form) % 2:
            cls = ch.proxy(prop, attrs)(cls)
        else:
            cls = ch.proxy(prop, attrs, cls)
    inst = cls()
    out = []
    for op in ops:
        try:
            if op[0] == 'b':
                setattr(inst, op[1], tg[op[2]])
                ans = '-'
            elif op[0] == 'u':
                delattr(inst, op[1])
                ans = '-'
            else:
                ans = getattr(inst, op[1])(op[2])
        except Exception as e:   # noqa
            ans = exc(e)
        out.append(ans)
    return ';'.join(out)


def run_mx(items):
    ch, mixable = mods()[:2]
    auto = set(type('X', (), {}).__dict__) | set(type('X', (), {'__slots__': ()}).__dict__)
    classes = {'Mixable': mixable.Mixable}
    log = []

    def special(kind, label):
        def f(self, *a, **kw):
            log.append('%s:%s' % (kind, label))
        f.label = label
        return f

    def body(name, keys, flags):
        d = {}
        for k in keys:
            d[k] = special(k, '%s.%s' % (name, k)) if k in ('on_new', 'on_init') else '%s.%s' % (name, k)
        if 'n' in flags:
            def new(cls, *a, **kw):
                log.append('new:' + name)
                return object.__new__(cls)
            d['__new__'] = new
        if 'i' in flags:
            def init(self, *a, **kw):
                log.append('init:' + name)
            d['__init__'] = init
        return d

    def lab(v):
        return getattr(v, 'label', v)
    out = []
    for it in items:
        refs = (list(it[2]) + list((it[3] or []) if it[0] == 'M' else [])) if it[0] in 'PM' else [it[1]]
        if any(r not in classes for r in refs):
            out.append('undef')
            continue
        try:
            if it[0] == 'P':
                _, name, bases, slots, keys, flags = it
                d = body(name, keys, flags)
                if slots is not None:
                    d['__slots__'] = tuple(slots)
                classes[name] = type(name, tuple(classes[b] for b in bases), d)
                ans = 'ok'
            elif it[0] == 'M':
                _, name, bases, asm, slots, keys, flags = it
                d = {}
                if asm is not None:
                    d['_as_mixins'] = _Labelled([classes[m] for m in asm], name + '._as_mixins')
                d.update(body(name, keys, flags))
                if slots is not None:
                    d['__slots__'] = tuple(slots)
                classes[name] = mixable.MixableMeta(name, tuple(classes[b] for b in bases), d)
                ans = 'ok'
            elif it[0] == 'I':
                del log[:]
                classes[it[1]]()
                ans = '>'.join(log) if log else '~'
            else:
                c = classes[it[1]]
                attrs = {k: lab(v) for k, v in c.__dict__.items()
                         if k not in auto and k not in ('__slots__', '__mixins_special__', '__new__', '__init__')
                         and not isinstance(v, types.MemberDescriptorType)}
                sl = c.__dict__.get('__slots__')
                sp = c.__dict__.get('__mixins_special__')
                ans = '|'.join([
                    '+'.join(sorted('%s=%s' % kv for kv in attrs.items())) if attrs else '~',
                    '-' if sl is None else show_dot(sorted(sl)),
                    '-' if sp is None else show_dot([lab(f) for f in sp['on_new']]) + '/' + show_dot([lab(f) for f in sp['on_init']]),
                    show_dot([b.__name__ for b in c.__bases__ if b is not object]),
                    show_dot([b.__name__ for b in c.__mro__ if b is not object])])
        except Exception as e:   # noqa
            ans = exc(e)
        out.append(ans)
    return ';'.join(out)


class _Labelled(list):
    """the value of `_as_mixins`: a list that knows its label"""

    def __init__(self, l, label):
        super().__init__(l)
        self.label = label


def tok_mx(it):
    def ol(l):
        return '-' if l is None else show_dot(l)
    if it[0] == 'P':
        return 'P:%s:%s:%s:%s:%s' % (it[1], show_dot(it[2]), ol(it[3]), show_dot(it[4]), it[5] or '-')
    if it[0] == 'M':
        return 'M:%s:%s:%s:%s:%s:%s' % (it[1], show_dot(it[2]), ol(it[3]), ol(it[4]), show_dot(it[5]), it[6] or '-')
    return '%s:%s' % (it[0], it[1])


# --------------------------------------------------------------------------------------
# generators

DC_KEYS = ['allow_x_script_name', 'app_name_header', 'catchall', 'debug', 'domain_map', 'errors_map', 'max_body_size',
           'max_memfile_size']
RC_KEYS = ['allow_x_script_name', 'app_name_header', 'errors_map', 'max_body_size', 'max_memfile_size']
MUTABLE = ['errors_map', 'domain_map']
EXTRA_KEYS = ['zz', 'extra', 'debug2', '_p', 'Debug', 'k1']
NS_METHODS = ['get', 'keys', 'items', 'values', 'update', 'setdefault']
SCALARS = [None, True, False, 0, 1, 7, -3, 4096, '', 'X-App', 'v', 'é']
HOOKS = ['before_request', 'after_request']
FUNCS = ['f', 'g', 'h']


def g_val(rng):
    return rng.choice(SCALARS)


def g_dict(rng, keys, lo=0, hi=3):
    keys = list(dict.fromkeys(keys))      # (a pool built from two lists may name a key twice: a dict literal cannot)
    ks = rng.sample(keys, min(len(keys), rng.randint(lo, hi)))
    return [(k, g_val(rng)) for k in ks]


def gen_w(rng, malformed=False):
    """a world line: 2-3 applications, a mix of reads / writes / framework operations, every line ends with the full
    view of every application"""
    ops = []
    apps, regs = [], []
    classes = {'SimpleConfig': dict(keys=None, tainted=False), 'DefaultConfig': dict(keys=DC_KEYS, tainted=False),
               'RequestConfig': dict(keys=None, tainted=False)}
    own = {'DefaultConfig': DC_KEYS, 'RequestConfig': RC_KEYS, 'SimpleConfig': []}
    holders = ['DefaultConfig']
    ncls = [0]

    def targets():
        return ['a%d' % a for a in apps] + ['r%d' % a for a in apps] + ['g' + r for r in regs]

    def g_src():
        r = rng.random()
        if r < .3 or (not apps and r < .5):
            return ('N',)
        if r < .75 or not apps:
            return ('L', g_dict(rng, DC_KEYS + EXTRA_KEYS, 0, 4))
        return ('T', rng.choice(targets()))

    def new_reg():
        r = 'q%d' % len(regs) if rng.random() < .5 else 'qq%d' % len(regs)
        regs.append(r)
        return r

    def new_class():
        ncls[0] += 1
        return 'X%d' % ncls[0]

    n_apps = rng.choice([2, 2, 3])
    for a in range(1, n_apps + 1):
        ops.append(('A', a, g_src()))
        apps.append(a)
    for _ in range(rng.randint(3, 12)):
        r = rng.random()
        a = rng.choice(apps)
        if r < .10:
            ops.append(('S', a, g_src()))
        elif r < .16:
            ops.append(('Y', a, new_reg()))
        elif r < .20:
            ops.append(('V', a))
        elif r < .25:
            na = rng.choice([a, max(apps) + 1])
            ops.append(('A', na, g_src()))
            if na not in apps:
                apps.append(na)
        elif r < .37:
            t = rng.choice(targets())
            ops.append(('ns', t, rng.choice(DC_KEYS + EXTRA_KEYS), g_val(rng)))
        elif r < .43:
            t = rng.choice(targets())
            ops.append(('nd', t, rng.choice(MUTABLE + MUTABLE + EXTRA_KEYS), g_dict(rng, ['A', 'B', 'RequestError'])))
        elif r < .55:
            t = rng.choice(targets())
            k = rng.choice(MUTABLE * 3 + (DC_KEYS + EXTRA_KEYS + NS_METHODS if malformed else []))
            ops.append(('dm', t, k, rng.choice(['A', 'B', 'RequestError', 'BodySizeError']), g_val(rng)))
        elif r < .60:
            ops.append(('nu', rng.choice(targets()), g_dict(rng, DC_KEYS + EXTRA_KEYS, 0, 3)))
        elif r < .64:
            ops.append(('nD', rng.choice(targets()), rng.choice(DC_KEYS + EXTRA_KEYS), g_val(rng)))
        elif r < .70:
            ops.append(('ng', rng.choice(targets()), rng.choice(DC_KEYS + EXTRA_KEYS + NS_METHODS + ['nope'])))
        elif r < .73:
            ops.append(('nG', rng.choice(targets()), rng.choice(DC_KEYS + EXTRA_KEYS + ['nope']), g_val(rng)))
        elif r < .77:
            ops.append(('ni', rng.choice(targets())))
        elif r < .82:
            ops.append((rng.choice(['ha', 'ha', 'hr']), a, rng.choice(HOOKS + (['nope'] if malformed else [])), rng.choice(FUNCS)))
        elif r < .85:
            ops.append(('hl', a))
        elif r < .93:
            # class statements through the real metaclass
            name = new_class()
            kind = rng.choice(['sub', 'sub', 'subbad', 'holder', 'rsub', 'multi', 'nobase', 'twoholders'] if not malformed
                              else ['subbad', 'multi', 'holder', 'nobase', 'reserved', 'sub', 'twoholders'])
            if kind == 'twoholders':
                # two registered holders: same keys in another order (accepted), same SIZE but different keys / different size (TypeError)
                k1 = rng.sample(['a', 'b', 'c', 'd'], rng.randint(1, 3))
                k2 = rng.choice([list(reversed(k1)), k1[:-1] + ['q'], k1 + ['q'], k1[1:] + ['zz']])
                n2, n3 = new_class(), new_class()
                ops.append(('C', name, ['SimpleConfig'], [(k, g_val(rng)) for k in k1]))
                ops.append(('H', 'SimpleConfig', name))
                ops.append(('C', n2, ['SimpleConfig'], [(k, g_val(rng)) for k in k2]))
                ops.append(('H', 'SimpleConfig', n2))
                ops.append(('C', n3, [name, n2] if rng.random() < .7 else [n2, name], [(k, g_val(rng)) for k in k1[:1]]))
                ops.append(('K', n2))
                classes[name] = dict(keys=k1, tainted=False)
                classes[n2] = dict(keys=k2, tainted=False)
                own[name], own[n2] = k1, k2
                continue
            if kind in ('sub', 'subbad'):
                base = rng.choice([c for c, i in classes.items() if i['keys']])
                keys = classes[base]['keys']
                body = [(k, g_val(rng)) for k in rng.sample(keys, rng.randint(0, min(3, len(keys))))]
                if rng.random() < .3:
                    body.append((rng.choice(MUTABLE) if rng.choice(MUTABLE) in keys else keys[0], g_dict(rng, ['A', 'B'])))
                body += [(k, g_val(rng)) for k in rng.sample(['_p', '__x__', '_q'], rng.randint(0, 2))]
                if kind == 'subbad':
                    body.insert(rng.randint(0, len(body)), (rng.choice(['zz', 'Debug', 'extra']), g_val(rng)))
                body = list(dict(body).items())
                ops.append(('C', name, [base], body))
                if kind == 'sub':
                    classes[name] = dict(keys=keys, tainted=classes[base]['tainted'])
                    own[name] = [k for k, _ in body]
            elif kind == 'rsub':
                body = [(k, g_val(rng)) for k in rng.sample(RC_KEYS + EXTRA_KEYS, rng.randint(0, 3))]
                ops.append(('C', name, ['RequestConfig'], body))
                classes[name] = dict(keys=None, tainted=False)
                own[name] = [k for k, _ in body]
            elif kind in ('holder', 'reserved'):
                pool = ['a', 'b', 'c', 'errors_map', 'debug', '_p', '__x__'] + (['mro', 'get'] if kind == 'reserved' or rng.random() < .15 else [])
                ks = rng.sample(pool, rng.randint(0, 4))
                body = [(k, g_dict(rng, ['A', 'B']) if k == 'errors_map' else g_val(rng)) for k in ks]
                ops.append(('C', name, ['SimpleConfig'], body))
                classes[name] = dict(keys=None, tainted='get' in ks)
                own[name] = ks
                who = rng.choice(['SimpleConfig'] * 5 + [name, 'DefaultConfig'])
                ops.append(('H', who, name))
                hk = [k for k in ks if not k.startswith('__')]
                if who == 'SimpleConfig' and hk and not ({'mro', 'get'} & set(hk)):
                    classes[name]['keys'] = hk
                    holders.append(name)
                if rng.random() < .3:
                    ops.append(('H', 'SimpleConfig', name))
            elif kind == 'multi':
                cands = [c for c in classes if c != 'SimpleConfig']
                bs = rng.sample(cands, min(len(cands), 2))
                if rng.random() < .2:
                    bs.append('SimpleConfig') if rng.random() < .5 else bs.insert(0, 'SimpleConfig')
                ops.append(('C', name, bs, [(k, g_val(rng)) for k in rng.sample(['debug', 'a', '_p'], rng.randint(0, 2))]))
                # whether it exists afterwards is the model's business: never referred to again
            else:
                ops.append(('C', name, [], [(k, g_val(rng)) for k in rng.sample(['a', 'b'], rng.randint(0, 2))]))
                ops.append((rng.choice(['K', 'I']), name))
                ops.append(('H', name, 'RequestConfig') if rng.random() < .5 else ('H', 'SimpleConfig', name))
        else:
            usable = [c for c in classes if c != 'SimpleConfig' or rng.random() < .3]
            c = rng.choice(usable)
            k = rng.random()
            if k < .25:
                ops.append(('K', c))
            elif k < .45:
                ops.append(('I', c))
            elif k < .6 and not classes[c]['tainted']:
                ops.append(('G', c, rng.choice((classes[c]['keys'] or own.get(c) or ['a']) + ['nope', 'zz']), g_val(rng)))
            elif c != 'SimpleConfig' and not classes[c]['tainted']:     # (a NameSpace with a key `items` / `get` shadows its own accessors)
                ks = (classes[c]['keys'] or own.get(c) or []) + EXTRA_KEYS
                s_ = g_src()
                ops.append(('F', new_reg(), c, s_, g_dict(rng, ks, 0, 3)))
    if malformed and rng.random() < .5:
        ops.append(('H', 'SimpleConfig', rng.choice(['RequestConfig', 'DefaultConfig'])))
        ops.append(('K', 'RequestConfig'))
        ops.append(('A', max(apps) + 1, g_src()))
        apps.append(max(apps) + 1)
    for a in apps:
        ops += [('ni', 'a%d' % a), ('ni', 'r%d' % a)]
        if rng.random() < .4:
            ops.append(('hl', a))
    for r in regs[-2:]:
        ops.append(('ni', 'g' + r))
    return ops


def w_case(rng, stats, malformed=False):
    ops = gen_w(rng, malformed)
    line = 'config w ' + ','.join(tok_op(o) for o in ops)
    ans = run_w(ops)
    bump(stats, 'config:w-lines')
    bump(stats, 'config:w-ops', len(ops))
    for o in ops:
        bump(stats, 'config:op:' + o[0])
    for a in ans.split(';'):
        if len(a) > 1 and a[0] == 'e' and a[1].isupper():
            bump(stats, 'config:err:' + a[1:])
    return line, ans, dict(kind='config', sub='w', ops=_jsonable(ops))


def gen_cp(rng):
    n = rng.choice([1, 2, 2, 3])
    ops = []
    for _ in range(rng.randint(2, 14)):
        i = rng.randint(1, n)
        r = rng.random()
        if r < .5:
            ops.append(('g', i, rng.choice('ooooav')))
        elif r < .72:
            ops.append(('d', i))
        elif r < .94:
            ops.append(('s', i, g_val(rng)))
        else:
            ops.append(('c',))
    return ops


def cp_case(rng, stats):
    ops = gen_cp(rng)
    ans = run_cp(ops)
    bump(stats, 'config:cp-lines')
    bump(stats, 'config:cp-getter-runs', int(ans.rsplit('=', 1)[1]))
    return 'config cp ' + ','.join(tok_cp(o) for o in ops), ans, dict(kind='config', sub='cp', ops=_jsonable(ops))


PX_ATTRS = ['keys', 'get', 'pop', 'items', 'close', 'read']
PX_PROPS = ['dict', 'fp']


def gen_px(rng):
    injs = [(rng.choice(PX_PROPS), rng.sample(PX_ATTRS, rng.randint(0, 4))) for _ in range(rng.choice([1, 1, 2]))]
    own = rng.sample(PX_ATTRS + ['mine'], rng.randint(0, 2))
    targets = [('T%d' % i, rng.sample(PX_ATTRS, rng.randint(0, 5))) for i in range(1, rng.randint(2, 3) + 1)]
    ops = []
    for _ in range(rng.randint(3, 12)):
        r = rng.random()
        if r < .25:
            ops.append(('b', rng.choice(PX_PROPS), rng.choice(targets)[0]))
        elif r < .32:
            ops.append(('u', rng.choice(PX_PROPS)))
        else:
            ops.append(('c', rng.choice(PX_ATTRS + ['mine']), str(rng.randint(0, 99))))
    return injs, own, targets, ops


def px_line(injs, own, targets, ops):
    return 'config px %s %s %s %s' % ('+'.join('%s:%s' % (p, show_dot(a)) for p, a in injs) if injs else '~', show_dot(own),
                                     '+'.join('%s=%s' % (t, show_dot(m)) for t, m in targets) if targets else '~',
                                     ','.join('/'.join(o) for o in ops))


def px_case(rng, stats):
    injs, own, targets, ops = gen_px(rng)
    form = rng.randint(0, 1)
    ans = run_px(injs, own, targets, ops, form)
    bump(stats, 'config:px-lines')
    bump(stats, 'config:px-forwarded', sum(1 for a in ans.split(';') if a.startswith('t')))
    return px_line(injs, own, targets, ops), ans, dict(kind='config', sub='px', injs=_jsonable(injs), own=own,
                                                      targets=_jsonable(targets), ops=_jsonable(ops), form=form)


MX_KEYS = ['x', 'y', 'z', '_u', 'get_name', '__tag__', '_as_mixins']
MX_SLOTS = ['s1', 's2', 's3', '_a']


def gen_mx(rng):
    items = []
    plain, mixed, slotted = [], [], set()
    nm = rng.randint(1, 4)
    for i in range(1, nm + 1):
        name = 'P%d' % i
        keys = rng.sample(MX_KEYS[:6], rng.randint(0, 4)) + [k for k in ('on_new', 'on_init') if rng.random() < .45]
        rng.shuffle(keys)
        slots = None if rng.random() < .55 else rng.sample(MX_SLOTS, rng.randint(0, 2))
        bases = []
        if plain and rng.random() < .15 and not slots:
            b = rng.choice(plain)
            bases = [b]
            if b in slotted:
                slotted.add(name)
        flags = ''.join(f for f in 'ni' if rng.random() < .15)
        items.append(('P', name, bases, slots, keys, flags))
        plain.append(name)
        if slots:
            slotted.add(name)
    for j in range(1, rng.randint(1, 3) + 1):
        name = 'M%d' % j
        first = rng.choice(['Mixable'] * 3 + mixed) if mixed else 'Mixable'
        ms = rng.sample(plain, rng.randint(0, len(plain)))
        # drop mixins that are bases of one another (C3 would be the model's business, but keep most lines valid)
        r = rng.random()
        if r < .7:
            asm = list(ms)
        elif r < .8:
            asm = None
        elif r < .9:
            asm = ms[:-1] if ms else []
        else:
            asm = ms + [p for p in plain if p not in ms][:1]
        remaining = [first] + [m for m in ms if asm is None or m not in asm]
        if sum(1 for b in remaining if b in slotted) > 1:
            asm = list(ms)
            remaining = [first]
        if rng.random() < .5:
            rng.shuffle(asm or [])
        bases = [first] + ms
        slots = None if rng.random() < .6 else rng.sample(MX_SLOTS, rng.randint(0, 2))
        keys = rng.sample(MX_KEYS[:6], rng.randint(0, 3)) + [k for k in ('on_new', 'on_init') if rng.random() < .1]
        flags = ''.join(f for f in 'ni' if rng.random() < .3)
        items.append(('M', name, bases, asm, slots, keys, flags))
        mixed.append(name)
        if slots or first in slotted or any(m in slotted for m in ms):
            slotted.add(name)
        items.append(('L', name))
        items.append(('I', name))
    return items


def mx_case(rng, stats):
    items = gen_mx(rng)
    ans = run_mx(items)
    bump(stats, 'config:mx-lines')
    bump(stats, 'config:mx-classes', sum(1 for i in items if i[0] in 'PM'))
    for a in ans.split(';'):
        if len(a) > 1 and a[0] == 'e' and a[1].isupper():
            bump(stats, 'config:mx-err:' + a[1:])
    return 'config mx ' + ' '.join(tok_mx(i) for i in items), ans, dict(kind='config', sub='mx', items=_jsonable(items))


MIX = [(lambda r, s: w_case(r, s), 46), (lambda r, s: w_case(r, s, True), 12), (cp_case, 14), (px_case, 10), (mx_case, 18)]


def corr_stream(rng, n, pid, stats):
    fns, weights = [m[0] for m in MIX], [m[1] for m in MIX]
    out = []
    hangs = 0
    for _ in range(n):
        fn = rng.choices(fns, weights)[0]
        try:
            out.append(core.with_timeout(lambda: fn(rng, stats), 5))
        except core.Hang:
            hangs += 1
            bump(stats, 'config:hangs')
            if hangs >= 3:
                break
    return out


# --------------------------------------------------------------------------------------
# oracles (real code only)

def deep_view(app):
    """everything application `app` shows of its configuration"""
    def ns(x):
        return sorted((k, show_val(v), id(v) if isinstance(v, dict) else None) for k, v in x.items())
    hooks = app.__dict__.get('_hooks')
    return dict(config_id=id(app.config), rconfig_id=id(app.request.config), config=ns(app.config), rconfig=ns(app.request.config),
                hooks=None if hooks is None else sorted((k, [getattr(f, '__name__', '?') for f in v]) for k, v in hooks.items()))


CFG_POOL = [None, {}, {'debug': True}, {'catchall': False}, {'max_body_size': 10}, {'max_memfile_size': 5, 'debug': True},
            {'app_name_header': 'X-App'}, {'allow_x_script_name': True, 'zz': 1}, {'errors_map': {}}, {'domain_map': {}}]


def oracle_cross_app(steps, cfg_b):
    """steps: framework-level operations on application A (and further new applications); B must not move"""
    ch, mixable, Ombott, DC, RC = mods()
    bad = []
    with Pristine():
        b = Ombott(cfg_b)
        b.add_hook('before_request', lambda: None)
        a = Ombott()
        others = []
        view0 = deep_view(b)
        for st in steps:
            k = st[0]
            if k == 'construct':
                others.append(Ombott(st[1]))
            elif k == 'construct_from_b':
                others.append(Ombott(b.config))
            elif k == 'setup':
                a.setup(st[1])
            elif k == 'setup_from_b':
                a.setup(b.config)
            elif k == 'serve':
                a.route('/ok', 'GET', lambda: 'ok', overwrite=True)
                serve(a, st[1], st[2], st[3])
            elif k == 'copy':
                c = a.request.copy()
                if c.config is a.request.config or c.config is a.config or c.config is b.request.config:
                    bad.append(('copy-shares-namespace', 'request.copy() holds the NameSpace object of an existing request / application'))
                    break
                c.config['debug'] = 'edited-in-copy'
                c.config.update({'max_body_size': -1})
            elif k == 'copy_b_source':
                # a request of A built from B's request config
                a.request.setup(b.request.config)
            elif k == 'hook':
                a.add_hook(st[1], lambda: None)
            elif k == 'rebind':
                tgt = a.config if st[1] == 'c' else a.request.config
                if st[4] == 'item':
                    tgt[st[2]] = st[3]
                elif st[4] == 'attr':
                    setattr(tgt, st[2], st[3])
                else:
                    tgt.update({st[2]: st[3]})
            view = deep_view(b)
            if view != view0:
                what = [f for f in view if view[f] != view0[f]]
                bad.append(('cross-app-' + k, 'after %r on another application, application B shows different %s: %r -> %r'
                            % (st, what, {f: view0[f] for f in what}, {f: view[f] for f in what})))
                break
        # A and the others have objects of their own
        ids = [id(x.config) for x in [a, b] + others] + [id(x.request.config) for x in [a, b] + others]
        if len(set(ids)) != len(ids) and not bad:
            bad.append(('shared-namespace', 'two applications (or an application and its request) hold the SAME NameSpace object'))
    return bad


def gen_steps(rng):
    steps = []
    for _ in range(rng.randint(2, 7)):
        r = rng.random()
        if r < .2:
            steps.append(('construct', rng.choice(CFG_POOL)))
        elif r < .25:
            steps.append(('construct_from_b',))
        elif r < .42:
            steps.append(('setup', rng.choice(CFG_POOL)))
        elif r < .48:
            steps.append(('setup_from_b',))
        elif r < .64:
            steps.append(('serve', rng.choice(['/ok', '/nothing', '/ok']), rng.choice(['GET', 'POST', 'HEAD']),
                          rng.choice([b'', b'a=1', b'x' * 50])))
        elif r < .72:
            steps.append(('copy',))
        elif r < .76:
            steps.append(('copy_b_source',))
        elif r < .82:
            steps.append(('hook', rng.choice(HOOKS)))
        else:
            k = rng.choice(DC_KEYS + ['zz'])
            v = {} if k in MUTABLE else rng.choice([True, 0, 'v', None, 12])
            steps.append(('rebind', rng.choice('cr'), k, v, rng.choice(['item', 'attr', 'update'])))
    return steps


def oracle_get_from(cls_name, src, kw, via_new):
    ch, mixable, Ombott, DC, RC = mods()
    cls = dict(DefaultConfig=DC, RequestConfig=RC)[cls_name]
    bad = []
    expected_keys = sorted(k for k in cls.__dict__ if not k.startswith('__'))
    srcobj = None if src is None else (ch.NameSpace(**src) if via_new % 2 else dict(src))
    call = (lambda: cls(srcobj, **kw)) if via_new >= 2 else (lambda: cls.get_from(srcobj, **kw))
    r1, r2 = call(), call()
    if type(r1) is not ch.NameSpace:
        bad.append(('get_from-type', 'get_from returned %s' % type(r1).__name__))
        return bad
    if sorted(r1.keys()) != expected_keys:
        bad.append(('get_from-keys', 'keys %r, the class defines %r' % (sorted(r1.keys()), expected_keys)))
    for k in expected_keys:
        want = src[k] if (src is not None and k in src) else kw[k] if k in kw else cls.__dict__[k]
        got = r1.__dict__.get(k, Opaque)
        if got is not want:
            bad.append(('get_from-value', '%s.get_from(%r, **%r).%s is %r, expected %r (src, then kw, then the class default)'
                        % (cls_name, src, kw, k, got, want)))
            break
    if r1 is r2 or r1 is srcobj or r1.__dict__ is r2.__dict__:
        bad.append(('get_from-not-fresh', 'two calls of get_from returned the same NameSpace (or the source itself)'))
    r1['debug'] = 'edited'
    r1.update({'catchall': 'edited'})
    if r2.__dict__.get('debug') == 'edited' or r2.__dict__.get('catchall') == 'edited' or getattr(cls, 'debug', None) == 'edited':
        bad.append(('get_from-not-fresh', 'editing one result shows in another result / in the class'))
    return bad


def oracle_meta(keys, body_keys, second_holder):
    """a holder with `keys`; a subclass whose body has `body_keys`: accepted iff every public key is a holder key"""
    ch = mods()[0]
    bad = []
    meta = type(ch.SimpleConfig)
    H = meta('H', (ch.SimpleConfig,), {k: 1 for k in keys})
    ch.SimpleConfig.keys_holder(H)
    if H.keys() != set(keys) or H.__dict__.get('__keys_holder__') is not H:
        bad.append(('keys_holder', 'keys_holder registered %r for keys %r' % (H.__dict__.get('__keys__'), keys)))
    try:
        ch.SimpleConfig.keys_holder(H)
        bad.append(('keys_holder', 'a second registration of the same holder was accepted'))
    except RuntimeError:
        pass
    want_ok = all(k.startswith('_') or k in keys for k in body_keys)
    try:
        S = meta('S', (H,), {k: 2 for k in body_keys})
        ok = True
    except KeyError:
        ok = False
    if ok != want_ok:
        bad.append(('meta-unknown-key', 'class body %r under holder keys %r: %s' % (body_keys, keys, 'accepted' if ok else 'refused')))
    if ok:
        ns = S()
        if sorted(ns.keys()) != sorted(keys) or any(ns[k] != (2 if k in body_keys else 1) for k in keys):
            bad.append(('meta-subclass-values', 'subclass instance shows %r' % (sorted(ns.items()),)))
    if second_holder is not None:
        H2 = meta('H2', (ch.SimpleConfig,), {k: 1 for k in second_holder})
        ch.SimpleConfig.keys_holder(H2)
        try:
            meta('Both', (H, H2), {})
            both = True
        except TypeError:
            both = False
        if both != (set(second_holder) == set(keys)):
            bad.append(('meta-multiple-holders', 'bases with holder keys %r and %r: %s' % (keys, second_holder, 'accepted' if both else 'refused')))
    return bad


def oracle_cp(ops):
    """spec: per instance an optional attribute; the getter runs exactly on a get without one"""
    ans = run_cp(ops).split(';')
    slots, runs, bad = {}, 0, []
    for op, a in zip(ops, ans):
        want = None
        if op[0] == 'g':
            if op[1] in slots:
                want = '%s/0' % show_scalar(slots[op[1]])
            else:
                runs += 1
                if op[2] == 'o':
                    slots[op[1]] = runs
                    want = 'i%d/1' % runs
                else:
                    want = ('ePropertyGetterError' if op[2] == 'a' else 'eValueError') + '/1'
        elif op[0] == 'd':
            want = 'n/0' if op[1] in slots else 'eAttributeError/0'
            slots.pop(op[1], None)
        elif op[0] == 's':
            slots[op[1]] = op[2]
            want = 'n/0'
        else:
            want = 'x/0'
        if a != want:
            bad.append(('cached_property', 'op %r of %r answered %s, expected %s' % (op, ops, a, want)))
            break
    return bad


def oracle_hooks(seq):
    """two applications never share hook lists"""
    Ombott = mods()[2]
    apps = [Ombott(), Ombott(), Ombott()]
    want = [{h: [] for h in HOOKS} for _ in apps]
    bad = []
    fs = {n: (lambda n: (lambda: n))(n) for n in FUNCS}
    for n, f in fs.items():
        f.__name__ = n
    for i, h, f in seq:
        apps[i].add_hook(h, fs[f])
        if h == 'after_request':
            want[i][h].insert(0, f)
        else:
            want[i][h].append(f)
        got = [{k: [x.__name__ for x in v] for k, v in a._hooks.items()} for a in apps]
        if got != want:
            bad.append(('hooks-shared', 'after add_hook on application %d: hook lists %r, expected %r' % (i, got, want)))
            break
    return bad


def oracle_mixin(items):
    """spec of MixableMeta for one M class over plain mixins (all listed in _as_mixins)"""
    ans = run_mx(items).split(';')
    bad = []
    defs = {it[1]: it for it in items if it[0] in 'PM'}
    for it, a in zip(items, ans):
        if it[0] == 'L':
            m = defs[it[1]]
            mixins = [defs[b] for b in m[2] if b in (m[3] or []) and b in defs and defs[b][0] == 'P']
            attrs = {k: '%s.%s' % (m[1], k) for k in ['_as_mixins'] + m[5]}
            on_new, on_init = [], []
            slots = list(m[4] or [])
            for p in mixins:
                for k in p[4]:
                    if k == 'on_new':
                        on_new.append(p[1] + '.on_new')
                    elif k == 'on_init':
                        on_init.append(p[1] + '.on_init')
                    elif not k.startswith('__') and k not in attrs and k not in (p[3] or []):
                        attrs[k] = '%s.%s' % (p[1], k)
                slots += p[3] or []
            want_attrs = '+'.join(sorted('%s=%s' % kv for kv in attrs.items()))
            got = a.split('|')
            if len(got) != 5:
                bad.append(('mixin', 'building %r answered %s' % (m, a)))
                break
            if mixins and (got[0] != want_attrs or got[2] != show_dot(on_new) + '/' + show_dot(on_init)
                           or (slots and got[1] != show_dot(sorted(set(slots))))):
                bad.append(('mixin', 'class %r over mixins %r shows %s, expected attrs %s specials %s/%s slots %s'
                            % (m, mixins, a, want_attrs, on_new, on_init, sorted(set(slots)))))
                break
            if mixins and any(b in got[3].split('.') for b in (m[3] or [])):
                bad.append(('mixin-bases', 'a mixin stayed among the bases: %s' % a))
        if it[0] == 'I' and a.startswith('e') and a[1:2].isupper():
            m = defs[it[1]]
            if m[3] and any(b in m[3] for b in m[2]):
                bad.append(('mixin-instantiate', 'instantiating %r raised %s' % (m, a[1:])))
    return bad


def gen_mixin_items(rng):
    items = []
    names = []
    for i in range(1, rng.randint(1, 4) + 1):
        keys = rng.sample(MX_KEYS[:6], rng.randint(0, 4)) + [k for k in ('on_new', 'on_init') if rng.random() < .5]
        slots = None if rng.random() < .5 else rng.sample(MX_SLOTS, rng.randint(0, 2))
        items.append(('P', 'P%d' % i, [], slots, keys, ''))
        names.append('P%d' % i)
    ms = rng.sample(names, rng.randint(1, len(names)))
    slots = None if rng.random() < .6 else rng.sample(MX_SLOTS, rng.randint(0, 2))
    items.append(('M', 'M1', ['Mixable'] + ms, list(ms), slots, rng.sample(MX_KEYS[:6], rng.randint(0, 3)), rng.choice(['', 'i', 'n'])))
    items += [('L', 'M1'), ('I', 'M1')]
    return items


def oracle_proxy(injs, own, targets, ops):
    ans = run_px(injs, own, targets, ops).split(';')
    cls = {k: ('o', k) for k in own}
    for prop, attrs in injs:
        for a in attrs:
            cls[a] = ('f', prop, a)
    inst, tg, bad = {}, dict(targets), []
    for op, a in zip(ops, ans):
        if op[0] == 'b':
            inst[op[1]] = op[2]
            want = '-'
        elif op[0] == 'u':
            want = '-' if op[1] in inst else 'eAttributeError'
            inst.pop(op[1], None)
        else:
            e = cls.get(op[1])
            if e is None:
                want = 'eAttributeError'
            elif e[0] == 'o':
                want = 'o%s.%s' % (op[1], op[2])
            elif e[1] in inst and e[2] in tg[inst[e[1]]]:
                want = 't%s.%s.%s' % (inst[e[1]], e[2], op[2])
            else:
                want = 'eAttributeError'
        if a != want:
            bad.append(('proxy', 'op %r answered %s, expected %s (injected %r, targets %r)' % (op, a, want, injs, targets)))
            break
    return bad


def search_stream(rng, n, pid, stats, seeds=()):
    """(evaluations, [Finding])"""
    cases = []
    fixed = [[('construct', None), ('setup', {'debug': True}), ('serve', '/nothing', 'GET', b''), ('copy',)],
             [('setup_from_b',), ('rebind', 'c', 'debug', True, 'attr'), ('rebind', 'r', 'max_body_size', 1, 'item')],
             [('construct_from_b',), ('serve', '/ok', 'POST', b'x' * 50), ('hook', 'before_request')],
             [('copy_b_source',), ('rebind', 'r', 'errors_map', {}, 'item'), ('rebind', 'c', 'errors_map', {}, 'update')]]
    for st in fixed:
        for cb in (None, {'debug': True, 'max_body_size': 10}):
            cases.append(('cross', (st, cb)))
    for _ in range(n // 3):
        cases.append(('cross', (gen_steps(rng), rng.choice(CFG_POOL))))
    for _ in range(n // 6):
        cn = rng.choice(['DefaultConfig', 'DefaultConfig', 'RequestConfig'])
        src = rng.choice([None, dict(g_dict(rng, DC_KEYS + EXTRA_KEYS, 0, 5))])
        if src and rng.random() < .3:
            src[rng.choice(MUTABLE)] = {}
        cases.append(('getfrom', (cn, src, dict(g_dict(rng, DC_KEYS + EXTRA_KEYS, 0, 4)), rng.randint(0, 3))))
    for _ in range(n // 10):
        keys = rng.sample(['a', 'b', 'c', 'dd', '_e'], rng.randint(1, 4))
        body = rng.sample(['a', 'b', 'c', 'dd', '_e', 'zz', '_p', '__x__', 'A'], rng.randint(0, 4))
        second = None if rng.random() < .3 else rng.choice([list(keys), list(reversed(keys)), rng.sample(['a', 'b', 'q'], 2),
                                                            keys[:-1] + ['q'], keys[1:] + ['zz'], keys + ['q']])
        cases.append(('meta', (keys, body, second)))
    for _ in range(n // 6):
        cases.append(('cp', gen_cp(rng)))
    for _ in range(n // 12):
        cases.append(('hooks', [(rng.randint(0, 2), rng.choice(HOOKS), rng.choice(FUNCS)) for _ in range(rng.randint(1, 6))]))
    for _ in range(n // 8):
        cases.append(('mixin', gen_mixin_items(rng)))
    for _ in range(n // 10):
        cases.append(('proxy', gen_px(rng)))
    for s in seeds:
        if isinstance(s, dict) and s.get('sub') == 'cp':
            cases.append(('cp', [tuple(o) for o in s['ops']]))
        if isinstance(s, dict) and s.get('sub') == 'px':
            cases.append(('proxy', ([tuple(x) for x in s['injs']], s['own'], [tuple(x) for x in s['targets']], [tuple(o) for o in s['ops']])))
    findings, evals = [], 0
    for kind, x in cases:
        evals += 1
        bump(stats, 'config:oracle:' + kind)
        try:
            bad = core.with_timeout(lambda: run_oracle(kind, x), 10)
        except core.Hang:
            bad = [('hang', 'the %s probe did not terminate' % kind)]
        except Exception as e:   # noqa: an exception out of the machinery on inputs the oracle controls is an observation
            bad = [(kind + '-raised', 'the %s probe raised %s: %s' % (kind, type(e).__name__, e))]
        for key, what in bad:
            findings.append(Finding('%s:config:%s' % (pid, key), what, dict(probe='config', kind=kind, value=_jsonable(x))))
    findings.sort(key=lambda f: len(repr(f.replay['value'])))
    return evals, findings


def run_oracle(kind, x):
    if kind == 'cross':
        return oracle_cross_app(x[0], x[1])
    if kind == 'getfrom':
        return oracle_get_from(*x)
    if kind == 'meta':
        return oracle_meta(*x)
    if kind == 'cp':
        return oracle_cp(x)
    if kind == 'hooks':
        return oracle_hooks(x)
    if kind == 'mixin':
        return oracle_mixin(x)
    return oracle_proxy(*x)


def _jsonable(x):
    if isinstance(x, bytes):
        return {'bytes': x.hex()}
    if isinstance(x, (list, tuple)):
        return [_jsonable(y) for y in x]
    if isinstance(x, dict):
        return {'dict': [[k, _jsonable(v)] for k, v in x.items()]}
    return x


def _unjson(x):
    if isinstance(x, dict) and 'bytes' in x:
        return bytes.fromhex(x['bytes'])
    if isinstance(x, dict) and 'dict' in x:
        return {k: _unjson(v) for k, v in x['dict']}
    if isinstance(x, list):
        return tuple(_unjson(y) for y in x)
    return x


def _ops_back(ops):
    """tuples again; dict literals of class bodies / kw stay lists of pairs"""
    def fix(o):
        o = list(o)
        return tuple(([list(p) if isinstance(p, tuple) else p for p in f] if isinstance(f, tuple) and o[0] != 'x' else f) for f in o)
    return [fix(_unjson(o)) for o in ops]


def replay_case(i, pid):
    if i.get('probe') == 'config':
        kind, x = i['kind'], _unjson(i['value'])
        if kind == 'cross':
            x = ([tuple(s) for s in x[0]], x[1])
        elif kind == 'mixin':
            x = [tuple(list(f) if isinstance(f, tuple) else f for f in it) for it in x]
        elif kind == 'proxy':
            x = ([(p, list(a)) for p, a in x[0]], list(x[1]), [(t, list(m)) for t, m in x[2]], [tuple(o) for o in x[3]])
        elif kind == 'getfrom':
            x = (x[0], x[1], x[2], x[3])
        elif kind == 'meta':
            x = (list(x[0]), list(x[1]), None if x[2] is None else list(x[2]))
        elif kind in ('cp', 'hooks'):
            x = [tuple(o) for o in x]
        return dict(input=i, oracle=[list(b) for b in run_oracle(kind, x)])
    out = dict(input=i)
    sub = i.get('sub')
    if sub == 'cp':
        ops = [tuple(o) for o in i['ops']]
        out['line'] = 'config cp ' + ','.join(tok_cp(o) for o in ops)
        out['impl_now'] = run_cp(ops)
    elif sub == 'px':
        injs, tg, ops = [(p, list(a)) for p, a in i['injs']], [(t, list(m)) for t, m in i['targets']], [tuple(o) for o in i['ops']]
        out['line'] = px_line(injs, i['own'], tg, ops)
        out['impl_now'] = run_px(injs, i['own'], tg, ops, i.get('form', 0))
    elif sub == 'mx':
        items = [tuple(it) for it in i['items']]
        out['line'] = 'config mx ' + ' '.join(tok_mx(it) for it in items)
        out['impl_now'] = run_mx(items)
    elif sub == 'w':
        ops = []
        for o in i['ops']:
            o = [tuple(f) if isinstance(f, list) and o[0] in 'AS' and len(f) and f[0] in 'NLT' else f for f in o]
            o = [(f[0], [tuple(p) for p in f[1]]) if isinstance(f, tuple) and f[0] == 'L' else f for f in o]
            if o[0] == 'F':
                o[3] = tuple(o[3]) if o[3][0] != 'L' else ('L', [tuple(p) for p in o[3][1]])
                o[4] = [tuple(p) for p in o[4]]
            if o[0] == 'C':
                o[3] = [(k, [tuple(p) for p in v] if isinstance(v, list) else v) for k, v in o[3]]
            if o[0] in ('nd',):
                o[3] = [tuple(p) for p in o[3]]
            if o[0] == 'nu':
                o[2] = [tuple(p) for p in o[2]]
            ops.append(tuple(o))
        out['line'] = 'config w ' + ','.join(tok_op(o) for o in ops)
        out['impl_now'] = run_w(ops)
    return out


# --------------------------------------------------------------------------------------
# hooking the stream into C10

CF_ANCHORS = ['ombott/common_helpers.py', 'ombott/mixable.py', 'ombott/request_pkg/request.py', 'ombott/ombott.py']
CF_RULE = (' || class / configuration machinery (configlib): operation sequences on the REAL _MetaSimpleConfig / SimpleConfig '
           '(generated class statements: subclasses of holders with unknown / private keys, new holders, reserved keys, two '
           'holders, no bases; keys / items / get / get_from / __new__ with dict, NameSpace and None sources and kw), NameSpace '
           '(item / attribute / get / setdefault / update), 2-4 Ombott() applications with setup / request.copy / served requests '
           '/ hooks, in-place mutation and rebinding of the shared mutable defaults; cached_property get / del / set sequences '
           'over 1-3 instances with failing getters; proxy injectors with rebinding targets; MixableMeta over generated mixins '
           '(slots, specials, shadowing, mixins left among the bases, subclasses of mixed classes) vs Model/Config.lean; oracle: '
           'configuration reads of application B identical before / after construct, setup, serve, copy, add_hook and rebinding '
           'edits on application A; get_from exact and fresh; metaclass refusals; cached_property runs the getter exactly without '
           'an instance attribute; mixin attributes exact; proxy forwards to the current target')
CF_ASSUMPTIONS = ['configuration machinery: attribute names are identifier tokens; setattr of dunder names on a NameSpace, a class '
                  'body that shadows a SimpleConfig classmethod other than through keys_holder\'s check, `__slots__` conflicts '
                  '(a slot named like a class attribute, two slotted bases) and string-valued `__slots__` are outside the model '
                  'and the generators; set-valued attributes (`__keys__`, merged `__slots__`) are compared sorted']
CF_NOTE = ('configuration machinery: every application and request gets a NEW NameSpace (rebinding edits stay local), but mutable '
           'default VALUES (cfgMutableDefaults: errors_map, domain_map) are one object shared by all applications - an in-place '
           'edit by application code shows everywhere (outside C10, which speaks about serving / copying / constructing); a '
           'Mixable subclass without mixins of its own cannot be instantiated (TypeError) and a subclass of a mixed class calls '
           'the specials once per level')


def install(cls, quick=(1500, 900), thorough=(40000, 20000)):
    """adds the configuration stream to check class `cls`: table, anchors, correspondence, oracle, replay"""
    pid = cls.pid
    cls.tables = list(cls.tables) + ['config']
    cls.anchors = list(cls.anchors) + [a for a in CF_ANCHORS if a not in cls.anchors]
    cls.rule = cls.rule + CF_RULE
    cls.assumptions = list(cls.assumptions) + CF_ASSUMPTIONS
    cls.level_note_extra = (cls.level_note_extra + '; ' if cls.level_note_extra else '') + CF_NOTE
    o_budget, o_corr, o_search, o_replay, o_nontrivial = cls.budget, cls.corr, cls.search, cls.replay, cls.nontrivial

    def is_mine(s):
        return isinstance(s, dict) and (s.get('kind') == 'config' or s.get('probe') == 'config')

    def budget(self, tier, escalated):
        self._cf = (tier, escalated)
        return o_budget(self, tier, escalated)

    def sizes(self):
        tier, esc = getattr(self, '_cf', ('quick', False))
        a, b = quick if tier == 'quick' else thorough
        return (a * 3, b * 3) if (esc and tier == 'quick') else (a, b)

    def corr(self, rng, n):
        out = list(o_corr(self, rng, n))
        if not hasattr(self, 'stats') or self.stats is None:
            self.stats = {}
        out += corr_stream(rng, sizes(self)[0], pid, self.stats)
        return out

    def search(self, rng, n, seeds):
        mine = [s for s in seeds if is_mine(s)]
        evals, findings = o_search(self, rng, n, [s for s in seeds if not is_mine(s)])
        if not hasattr(self, 'stats') or self.stats is None:
            self.stats = {}
        try:
            ev, fs = core.with_timeout(lambda: search_stream(rng, sizes(self)[1], pid, self.stats, mine), 170)
        except core.Hang:
            ev, fs = 1, [Finding(f'{pid}:config:hang', 'the configuration machinery did not terminate (170 s of CPU time in the '
                                 'config oracle stream)', dict(probe='config', kind='hang', value=None))]
        return evals + ev, list(findings) + fs

    def replay(self, data):
        i = data.get('input')
        if is_mine(i):
            return replay_case(i, pid)
        return o_replay(self, data)

    def nontrivial(self, sample):
        if is_mine(sample):
            return len(sample.get('ops', sample.get('items', []))) >= 2
        return o_nontrivial(self, sample)

    cls.budget, cls.corr, cls.search, cls.replay, cls.nontrivial = budget, corr, search, replay, nontrivial
    return cls
