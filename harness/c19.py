"""C19 - Building a URL from matched parameters leads back to the same match."""
import math
import re

from harness import core
from harness.core import hs, Check, Finding
from harness import router_gen as G

# ---------------------------------------------------------------------------------------------
# generators: rule ASTs dense in what the property names (adjacent literals and wildcards,
# int/float/re/path filters, anonymous wildcards, literals of every length between wildcards)

LITS = ['a', 'b', '/', '-', '.', '0', 'é', 'x/', '/a', 'ab', 'a/b', '/a/', 'end', '/end', '.5', '0.', '1', '-x-', 'y',
        '_', '//', 'a.b/c', ':', '.0', '5', 'static/x', 'abcdefghij', '/v1/items/']
# class: literal rule text that is META-SYNTAX for some internal mechanism a builder / matcher may be written with
# (printf-style and str.format templates, string.Template, regex patterns and replacement strings): pre-encoded text
# ('/caf%C3%A9/'), prices ('/sale-50%/'), '%s', '%%', '$x', regex operators.  ORACLE-ONLY literal pool ('{', '}', '<', '>',
# ':' and the backslash are rule syntax and stay out).
META_LITS = ['%', '%%', '%s', '%d', '%r', '%(x)s', '%C3%A9', 'caf%C3%A9/', 'sale-50%/', 'a%20b', '%2F', '100%', '%/', '/%',
             '% ', '%%s', '%1$s', '$x', '$', '$$', '${x}', '&', '?', '#', '~', '*', '+', '(', ')', '(a', '[', ']', '[a', '^',
             '|', 'a|b', '.*', 'a+', '(?:', '!', '@', ';', ',', "'", '"', ' ', 'a b']
NAMES = ['x', 'y', 'z', 'id', 'n_1', 'Xé', '_p', 'q', 'p']
RE_POOL = [r'[a-z]+', r'\d+', r'[^/]+', r'a*', r'a|ab', r'(?:ab)+', r'.*', r'.+', r'[ab]*b', r'\w+', r'é+',
           r'[0-9][0-9]', r'x?', r'[^-]*', r'-?1', r'/+', r'a\)b', r'[^/]*/b', r'[^0]+', r'[a-z]*', r'[0-9.]+',
           # one capturing group that takes part in the match without spanning it; two groups; a group spanning it;
           # the mask texts of the built-in int / float filters as user regexes
           r'(\d+)px', r'(ab|cd)+', r'v(\d+)', r'([a-z]+)-x', r'(a)(b)?', r'(a)|(b)', r'(\d+)', r'-?\d+', r'-?\d+(\.\d+)?']
REX_POOL = G.REX_POOL

POOL = {
    None: ['a', 'ab', 'x1', 'é', '0', '-1', 'a-b', 'a.b', '5.0', 'b', '7', 'end', '', 'a\rb', '1e5'],
    'int': ['0', '12', '-7', '007', '-0', '1', '-00', '٣', '10', '-12', '000', '-007', '9٣', '5'],
    'float': ['1.5', '-0.25', '3', '10.0', '5', '-0', '0.50', '00.5', '1.50', '-3.0', '12345678901234567890',
              '0.00001', '100000000000000000000000', '٣.٥', '0', '-0.0', '3.1', '1.5.5', '0.000000000000000000001',
              '10000000000000000', '123456789.123456789'],
    'path': ['a/b', 'a', 'a/b/c', 'x/é/1', 'a//b', '-3.1', 'y-3.1', 'a0', 'a.5', '1.5', 'a/end', 'end/end', 'b.', '0'],
    're': ['12px', '7px', 'abcd', 'cd', 'v12', 'v007', 'ab-x', 'q-x', '007', '-7', '1.50', '-0.5',
           'a', 'ab', 'abab', 'b', 'aab', '12', 'é', 'x', '', 'éé', '-1', 'a)b', '//', 'a/b', '01', 'aa', 'bb', 'abb',
           '7', '1', 'x/b', '1.5', '3.', 'z9', '-'],
    'rex': ['a', 'b', 'ab', '12', 'abx', 'x', 'q'],
}

# rules that carry the recorded findings and their neighbourhood, always run
FIXED = [
    ('/a/<x:path>/end', 'a/b/c/end'),
    ('/a/<x:re:a*>/e', 'a//e'),
    ('/x/y<p:path>.<q:float>', 'x/y-3.1.5'),
    ('/<p:path>0<q:float>/b', 'a05/b'),
    ('/<a:int><b:int>', '1-0'),
    ('/<a:re:[^0]+><b:int>', 'x007'),
    ('/<p:float>.<q>', '-3.0.00001'),
    ('/<p:float>.5', '100000000000000000000000.0.5'),
    ('/<q:float>', '10000000000000000'),
    ('/<q:float>', '0.00001'),
    ('/foo/{:re(to.)}/bar{some.int()}/{other}/end', 'foo/tok/bar5/other/end'),
    ('/<:int>/<:int>-<y>', '5/7-k'),
    ('/<:int>/<:int>/<:int>/<:int>', '1/2/3/4'),
    ('/static/files/<a>/<b>/x', 'static/files/p/q/x'),
    ('/<a>/<b>', 'x/y'),
    ('/s', 's'),
    ('/a/<x:int>', 'a/٣'),
    ('/n<x:int>', 'n-007'),
    ('/<x.rex((a)|(b))[2]>z', 'bz'),
    # user regexes with capturing groups: the value bound is the text the wildcard consumed, whatever the groups say
    ('/<x:re:(\\d+)px>', '12px'), ('/<x:re:(ab|cd)+>', 'abcd'), ('/<x:re:v(\\d+)>', 'v12'), ('/<x:re:([a-z]+)-x>/t', 'ab-x/t'),
    ('/<x.re((\\d+)px)>/<y:int>', '12px/007'), ('/<x:re:\\d+px>', '12px'), ('/<x:re:(?:ab|cd)+>', 'abcd'),
    ('/<x:re:(a)(b)?>', 'ab'), ('/<x:re:(a)(b)?>', 'a'), ('/<x:re:(a)|(b)>', 'b'), ('/<x:re:(\\d+)>', '12'),
    ('/n/<x:re:-?\\d+>', 'n/007'), ('/n/<x:re:-?\\d+(\\.\\d+)?>', 'n/1.50'), ('/<x:re:([a-z]+)-x><y>', 'ab-xq'),
    # the shapes the side conditions of url_rematch_builtin exclude (model witnesses of Props/C19.lean, section
    # WitnessBuiltin) and instances meeting them
    ('/<p:path>-5<n:int>', 'a-5-05'),
    ('/<a:float>.<b:int>', '10000000000000000.0.7'),
    ('/<a:float>.<b:int>', '1000000000000000.0.7'),
    ('/dl/<p:path>.tar/img/<n:int>.png', 'dl/a.tar/img/b.tar/img/007.png'),
    ('/w/<x:float>/<p:path>', 'w/007.50/a/b'),
    ('/<p:path>/v<x:float>', 'a/b/v1.50'),
    ('/<x><p:path>', 'ab/c'),
    ('/<p:path>', 'a/b\n'),
    ('/<x:float>', '٣.٥0'),
    ('/<x:float>/e', '12345678901234567.25/e'),
]


# rule universe of the exhaustive small scope (thorough tier)
SCOPE_RULES = ['/<x>', '/a/<x>', '/<x>/<y>', '/<x:int>', '/<x:int>/<y:int>', '/<x:int>-<y:int>', '/<x:int><y>',
               '/<:int>/<:int>', '/<x:float>', '/<x:float>/a', '/a<x:float>', '/<x:int>.<y:int>', '/<x:float>-<y:int>',
               '/<p:path>', '/<p:path>/a', '/<p:path>-<x:int>', '/<x:re:[a-z]+>', '/<x:re:[a-z]*>/<y>',
               '/<x:re:\\d+>a', '/<x:re:.*>', '/<x:re:[^/]+>/<y:int>', '/<x>-<y>', '/<x:int>a<y:re:[01]+>',
               '/0<x:int>', '/<x:float>.<y>', '/<x:re:[a-z]+><y:int>', '/<x><y:int>', '/a/<x>/<:int>/1']


def gen_wild(rng, anon=.3):
    k = rng.randrange(16)
    name = None if rng.random() < anon else rng.choice(NAMES)
    if k < 4:
        return ('w', name, None, None, None)
    if k < 7:
        return ('w', name, 'int', rng.choice([None, None, None, '']), None)
    if k < 10:
        return ('w', name, 'float', None, None)
    if k < 12:
        return ('w', name, 'path', None, None)
    if k < 15:
        return ('w', name, 're', rng.choice(RE_POOL), None)
    return ('w', name, 'rex', rng.choice(REX_POOL), rng.choice([None, '1', '2', '3']))


def gen_ast(rng, lits=None):
    lits = lits or LITS
    n = rng.choice([1, 2, 2, 3, 3, 4, 5, 6, 7])
    anon = rng.choice([.3, .3, .3, 0, .9, 1])      # some rules all anonymous, some all named
    segs = []
    for i in range(n):
        r = rng.random()
        if r < .42:
            segs.append(('lit', rng.choice(lits)))
        else:
            segs.append(gen_wild(rng, anon))
    if not any(s[0] == 'w' for s in segs) and rng.random() < .9:
        segs.insert(rng.randint(0, len(segs)), gen_wild(rng, anon))
    out = []
    for s in segs:
        if s[0] == 'lit' and out and out[-1][0] == 'lit':
            out[-1] = ('lit', out[-1][1] + s[1])
        else:
            out.append(s)
    if out and out[0][0] == 'lit':
        t = out[0][1].lstrip('/')
        out[0:1] = [('lit', t)] if t else []
    if out and out[-1][0] == 'lit' and rng.random() < .8:
        t = out[-1][1].rstrip('/')          # `resolve` strips the path: a rule ending in '/' is unreachable
        out[-1:] = [('lit', t)] if t else []
    seen, res = set(), []
    for s in out:
        if s[0] == 'w' and s[1] is not None:
            nm = s[1]
            while nm in seen:
                nm += '_'
            seen.add(nm)
            s = ('w', nm) + tuple(s[2:])
        res.append(s)
    return res or [('lit', 'a')]


def gen_rule(rng, lits=None):
    for _ in range(30):
        ast = gen_ast(rng, lits)
        t = G.print_rule(rng, ast)
        if t is not None and G.in_domain(t):
            return t, ast
    return '/a/<x>', [('lit', 'a/'), ('w', 'x', None, None, None)]


_fm_cache = {}


def _texts_for(seg):
    """candidate texts for a wildcard: for regex filters the pool members the mask accepts"""
    kind = seg[2]
    if kind in ('re', 'rex'):
        key = (kind, seg[3])
        if key not in _fm_cache:
            try:
                rx = re.compile(seg[3])
                ok = [s for s in POOL['re'] + POOL['rex'] if rx.fullmatch(s)]
            except re.error:
                ok = []
            _fm_cache[key] = ok or POOL[kind]
        return _fm_cache[key]
    return POOL[kind]


def gen_path(rng, ast):
    out = []
    for s in ast:
        if s[0] == 'lit':
            out.append(s[1])
        else:
            t = rng.choice(_texts_for(s))
            if s[2] is None and rng.random() < .9:
                t = t.replace('/', '') or 'a'
            out.append(t)
            if s[4] is not None and rng.random() < .5:
                out.append(s[4])
    p = ''.join(out)
    r = rng.random()
    if r < .15:
        p = G.mutate(rng, p)
    if r < .03:
        p = G.mutate(rng, p)
    if rng.random() < .1:
        p = '/' + p
    return p


def gen_case(rng):
    rule, ast = gen_rule(rng)
    return rule, gen_path(rng, ast)


# ---------------------------------------------------------------------------------------------
# running the real code for the correspondence lines

class Lite(G.Runner):
    """a bare `RadiRouter` with the filter bookkeeping of `router_gen.Runner`"""

    def __init__(self):
        from ombott.router.radirouter import RadiRouter, Route
        from ombott.router.filter_factory import FilterFactory
        self.router = RadiRouter()
        self.FF = FilterFactory
        self.Route = Route
        self.ops, self.answers, self.fkeys, self.routes, self.calls = [], [], [], {}, []
        self.env_overflow = False


def wild_fkeys(rule):
    """filter key (`name(args)`) of every wildcard of the rule in order, None for a plain one"""
    from ombott.router.radirouter import Route
    out = []
    for part, param, flt, args, sel in Route.parser.iter_parse(rule[1:]):
        if not part:
            out.append(f'{flt}({args})' if flt else None)
    return out


def enc_vals(vs):
    return ','.join(G.enc_val(v) for v in vs) if vs else '~'


def env_entry(fk, handler, s):
    v, n, sel = core.with_timeout(lambda: handler(s))
    if v is None:
        return '%s:%s=~' % (hs(fk), hs(s))
    e = '%s:%s=%s:%d:%s' % (hs(fk), hs(s), G.enc_val(v), n, '~' if sel is None else sel)
    if fk.startswith('float(') and n < len(s) and G.float_inexact(s[:n]):
        # `float(text)` of a numeral the model does not convert itself: shipped under the matched text
        e += ';%s:%s=%s:%d:~' % (hs(fk), hs(s[:n]), G.enc_val(v), n)
    return e


def model_formats(fk, v):
    """formatter calls the model computes itself: `int` on an int, `float` on a finite float"""
    if fk.startswith('int(') and type(v) is int:
        return True
    return fk.startswith('float(') and type(v) is float and math.isfinite(v)


def url_tables(route, fks, args, kw):
    """answers of the real formatters / handlers that `url(*args, **kw)` asks for (library
    results the model takes as parameters); follows the argument pairing only to know *which*
    calls are made"""
    env, fenv = [], []
    ai = 0
    runs = route.pattern_out.split('\r')          # literal text after the i-th wildcard = runs[i + 1]
    for wi, (pname, fk, f_in, f_out) in enumerate(zip(route.params, fks, route.filters, route.filters_out)):
        if pname.startswith('anon-'):
            if ai >= len(args):
                break
            v = args[ai]
            ai += 1
        else:
            if pname not in kw:
                break
            v = kw[pname]
        prt = v
        if f_out:
            try:
                prt = f_out(v)
                res = 'ok.' + hs(prt)
            except Exception as e:
                prt = None
                res = 'err.' + type(e).__name__
            if not model_formats(fk, v):
                fenv.append('%s:%s=%s' % (hs(fk), G.enc_val(v), res))
            if prt is None:
                break
        if f_in:
            if not isinstance(prt, str):
                break
            if not fk.startswith('int('):
                env.append(env_entry(fk, f_in, prt + (runs[wi + 1] if wi + 1 < len(runs) else '')))
    return env, fenv


def split_args(names, vals):
    anon = [v for n, v in zip(names, vals) if n.startswith('anon-')]
    kw = {n: v for n, v in zip(names, vals) if not n.startswith('anon-')}
    return anon, kw


def _txt(entries):
    return ';'.join(entries) if entries else '~'


def rt_case(rule, path, whole_only=False):
    """(line, implementation answer, info) for one round trip on the real code.  `whole_only`:
    ship the handler answers for the whole texts only, not for every suffix (enough for a rule
    that is a single wildcard; keeps very long paths shippable)"""
    run = Lite()
    if whole_only:
        full = run.env_for

        def env_for(p):
            out = []
            for fk in run.fkeys:
                out.append(env_entry(fk, G.filter_handler(run.FF, fk), p))
            return out
        run.env_for = env_for
    ans = run.add(rule, ['GET'])
    cerr = run.ops[0].split('|')[-1]
    info = dict(matched=False, built=False, rematched=False)
    if not ans.startswith('ok:'):
        return 'routeurl rt %s|%s|%s|~|~' % (hs(rule), cerr, hs(path)), 'add-err:' + ans[4:], info
    route = run.routes[0]
    fks = wild_fkeys(rule)
    rex = any(fk and fk.startswith('rex(') for fk in fks)
    p = path.strip('/')
    env = run.env_for(p)
    fenv = []

    def look(pp):
        r = core.with_timeout(lambda: run.router.resolve(pp))
        if r is None:
            return None
        _, extra = run.router.radidict.get(pp.strip('/'), allow_partial=True)
        return extra['param_keys'], extra['param_values']
    m = look(path)
    if m is None:
        impl = 'm=miss'
    else:
        info['matched'] = True
        names, vals = m
        sv = enc_vals(vals)
        impl = 'd=1 m=%s s=%s' % (sv, '-' if rex else sv)
        anon, kw = split_args(names, vals)
        e2, fenv = url_tables(route, fks, anon, kw)
        env += e2
        try:
            u = core.with_timeout(lambda: route.url(*anon, **kw))
        except core.Hang:
            raise
        except Exception as e:
            u = None
            impl += ' u=err:' + type(e).__name__
            info['url_error'] = type(e).__name__
        if u is not None:
            info['built'] = True
            env += run.env_for(u.strip('/'))
            m2 = look(u)
            s2 = 'miss' if m2 is None else enc_vals(m2[1])
            info['rematched'] = m2 is not None and s2 == sv
            impl += ' u=ok:%s m2=%s s2=%s' % (hs(u), s2, '-' if rex else s2)
    info['overflow'] = run.env_overflow
    line = 'routeurl rt %s|%s|%s|%s|%s' % (hs(rule), cerr, hs(path), _txt(env), _txt(fenv))
    return line, impl, info


# ---------------------------------------------------------------------------------------------
# rules of built-in wildcards only, and the decidable hypotheses of url_rematch_builtin re-stated on
# the real code (`routeurl hyp` lines: the Lean side evaluates `builtinOnly`, `convAfterTok`, `sideOK`)

B_LITS = ['/', '-', '.', '.tar/', '/img/', '-5', '0', '.5', 'v', '/end', 'x/', 'a', '.png', '1', '/a/', '_', '.0', '\n', 'é', '--']
B_POOL = {
    None: POOL[None],
    'int': POOL['int'] + ['-05', '-5', '05', '50', '-50'],
    'float': POOL['float'] + ['-5', '5.0', '-05.0', '1000000000000000', '1000000000000000.0', '10000000000000000.0', '0.50', '.5',
                              '12345678901234567.25', '0.1234567890123456', '7', '-7.00', '1.5'],
    'path': POOL['path'] + ['a-5', 'a-5-5', 'x.tar/y', 'a.tar/img/b', 'a/b\nc', 'a.5', 'a0', '-3.1', 'a\n'],
}


def gen_builtin_ast(rng):
    n = rng.choice([2, 3, 3, 4, 5, 6])
    segs = []
    for i in range(n):
        if rng.random() < .45:
            segs.append(('lit', rng.choice(B_LITS)))
        else:
            k = rng.choice([None, 'int', 'int', 'float', 'float', 'path', 'path'])
            name = None if rng.random() < .3 else rng.choice(NAMES)
            segs.append(('w', name, k, None, None))
    if not any(x[0] == 'w' for x in segs):
        segs.append(('w', 'p', 'path', None, None))
    out = []
    for x in segs:
        if x[0] == 'lit' and out and out[-1][0] == 'lit':
            out[-1] = ('lit', out[-1][1] + x[1])
        else:
            out.append(x)
    if out[0][0] == 'lit':
        t = out[0][1].lstrip('/')
        out[0:1] = [('lit', t)] if t else []
    if out and out[-1][0] == 'lit':
        t = out[-1][1].rstrip('/')
        out[-1:] = [('lit', t)] if t else []
    seen, res = set(), []
    for x in out:
        if x[0] == 'w' and x[1] is not None:
            nm = x[1]
            while nm in seen:
                nm += '_'
            seen.add(nm)
            x = ('w', nm) + tuple(x[2:])
        res.append(x)
    return res or [('w', 'p', 'path', None, None)]


def gen_builtin_case(rng):
    for _ in range(30):
        ast = gen_builtin_ast(rng)
        t = G.print_rule(rng, ast)
        if t is not None and G.in_domain(t):
            break
    else:
        t, ast = '/<p:path>', [('w', 'p', 'path', None, None)]
    out = []
    for x in ast:
        out.append(x[1] if x[0] == 'lit' else rng.choice(B_POOL[x[2]]))
    p = ''.join(out)
    if rng.random() < .1:
        p = G.mutate(rng, p)
    return t, ast, p


def dot_run(s):
    j = s.find('\n')
    return len(s) if j < 0 else j


def later_lit(conf, rest):
    """`laterLit` of Model/RouterBuiltinEnv.lean: the look-ahead literal stands again at 1 … dotRun"""
    for i in range(1, dot_run(rest) + 1):
        if (rest.startswith(conf, i) if conf else rest[i:] in ('', '\n')):
            return True
    return False


def dot_digit(rest):
    return len(rest) >= 2 and rest[0] == '.' and rest[1].isdecimal()


def hyp_holds(route, ast, vals):
    """the hypotheses of url_rematch_builtin on the real objects: wildcard kinds, adjacency, and the
    side conditions on the matched values and on the URL text that follows each wildcard"""
    kinds = [x[2] or 'plain' for x in ast if x[0] == 'w']
    if any(k not in ('plain', 'int', 'float', 'path') for k in kinds):
        return False
    runs = lit_runs(ast)
    idx = [i for i, x in enumerate(ast) if x[0] == 'w']
    for wi, i in enumerate(idx):
        nxt_is_w = i + 1 < len(ast) and ast[i + 1][0] == 'w'
        if kinds[wi] == 'path' and nxt_is_w:
            return False                                            # builtinOnly
        if nxt_is_w and kinds[wi + 1] in ('int', 'float'):
            return False                                            # convAfterTok
    if len(vals) != len(kinds):
        return False
    texts = []
    for wi, v in enumerate(vals):
        f_out, f_in = route.filters_out[wi], route.filters[wi]
        try:
            prt = f_out(v) if f_out else v
            ok = isinstance(prt, str)
            if ok and f_in:
                val, pos, _ = f_in(prt + runs[wi + 1])
                ok = val is not None and pos == len(prt)
        except Exception:
            ok = False
        texts.append(prt if ok else None)
    for wi, v in enumerate(vals):
        if any(t is None for t in texts[wi + 1:]):
            continue                                                # no URL for the rest: nothing demanded
        rest = runs[wi + 1] + ''.join(t + r for t, r in zip(texts[wi + 1:], runs[wi + 2:]))
        if kinds[wi] == 'float':
            f_out, f_in = route.filters_out[wi], route.filters[wi]
            try:
                if not (type(v) is float and math.isfinite(v)):
                    return False
                u = f_out(v)
                rv, rn, _ = f_in(u)
                good = same_vals([rv], [v]) and rn == len(u)
            except Exception:
                return False
            if not (good and ('.' in u or not dot_digit(rest))):
                return False
        elif kinds[wi] == 'path':
            if later_lit(runs[wi + 1], rest):
                return False
    return True


def hyp_case(rule, ast, path):
    """(line, answer, info): hypotheses of url_rematch_builtin and the outcome of the round trip"""
    run = Lite()
    ans = run.add(rule, ['GET'])
    cerr = run.ops[0].split('|')[-1]
    if not ans.startswith('ok:'):
        return 'routeurl hyp %s|%s|%s|~|~' % (hs(rule), cerr, hs(path)), 'add-err', dict(h=False, matched=False)
    route = run.routes[0]
    fks = wild_fkeys(rule)
    p = path.strip('/')
    env = run.env_for(p)
    fenv = []
    r = core.with_timeout(lambda: run.router.resolve(path))
    info = dict(h=False, matched=False, rematched=False)
    if r is None:
        impl = 'miss'
    else:
        _, extra = run.router.radidict.get(p, allow_partial=True)
        names, vals = extra['param_keys'], extra['param_values']
        info['matched'] = True
        anon, kw = split_args(names, vals)
        e2, fenv = url_tables(route, fks, anon, kw)
        env += e2
        re_ok = False
        try:
            u = core.with_timeout(lambda: route.url(*anon, **kw))
        except core.Hang:
            raise
        except Exception:
            u = None
        if u is not None:
            env += run.env_for(u.strip('/'))
            if core.with_timeout(lambda: run.router.resolve(u)) is not None:
                _, ex2 = run.router.radidict.get(u.strip('/'), allow_partial=True)
                re_ok = same_vals(vals, ex2['param_values'])
        h = hyp_holds(route, ast, vals)
        info.update(h=h, rematched=re_ok)
        impl = 'h=%d r=%d' % (h, re_ok)
    info['overflow'] = run.env_overflow
    return 'routeurl hyp %s|%s|%s|%s|%s' % (hs(rule), cerr, hs(path), _txt(env), _txt(fenv)), impl, info


BAD_VALUES = ['12', 'abc', '', 'a/b', 7, -3, 0, 1.5, 2.0, '1.5', '٣', ' 4 ', '1_0', 1e+16, float('inf')]


def perturb(rng, anon, kw):
    anon, kw = list(anon), dict(kw)
    k = rng.randrange(9)
    if k == 0 and anon:
        anon.pop(rng.randrange(len(anon)))
    elif k == 1 and kw:
        kw.pop(rng.choice(sorted(kw)))
    elif k == 2:
        anon.append(rng.choice(BAD_VALUES))
    elif k == 3 and anon:
        anon[rng.randrange(len(anon))] = rng.choice(BAD_VALUES)
    elif k == 4 and kw:
        kw[rng.choice(sorted(kw))] = rng.choice(BAD_VALUES)
    elif k == 5 and len(anon) > 1:
        anon.reverse()
    elif k == 6:
        kw['extra'] = 'v'
    elif k == 7 and kw and anon:
        n = rng.choice(sorted(kw))
        i = rng.randrange(len(anon))
        kw[n], anon[i] = anon[i], kw[n]
    return anon, kw


def url_case(rng, rule, path):
    """a direct `url(*args, **kw)` call with arguments that need not come from a match"""
    run = Lite()
    ans = run.add(rule, ['GET'])
    cerr = run.ops[0].split('|')[-1]
    if not ans.startswith('ok:'):
        try:
            from ombott.router.radirouter import Route
            Route(rule)
            return None                 # the rule parses but the router refuses it: nothing to build
        except Exception as e:
            return ('routeurl url %s|%s|~|~|~|~' % (hs(rule), cerr), 'rule-err:' + G.err_name(e),
                    dict(kind='url', rule=rule, err=True))
    route = run.routes[0]
    fks = wild_fkeys(rule)
    _, extra = run.router.radidict.get(path.strip('/'), allow_partial=True)
    vals = list(extra['param_values'])
    while len(vals) < len(route.params):
        vals.append(rng.choice(BAD_VALUES))
    anon, kw = split_args(route.params, vals)
    if rng.random() < .85:
        anon, kw = perturb(rng, anon, kw)
    env, fenv = url_tables(route, fks, anon, kw)
    try:
        impl = 'ok:' + hs(core.with_timeout(lambda: route.url(*anon, **kw)))
    except core.Hang:
        raise
    except Exception as e:
        impl = 'err:' + type(e).__name__
    kwt = ','.join('%s=%s' % (hs(k), G.enc_val(v)) for k, v in kw.items()) if kw else '~'
    line = 'routeurl url %s|%s|%s|%s|%s|%s' % (hs(rule), cerr, enc_vals(anon), kwt, _txt(env), _txt(fenv))
    return line, impl, dict(kind='url', rule=rule, args=repr(anon), kw=repr(kw), answer=impl[:40])


# ---------------------------------------------------------------------------------------------
# the independent oracle (from the property text; real code only)

def lit_runs(ast):
    """literal runs of the rule around its wildcards: k wildcards -> k+1 runs (possibly empty)"""
    runs, cur = [], ''
    for s in ast:
        if s[0] == 'lit':
            cur += s[1]
        else:
            runs.append(cur)
            cur = ''
    runs.append(cur)
    return runs


def ast_of_rule(rule):
    """literal / wildcard structure of a hand-written rule (used for the fixed cases only; the
    generated ones carry the AST they were printed from)"""
    from ombott.router.radirouter import Route
    ast = []
    for part, param, flt, args, sel in Route.parser.iter_parse(rule[1:]):
        if part:
            ast.append(('lit', part))
        else:
            ast.append(('w', param, flt, args, sel))
    return ast


def same_vals(a, b):
    if a is None or b is None or len(a) != len(b):
        return False
    return all(type(x) is type(y) and repr(x) == repr(y) for x, y in zip(a, b))


def spans(ast, handlers, path):
    """text each wildcard consumes when the rule is matched left to right against `path` with
    the real handlers (None when it does not match that way, or a selector is involved)"""
    i, out, wi = 0, [], 0
    for s in ast:
        if s[0] == 'lit':
            if not path.startswith(s[1], i):
                return None
            i += len(s[1])
            continue
        h = handlers[wi]
        wi += 1
        if i >= len(path):
            return None
        if h is None:
            j = path.find('/', i)
            j = len(path) if j < 0 else j
        else:
            v, n, sel = h(path[i:])
            if v is None or sel is not None:
                return None
            j = i + n
        out.append(path[i:j])
        i = j
    return out if i == len(path) else None


def literals_in_order(runs, url):
    """can `url` be cut as run0 + t1 + run1 + ... + tk + runk (leftmost greedy search decides it)"""
    k = len(runs) - 1
    if k == 0:
        return url == runs[0]
    if not url.startswith(runs[0]):
        return False
    pos = len(runs[0])
    for r in runs[1:k]:
        j = url.find(r, pos)
        if j < 0:
            return False
        pos = j + len(r)
    return url.endswith(runs[k]) and len(url) - len(runs[k]) >= pos


def interleave(runs, texts):
    return ''.join(a + b for a, b in zip(runs, list(texts) + ['']))


def shape_after(ast, wi):
    """what follows the wi-th wildcard in the rule: end | lit | wild"""
    idx = [i for i, s in enumerate(ast) if s[0] == 'w'][wi]
    if idx + 1 >= len(ast):
        return 'end'
    return 'lit' if ast[idx + 1][0] == 'lit' else 'wild'


class Oracle:
    """one rule on a router of its own; check(path) returns None, 'nomatch' or (key, what)"""

    def __init__(self, rule, ast):
        from ombott.router.radirouter import RadiRouter
        self.rule, self.ast = rule, ast
        self.router = RadiRouter()
        self.route = self.router.add(rule, 'GET', lambda **kw: None)
        self.kinds = [s[2] or 'plain' for s in ast if s[0] == 'w']
        self.runs = lit_runs(ast)
        self._spec = None

    def match(self, path):
        ep, err = core.with_timeout(lambda: self.router.resolve(path, ['GET']))
        if not ep:
            return None
        _, extra = self.router.radidict.get(path.strip('/'), allow_partial=True)
        return ep[1], list(extra['param_values'])

    def expected(self, path):
        """values of the rule-by-rule match derived from the rule text only (None: not decidable that way)"""
        try:
            if self._spec is None:
                self._spec = G.rule_spec(self.rule)
            pat, funcs, _ = self._spec
            r = core.with_timeout(lambda: G.match_rule(pat, funcs, path.strip('/')))
        except core.Hang:
            raise
        except Exception:
            return None
        return r if isinstance(r, list) else None

    def fmt(self, wi, v):
        f_out = self.route.filters_out[wi]
        return f_out(v) if f_out else v

    def check(self, path):
        route, kinds = self.route, self.kinds
        if 'rex' in kinds:
            return 'nomatch'                # selectors are not among the filters the property names
        m = self.match(path)
        if m is None:
            return 'nomatch'
        named, vals = m
        names = route.params
        if len(names) != len(vals) or len(kinds) != len(vals):
            return None                     # not a single-rule match the property talks about
        anon, kw = split_args(names, vals)
        ctx = f'rule={self.rule!r} path={path!r} values={vals!r}'
        # "each bound to the text its filter accepted": the values re-derived from the rule text alone (user regexes
        # compiled here, built-in filters from their documentation; router_gen.rule_spec / match_rule)
        exp = self.expected(path)
        if exp is not None and not same_vals(vals, exp):
            return ('C19:url:matched-values-are-not-the-accepted-texts',
                    f'the values bound by the match are {vals!r}; the texts the wildcards accepted (converted by int / '
                    f'float wildcards) are {exp!r}: {ctx}')
        texts = spans(self.ast, route.filters, path.strip('/'))
        try:
            url = route.url(*anon, **kw)
        except AssertionError:
            return self.classify_assert(vals, texts, ctx)
        except Exception as e:
            return (f'C19:url:raises-{type(e).__name__}', f'url() raised {type(e).__name__}: {e}: {ctx}')
        if not isinstance(url, str):
            return ('C19:url:not-a-string', f'url() returned {url!r}: {ctx}')
        ctx += f' url={url!r}'
        # literal parts verbatim and in order, one text per wildcard in between
        if not literals_in_order(self.runs, url):
            return ('C19:url:literals-not-verbatim',
                    f'literal runs {self.runs!r} do not occur verbatim and in order: {ctx}')
        m2 = self.match(url)
        vals2 = m2[1] if m2 else None
        if same_vals(vals, vals2) and m2[0] == named:
            return None
        got = 'no match' if m2 is None else f'values {vals2!r}'
        # which formatted text is responsible
        try:
            utexts = [self.fmt(i, v) for i, v in enumerate(vals)]
        except Exception:
            utexts = None
        if utexts is None or not all(isinstance(t, str) for t in utexts) or interleave(self.runs, utexts) != url:
            return ('C19:url:value-text-misplaced',
                    f'the built URL is not the literal runs interleaved with the formatted values; resolving it gives {got}: {ctx}')
        if texts is None:
            return ('C19:url:rematch-differs', f'resolving the built URL gives {got}: {ctx}')
        changed = [i for i in range(len(vals)) if utexts[i] != texts[i]]
        if not changed:
            return ('C19:url:rematch-differs-though-text-unchanged', f'resolving the built URL gives {got}: {ctx}')
        for i in changed:
            f_in = route.filters[i]
            if f_in:
                v, n, _ = f_in(utexts[i])
                if not (same_vals([v], [vals[i]]) and n == len(utexts[i])):
                    return (f'C19:url:{kinds[i]}-formatted-text-rejected-by-own-filter',
                            f'wildcard {i} ({kinds[i]}): formatted text {utexts[i]!r} is not read back as {vals[i]!r} '
                            f'by its own filter even standing alone; resolving gives {got}: {ctx}')
        culprit = None
        for i in changed:
            one = list(texts)
            one[i] = utexts[i]
            u1 = interleave(self.runs, one)
            m1 = self.match(u1)
            if not (m1 and same_vals(vals, m1[1])):
                culprit = i
                break
        who = kinds[culprit] if culprit is not None else '+'.join(sorted({kinds[i] for i in changed}))
        return (f'C19:url:{who}-text-changes-neighbour-match',
                f'canonical text of the {who} wildcard ({[texts[i] for i in changed]!r} -> {[utexts[i] for i in changed]!r}) '
                f'changes what a neighbouring filter matches; resolving the built URL gives {got}: {ctx}')

    def classify_assert(self, vals, texts, ctx):
        """which wildcard made url() raise AssertionError, and why: the sanity check is re-done
        here in the form the tree under test applies (`sanity_style`), the first wildcard
        failing it is the site"""
        route, kinds = self.route, self.kinds
        style = sanity_style()
        for i, v in enumerate(vals):
            f_in = route.filters[i]
            if not f_in:
                continue
            try:
                prt = self.fmt(i, v)
                if style == 'alone':
                    ok = bool(f_in(prt)[1])
                else:
                    val, pos, _ = f_in(prt + self.runs[i + 1])
                    ok = val is not None and pos == len(prt)
            except Exception:
                break
            if ok:
                continue
            nxt = shape_after(self.ast, i)
            if isinstance(v, float) and math.isinf(v):
                return ('C19:url:float-overflow-inf',
                        f'float wildcard {i} matched a text beyond the double range (value {v!r}); its formatted '
                        f'text {prt!r} fails the sanity check of url(): {ctx}')
            if style == 'placed':
                # refused where it stands: because of the text itself, or because of what follows it?
                try:
                    val, pos, _ = f_in(prt)
                    self_ok = same_vals([val], [v]) and pos == len(prt)
                except Exception:
                    self_ok = False
                if not self_ok:
                    return (f'C19:url:{kinds[i]}-formatted-text-rejected-by-own-filter',
                            f'wildcard {i} ({kinds[i]}): formatted text {prt!r} is not read back as {v!r} by its own '
                            f'filter even standing alone; url() raises AssertionError: {ctx}')
                if texts is not None and texts[i] != prt:
                    return (f'C19:url:{kinds[i]}-text-changes-neighbour-match',
                            f'canonical text of the {kinds[i]} wildcard ({texts[i]!r} -> {prt!r}) is read differently in '
                            f'front of the literal that follows it; url() refuses it (AssertionError): {ctx}')
            if style == 'alone' and texts is not None and texts[i] == '':
                return ('C19:url:empty-match-filter',
                        f'wildcard {i} ({kinds[i]}) matched the empty text; url() asserts a non-empty match: {ctx}')
            if style == 'alone' and kinds[i] == 'path' and nxt == 'lit':
                return ('C19:url:path-filter-with-suffix',
                        f'path wildcard {i} followed by a literal: url() checks the value without the literal its '
                        f'look-ahead needs and raises AssertionError: {ctx}')
            return (f'C19:url:sanity-check-rejects-{kinds[i]}-before-{nxt}',
                    f'wildcard {i} ({kinds[i]}): url() raised AssertionError on the formatted value {prt!r}: {ctx}')
        return ('C19:url:assertion-unexplained', f'url() raised AssertionError: {ctx}')


# filters of different kinds with the same regex text, in one process: (rule A, path A, rule B, path B, values B
# is expected to bind when it is a rex rule, which the reference matcher does not cover)
KIND_PAIRS = [
    ('/i/<x:int>', 'i/007', '/r/<x:re:-?\\d+>', 'r/007', None),
    ('/i/<x:int>/t', 'i/-05/t', '/r/<:re:-?\\d+>/t', 'r/-05/t', None),
    ('/f/<x:float>', 'f/1.50', '/g/<x:re:-?\\d+(\\.\\d+)?>', 'g/1.50', None),
    ('/f/<x:float>-<y>', 'f/007-k', '/g/<x.re(-?\\d+(\\.\\d+)?)>-<y>', 'g/007-k', None),
    ('/a/<x:re:(a)|(b)>z', 'a/bz', '/b/<x.rex((a)|(b))[2]>z', 'b/bz', ['b']),
]


def clear_filter_cache():
    """forget the handlers built so far, so that the creation order inside a scenario is what decides
    (works whatever the cache is keyed by; a tree without such a cache needs nothing)"""
    from ombott.router.filter_factory import FilterFactory
    c = getattr(FilterFactory, '_filter_cache', None)
    if isinstance(c, dict):
        c.clear()


def kind_scenario(pair, order, mode):
    """two rules whose filters share their regex text but not their kind, registered in `order` ('AB' | 'BA') on one
    router or on two routers of this process ('one' | 'two'): each rule must convert and format by its own kind.
    Returns [(key, what)]."""
    from ombott.router.radirouter import RadiRouter
    ra, pa, rb, pb, exp_b = pair
    clear_filter_cache()
    bad = []
    try:
        shared = RadiRouter()
        routers, routes = {}, {}
        for which in order:
            rule = ra if which == 'A' else rb
            R = shared if mode == 'one' else RadiRouter()
            routers[which] = R
            routes[which] = R.add(rule, 'GET', lambda **kw: None)
        for which, rule, path, exp in (('A', ra, pa, None), ('B', rb, pb, exp_b)):
            R, route = routers[which], routes[which]
            ctx = f'rule={rule!r} path={path!r}; registered {"after" if order[0] != which else "before"} ' \
                  f'{(rb if which == "A" else ra)!r} on {"the same router" if mode == "one" else "another router of the process"}'
            if exp is None:
                pat, funcs, _ = G.rule_spec(rule)
                exp = G.match_rule(pat, funcs, path)
            ep, err = R.resolve('/' + path, ['GET'])
            if not ep or ep[0].route is not route:
                bad.append(('C19:url:filter-kinds-mixed-up', f'the rule no longer matches its own path: {ctx}'))
                continue
            _, extra = R.radidict.get(path, allow_partial=True)
            vals = list(extra['param_values'])
            if not same_vals(vals, exp):
                bad.append(('C19:url:filter-kinds-mixed-up',
                            f'values {vals!r}, the rule\'s own filters give {exp!r}: {ctx}'))
                continue
            anon, kw = split_args(route.params, vals)
            try:
                u = route.url(*anon, **kw)
            except Exception as e:
                bad.append(('C19:url:filter-kinds-mixed-up', f'url() raised {type(e).__name__}: {e}: values={vals!r} {ctx}'))
                continue
            ep2, _ = R.resolve('/' + u.strip('/'), ['GET'])
            vals2 = None
            if ep2 and ep2[0].route is route:
                vals2 = list(R.radidict.get(u.strip('/'), allow_partial=True)[1]['param_values'])
            if not same_vals(vals, vals2):
                bad.append(('C19:url:filter-kinds-mixed-up',
                            f'url()={u!r} resolves to {vals2!r} instead of {vals!r}: {ctx}'))
    finally:
        clear_filter_cache()
    return bad


_style = []


def sanity_style():
    """which form of the sanity check the tree under test applies, probed once on the documented
    `path` rule: 'alone' (value checked standing alone, non-empty match demanded: the form before
    fix 715005e) or 'placed' (value checked in front of the literal that follows it)"""
    if not _style:
        from ombott.router.radirouter import Route
        try:
            Route('/a/<x:path>/end').url(x='b/c')
            _style.append('placed')
        except AssertionError:
            _style.append('alone')
        except Exception:
            _style.append('placed')
    return _style[0]


# ---------------------------------------------------------------------------------------------

class C19(Check):
    pid = 'C19'
    props_mod = 'OmbottModel.Props.C19'
    tables = ['router', 'routeurl', 'routerbuiltin']
    design_ref = '6/C19'
    anchors = ['ombott/router/radirouter.py', 'ombott/router/filter_factory.py']
    level_text = ('Lean theorems over the model of Route.url (marker loop with slice bookkeeping, positional anonymous '
                  'arguments, formatters, sanity check): the built URL is the rule\'s literal runs verbatim and in order '
                  'with one formatted value per wildcard; a rule matched by a path is matched again by the URL built '
                  'from the matched values, with the same values (stated for the rule-by-rule matcher and for the tree of a '
                  'router holding only that rule). Proved with NO hypothesis on filters for rules whose wildcards are plain, '
                  'int, float or path (url_rematch_builtin, url_rematch_tree_builtin: the handlers of int/float/path and the '
                  'float formatter are concrete Lean functions, Model/RouterBuiltinEnv.lean), under decidable side conditions: '
                  'no int/float wildcard directly after another wildcard; after no path wildcard does the literal it looks '
                  'ahead for stand again before the first newline in the URL built for the rest of the rule (laterLit - the '
                  'exact condition, stable_path_wildcard; automatic when no int/float wildcard follows the path wildcard); '
                  'every float value is read back from its formatted text and that text has a decimal point or is not '
                  'followed by .digit (floatSide - automatic for every numeral of <= 15 significant digits below 1e16, '
                  'float_value_ok_exact, url_rematch_builtin_exact). The excluded shapes are shown to fail by model witnesses '
                  '(= the recorded findings). For user regular expressions (re) the per-wildcard stability hypothesis '
                  'AllStable stays a named assumption (url_rematch). Model tied to the code by differential round trips '
                  'resolve -> url -> resolve run on the concrete handlers, by >= 1200 direct probes per run of the live '
                  'int/float/path handlers and of the live float formatter against the concrete Lean functions, by the '
                  'regenerated probe tables (decide), and by re-stating the side conditions on the real objects.')
    level_note_extra = ('re filters are parameters (real handler answers shipped); their stability is validated by '
                        'correspondence and search, not proved; rex selectors by correspondence only; float(text) is computed '
                        'by the model for numerals of <= 15 significant digits between 1e-291 and 1e300 and is a parameter '
                        '(shipped) beyond')
    rule = ('rules printed from ASTs in every syntax flavour (literal runs of all lengths, adjacent wildcards, plain/int/'
            'float/path/re/rex filters, anonymous and named wildcards) x paths generated from the rule (texts whose '
            'canonical form differs: 007, -0, 5 -> 5.0, non-ASCII digits; empty matches; greedy path filters) and '
            'mutated; round trip resolve -> Route.url(*anon, **named) -> resolve on a router holding only that rule, '
            'plus direct url() calls with wrong / missing / ill-typed arguments; rules of built-in wildcards only, dense '
            'in the side-condition shapes (look-ahead literal re-created by a canonical int/float text, values from 1e16, '
            '16/17-digit numerals, newlines), with the hypotheses of url_rematch_builtin evaluated on both sides; random '
            'texts / doubles through the live handlers and the live float formatter; user regexes with capturing groups (one group inside the match, two groups, a group spanning it, non-capturing) with the matched values re-derived from the rule text by an independent matcher; pairs of rules whose filters share their regex text but not their kind (int vs re(-?\\d+), float vs its mask as re, re vs rex) in both creation orders on one and on two routers with the filter cache cleared in between; non-trivial = the path matched a '
            'rule with a wildcard, or a filter / formatter probe')
    assumptions = ['re matching of user regular expressions (re / rex filters) is taken from the running interpreter (handler results shipped); Stable for re wildcards is a named hypothesis (AllStable of url_rematch)',
                   'the concrete int / float / path handlers and the concrete float formatter of Model/RouterBuiltinEnv.lean are the live ones: tied by the regenerated probe tables (C01: builtin_env_probes_agree; C19: builtin_float_fmt_agrees), by direct differential probes on random texts and doubles and by the round trips; within the model their stability is proved',
                   'float(text) equals the numeral itself (repr shows its digits) for numerals of at most 15 significant digits between 1e-291 and 1e300: the 15-digit round-trip guarantee of IEEE-754 binary64 plus shortest repr, not proved in Lean (validated differentially); beyond that domain the converter is a parameter whose value must meet the decidable side condition floatSide',
                   'rule text contains no CR and no repeated wildcard name (as for C01); a path wildcard looks ahead for the literal run that follows it (what the parser configures) and is not directly followed by another wildcard',
                   'tree lookup on a single-rule router = rule-by-rule matcher: C01 theorems get_eq_spec/insert_wf/insert_denote (imported by url_rematch_tree, selector-free environments; the concrete environment is selector-free by proof) and checked on every correspondence line']

    def __init__(self):
        self.stats = {}

    def budget(self, tier, escalated):
        n = 6000 if tier == 'quick' else 60000
        return n * (3 if escalated and tier == 'quick' else 1)

    def nontrivial(self, sample):
        return bool(sample.get('matched')) or sample.get('kind') in ('url', 'bfilter', 'bfmt')

    def _bump(self, k, n=1):
        self.stats[k] = self.stats.get(k, 0) + n

    # ------------------------------------------------------------------
    def corr(self, rng, n):
        out = []
        cases = list(FIXED)
        for _ in range(n):
            cases.append(gen_case(rng))
        cases.append(('/<q:float>', '1' + '0' * 309))          # witness of C19:url:float-overflow-inf
        for rule, path in cases:
            try:
                line, impl, info = rt_case(rule, path, whole_only=len(path) > 200)
            except core.Hang:
                self._bump('hang-skipped')
                continue
            if info.get('overflow') or len(line) > 60000:
                self._bump('env-overflow-skipped')
                continue
            self._bump('rt')
            for k in ('matched', 'built', 'rematched'):
                if info.get(k):
                    self._bump('rt-' + k)
            if info.get('url_error'):
                self._bump('rt-url-' + info['url_error'])
            if impl.startswith('add-err'):
                self._bump('rt-' + impl)
            out.append((line, impl, dict(kind='rt', rule=rule, path=path, matched=info['matched'], answer=impl[:60])))
        out += self.corr_builtin(rng, n)
        for _ in range(n // 3):
            rule, path = gen_case(rng) if rng.random() < .9 else (rng.choice(G.MALFORMED), 'a')
            try:
                c = url_case(rng, rule, path)
            except core.Hang:
                continue
            if c is None or len(c[0]) > 60000:
                continue
            self._bump('url')
            self._bump('url-' + c[1].split(':')[0] + (':' + c[1].split(':')[1] if c[1].startswith('err') else ''))
            out.append(c)
        return out

    # ------------------------------------------------------------------
    FILTER_ALPHA = list('0123456789--..e/+xa\n') + ['.tar/', 'é', '٣', '۵', '00', '.0', '-5']

    def corr_builtin(self, rng, n):
        """(a) `routeurl hyp`: rules of built-in wildcards; the hypotheses of url_rematch_builtin evaluated by
        the model and re-stated here on the real objects, and the round trip's outcome; (b) `router bfilter` /
        `router bfmt`: the live int / float / path handlers and the live float formatter against the concrete
        Lean filters on random texts and values"""
        from ombott.router.filter_factory import FilterFactory
        out = []
        cases = []
        for rule, path in FIXED:
            try:
                cases.append((rule, ast_of_rule(rule), path))
            except Exception:
                pass
        for _ in range(n // 4):
            cases.append(gen_builtin_case(rng))
        for rule, ast, path in cases:
            if any(x[0] == 'w' and x[2] in ('re', 'rex') for x in ast):
                continue
            try:
                line, impl, info = hyp_case(rule, ast, path)
            except core.Hang:
                self._bump('hang-skipped')
                continue
            if info.get('overflow') or len(line) > 60000:
                self._bump('env-overflow-skipped')
                continue
            self._bump('hyp')
            if info['matched']:
                self._bump('hyp-matched')
                self._bump('hyp-h=%d-r=%d' % (info['h'], info['rematched']))
            out.append((line, impl, dict(kind='rt', rule=rule, path=path, matched=info['matched'], answer=impl)))
        f_out = FilterFactory.make_filter('float', None)[1]
        for _ in range(max(1200, n // 4)):
            name = rng.choice(['int', 'float', 'float', 'float', 'path', 'path'])
            conf = rng.choice(['/', '.', '-5', '.tar/', '', '0', '\n', 'é', '/end', '.0']) if name == 'path' else None
            text = ''.join(rng.choice(self.FILTER_ALPHA) for _ in range(rng.randint(0, 8)))
            if name != 'path' and rng.random() < .85:
                k = rng.random()
                if k < .4:
                    num = str(rng.randrange(1000)) + rng.choice(['', '.', '.5', '.50', '.0', '.000'])
                elif k < .65:
                    num = '0.' + '0' * rng.randint(0, 25) + str(rng.randrange(1, 10 ** rng.randint(1, 17)))
                elif k < .9:
                    num = str(rng.randrange(1, 10 ** rng.randint(1, 18))) + '0' * rng.choice([0, 0, 3, 8, 20]) + \
                        rng.choice(['', '.0', '.5', '.' + str(rng.randrange(10 ** 6))])
                else:
                    num = rng.choice(['1' + '0' * 309, '0.' + '0' * 330 + '1', '9' * 15 + '0' * 290, '0.' + '0' * 288 + '12',
                                      '٣.٥', '۱۲', '1٣.٥0', '0.' + '0' * 291 + '1'])
                text = rng.choice(['', '-', '', '00']) + num + text
            if name == 'path' and conf and rng.random() < .6:
                text = text + conf + (text[:2] + conf if rng.random() < .4 else '')
            fid = '%s(%s)' % (name, conf)
            h = FilterFactory.make_filter(name, conf)[0]
            v, k, sel = h(text)
            ans = '~' if v is None else '%s:%d' % (G.enc_val(v), k)
            fc = G.enc_val(v) if (name == 'float' and v is not None) else '~'
            self._bump('filter-' + name + ('-hit' if v is not None else '-miss'))
            if name == 'float' and v is not None:
                self._bump('filter-float-' + ('shipped-conv' if G.float_inexact(text[:k]) else 'exact'))
            out.append(('router bfilter %s %s %s' % (hs(fid), hs(text), fc), ans, dict(kind='bfilter', fid=fid, text=text)))
            if name == 'float' and v is not None and math.isfinite(v):
                self._bump('float-fmt')
                out.append(('router bfmt ' + G.enc_val(v), 'ok.' + hs(f_out(v)), dict(kind='bfmt', value=repr(v))))
        for _ in range(300):
            # formatter on doubles that did not come from a mask text: every magnitude, 17 digits
            x = rng.choice([rng.random(), rng.uniform(-1e6, 1e6), rng.random() * 10 ** rng.randint(-320, 308),
                            float(rng.randrange(10 ** 18)), 2.0 ** rng.randint(-1074, 1023), -rng.random() * 1e-5])
            self._bump('float-fmt')
            out.append(('router bfmt ' + G.enc_val(x), 'ok.' + hs(f_out(x)), dict(kind='bfmt', value=repr(x))))
        return out

    # ------------------------------------------------------------------
    def _oracle_case(self, rule, ast, paths):
        """list of (key, what, path)"""
        try:
            o = Oracle(rule, ast)
        except Exception:
            return [], 0
        bad, ev = [], 0
        for p in paths:
            ev += 1
            try:
                r = core.with_timeout(lambda: o.check(p))
            except core.Hang:
                r = ('C19:url:hang', f'no answer within the watchdog: rule={rule!r} path={p!r}')
            if r == 'nomatch':
                self._bump('search-nomatch')
            elif r is None:
                self._bump('search-ok')
            else:
                self._bump('search-' + r[0])
                bad.append((r[0], r[1], p))
        return bad, ev

    def search(self, rng, n, seeds):
        findings, evals = [], 0
        cases = []
        for s in seeds:
            if s.get('kind') == 'rt' and G.in_domain(s['rule']):
                try:
                    cases.append((s['rule'], ast_of_rule(s['rule']), [s['path']]))
                except Exception:
                    pass
        # filter identity across kinds: every pair x both creation orders x one router / two routers
        for k, pair in enumerate(KIND_PAIRS):
            for order in ('AB', 'BA'):
                for mode in ('one', 'two'):
                    evals += 1
                    try:
                        bad = core.with_timeout(lambda: kind_scenario(pair, order, mode))
                    except core.Hang:
                        bad = [('C19:url:hang', f'no answer within the watchdog: kinds scenario {pair[:4]!r}')]
                    self._bump('search-kinds-' + ('ok' if not bad else 'bad'))
                    for key, what in bad:
                        findings.append(Finding(key, what, dict(scenario=dict(pair=k, order=order, mode=mode))))
        for rule, path in FIXED:
            cases.append((rule, ast_of_rule(rule), [path]))
        cases.append(('/<q:float>', ast_of_rule('/<q:float>'), ['1' + '0' * 309, '-' + '9' * 400 + '.5', '0.' + '0' * 400 + '1']))
        for _ in range(n // 3):
            rule, ast = gen_rule(rng)
            for _ in range(5):
                if not any(s[0] == 'w' and s[2] == 'rex' for s in ast):
                    break
                rule, ast = gen_rule(rng)
            cases.append((rule, ast, [gen_path(rng, ast) for _ in range(4)]))
        # literal text that is meta-syntax (format / template / regex): directed (each meta literal before, between and
        # after wildcards of every built-in kind) and generated (literal pool = meta literals mixed with the ordinary ones)
        import random as _random
        mrng = _random.Random(rng.random())
        for lit in META_LITS:
            for rule, path in (('/%s/<x>' % lit, '%s/ab' % lit), ('/<x:int>%s' % lit, '12%s' % lit),
                               ('/a%s<x>/<y:int>%sz' % (lit, lit), 'a%sq/7%sz' % (lit, lit)),
                               ('/<:int>%s<p:path>' % lit, '5%sa/b' % lit), ('/<x:float>/%s%s/<y:re:[a-z]+>' % (lit, lit), '1.5/%s%s/ab' % (lit, lit))):
                if G.in_domain(rule):
                    try:
                        cases.append((rule, ast_of_rule(rule), [path]))
                    except Exception:
                        self._bump('search-meta-lit-unparsed')
        for _ in range(n // 6):
            rule, ast = gen_rule(mrng, META_LITS + LITS[:8])
            if any(s[0] == 'w' and s[2] == 'rex' for s in ast):
                continue
            cases.append((rule, ast, [gen_path(mrng, ast) for _ in range(3)]))
        if n >= 60000:
            # exhaustive small scope (thorough tier): a fixed rule universe x every path up to length 5
            import itertools
            alpha = ['a', '/', '-', '0', '1', '.']
            paths = [''.join(t) for k in range(1, 6) for t in itertools.product(alpha, repeat=k)]
            for rule in SCOPE_RULES:
                cases.append((rule, ast_of_rule(rule), paths))
        for rule, ast, paths in cases:
            bad, ev = self._oracle_case(rule, ast, paths)
            evals += ev
            for key, what, p in bad:
                findings.append(Finding(key, what, dict(rule=rule, ast=ast, path=p)))
        return evals, findings

    def replay(self, data):
        i = data.get('input') or {}
        if 'scenario' in i:
            sc = i['scenario']
            pair = KIND_PAIRS[sc['pair']]
            return dict(rules=[pair[0], pair[2]], paths=[pair[1], pair[3]], order=sc['order'], routers=sc['mode'],
                        oracle=[dict(key=k, what=w) for k, w in kind_scenario(pair, sc['order'], sc['mode'])])
        if 'rule' not in i or 'path' not in i:
            # a proof replay, or a disagreement on a direct url() call: show what was recorded
            return {k: data.get(k) for k in ('kind', 'what', 'theorem', 'input', 'line', 'observed_impl', 'observed_model')
                    if data.get(k) is not None}
        rule, path = i['rule'], i['path']
        ast = [tuple(s) for s in i['ast']] if i.get('ast') else ast_of_rule(rule)
        o = Oracle(rule, ast)
        m = o.match(path)
        out = dict(rule=rule, path=path, matched=None if m is None else repr(m[1]))
        if m is not None:
            anon, kw = split_args(o.route.params, m[1])
            try:
                u = o.route.url(*anon, **kw)
                m2 = o.match(u)
                out.update(url=u, resolved_again='no match' if m2 is None else repr(m2[1]))
            except Exception as e:
                out.update(url=f'raises {type(e).__name__}: {e}')
        r = o.check(path)
        out['oracle'] = None if r in (None, 'nomatch') else dict(key=r[0], what=r[1])
        return out
