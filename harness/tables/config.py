"""Gen/Config.lean: the class / configuration machinery of ombott/common_helpers.py (`SimpleConfig`, `NameSpace`,
`cached_property`), ombott/mixable.py and the two configuration classes `DefaultConfig` / `RequestConfig`, as data read off
the LIVE modules (every generated name starts with `cfg`).

* `cfgSimpleConfigOwn` - the non-dunder names the body of `class SimpleConfig` defines (what `SimpleConfig.keys()`
  itself lists, and what `keys_holder` refuses as a key); `cfgMetaAttrs` - the further non-dunder names `hasattr` finds
  on the class through its metaclass (probed with `hasattr`).
* `cfgDefaultConfig` / `cfgRequestConfig` - (key, kind, text) of every entry `cls.items()` yields, kind by TYPE of the live
  value; `cfg*Dicts` - the entries of the dict-valued defaults; `cfgDefaultConfigKeys` - `DefaultConfig.__keys__`
  (sorted), `cfgHolders` - which of the two classes carries `__keys_holder__` in its own `__dict__`.
* `cfgMutableDefaults` - every (class, key) whose default VALUE is a mutable object (by type: dict / list / set /
  bytearray / anything with a `__dict__`), i.e. what all applications share by reference; `cfgSharedByRef` - probed on two
  live `Ombott()` objects: (key, the value is the very object of the class attribute in both applications and in their
  requests' configs).
* `cfgFreshProbe` - probed on live applications: the four config objects of two applications are pairwise distinct
  `NameSpace` objects, and `setup()` rebinds `config` of the application and of its request to new objects.
* `cfgNsClassAttrs` / `cfgNsDataAttrs` - names attribute lookup finds on the TYPE of a `NameSpace()` (non-data: the
  instance `__dict__` shadows them; data descriptors: they win).
* `cfgHookNames`, `cfgHookReversed` - `Ombott.__hook_names` / `__hook_reversed`; `cfgHooksIsCached` - `Ombott._hooks` is a
  `cached_property`.
* `cfgMixinsSpecial` - `MixableMeta.__mixins_special__` (sorted); `cfgPlainClassAutoKeys` - the keys CPython itself puts
  into the `__dict__` of a plain class (with and without `__slots__`): `_mixin` iterates over them too.
* `cfgHeaderDictProxied` - the names `proxy('dict', ...)` injected into `HeaderDict` (found behaviourally: calling them on
  an instance whose `dict` is a recorder reaches the recorder).
"""
import types

from harness.extract_tables import lstr, llist, lbool


def canon_other(v):
    t = type(v).__name__
    sc = getattr(v, '_status_code', None)
    return t + (':%d' % sc if isinstance(sc, int) else '')


def kind_of(v):
    if v is None:
        return 'none', ''
    if isinstance(v, bool):
        return 'bool', '1' if v else '0'
    if isinstance(v, int):
        return 'int', str(v)
    if isinstance(v, str):
        return 'str', v
    if isinstance(v, dict):
        return 'dict', ''
    return 'other', canon_other(v)


def key_name(k):
    return k.__name__ if isinstance(k, type) else str(k)


def is_mutable(v):
    return isinstance(v, (dict, list, set, bytearray)) or hasattr(v, '__dict__')


def _triples(cls):
    return sorted((k,) + kind_of(v) for k, v in cls.items())


def _dicts(cls):
    out = []
    for k, v in sorted(cls.items(), key=lambda kv: kv[0]):
        if isinstance(v, dict):
            ents = sorted((key_name(a), kind_of(b)) for a, b in v.items())
            for a, (kd, tx) in ents:
                if kd == 'dict':
                    raise RuntimeError('nested dict default: outside the model')
            out.append((k, [(a, kd, tx) for a, (kd, tx) in ents]))
    return out


def _l3(rows):
    return llist('(%s, %s, %s)' % (lstr(a), lstr(b), lstr(c)) for a, b, c in rows)


def generate():
    from ombott import common_helpers as ch, mixable
    from ombott.ombott import Ombott, DefaultConfig
    from ombott.request_pkg.request import RequestConfig
    SC = ch.SimpleConfig
    out = []

    own = [k for k in SC.__dict__ if not k.startswith('__')]
    out.append('/-- non-dunder names of `SimpleConfig.__dict__`, in definition order -/\n'
               'def cfgSimpleConfigOwn : List String := ' + llist(lstr(k) for k in own))
    indicts = set()
    for c in SC.__mro__:
        indicts |= set(c.__dict__)
    meta = sorted(k for k in dir(type(SC)) if not k.startswith('__') and hasattr(SC, k) and k not in indicts)
    out.append('/-- non-dunder names `hasattr(SimpleConfig, k)` finds through the metaclass only -/\n'
               'def cfgMetaAttrs : List String := ' + llist(lstr(k) for k in meta))

    for nm, cls in (('cfgDefaultConfig', DefaultConfig), ('cfgRequestConfig', RequestConfig)):
        out.append('/-- `%s.items()`: (key, kind by type, text) sorted by key -/\n'
                   'def %s : List (String × String × String) := %s' % (cls.__name__, nm, _l3(_triples(cls))))
        out.append('/-- the dict-valued defaults of `%s`: key, entries (key, kind, text) -/\n'
                   'def %sDicts : List (String × List (String × String × String)) := %s'
                   % (cls.__name__, nm, llist('(%s, %s)' % (lstr(k), _l3(ents)) for k, ents in _dicts(cls))))
    out.append('/-- `DefaultConfig.__keys__` (sorted) -/\ndef cfgDefaultConfigKeys : List String := '
               + llist(lstr(k) for k in sorted(getattr(DefaultConfig, '__keys__', None) or [])))
    out.append('/-- which of DefaultConfig / RequestConfig carry `__keys_holder__` in their own `__dict__` -/\n'
               'def cfgHolders : List (String × Bool) := '
               + llist('(%s, %s)' % (lstr(c.__name__), lbool(c.__dict__.get('__keys_holder__') is c))
                       for c in (DefaultConfig, RequestConfig)))
    out.append('/-- bases of the two configuration classes -/\ndef cfgConfigBases : List (String × List String) := '
               + llist('(%s, %s)' % (lstr(c.__name__), llist(lstr(b.__name__) for b in c.__bases__))
                       for c in (DefaultConfig, RequestConfig)))

    mut = [(c.__name__, k) for c in (DefaultConfig, RequestConfig) for k, v in sorted(c.items(), key=lambda kv: kv[0])
           if is_mutable(v)]
    out.append('/-- (class, key) of every default whose VALUE is a mutable object (by type) -/\n'
               'def cfgMutableDefaults : List (String × String) := '
               + llist('(%s, %s)' % (lstr(a), lstr(b)) for a, b in mut))
    a, b = Ombott(), Ombott()
    shared = []
    for k, v in sorted(DefaultConfig.items(), key=lambda kv: kv[0]):
        if is_mutable(v):
            objs = [a.config[k], b.config[k]] + [r.config[k] for r in (a.request, b.request) if k in r.config.keys()]
            shared.append((k, all(o is v for o in objs)))
    out.append('/-- probed on two live applications: the mutable default is the very object of the class attribute in both '
               'applications and their requests -/\ndef cfgSharedByRef : List (String × Bool) := '
               + llist('(%s, %s)' % (lstr(k), lbool(s)) for k, s in shared))
    four = [a.config, a.request.config, b.config, b.request.config]
    distinct = len({id(x) for x in four}) == 4 and all(type(x) is ch.NameSpace for x in four)
    old = (a.config, a.request.config, b.config, b.request.config)
    a.setup({'debug': True})
    rebound = (a.config is not old[0] and a.request.config is not old[1] and b.config is old[2]
               and b.request.config is old[3] and old[0].debug is False and a.config.debug is True)
    out.append('/-- probed: (the four config objects of two applications are distinct NameSpaces, setup() rebinds only the '
               'application\'s own two) -/\ndef cfgFreshProbe : Bool × Bool := (%s, %s)' % (lbool(distinct), lbool(rebound)))

    ns = ch.NameSpace()
    data, nondata = [], []
    for k in dir(ns):
        for c in type(ns).__mro__:
            if k in c.__dict__:
                d = c.__dict__[k]
                (data if hasattr(type(d), '__set__') or hasattr(type(d), '__delete__') else nondata).append(k)
                break
    out.append('/-- names found on the type of a `NameSpace()` as non-data attributes (the instance dict shadows them) -/\n'
               'def cfgNsClassAttrs : List String := ' + llist(lstr(k) for k in sorted(nondata)))
    out.append('/-- names found on the type of a `NameSpace()` as data descriptors -/\n'
               'def cfgNsDataAttrs : List String := ' + llist(lstr(k) for k in sorted(data)))

    out.append('/-- `Ombott.__hook_names` -/\ndef cfgHookNames : List String := '
               + llist(lstr(k) for k in Ombott._Ombott__hook_names))
    out.append('/-- `Ombott.__hook_reversed` (sorted) -/\ndef cfgHookReversed : List String := '
               + llist(lstr(k) for k in sorted(Ombott._Ombott__hook_reversed)))
    out.append('/-- `Ombott._hooks` is a `cached_property` -/\ndef cfgHooksIsCached : Bool := '
               + lbool(isinstance(Ombott.__dict__.get('_hooks'), ch.cached_property)))

    out.append('/-- `MixableMeta.__mixins_special__` (sorted) -/\ndef cfgMixinsSpecial : List String := '
               + llist(lstr(k) for k in sorted(mixable.MixableMeta.__mixins_special__)))
    auto = list(type('X', (), {}).__dict__)
    for k in type('X', (), {'__slots__': ()}).__dict__:
        if k not in auto and k != '__slots__':
            auto.append(k)
    out.append('/-- keys CPython puts into the `__dict__` of a plain class by itself -/\n'
               'def cfgPlainClassAutoKeys : List String := ' + llist(lstr(k) for k in sorted(auto)))

    class Rec:
        def __getattr__(self, k):
            return lambda *a, **kw: ('rec', k)
    hd = ch.HeaderDict()
    hd.dict = Rec()
    prox = []
    for k in sorted(set(dir(ch.HeaderDict))):
        if k.startswith('__'):
            continue
        f = ch.HeaderDict.__dict__.get(k)
        if isinstance(f, types.FunctionType) and f.__name__ == '<lambda>':
            try:
                if f(hd) == ('rec', k):
                    prox.append(k)
            except Exception:   # noqa
                pass
    out.append('/-- names injected into `HeaderDict` by `proxy(\'dict\', ...)` (each reaches the same-named attribute of `dict`) -/\n'
               'def cfgHeaderDictProxied : List String := ' + llist(lstr(k) for k in prox))
    return '\n\n'.join(out) + '\n'
