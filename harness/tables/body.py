"""Gen/Body.lean: what the body-reader theorems (C04, C05, C13) take from the source as data:
`DefaultConfig.errors_map` as class name -> HTTP status, the default size settings, and which of
the request error classes `except RequestError` catches."""
from harness.extract_tables import lstr, llist


def errors_map_of(cfg):
    """class name -> status code, sorted by name"""
    return sorted((cls.__name__, int(err.status_code)) for cls, err in cfg.errors_map.items())


def generate():
    from ombott.ombott import DefaultConfig
    from ombott.request_pkg import errors as rerrors
    from ombott.request_pkg.request import RequestConfig

    emap = errors_map_of(DefaultConfig)
    out = []
    out.append('/-- `DefaultConfig.errors_map`: error class name → status of the mapped `HTTPError` -/')
    out.append('def bodyErrorsMap : List (String × Nat) := '
               + llist(f'({lstr(k)}, {v})' for k, v in emap))
    for name, cfg in (('', DefaultConfig), ('request', RequestConfig)):
        mb, mm = cfg.max_body_size, cfg.max_memfile_size
        if mb is not None and (not isinstance(mb, int) or mb < 0):
            raise ValueError(f'max_body_size default {mb!r} is outside the model')
        if not isinstance(mm, int) or mm < 0:
            raise ValueError(f'max_memfile_size default {mm!r} is outside the model')
        pre = name + 'M' if name else 'm'
        doc = 'RequestConfig' if name else 'DefaultConfig'
        out.append(f'/-- `{doc}.max_body_size` (`None` = no limit) -/')
        out.append(f'def {pre}axBodySize : Option Nat := ' + ('none' if mb is None else f'some {mb}'))
        out.append(f'/-- `{doc}.max_memfile_size`: read buffer, spool threshold and in-memory text cap -/')
        out.append(f'def {pre}axMemfileSize : Nat := {mm}')
    classes = sorted(n for n, c in vars(rerrors).items()
                     if isinstance(c, type) and issubclass(c, rerrors.RequestError))
    out.append('/-- the classes of `request_pkg/errors.py` that `except RequestError` catches -/')
    out.append('def requestErrorClasses : List String := ' + llist(lstr(c) for c in classes))
    return '\n'.join(out) + '\n'
