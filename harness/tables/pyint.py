"""Gen/Pyint.lean: the interpreter's limit on decimal `int(str)` / `str(int)` conversions
(`sys.get_int_max_str_digits()`, CPython >= 3.11; 0 = no limit) and what counts towards it, probed
on the live `int` at LIMIT and LIMIT+1 for each spelling.  `Py/IntLim.lean: pyIntLim` is `int(s)`
with that limit; `Props/C17.lean: int_limit_counts_pinned` pins what the model's `intDigitCount`
counts (digit characters only, leading zeros included) to the probe results."""
import sys

from harness.extract_tables import lstr, lbool

NO_LIMIT = 10 ** 9      # stands for "no limit" (interpreters before 3.11, or the limit switched off)


def limit():
    get = getattr(sys, 'get_int_max_str_digits', None)
    n = get() if get else 0
    return n if n > 0 else NO_LIMIT


def _ok(s, base=10):
    try:
        int(s, base)
        return True
    except ValueError:
        return False


def _str_ok(v):
    try:
        str(v)
        return True
    except ValueError:
        return False


# spelling -> (text with k digit characters)
SPELLINGS = [
    ('digits', lambda k: '9' * k),
    ('leading-zeros', lambda k: '0' * (k - 1) + '7'),
    ('all-zeros', lambda k: '0' * k),
    ('minus-sign', lambda k: '-' + '9' * k),
    ('plus-sign', lambda k: '+' + '9' * k),
    ('whitespace', lambda k: ' \t' + '9' * k + ' \n'),
    ('underscores', lambda k: '_'.join('9' * k)),
    ('non-ascii-digits', lambda k: '٣' * k),
]


def probe():
    """[(spelling, accepted with LIMIT digit characters, accepted with LIMIT+1 digit characters)]"""
    lim = limit()
    if lim >= NO_LIMIT:
        return [(n, True, True) for n, _ in SPELLINGS]
    return [(n, _ok(f(lim)), _ok(f(lim + 1))) for n, f in SPELLINGS]


def generate():
    lim = limit()
    rows = probe()
    # the characters that are not digits never count: every spelling is accepted with LIMIT digit
    # characters (whatever else it carries) and rejected with LIMIT+1
    out = []
    out.append('/-- `sys.get_int_max_str_digits()` of the running interpreter (%d stands for "no limit") -/\n'
               'def intMaxStrDigits : Nat := %d\n' % (NO_LIMIT, lim))
    out.append('/-- (spelling, `int(text)` accepted with LIMIT digit characters, accepted with LIMIT+1): probed on the\n'
               'live `int`.  The sign, surrounding whitespace and underscores are extra characters in these\n'
               'texts; leading zeros are among the counted ones. -/\n'
               'def intLimitProbes : List (String × Bool × Bool) := [\n  %s]\n'
               % ',\n  '.join('(%s, %s, %s)' % (lstr(n), lbool(a), lbool(b)) for n, a, b in rows))
    hex_free = _ok('f' * (lim + 1 if lim < NO_LIMIT else 5000), 16) and _ok(b'f' * 100000, 16)
    out.append('/-- `int(x, 16)` (chunk sizes) accepts more than LIMIT digits (power-of-two base: no limit) -/\n'
               'def intHexUnlimited : Bool := %s\n' % lbool(hex_free))
    if lim < NO_LIMIT:
        s_ok, s_bad = _str_ok(10 ** (lim - 1)) and _str_ok(-10 ** (lim - 1)), _str_ok(10 ** lim) or _str_ok(-10 ** lim)
    else:
        s_ok, s_bad = True, True
    out.append('/-- `str(v)` of an `int` with LIMIT digits succeeds (either sign); with LIMIT+1 digits it succeeds -/\n'
               'def intStrProbes : Bool × Bool := (%s, %s)\n' % (lbool(s_ok), lbool(s_bad)))
    return '\n'.join(out)
