"""Gen/Forms.lean: what the form layer's models depend on, taken from the live modules.

* `errors_map` of the live `DefaultConfig` (class name -> status of the mapped HTTPError) and a
  behavioural probe of `BaseRequest._raise` for every modelled error class x except_class,
* the texts of `FieldStorage._patt` and `MULTIPART_BOUNDARY_PATT`, the memfile default,
* a behavioural table of `FieldStorage._patt.finditer` over all strings of length <= 4 over
  {a = ; "} (<= 3 with a space; those of length 5 that start with `a` and hold two quotes; some longer ones), which the Lean function `pattIter` is checked against,
* a behavioural table of the boundary `Request._body` hands to `MultipartMarkup` for content types
  `multipart/` + words of <= 3 atoms over {x ; LF " boundary=} (and a few without the prefix), which `boundaryOf`
  is checked against.
Strings are emitted as lists of code points so that the kernel can evaluate the comparison."""
import io
import itertools


def cps(s):
    return '[' + ', '.join(str(ord(c)) for c in s) + ']'


def opt(s):
    return 'none' if s is None else f'some {cps(s)}'


def chunked(name, ty, rows, doc, n=250):
    """a long table as several definitions (one list literal of thousands of rows is slow to elaborate)"""
    out, names = [], []
    for i in range(0, len(rows), n):
        nm = f'{name}{i // n}'
        names.append(nm)
        out.append(f'def {nm} : {ty} := [\n  ' + ',\n  '.join(rows[i:i + n]) + ']')
    out.append(f'/-- {doc} -/\ndef {name} : List ({ty}) := [{", ".join(names)}]')
    return '\n'.join(out)


ERR_CLASSES = ['RequestError', 'BodyParsingError', 'BodySizeError', 'InvalidBoundaryError', 'StopMarkupException',
               'MalformedHeadersError', 'UnexpectedBodyEndError']


def generate():
    from ombott.ombott import Ombott, DefaultConfig
    from ombott.response import HTTPResponse
    from ombott.request_pkg import errors as rerr, multipart as mp, body_mixin
    from ombott.request_pkg.request import Request
    from harness.extract_tables import lstr
    out = []
    app = Ombott()
    emap = app.config.errors_map
    rows = [f'({lstr(k.__name__)}, {int(v.status_code)})' for k, v in emap.items()]
    out.append('/-- `DefaultConfig.errors_map`: class name → status of the mapped `HTTPError` -/\n'
               f'def formsErrorsMap : List (String × Nat) := [{", ".join(rows)}]')
    # behavioural probe of _raise
    classes = {n: getattr(rerr, n, None) or getattr(mp, n) for n in ERR_CLASSES}
    rq = Request({}, config=app.config)
    probe = []
    for n, cls in classes.items():
        for ec_name, ec in (('RequestError', rerr.RequestError), ('-', None)):
            try:
                rq._raise(cls(), ec)
                res = 'returned'
            except HTTPResponse as r:
                res = f'HTTP{r.status_code}'
            except Exception as e:
                res = type(e).__name__
            probe.append(f'({lstr(n)}, {lstr(ec_name)}, {lstr(res)})')
    out.append('/-- `Request._raise(cls(), except_class)` on a request of a fresh application: what was raised -/\n'
               'def formsRaiseProbe : List (String × String × String) := [\n  ' + ',\n  '.join(probe) + ']')
    out.append(f'/-- `FieldStorage._patt.pattern` -/\ndef formsPatt : String := {lstr(mp.FieldStorage._patt.pattern)}')
    out.append(f'/-- `MULTIPART_BOUNDARY_PATT.pattern` -/\ndef formsBoundaryPatt : String := '
               f'{lstr(body_mixin.MULTIPART_BOUNDARY_PATT.pattern)}')
    out.append(f'/-- `DefaultConfig.max_memfile_size` -/\ndef formsMaxMemfile : Nat := {int(DefaultConfig.max_memfile_size)}')
    # _patt.finditer table
    rows = []
    words = [''.join(t) for n in range(0, 5) for t in itertools.product('a=;"', repeat=n)]
    words += [''.join(t) for t in itertools.product('a=;"', repeat=5) if t[0] == 'a' and t.count('"') >= 2]
    words += ['a="a"', 'a="a";', 'a="";a', 'a="a"a', 'a="a;a"', 'a="a=a";a=a', 'a=a"a";a', 'a="a;a";a="a"', 'a;a="a"a;a="a"']
    words += [''.join(t) for n in range(1, 4) for t in itertools.product('a=;" ', repeat=n) if ' ' in t]
    for w in words:
        ms = ', '.join(f'({cps(m.group(1))}, {opt(m.group(3))})' for m in mp.FieldStorage._patt.finditer(w))
        rows.append(f'({cps(w)}, [{ms}])')
    out.append(chunked('formsPattTable', 'List (List Nat × List (List Nat × Option (List Nat)))', rows,
                       '(subject, [(group 1, group 3)]) of `_patt.finditer`'))
    # boundary table (through Request._body)
    rows = []
    atoms = ['x', ';', '\n', '"', 'boundary=']
    cts = ['multipart/' + ''.join(t) for n in range(0, 4) for t in itertools.product(atoms, repeat=n)]
    cts += ['', 'multipart', 'Multipart/x;boundary=x', 'multipart/boundary=x', 'text/plain; boundary=x',
            'multipart/x; boundary="', 'multipart/x; boundary=""', 'multipart/x; boundary="a"b"', 'xmultipart/x;boundary=b']
    for ct in cts:
        rq = Request({'CONTENT_TYPE': ct, 'CONTENT_LENGTH': '0', 'wsgi.input': io.BytesIO(b'')}, config=app.config)
        mk = rq.body.ombott_markup
        b = None if mk is None else mk._markuper.boundary[2:].decode('utf8')
        rows.append(f'({cps(ct)}, {opt(b)})')
    out.append(chunked('formsBoundaryTable', 'List (List Nat × Option (List Nat))', rows,
                       '(CONTENT_TYPE, boundary given to `MultipartMarkup`) observed through `Request._body`'))
    return '\n'.join(out) + '\n'
