"""Gen/Errorpage.lean: everything the C20 theorems depend on that is data of the source tree,
obtained from the live modules (behaviourally where cheap):

* the lines `error_render.render` formats (its own cache `_html_lns`, filled by a real call);
* the `str.format` fields of every formatted (non-style) line as `string.Formatter` sees them;
* what the page escaper (`error_render.sanitize_html.escape`) and the last-resort page escaper
  (`ombott.ombott.html_escape`) do to every character (ASCII one by one, the rest in one sweep);
* the bytes `urlquote` leaves alone, `urllib.parse.uses_netloc`;
* status lines of `HTTPError(code)`, `DefaultConfig.errors_map`;
* the non-ASCII characters `str.isprintable` rejects (only the driver uses this table; the
  theorems are for an arbitrary `isprintable`).
"""
import string
import sys


def lch(c):
    o = ord(c)
    if c == "'":
        return "'\\''"
    if c == '\\':
        return "'\\\\'"
    if c == '\n':
        return "'\\n'"
    if c == '\r':
        return "'\\r'"
    if c == '\t':
        return "'\\t'"
    if o < 32 or o == 127:
        return "'\\x%02x'" % o
    if o < 127:
        return "'%s'" % c
    return "'\\u{%x}'" % o


def lchars(s):
    return '[' + ', '.join(lch(c) for c in s) + ']'


def all_chars(lo, hi):
    return [chr(i) for i in range(lo, hi) if not 0xd800 <= i < 0xe000]


def probe_escape(fn):
    """[(char, replacement)] for every character the escaper changes"""
    pairs = []
    for c in all_chars(0, 128):
        r = fn(c)
        if r != c:
            pairs.append((c, r))
    rest = ''.join(all_chars(128, 0x110000))
    if fn(rest) != rest:       # some non-ASCII character is touched: find them one by one
        for c in rest:
            r = fn(c)
            if r != c:
                pairs.append((c, r))
    # the escaper must act character-wise (a chain of single-character replaces is a monoid
    # homomorphism); a two-character probe per pair exposes anything context dependent
    for c, r in pairs[:64]:
        for d, q in pairs[:64]:
            if fn(c + d) != r + q or fn('x' + c + 'y') != 'x' + r + 'y':
                raise ValueError('escaper is not a character-wise substitution')
    return pairs


def pairs_def(name, doc, pairs):
    items = ',\n   '.join('(%s, %s)' % (lch(c), lchars(r)) for c, r in pairs)
    return f'/-- {doc} -/\ndef {name} : List (Char × List Char) :=\n  [{items}]\n'


def generate():
    from ombott import error_render
    import ombott.ombott as core_mod
    from urllib.parse import uses_netloc
    props_mixin = sys.modules['ombott.request_pkg.props_mixin']
    response_mod = sys.modules['ombott.response']

    # template lines as the renderer caches them
    class E:
        status = 's'
        body = 'b'
        traceback = 't'
        exception = 'x'
    error_render._html_lns[:] = []
    try:
        error_render.render(E, 'u', False)
    except Exception:
        pass                     # a template the renderer cannot format still has its lines cached
    lines = list(error_render._html_lns)
    error_render._html_lns[:] = []

    # fields of the formatted lines (same skipping rule as the renderer: style block lines are raw)
    fields = []
    skip = ''
    for ln in lines:
        if skip:
            if ln.startswith(skip):
                skip = ''
        elif ln.startswith('<style'):
            skip = '</style'
        else:
            try:
                for _lit, fld, spec, conv in string.Formatter().parse(ln):
                    if fld is not None:
                        fields.append(fld + ('!' + conv if conv else '') + (':' + spec if spec else ''))
            except ValueError:
                fields.append('<unparsable>')

    out = []
    out.append('/-- `error.html` as `error_render.render` holds it (stripped lines) -/\n'
               'def errorTemplateLines : List (List Char) :=\n  [' +
               ',\n   '.join(lchars(ln) for ln in lines) + ']\n')
    out.append('/-- replacement fields of the formatted lines, in order, as `string.Formatter.parse` reports them -/\n'
               'def errorTemplateFields : List (List Char) :=\n  [' + ', '.join(lchars(f) for f in fields) + ']\n')
    out.append(pairs_def('pageEscapePairs', 'what `error_render.sanitize_html.escape` (html.escape) changes, by probing every character',
                         probe_escape(error_render.sanitize_html.escape)))
    out.append(pairs_def('helperEscapePairs', 'what `html_escape` of common_helpers (as bound in ombott.ombott) changes, by probing every character',
                         probe_escape(core_mod.html_escape)))

    quote = props_mixin.urlquote
    safe = [i for i in range(256) if quote(bytes([i])) == chr(i)]
    for i in range(256):
        if i not in safe and quote(bytes([i])) != '%%%02X' % i:
            raise ValueError('urlquote is not %XX on byte ' + str(i))
    out.append('/-- bytes `urlquote` (as bound in props_mixin) passes through -/\n'
               'def urlquoteSafe : List Nat :=\n  [' + ', '.join(map(str, safe)) + ']\n')
    out.append('/-- `urllib.parse.uses_netloc` -/\ndef usesNetloc : List (List Char) :=\n  [' +
               ', '.join(lchars(s) for s in uses_netloc) + ']\n')

    import urllib.parse as up
    out.append('/-- `urllib.parse.uses_relative` -/\ndef usesRelative : List (List Char) :=\n  [' +
               ', '.join(lchars(s) for s in up.uses_relative) + ']\n')
    out.append('/-- `urllib.parse.uses_params` -/\ndef usesParams : List (List Char) :=\n  [' +
               ', '.join(lchars(s) for s in up.uses_params) + ']\n')
    out.append('/-- `urllib.parse.scheme_chars` -/\ndef schemeChars : List Char :=\n  ' + lchars(up.scheme_chars) + '\n')
    out.append('/-- characters `urlsplit` strips from the left (`_WHATWG_C0_CONTROL_OR_SPACE`) -/\n'
               'def urlLstripChars : List Char :=\n  ' + lchars(up._WHATWG_C0_CONTROL_OR_SPACE) + '\n')
    out.append('/-- characters `urlsplit` deletes (`_UNSAFE_URL_BYTES_TO_REMOVE`) -/\n'
               'def urlRemovedChars : List Char :=\n  ' + lchars(''.join(up._UNSAFE_URL_BYTES_TO_REMOVE)) + '\n')

    sl = sorted(response_mod._HTTP_STATUS_LINES.items())
    out.append('/-- `_HTTP_STATUS_LINES` of response.py -/\ndef statusLines : List (Nat × List Char) :=\n  [' +
               ',\n   '.join('(%d, %s)' % (c, lchars(s)) for c, s in sl) + ']\n')
    em = core_mod.DefaultConfig.errors_map
    rows = sorted((cls.__name__, e.status_code, e.body) for cls, e in em.items())
    out.append('/-- `DefaultConfig.errors_map`: class name, status code, body -/\n'
               'def errorsMap : List (String × Nat × List Char) :=\n  [' +
               ',\n   '.join('("%s", %d, %s)' % (n, c, lchars(b)) for n, c, b in rows) + ']\n')

    rs, lo = [], None
    for i in range(128, 0x110000):
        np = (0xd800 <= i < 0xe000) or not chr(i).isprintable()
        if np and lo is None:
            lo = i
        if not np and lo is not None:
            rs.append((lo, i - 1))
            lo = None
    if lo is not None:
        rs.append((lo, 0x10ffff))
    rows = [', '.join('(%d, %d)' % r for r in rs[i:i + 8]) for i in range(0, len(rs), 8)]
    out.append('/-- non-ASCII code point ranges where `str.isprintable` is false (driver only) -/\n'
               'def nonPrintable : List (Nat × Nat) :=\n  [' + ',\n   '.join(rows) + ']\n')
    return '\n'.join(out)
