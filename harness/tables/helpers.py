"""Gen/Helpers.lean: the request helper classes of ombott/request_pkg/helpers.py (WSGIHeaderDict, FormsDict,
CookieDict) and the small accessors of props_mixin.py (auth, remote_route, remote_addr, is_xhr) as data, obtained
BEHAVIOURALLY from the live classes (every generated name starts with `hp`).

* `hpCgikeys` - the environ keys the header view shows WITHOUT the `HTTP_` prefix.  Read off the class attribute and
  confirmed by probing: for every candidate CGI name `_ekey(name) == name` exactly for the listed ones, and an
  environ holding only that key is listed by iteration exactly for them (the extraction fails when lookup and
  iteration disagree about the set, which re-opens every theorem about the view).
* `hpHttpPrefix` - what `_ekey` puts in front of every other name (probed).
* `hpEkeyProbes` / `hpIterProbes` - the graph of `_ekey` / of the name iteration shows for an environ key on fixed
  probe points (every case, digits, `_` vs `-`, the CGI keys in every spelling, near misses of the prefix); pinned
  against the model by `decide` in Props/C15.lean.
* `hpReadonlyOps` - every mutating entry point of the view with the exception class it answers and whether the
  environ was left untouched.
* `hpFormsDictAttrs`, `hpCookieDictAttrs` - every name normal attribute lookup finds on an (empty) instance, i.e. the
  names `__getattr__` is NOT asked for; `hpFormsDictOwn`, `hpCookieDictOwn` - the names the class body itself
  defines (adding or removing an accessor changes these and re-opens the pinned obligations);
  `hpAccessorProbes` - which of the accessor names of bottle's FormsDict family exist on each class.
* `hpCookieInputEncoding`, `hpFormsFactory`, `hpCookieFactory` - the encoding default and the factories of `Request`.
* `hpAuthKeys`, `hpRouteKeys`, `hpXhrKeys` - the environ keys `auth` / `remote_route` / `is_xhr` read (recording
  environ over a family of requests); `hpAuthSchemes` - which scheme spellings are accepted for a valid
  `user:pass` payload; `hpXhrToken` - the constant `is_xhr` compares with, confirmed by probing.
"""
import base64

from harness.extract_tables import lstr, llist, lbool

CGI_CANDIDATES = ['CONTENT_TYPE', 'CONTENT_LENGTH', 'CONTENT_MD5', 'CONTENT_ENCODING', 'QUERY_STRING', 'REMOTE_ADDR',
                  'REMOTE_USER', 'REQUEST_METHOD', 'SERVER_NAME', 'SERVER_PORT', 'SCRIPT_NAME', 'PATH_INFO',
                  'AUTH_TYPE', 'GATEWAY_INTERFACE', 'HTTP_HOST', 'HTTP_CONTENT_TYPE', 'HTTP_CONTENT_LENGTH', 'HTTPS',
                  'CONTENT', 'TYPE', 'LENGTH']

EKEY_PROBES = ['', 'a', 'A', 'x-a', 'X_A', 'x_a', 'X-A', 'X--A', 'x-_a', '-', '_', 'host', 'Host', 'HOST', 'hOsT',
               'user-agent', 'User_Agent', 'content-type', 'Content-Type', 'CONTENT_TYPE', 'content_type',
               'Content_type', 'content-length', 'Content-Length', 'CONTENT-LENGTH', 'content-md5', 'content',
               'content-typ', 'content-types', 'x-content-type', 'http-content-type', 'HTTP_X', 'http-x', 'x1', '1x',
               'x-1a', 'a1b2-c3', '9', 'x.y', 'x y', 'x:y', 'a-b-c-d', 'A_b-C_d', 'z' * 20, 'Accept-Language',
               'WWW-Authenticate', 'ETag', 'etag', 'TE', 'dnt', 'X-Forwarded-For', 'x_forwarded_for']

ITER_PROBES = ['HTTP_X_A', 'HTTP_x_a', 'HTTP_X-A', 'HTTP_', 'HTTP', 'HTTP_A', 'HTTP_a', 'http_x', 'Http_X', 'XHTTP_Y',
               'HTTP_HOST', 'HTTP_USER_AGENT', 'HTTP_X1', 'HTTP_1X', 'HTTP_X_1A', 'HTTP_A1B2_C3', 'HTTP_X__A',
               'HTTP_X_', 'HTTP__X', 'HTTP_CONTENT_TYPE', 'HTTP_CONTENT_LENGTH', 'CONTENT_TYPE', 'CONTENT_LENGTH',
               'content_type', 'Content_Type', 'CONTENT-TYPE', 'CONTENT_MD5', 'CONTENT_TYPES', 'XCONTENT_TYPE',
               'QUERY_STRING', 'REMOTE_ADDR', 'REQUEST_METHOD', 'wsgi.input', 'ombott.request', '', 'HTTP_ETAG',
               'HTTP_WWW_AUTHENTICATE', 'HTTP_X.Y', 'HTTP_X Y', 'HTTP_aBc_dEf', 'HTTP_TE', 'HTTP_X_FORWARDED_FOR']

ACCESSOR_NAMES = ['get', 'getall', 'getone', 'getlist', 'getunicode', 'decode', 'recode_unicode', 'input_encoding',
                  'copy', '_fix', '_decoded', 'append', 'replace', 'allitems', 'iterallitems', 'keys', 'values', 'items',
                  'pop', 'popitem', 'setdefault', 'update', 'clear', 'fromkeys', 'raw', '_ekey', 'cgikeys']

SCHEMES = ['Basic', 'basic', 'BASIC', 'bAsIc', 'Digest', 'Bearer', 'Negotiate', 'Basi', 'Basicx', 'xBasic', 'Basic:']


def _exc(fn):
    try:
        fn()
        return 'ok'
    except Exception as e:  # noqa: the class is the observation
        return type(e).__name__


def header_view():
    from ombott.request_pkg.helpers import WSGIHeaderDict as H
    cgi = sorted(H.cgikeys)
    if not all(isinstance(k, str) for k in cgi):
        raise RuntimeError('cgikeys holds non-strings')
    probe = H({})
    for k in sorted(set(CGI_CANDIDATES) | set(cgi)):
        by_lookup = probe._ekey(k) == k
        by_iter = list(H({k: 'v'})) != [] and not k.startswith('HTTP_')
        if by_lookup != (k in cgi) or by_iter != (k in cgi):
            raise RuntimeError(f'cgikeys: {k!r} listed={k in cgi} lookup-unprefixed={by_lookup} iterated-unprefixed={by_iter}')
    e = probe._ekey('Q')
    if not e.endswith('Q'):
        raise RuntimeError(f'_ekey("Q") = {e!r}')
    prefix = e[:-1]
    ekeys = [(n, probe._ekey(n)) for n in EKEY_PROBES]
    iters = []
    for k in ITER_PROBES:
        names = list(H({k: 'v'}))
        if len(names) > 1:
            raise RuntimeError(f'environ key {k!r} is listed {len(names)} times')
        iters.append((k, names[0] if names else None))
    ro = []
    base = {'HTTP_X_A': '1', 'CONTENT_TYPE': 't', 'REQUEST_METHOD': 'GET'}
    for name, fn in [
            ('setitem-new', lambda h: h.__setitem__('X-B', 'v')), ('setitem-old', lambda h: h.__setitem__('X-A', 'v')),
            ('delitem-old', lambda h: h.__delitem__('X-A')), ('delitem-new', lambda h: h.__delitem__('X-B')),
            ('pop-old', lambda h: h.pop('X-A')), ('pop-new', lambda h: h.pop('X-B')),
            ('pop-new-default', lambda h: h.pop('X-B', None)), ('popitem', lambda h: h.popitem()),
            ('clear', lambda h: h.clear()), ('update', lambda h: h.update({'X-B': 'v'})),
            ('update-empty', lambda h: h.update({})), ('setdefault-old', lambda h: h.setdefault('X-A', 'v')),
            ('setdefault-new', lambda h: h.setdefault('X-B', 'v'))]:
        env = dict(base)
        h = H(env)
        out = _exc(lambda: fn(h))
        ro.append((name, out, env == base and list(env) == list(base)))
    return dict(cgi=cgi, prefix=prefix, ekeys=ekeys, iters=iters, ro=ro)


def dict_classes():
    from ombott.request_pkg.helpers import FormsDict, CookieDict
    from ombott.request_pkg.request import Request, BaseRequest
    skip = {'__module__', '__dict__', '__weakref__', '__doc__', '__qualname__', '__firstlineno__', '__static_attributes__'}
    out = {}
    for cls in (FormsDict, CookieDict):
        inst = cls()
        found = sorted(n for n in set(dir(inst)) | set(ACCESSOR_NAMES) if _has_plain(inst, n))
        own = sorted(n for n in vars(cls) if n not in skip)
        out[cls.__name__] = (found, own)
    probes = [(n, _has_plain(FormsDict(), n), _has_plain(CookieDict(), n)) for n in ACCESSOR_NAMES]
    missing = [repr(getattr(FormsDict(), 'hp_no_such_field')), repr(getattr(CookieDict(), 'hp_no_such_field'))]
    return dict(classes=out, probes=probes, enc=CookieDict.input_encoding,
                forms_factory=BaseRequest._forms_factory.__name__, cookie_factory=BaseRequest._cookie_factory.__name__,
                request_forms=type(Request({'QUERY_STRING': 'a=1'}).query).__name__,
                request_cookies=type(Request({'HTTP_COOKIE': 'a=1'}).cookies).__name__, missing=missing)


def _has_plain(inst, name):
    """does normal attribute lookup (without `__getattr__`) find `name`"""
    try:
        object.__getattribute__(inst, name)
        return True
    except AttributeError:
        return False


def accessors():
    from ombott.request_pkg.request import Request
    from harness.tables.envcache import RecEnv

    def reads(attr, envs):
        seen = set()
        for env in envs:
            e = RecEnv(env)
            rq = Request(e)
            e.log.clear()
            try:
                getattr(rq, attr)
            except Exception:  # noqa
                pass
            seen |= {k for k in e.log if isinstance(k, str) and not k.startswith(('ombott.', 'route.'))}
        return sorted(seen)
    good = 'Basic ' + base64.b64encode(b'u:p').decode()
    auth_envs = [{}, {'HTTP_AUTHORIZATION': good}, {'HTTP_AUTHORIZATION': 'x', 'REMOTE_USER': 'r'}, {'REMOTE_USER': 'r'},
                 {'HTTP_AUTHORIZATION': good, 'REMOTE_USER': 'r'}]
    route_envs = [{}, {'HTTP_X_FORWARDED_FOR': '1.1.1.1, 2.2.2.2', 'REMOTE_ADDR': '3.3.3.3'}, {'REMOTE_ADDR': '3.3.3.3'},
                  {'HTTP_X_FORWARDED_FOR': ''}]
    xhr_envs = [{}, {'HTTP_X_REQUESTED_WITH': 'XMLHttpRequest'}, {'HTTP_X_REQUESTED_WITH': 'x'}]
    payload = base64.b64encode(b'u:p').decode()
    schemes = [(s, Request({'HTTP_AUTHORIZATION': s + ' ' + payload}).auth == ('u', 'p')) for s in SCHEMES]
    consts = [c for c in Request.is_xhr.fget.__code__.co_consts if isinstance(c, str) and not c.startswith('HTTP_')
              and ' ' not in c]
    token = [c for c in consts if Request({'HTTP_X_REQUESTED_WITH': c}).is_xhr and Request({'HTTP_X_REQUESTED_WITH': c.upper()}).is_xhr]
    if len(token) != 1 or Request({'HTTP_X_REQUESTED_WITH': token[0] + 'x'}).is_xhr or Request({}).is_xhr:
        raise RuntimeError(f'is_xhr: cannot identify the token it compares with ({consts})')
    alias = [Request({'HTTP_X_REQUESTED_WITH': v}).is_ajax == Request({'HTTP_X_REQUESTED_WITH': v}).is_xhr
             for v in ('XMLHttpRequest', 'x', '')]
    return dict(auth_keys=reads('auth', auth_envs), route_keys=sorted(set(reads('remote_route', route_envs)) |
                                                                     set(reads('remote_addr', route_envs))),
                xhr_keys=sorted(set(reads('is_xhr', xhr_envs)) | set(reads('is_ajax', xhr_envs))), schemes=schemes,
                token=token[0], ajax_alias=all(alias))


def collect():
    return dict(view=header_view(), dicts=dict_classes(), acc=accessors())


def generate():
    c = collect()
    v, d, a = c['view'], c['dicts'], c['acc']

    def strs(l):
        return llist(lstr(x) for x in l)

    def optstr(x):
        return 'none' if x is None else f'some {lstr(x)}'
    fd, cd = d['classes']['FormsDict'], d['classes']['CookieDict']
    return (
        '/-- `WSGIHeaderDict.cgikeys` (sorted), confirmed by probing lookup and iteration -/\n'
        f'def hpCgikeys : List String := {strs(v["cgi"])}\n\n'
        '/-- what `_ekey` puts in front of every other name -/\n'
        f'def hpHttpPrefix : String := {lstr(v["prefix"])}\n\n'
        '/-- graph of `WSGIHeaderDict._ekey` on probe names -/\n'
        f'def hpEkeyProbes : List (String × String) := {llist("(%s, %s)" % (lstr(n), lstr(k)) for n, k in v["ekeys"])}\n\n'
        '/-- the name `WSGIHeaderDict.__iter__` shows for an environ holding just this key (`none`: not shown) -/\n'
        f'def hpIterProbes : List (String × Option String) := {llist("(%s, %s)" % (lstr(k), optstr(n)) for k, n in v["iters"])}\n\n'
        '/-- the mutating entry points of the view: (operation, outcome, environ left untouched) -/\n'
        f'def hpReadonlyOps : List (String × String × Bool) := '
        f'{llist("(%s, %s, %s)" % (lstr(n), lstr(o), lbool(s)) for n, o, s in v["ro"])}\n\n'
        '/-- every name normal attribute lookup finds on a `FormsDict()` (`__getattr__` is not asked for these) -/\n'
        f'def hpFormsDictAttrs : List String := {strs(fd[0])}\n\n'
        '/-- the names the body of `class FormsDict` defines -/\n'
        f'def hpFormsDictOwn : List String := {strs(fd[1])}\n\n'
        '/-- every name normal attribute lookup finds on a `CookieDict()` -/\n'
        f'def hpCookieDictAttrs : List String := {strs(cd[0])}\n\n'
        '/-- the names the body of `class CookieDict` defines -/\n'
        f'def hpCookieDictOwn : List String := {strs(cd[1])}\n\n'
        '/-- accessor names of the FormsDict family: (name, on FormsDict, on CookieDict) -/\n'
        f'def hpAccessorProbes : List (String × Bool × Bool) := '
        f'{llist("(%s, %s, %s)" % (lstr(n), lbool(x), lbool(y)) for n, x, y in d["probes"])}\n\n'
        '/-- `CookieDict.input_encoding` -/\n'
        f'def hpCookieInputEncoding : String := {lstr(d["enc"])}\n\n'
        '/-- `BaseRequest._forms_factory`, `_cookie_factory`, and the classes `Request.query` / `.cookies` really are -/\n'
        f'def hpFactories : List String := {strs([d["forms_factory"], d["cookie_factory"], d["request_forms"], d["request_cookies"]])}\n\n'
        '/-- `repr` of a missing attribute on `FormsDict()` / `CookieDict()` -/\n'
        f'def hpMissingAttr : List String := {strs(d["missing"])}\n\n'
        '/-- environ keys read by `auth` -/\n'
        f'def hpAuthKeys : List String := {strs(a["auth_keys"])}\n\n'
        '/-- environ keys read by `remote_route` / `remote_addr` -/\n'
        f'def hpRouteKeys : List String := {strs(a["route_keys"])}\n\n'
        '/-- environ keys read by `is_xhr` / `is_ajax` -/\n'
        f'def hpXhrKeys : List String := {strs(a["xhr_keys"])}\n\n'
        '/-- scheme spelling → does `auth` accept a valid `user:pass` payload under it -/\n'
        f'def hpAuthSchemes : List (String × Bool) := {llist("(%s, %s)" % (lstr(s), lbool(b)) for s, b in a["schemes"])}\n\n'
        '/-- the (lower-case) token `is_xhr` compares `X-Requested-With` with -/\n'
        f'def hpXhrToken : String := {lstr(a["token"])}\n\n'
        '/-- `is_ajax` answers what `is_xhr` answers -/\n'
        f'def hpAjaxIsXhr : Bool := {lbool(a["ajax_alias"])}\n'
    )
