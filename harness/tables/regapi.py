"""Gen/Regapi.lean: the constants of the application-level registration surface of ombott/ombott.py, obtained from the
LIVE modules, behaviourally where that is cheap (every generated name starts with `ra`).

* `raHttpMethods`       - `ombott.ombott.HTTP_METHODS`
* `raShortcuts`         - every `functools.partialmethod` found in the class body of `Ombott` whose function is
                          `Ombott.route`: (attribute name, the `method` keyword it pins)
* `raShortcutProbe`     - behavioural: (attribute name, the methods found on the route after
                          `getattr(Ombott(), name)('/p', callback=cb)`, sorted)
* `raShortcutPositional`- what `app.<shortcut>('/p', cb)` (callback as the SECOND POSITIONAL argument) answers: an exception
                          class name, or `ok`
* `raRouteDefaultMethod`- the methods on the route after `Ombott().route('/p')(cb)` (the default of `method`)
* `raHookNames`         - keys of a fresh application's `_hooks` (in dict order)
* `raHookReversed`      - the hook names for which two `add_hook` calls end up in reverse order (probed)
* `raHooksLazy`         - `_hooks` is absent from `app.__dict__` until first used (cached_property)
* `raInitErrorHandlers` - keys of `Ombott().error_handlers`
* `raErrorDefaultCode`  - key written by `Ombott().error()(cb)`
* `raPartialCode`       - the only code for which `error(code, rule)(cb)` goes to the router hook (probed over 100..599)
* `raHookTypes`         - `HookTypes` members (name, value)
* `raGlobalAliases`     - attributes of `Globals` and of the package `ombott`: (where, name, kind, bound to default_app())
* `raServerNames`       - `server_adapters.server_names`: name -> class name;  `raServerQuiet`: class name -> its `quiet` default
* `raRunDefaults`       - defaults of `run()`: server, host, port, quiet
* `raSlots`             - `Ombott.__slots__`
"""
import functools
import inspect

from harness.extract_tables import lstr, llist, lbool


def _exc(fn):
    try:
        fn()
        return 'ok'
    except Exception as e:  # noqa: the class is the observation
        return type(e).__name__


def extract():
    import ombott
    from ombott import ombott as M
    from ombott import server_adapters
    from ombott.router import HookTypes
    Ombott = M.Ombott

    def cb(*a, **kw):
        return 'x'

    out = {}
    out['methods'] = list(M.HTTP_METHODS)
    sc = []
    for k, v in vars(Ombott).items():
        if isinstance(v, functools.partialmethod) and v.func is vars(Ombott)['route'] and not v.args \
                and set(v.keywords) == {'method'}:
            sc.append((k, v.keywords['method']))
    out['shortcuts'] = sorted(sc)
    probe, pos = [], []
    for k, _ in sorted(sc):
        app = Ombott()
        r = getattr(app, k)('/p', callback=cb)
        assert r is cb
        probe.append((k, sorted(app.routes['p'].methods)))
        app2 = Ombott()
        pos.append((k, _exc(lambda: getattr(app2, k)('/p', cb))))
    out['probe'] = probe
    out['positional'] = pos
    app = Ombott()
    assert app.route('/p')(cb) is cb
    out['default_method'] = sorted(app.routes['p'].methods)

    app = Ombott()
    out['lazy'] = '_hooks' not in app.__dict__
    names = list(app._hooks)
    out['lazy'] = out['lazy'] and '_hooks' in app.__dict__
    rev = []
    for n in names:
        a, b = (lambda: 1), (lambda: 2)
        app.add_hook(n, a)
        app.add_hook(n, b)
        lst = app._hooks[n]
        assert sorted(map(id, lst)) == sorted([id(a), id(b)])
        if lst == [b, a]:
            rev.append(n)
    out['hook_names'] = names
    out['hook_reversed'] = rev

    app = Ombott()
    out['init_eh'] = [str(k) for k in app.error_handlers]
    app.error()(cb)
    out['err_default'] = [k for k in app.error_handlers if isinstance(k, int)]
    partial = []
    for code in range(100, 600):
        app = Ombott()
        app.error(code, '/api')(cb)
        if code not in app.error_handlers:
            partial.append(code)
    out['partial'] = partial
    out['hooktypes'] = [(m.name, int(m.value)) for m in HookTypes]

    dflt = M.default_app()
    al = []
    for where, holder in (('Globals', M.Globals), ('ombott', ombott)):
        for name in ('app', 'route', 'on_route', 'request', 'response', 'error'):
            if not hasattr(holder, name):
                continue
            v = getattr(holder, name)
            if inspect.ismethod(v):
                kind = 'method:' + v.__func__.__name__
                bound = v.__self__ is dflt and v.__func__ is vars(Ombott).get(v.__func__.__name__)
            elif v is dflt:
                kind, bound = 'app', True
            else:
                kind = 'attr:' + name
                bound = v is getattr(dflt, name, None)
            al.append((where, name, kind, bound))
    out['aliases'] = al
    out['servers'] = [(k, v.__name__) for k, v in server_adapters.server_names.items()]
    out['server_quiet'] = sorted({(v.__name__, bool(v.quiet)) for v in server_adapters.server_names.values()})
    sig = inspect.signature(M.run)
    out['run_defaults'] = [(p, repr(sig.parameters[p].default)) for p in ('app', 'server', 'host', 'port', 'quiet')]
    out['slots'] = list(Ombott.__slots__)
    return out


def generate():
    v = extract()
    strs = lambda l: llist(lstr(x) for x in l)  # noqa
    pairs = lambda l: llist('(%s, %s)' % (lstr(a), lstr(b)) for a, b in l)  # noqa
    return (
        '/-- `HTTP_METHODS` -/\n'
        f'def raHttpMethods : List String := {strs(v["methods"])}\n\n'
        '/-- the `functools.partialmethod(Ombott.route, method=M)` attributes of the class body: (attribute, M) -/\n'
        f'def raShortcuts : List (String × String) := {pairs(v["shortcuts"])}\n\n'
        '/-- (attribute, methods on the route after `app.<attribute>(rule, callback=cb)`) -/\n'
        f'def raShortcutProbe : List (String × List String) := '
        f'{llist("(%s, %s)" % (lstr(a), strs(b)) for a, b in v["probe"])}\n\n'
        '/-- outcome of `app.<attribute>(rule, cb)` (callback second positional) -/\n'
        f'def raShortcutPositional : List (String × String) := {pairs(v["positional"])}\n\n'
        '/-- methods on the route after `app.route(rule)(cb)` -/\n'
        f'def raRouteDefaultMethod : List String := {strs(v["default_method"])}\n\n'
        '/-- keys of a fresh `_hooks` -/\n'
        f'def raHookNames : List String := {strs(v["hook_names"])}\n\n'
        '/-- hook names registered at the front -/\n'
        f'def raHookReversed : List String := {strs(v["hook_reversed"])}\n\n'
        '/-- `_hooks` is created on first use -/\n'
        f'def raHooksLazy : Bool := {lbool(v["lazy"])}\n\n'
        '/-- keys of `Ombott().error_handlers` -/\n'
        f'def raInitErrorHandlers : List String := {strs(v["init_eh"])}\n\n'
        '/-- key written by `error()(cb)` -/\n'
        f'def raErrorDefaultCode : List Int := {llist(str(x) for x in v["err_default"])}\n\n'
        '/-- codes for which `error(code, rule)` installs a partial route hook instead of an error handler -/\n'
        f'def raPartialCode : List Int := {llist(str(x) for x in v["partial"])}\n\n'
        '/-- `HookTypes` -/\n'
        f'def raHookTypes : List (String × Nat) := {llist("(%s, %d)" % (lstr(a), b) for a, b in v["hooktypes"])}\n\n'
        '/-- (holder, attribute, kind, is bound to / taken from `default_app()`) -/\n'
        f'def raGlobalAliases : List (String × String × String × Bool) := '
        f'{llist("(%s, %s, %s, %s)" % (lstr(a), lstr(b), lstr(c), lbool(d)) for a, b, c, d in v["aliases"])}\n\n'
        '/-- `server_adapters.server_names`: name → class name -/\n'
        f'def raServerNames : List (String × String) := {pairs(v["servers"])}\n\n'
        '/-- class name → class attribute `quiet` -/\n'
        f'def raServerQuiet : List (String × Bool) := '
        f'{llist("(%s, %s)" % (lstr(a), lbool(b)) for a, b in v["server_quiet"])}\n\n'
        '/-- defaults of `run()` as `repr` -/\n'
        f'def raRunDefaults : List (String × String) := {pairs(v["run_defaults"])}\n\n'
        '/-- `Ombott.__slots__` -/\n'
        f'def raSlots : List String := {strs(v["slots"])}\n'
    )
