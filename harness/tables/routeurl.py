"""Gen/Routeurl.lean: what the model of `Route.url` (C19) takes from the live `FilterFactory`:
which filters come with an output formatter (probed by building each filter), the mask text of
the `int` filter (the concrete Lean `intFilter` was written for exactly this text), the `\\d` class
of the running `re` module as the code points of the zero of every decimal-digit block (probed:
every `\\d` character lies in a block of ten whose members `int()` maps to 0..9), and a probe of
the `int` formatter on a few values."""
import re
import sys

from harness.extract_tables import lstr, llist, lbool


def digit_zeros():
    rx = re.compile(r'\d')
    zeros = []
    cp = 0
    top = sys.maxunicode + 1
    while cp < top:
        if 0xD800 <= cp <= 0xDFFF or rx.match(chr(cp)) is None:
            cp += 1
            continue
        # cp is the first `\d` character of a run: it must be a zero followed by 1..9
        for k in range(10):
            ch = chr(cp + k)
            if rx.match(ch) is None or int(ch) != k:
                raise AssertionError('decimal digit run at U+%04X is not a 0..9 block' % cp)
        zeros.append(cp)
        cp += 10
    return zeros


def generate():
    from ombott.router.filter_factory import FilterFactory
    out = []
    flags = []
    for name, mk in FilterFactory.filters.items():
        mask, f_in, f_out = mk('x')
        flags.append((name, f_out is not None))
    out.append('/-- for every filter of `FilterFactory.filters`: does it come with an output formatter (`f_out`) -/\n'
               'def filterHasFormatter : List (String × Bool) := %s\n'
               % llist('(%s, %s)' % (lstr(n), lbool(b)) for n, b in flags))
    mask, f_in, f_out = FilterFactory.filters['int'](None)
    out.append('/-- mask of the `int` filter -/\ndef intMask : String := %s\n' % lstr(mask))
    out.append('/-- converter of the `int` filter is the builtin `int` -/\ndef intConvIsInt : Bool := %s\n' % lbool(f_in is int))
    probe = [0, 1, -1, 7, 10, -10, 12, 99, 100, -205, 1234567890123456789012]
    out.append('/-- the `int` formatter on a few values -/\ndef intFmtProbe : List (Int × String) := %s\n'
               % llist('(%d, %s)' % (n, lstr(f_out(n))) for n in probe))
    zs = digit_zeros()
    lines = []
    for i in range(0, len(zs), 12):
        lines.append('  ' + ', '.join(str(z) for z in zs[i:i + 12]))
    out.append('/-- code point of the zero of every block of ten decimal digits matched by `\\\\d` of the running\n'
               '`re` module; `int()` maps the members of a block to 0..9 (checked while extracting) -/\n'
               'def digitZeros : List Nat := [\n%s]\n' % ',\n'.join(lines))
    return '\n'.join(out)
