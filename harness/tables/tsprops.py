"""Gen/Tsprops.lean: what the thread-safety decorator `ts_props` was applied with, probed on the
live classes, and the shared (non thread-local) objects that serving a request touches.

Behavioural where cheap:
* the attribute lists are read off a freshly constructed instance (`instance.<store>.__dict__`
  lists the names `init_wrapper` set to None in this thread, in order) and cross-checked with
  the generated `property` objects of the class;
* `HeaderDict._ts` is inspected on a live `HeaderDict()`;
* the shared objects are found by serving a small set of request kinds on a fresh application and
  comparing a structural snapshot of every non thread-local slot before and after."""
import io
import threading

from harness.extract_tables import lstr, llist, lbool


def _store_name(cls):
    code = cls.__init__.__code__
    if 'store_name' in code.co_freevars:
        return cls.__init__.__closure__[code.co_freevars.index('store_name')].cell_contents
    return '_ts_props'


def ts_list(cls, *a, **kw):
    """(store slot name, attribute names in the order init_wrapper resets them, store is a threading.local)"""
    name = _store_name(cls)
    obj = cls(*a, **kw)
    store = getattr(obj, name)
    attrs = list(store.__dict__.keys())
    generated = sorted(k for k in dir(cls)
                       if isinstance(getattr(cls, k, None), property)
                       and (getattr(cls, k).__doc__ or '').startswith('Local property'))
    if sorted(attrs) != generated:
        raise RuntimeError(f'{cls.__name__}: store attributes {attrs} differ from the generated properties {generated}')
    return name, attrs, isinstance(store, threading.local)


def _snap(x, depth=0):
    """structural snapshot (no ids) of a shared object"""
    if depth > 3:
        return type(x).__name__
    if isinstance(x, dict):
        return ('dict', tuple((repr(k), _snap(v, depth + 1)) for k, v in x.items()))
    if isinstance(x, (list, tuple, set, frozenset)):
        return (type(x).__name__, tuple(_snap(v, depth + 1) for v in x))
    if isinstance(x, (str, bytes, int, float, bool, type(None))):
        return x
    if hasattr(x, '__dict__') and not callable(x):
        return (type(x).__name__, _snap({k: v for k, v in vars(x).items()}, depth + 1))
    return type(x).__name__


def shared_probe():
    """[(owner, slot, 'read-only' | 'idempotent' | 'mutated')] for every plain slot of the
    application, its request, its response and the response's HeaderDict"""
    from ombott import Ombott, HTTPResponse, HTTPError
    from ombott import error_render
    app = Ombott()

    def h_ok():
        app.response.set_cookie('k', 'v')
        app.response.headers['X-A'] = '1'
        return 'ok:' + app.request.path + str(app.request.query.get('q'))

    def h_raise():
        raise HTTPResponse('r', 203, X_R='1')

    def h_err():
        raise HTTPError(418, 'teapot')

    def h_boom():
        return 1 // 0

    def h_form():
        return 'f:' + str(app.request.forms.get('f'))
    app.route('/ok', callback=h_ok)
    app.route('/raise', callback=h_raise)
    app.route('/err', callback=h_err)
    app.route('/boom', callback=h_boom)
    app.route('/form', method='POST', callback=h_form)

    def serve(method, path, body=b''):
        env = {'REQUEST_METHOD': method, 'PATH_INFO': path, 'QUERY_STRING': 'q=1', 'wsgi.errors': io.StringIO(),
               'wsgi.input': io.BytesIO(body), 'CONTENT_LENGTH': str(len(body)), 'SERVER_NAME': 'h',
               'CONTENT_TYPE': 'application/x-www-form-urlencoded',
               'SERVER_PORT': '80', 'wsgi.url_scheme': 'http'}
        return b''.join(app(env, lambda *a: None))

    def serve_all():
        for m, p, b in [('GET', '/ok', b''), ('GET', '/raise', b''), ('GET', '/err', b''), ('GET', '/boom', b''),
                        ('GET', '/none', b''), ('POST', '/ok', b''), ('POST', '/form', b'f=1')]:
            serve(m, p, b)

    tsl = {type(app.request): ts_list(type(app.request))[1], type(app.response): ts_list(type(app.response))[1]}

    def slots():
        out = []
        for owner, obj in [('app', app), ('request', app.request), ('response', app.response),
                           ('response.headers', app.response.headers)]:
            names = []
            for c in type(obj).__mro__:
                names += [s for s in getattr(c, '__slots__', ()) if s != '__dict__']
            names += list(getattr(obj, '__dict__', {}).keys()) if owner == 'app' else []
            for s in dict.fromkeys(names):
                if s in tsl.get(type(obj), ()):
                    continue
                try:
                    v = getattr(obj, s) if not s.startswith('__') else object.__getattribute__(obj, s)
                except AttributeError:
                    continue
                if isinstance(v, threading.local):
                    out.append((owner, s, id(v), 'thread-local'))
                else:
                    out.append((owner, s, id(v), _snap(v)))
        out.append(('module', 'error_render._html_lns', id(error_render._html_lns), _snap(error_render._html_lns)))
        return out
    serve_all()                      # warm-up: lazily created objects (hook table, template lines) appear here
    a = slots()
    serve_all()
    b = slots()
    serve_all()
    c = slots()
    res = []
    first = {(o, s): (i, v) for o, s, i, v in a}
    for (o, s, i, v), (_, _, i2, v2) in zip(b, c):
        if (i, v) == (i2, v2) and first.get((o, s)) == (i, v):
            kind = 'read-only'
        elif v == v2:
            kind = 'idempotent'
        else:
            kind = 'mutated'
        res.append((o, s, kind))
    return res


def errors_map_table():
    """the HTTPError objects every application shares through DefaultConfig.errors_map:
    [(exception class name, status code, status line, body, [(header, value)], pristine)] where
    pristine = no cookies, no exception, no traceback recorded on the shared object"""
    from ombott.ombott import DefaultConfig
    out = []
    for cls, err in DefaultConfig.errors_map.items():
        hdrs = []
        for k, v in err._headers.items():
            for x in (v if isinstance(v, list) else [v]):
                hdrs.append((str(k), str(x)))
        pristine = (not err._cookies) and getattr(err, 'exception', None) is None \
            and getattr(err, 'traceback', None) is None
        out.append((cls.__name__, int(err.status_code), str(err.status_line), str(err.body), hdrs, bool(pristine)))
    return out


def errors_map_probe():
    """serve requests that fail onto each mapped error (twice, two applications, HTML / JSON / debug
    pages, a custom error handler) and report whether the shared objects still look the same"""
    from ombott import Ombott
    from ombott.ombott import DefaultConfig

    def snap():
        return [(cls.__name__, _snap(dict(code=e._status_code, line=e._status_line, body=e.body,
                                         headers=dict(e._headers), cookies=str(e._cookies),
                                         exception=repr(getattr(e, 'exception', None)),
                                         traceback=getattr(e, 'traceback', None))))
                for cls, e in DefaultConfig.errors_map.items()]
    before = snap()
    for cfg in ({}, {'debug': True}):
        app = Ombott(dict(cfg, max_memfile_size=8))

        def h_json():
            return str(app.request.json)

        def h_form():
            return str(app.request.forms.get('f'))
        app.route('/j', method='POST', callback=h_json)
        app.route('/f', method='POST', callback=h_form)

        @app.error(413)
        def on413(res):
            app.response.headers['X-Seen'] = str(app.response.status)
            return 'custom:' + str(res.body)
        for path, ctype, body in (('/j', 'application/json', b'{bad'), ('/f', 'application/x-www-form-urlencoded', b'f=' + b'x' * 40)):
            for accept in (None, 'application/json'):
                env = {'REQUEST_METHOD': 'POST', 'PATH_INFO': path, 'QUERY_STRING': '', 'wsgi.errors': io.StringIO(),
                       'wsgi.input': io.BytesIO(body), 'CONTENT_LENGTH': str(len(body)), 'CONTENT_TYPE': ctype,
                       'SERVER_NAME': 'h', 'SERVER_PORT': '80', 'wsgi.url_scheme': 'http'}
                if accept:
                    env['HTTP_ACCEPT'] = accept
                b''.join(app(env, lambda *a: None))
    return before == snap()


def module_state():
    """module-level and class-level mutable containers (list / dict / set) of the modules of the
    repository: [(qualified name, type, empty right after import)]; the ones that are empty after
    import are lazily filled caches (what the scheduled runs reset to test a cold process)"""
    import sys
    import ombott  # noqa
    import ombott.error_render  # noqa
    from harness import core
    import os
    root = os.path.join(os.path.realpath(core.REPO), 'ombott') + os.sep
    out = []
    for mname, mod in sorted(sys.modules.items()):
        f = getattr(mod, '__file__', None)
        if not f or not os.path.realpath(f).startswith(root):
            continue
        for k, v in sorted(vars(mod).items()):
            if k.startswith('__'):
                continue
            if isinstance(v, (list, dict, set)):
                out.append(('%s.%s' % (mname, k), type(v).__name__, len(v) == 0))
            elif isinstance(v, type) and v.__module__ == mname:
                for ck, cv in sorted(vars(v).items()):
                    if not ck.startswith('__') and isinstance(cv, (list, dict, set)):
                        out.append(('%s.%s.%s' % (mname, k, ck), type(cv).__name__, len(cv) == 0))
    return out


def template_digest():
    import hashlib
    from ombott import error_render
    with error_render.html.open('r') as f:
        lines = [ln.strip() for ln in f.readlines()]
    return hashlib.sha256('\n'.join(lines).encode('utf8')).hexdigest()[:16]


def in_child(fn):
    """run fn() in a forked child so that probing does not touch the module state of this process"""
    import os
    import pickle
    r, w = os.pipe()
    pid = os.fork()
    if pid == 0:
        try:
            os.close(r)
            try:
                data = pickle.dumps(('ok', fn()))
            except BaseException as e:      # noqa
                data = pickle.dumps(('err', '%s: %s' % (type(e).__name__, e)))
            with os.fdopen(w, 'wb') as f:
                f.write(data)
        finally:
            os._exit(0)
    os.close(w)
    with os.fdopen(r, 'rb') as f:
        data = f.read()
    os.waitpid(pid, 0)
    kind, val = pickle.loads(data)
    if kind != 'ok':
        raise RuntimeError(val)
    return val


def generate():
    from ombott.request_pkg.request import Request
    from ombott.response import Response
    from ombott.common_helpers import HeaderDict
    rq_store, rq, rq_local = ts_list(Request)
    rs_store, rs, rs_local = ts_list(Response)
    hd = HeaderDict()
    hd_local = isinstance(hd._ts, threading.local)
    shared = in_child(shared_probe)
    emap = errors_map_table()
    emap_ro = in_child(errors_map_probe)
    out = []
    out.append('/-- attributes `ts_props` made thread-local on `Request`, in the order `init_wrapper` resets them -/')
    out.append(f'def tsRequestProps : List String := {llist([lstr(x) for x in rq])}')
    out.append('/-- attributes `ts_props` made thread-local on `Response` -/')
    out.append(f'def tsResponseProps : List String := {llist([lstr(x) for x in rs])}')
    out.append('/-- the slot holding the per-instance store -/')
    out.append(f'def tsRequestStoreName : String := {lstr(rq_store)}')
    out.append(f'def tsResponseStoreName : String := {lstr(rs_store)}')
    out.append('/-- the per-instance stores are `threading.local` objects -/')
    out.append(f'def tsStoresAreThreadLocal : Bool := {lbool(rq_local and rs_local)}')
    out.append('/-- `HeaderDict._ts` is a `threading.local` -/')
    out.append(f'def tsHeaderDictThreadLocal : Bool := {lbool(hd_local)}')
    out.append('/-- plain (non thread-local) slots and module objects touched while serving, with what a probe of\n'
               'seven request kinds served three times observed: `read-only` (same object, same content),\n'
               '`idempotent` (re-created or rewritten with equal content), `mutated` -/')
    out.append('def tsSharedTouched : List (String × String × String) := ' +
               llist([f'({lstr(o)}, {lstr(s)}, {lstr(k)})' for o, s, k in shared]))
    out.append('/-- the `HTTPError` objects of `DefaultConfig.errors_map`, shared by every application and thread:\n'
               'exception class, status code, status line, body, headers, and whether the object carries no\n'
               'cookies, exception or traceback -/')
    out.append('def tsErrorsMap : List (String × Int × String × String × List (String × String) × Bool) := ' +
               llist(['(%s, %d, %s, %s, %s, %s)' % (lstr(n), c, lstr(l), lstr(b),
                                                    llist(['(%s, %s)' % (lstr(k), lstr(v)) for k, v in h]), lbool(p))
                      for n, c, l, b, h, p in emap]))
    out.append('/-- a probe that makes requests fail onto every mapped error (HTML, JSON, debug pages, a custom\n'
               'error handler, two applications) left the shared objects as they were -/')
    out.append(f'def tsErrorsMapReadOnly : Bool := {lbool(emap_ro)}')
    out.append('/-- digest of the stripped lines of error.html: what `error_render._html_lns` holds once filled -/')
    out.append(f'def tsTemplateDigest : String := {lstr(template_digest())}')
    out.append('/-- module-level and class-level mutable containers of the package: name, type, and whether it is\n'
               'empty right after import (= a lazily filled cache; the scheduled runs start with these emptied) -/')
    out.append('def tsModuleState : List (String × String × Bool) := ' +
               llist(['(%s, %s, %s)' % (lstr(n), lstr(t), lbool(e)) for n, t, e in in_child(module_state)]))
    return '\n'.join(out) + '\n'
