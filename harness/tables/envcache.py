"""Gen/Envcache.lean: the cache layer of the request object as data, obtained BEHAVIOURALLY from
the live classes (every generated name starts with `ec`).

* `ecProps` - every `cache_in` property of `Request` (found through the `property` objects the
  decorator builds; the storage key and the `read_only` flag are read off the closures and confirmed by
  probing: the key appears in the environ after a read, assignment raises): attribute name, cache key,
  read-only flag, whether the cached VALUE is a live view of the environ (the value changes when
  the environ dict is edited behind the request's back), the set of environ keys its computation
  READS, and whether it sees arbitrary `HTTP_*` names.  The read sets are recorded by running the
  property (and touching the value it returns) on a recording environ - a `dict` subclass logging
  `__getitem__`/`get`/`__contains__` - over a family of environs (GET, urlencoded POST, multipart,
  JSON, chunked, with/without cookies, `X-Forwarded-*`, HTTP/1.0 without `Host`, minimal) and every
  single-key ablation of each, under the default configuration and with `allow_x_script_name`; the
  union is taken.  Keys under `ombott.` / `route.` are the cache itself and are not environ input.
* `ecKeys` - the candidate environ keys: every key seen in a read set plus probe names.
* `ecArms` - what `request[K] = v` drops, per candidate key: every cache key is seeded, `K` is
  assigned a new value through the request object, the cache keys that disappeared are listed.
  `ecArmHttp` / `ecArmOther` are the rows of `HTTP_*` names / other names outside `ecKeys`
  (several fresh probe names each; the extraction fails unless they all agree, and unless near
  misses of the prefix - `HTTP`, `http_x`, `XHTTP_Y` - behave like other names).
* `ecUncovered` - the (property, key) pairs with the key in the property's read set and the
  property's cache key not in the row of the key: what an assignment leaves stale.
* `ecUnchangedNoop`, `ecDelViaSet`, `ecReadonlyFlag` - `request[K] = <same value>` drops nothing;
  `del request[K]` drops what `request[K] = ''` drops and removes the key; a truthy
  `ombott.request.readonly` makes assignment raise `KeyError`.
* `ecCopy*` - `request.copy()`: the environ dict is a new object, plain entries and cached entries
  are carried over, and which cached values are the SAME objects in both requests.
"""
import io

from harness.extract_tables import lstr, llist, lbool

CACHE_PREFIXES = ('ombott.', 'route.')
ITER = '*iter*'


class RecEnv(dict):
    """environ that records which keys are looked at"""

    def __init__(self, *a, **kw):
        super().__init__(*a, **kw)
        self.log = set()

    def __getitem__(self, k):
        self.log.add(k)
        return super().__getitem__(k)

    def get(self, k, d=None):
        self.log.add(k)
        return super().get(k, d)

    def __contains__(self, k):
        self.log.add(k)
        return super().__contains__(k)

    def __iter__(self):
        self.log.add(ITER)
        return super().__iter__()

    def keys(self):
        self.log.add(ITER)
        return super().keys()

    def items(self):
        self.log.add(ITER)
        return super().items()


def cache_props(cls):
    """[(attribute, cache key, read_only)] of the `cache_in('environ[ key ]')` properties of cls"""
    out, seen = [], set()
    for c in cls.__mro__:
        for name, v in vars(c).items():
            if name in seen or not isinstance(v, property) or v.__doc__ != 'cache_in':
                continue
            seen.add(name)
            cells = dict(zip(v.fget.__code__.co_freevars, [x.cell_contents for x in v.fget.__closure__ or ()]))
            scells = dict(zip(v.fset.__code__.co_freevars, [x.cell_contents for x in v.fset.__closure__ or ()]))
            if cells.get('attr') != 'environ' or not cells.get('key'):
                raise RuntimeError(f'cache_in property {name}: storage {cells.get("attr")!r}[{cells.get("key")!r}] is outside the model')
            out.append((name, cells['key'], bool(scells.get('read_only'))))
    return out


MP = (b'--bnd\r\nContent-Disposition: form-data; name="f"\r\n\r\nv\r\n'
      b'--bnd\r\nContent-Disposition: form-data; name="u"; filename="a.txt"\r\nContent-Type: text/plain\r\n\r\nxyz\r\n--bnd--\r\n')
CHUNKED = b'3\r\na=1\r\n0\r\n\r\n'


def base_environs():
    """name -> (environ without wsgi.input, body bytes)"""
    common = {'REQUEST_METHOD': 'GET', 'SCRIPT_NAME': '/app', 'PATH_INFO': '/p/q', 'QUERY_STRING': 'a=1&b=2&a=3',
              'SERVER_NAME': 'srv', 'SERVER_PORT': '8080', 'SERVER_PROTOCOL': 'HTTP/1.1', 'wsgi.url_scheme': 'http',
              'REMOTE_ADDR': '10.0.0.1', 'HTTP_HOST': 'h.example:8080', 'HTTP_ACCEPT': 'text/html'}
    envs = {}
    envs['get'] = (dict(common), b'')
    envs['get-cookie'] = (dict(common, HTTP_COOKIE='sid=abc; t="x y"', HTTP_X_REQUESTED_WITH='XMLHttpRequest',
                               HTTP_AUTHORIZATION='Basic dTpw', REMOTE_USER='u'), b'')
    envs['urlencoded'] = (dict(common, REQUEST_METHOD='POST', CONTENT_TYPE='application/x-www-form-urlencoded',
                               CONTENT_LENGTH='7'), b'x=1&y=2')
    envs['multipart'] = (dict(common, REQUEST_METHOD='POST', CONTENT_TYPE='multipart/form-data; boundary=bnd',
                              CONTENT_LENGTH=str(len(MP))), MP)
    envs['json'] = (dict(common, REQUEST_METHOD='POST', CONTENT_TYPE='application/json; charset=utf-8',
                         CONTENT_LENGTH='9', HTTP_ACCEPT='application/json'), b'{"k":"v"}')
    envs['chunked'] = (dict(common, REQUEST_METHOD='POST', CONTENT_TYPE='application/x-www-form-urlencoded',
                            HTTP_TRANSFER_ENCODING='chunked'), CHUNKED)
    envs['forwarded'] = (dict(common, HTTP_X_FORWARDED_PROTO='https', HTTP_X_FORWARDED_HOST='front.example',
                              HTTP_X_FORWARDED_FOR='1.1.1.1, 2.2.2.2', HTTP_X_SCRIPT_NAME='/xs', SCRIPT_NAME=''), b'')
    envs['http10'] = ({k: v for k, v in common.items() if k != 'HTTP_HOST'}, b'')
    envs['minimal'] = ({'REQUEST_METHOD': 'GET'}, b'')
    return envs


CONFIGS = [None, {'allow_x_script_name': True}]


def touch(v):
    """use a returned value the way a handler would, so that a lazy value shows what it reads"""
    try:
        repr(v)
        if hasattr(v, 'keys') and hasattr(v, '__getitem__'):
            for k in list(v.keys()):
                v[k]
            for name in ('Content-Type', 'Content-Length', 'Host', 'X-Ec-Probe'):
                v.get(name)
                name in v
        elif hasattr(v, 'read') and hasattr(v, 'seek'):
            v.seek(0)
            v.read()
            v.seek(0)
    except Exception:
        pass


def snapshot(v):
    """canonical, id-free picture of a property value"""
    try:
        if hasattr(v, 'read') and hasattr(v, 'seek'):
            v.seek(0)
            d = v.read()
            v.seek(0)
            return ('stream', d)
        if hasattr(v, 'keys') and hasattr(v, '__getitem__'):
            return ('map', sorted((str(k), snapshot(v[k])) for k in v.keys()))
        if isinstance(v, (list, tuple)):
            return (type(v).__name__, [snapshot(x) for x in v])
        if hasattr(v, 'filename') and hasattr(v, 'file'):
            return ('upload', v.name, v.raw_filename)
        return repr(v)
    except Exception as e:
        return ('exc', type(e).__name__)


def read_prop(req, name):
    try:
        v = getattr(req, name)
        touch(v)
        return ('ok', v)
    except Exception as e:  # noqa: the exception class is the observation
        return ('exc', type(e).__name__)


def mk_request(env, body, config=None, rec=True):
    from ombott.request_pkg.request import Request
    e = RecEnv(env) if rec else dict(env)
    e['wsgi.input'] = io.BytesIO(body)
    return Request(e, config=config), e


def user_key(k):
    return k != ITER and not k.startswith(CACHE_PREFIXES)


def read_sets(props):
    """attribute -> (set of environ keys read, reads arbitrary HTTP_* names, value is a live view)"""
    envs = base_environs()
    reads = {name: set() for name, _, _ in props}
    iters = {name: False for name, _, _ in props}
    for ename, (env, body) in envs.items():
        variants = [env] + [{k: v for k, v in env.items() if k != drop} for drop in env]
        for cfg in CONFIGS:
            for var in variants:
                for name, key, _ in props:
                    req, e = mk_request(var, body, cfg)
                    e.log.clear()
                    read_prop(req, name)
                    if ITER in e.log:
                        iters[name] = True
                    reads[name] |= {k for k in e.log if user_key(k)}
    # arbitrary HTTP_* names / live views: edit the environ dict behind the request's back
    http_any, view = {}, {}
    for name, key, _ in props:
        http_any[name] = False
        view[name] = False
        for ename, (env, body) in envs.items():
            req, e = mk_request(env, body, None, rec=False)
            r0 = read_prop(req, name)
            if r0[0] != 'ok':
                continue
            s0 = snapshot(r0[1])
            dict.__setitem__(e, 'HTTP_X_EC_PROBE', 'probe')          # not through the request: no invalidation
            if snapshot(r0[1]) != s0:
                view[name] = True
            dict.__delitem__(e, 'HTTP_X_EC_PROBE')
            e2 = dict(env, HTTP_X_EC_PROBE='probe')
            req2, _ = mk_request(e2, body, None, rec=False)
            r2 = read_prop(req2, name)
            if r2[0] == 'ok' and snapshot(r2[1]) != s0:
                http_any[name] = True
        if http_any[name] != iters[name]:
            raise RuntimeError(f'{name}: iterates the environ = {iters[name]} but sees a fresh HTTP_* name = {http_any[name]}')
    return reads, http_any, view


PROBE_HTTP = ['HTTP_X_EC_PROBE', 'HTTP_X_EC_OTHER', 'HTTP_ZZ', 'HTTP_']
PROBE_OTHER = ['X_EC_PROBE', 'ec.probe', 'HTTP', 'http_x_ec', 'XHTTP_Y', 'REQUEST_METHOD_X', '']
EXTRA_KEYS = ['REQUEST_METHOD', 'SERVER_PROTOCOL', 'HTTP_COOKIE', 'HTTP_X_EC_PROBE', 'X_EC_PROBE']


def dropped_by(props, key, op='set', value='ec-new-value', present=True, old='ec-old-value'):
    """cache keys that disappear when `key` is assigned / deleted through the request object"""
    from ombott.request_pkg.request import Request
    env = {}
    if present:
        env[key] = old
    cache_keys = sorted({k for _, k, _ in props} | {'ombott.request.body.error', 'ombott.request.get'})
    for ck in cache_keys:
        env[ck] = ('seeded', ck)
    req = Request(env)
    if op == 'set':
        req[key] = value
        if env.get(key) != value:
            raise RuntimeError(f'request[{key!r}] = v did not store the value')
    else:
        del req[key]
        if key in env:
            raise RuntimeError(f'del request[{key!r}] left the key in the environ')
    return [ck for ck in cache_keys if ck not in env]


def arms(props, keys):
    rows = []
    for k in keys:
        d = dropped_by(props, k)
        if dropped_by(props, k, present=False) != d:
            raise RuntimeError(f'request[{k!r}] = v drops different caches when the key is new')
        rows.append((k, d))
    return rows


def generic_row(props, probes, what):
    rows = [dropped_by(props, k) for k in probes]
    if any(r != rows[0] for r in rows):
        raise RuntimeError(f'{what} probe names are not treated alike: {list(zip(probes, rows))}')
    return rows[0]


def setitem_facts(props, keys):
    from ombott.request_pkg.request import Request
    unchanged = all(dropped_by(props, k, value='ec-old-value') == [] for k in keys)
    delviaset = all(dropped_by(props, k, op='del') == dropped_by(props, k, value='') and
                    dropped_by(props, k, op='del', present=False) == dropped_by(props, k, value='', present=False)
                    for k in keys)
    # del of a key that holds '' already: `self[key] = ''` is the unchanged-value no-op
    delempty = all(dropped_by(props, k, op='del', old='') == [] for k in keys)
    env = {'ombott.request.readonly': True}
    req = Request(env)
    try:
        req['X_EC_PROBE'] = '1'
        ro = None
    except Exception as e:
        ro = type(e).__name__
    return unchanged, delviaset, delempty, ro


def copy_facts(props):
    """(environ is a new dict, plain entries carried over, cached entries carried over, [cache keys whose
    value is the same object in the copy])"""
    envs = base_environs()
    shared, carried, plain_ok, new_dict = set(), True, True, True
    for ename, (env, body) in envs.items():
        req, e = mk_request(env, body, None, rec=False)
        for name, key, _ in props:
            read_prop(req, name)
        c = req.copy()
        new_dict &= c.environ is not req.environ
        for k, v in req.environ.items():
            if k == 'ombott.request':
                continue
            if k not in c.environ:
                carried &= not k.startswith(CACHE_PREFIXES)
                plain_ok &= k.startswith(CACHE_PREFIXES)
            elif k.startswith(CACHE_PREFIXES) and c.environ[k] is v:
                shared.add(k)
            elif k.startswith(CACHE_PREFIXES):
                shared.discard(k) if False else None
        # a cached value that is copied rather than shared in some environ is not "shared"
        for k, v in req.environ.items():
            if k.startswith(CACHE_PREFIXES) and k != 'ombott.request' and k in c.environ and c.environ[k] is not v:
                shared.discard(k)
        if c.environ.get('ombott.request') is not c:
            raise RuntimeError('copy().environ["ombott.request"] is not the copy')
    cache_keys = {k for _, k, _ in props}
    return new_dict, plain_ok, carried, sorted(shared & cache_keys)


def collect():
    from ombott.request_pkg.request import Request
    props = cache_props(Request)
    # confirm key and read_only by probing
    for name, key, ro in props:
        req, e = mk_request(base_environs()['urlencoded'][0], b'x=1&y=2', None, rec=False)
        r = read_prop(req, name)
        if r[0] == 'ok' and key not in e:
            raise RuntimeError(f'{name}: read succeeded but {key!r} is not in the environ')
        prop = getattr(Request, name)
        try:
            prop.fset(req, 'x')
            assigned = True
        except AttributeError:
            assigned = False
        if assigned == ro:
            raise RuntimeError(f'{name}: read_only={ro} but the setter {"succeeded" if assigned else "failed"}')
        # `request.<name> = v` never reaches the setter: BaseRequest.__setattr__ files it under
        # `ombott.request.ext.<name>`; the cached entry must be untouched either way
        before = e.get(key, '<absent>')
        try:
            setattr(req, name, 'x')
        except AttributeError:
            pass
        if e.get(key, '<absent>') is not before:
            raise RuntimeError(f'request.{name} = v changed the cache entry of a read-only property')
    reads, http_any, view = read_sets(props)
    keys = sorted(set().union(*reads.values()) | set(EXTRA_KEYS))
    arm_rows = arms(props, keys)
    arm_http = generic_row(props, PROBE_HTTP, 'HTTP_*')
    arm_other_keys = [k for k in PROBE_OTHER if k not in keys]
    arm_other = generic_row(props, arm_other_keys, 'other')
    armd = dict(arm_rows)
    uncovered = []
    for name, key, _ in props:
        for k in sorted(reads[name]):
            if key not in armd.get(k, arm_http if k.startswith('HTTP_') else arm_other):
                uncovered.append((name, k))
    return dict(props=props, reads=reads, http_any=http_any, view=view, keys=keys, uncovered=uncovered,
                arms=arm_rows, arm_http=arm_http,
                arm_other=arm_other,
                setitem=setitem_facts(props, keys + PROBE_HTTP[:2]), copy=copy_facts(props))


def generate():
    t = collect()
    out = []
    out.append('structure EcProp where\n  name : String\n  key : String\n  readOnly : Bool\n  view : Bool\n'
               '  reads : List String\n  readsHttp : Bool\n  deriving Repr, DecidableEq')
    out.append('/-- every `cache_in` property of `Request`: attribute, environ key of the cache entry, `read_only`, whether '
               'the cached value is a live view of the environ, the environ keys its computation reads (union over the probe '
               'environs), whether it sees arbitrary `HTTP_*` names -/')
    rows = []
    for name, key, ro in t['props']:
        rows.append(f'  ⟨{lstr(name)}, {lstr(key)}, {lbool(ro)}, {lbool(t["view"][name])}, '
                    f'{llist(lstr(k) for k in sorted(t["reads"][name]))}, {lbool(t["http_any"][name])}⟩')
    out.append('def ecProps : List EcProp := [\n' + ',\n'.join(rows) + ']')
    out.append('/-- candidate environ keys: every key some property reads, plus probe names -/')
    out.append('def ecKeys : List String := ' + llist(lstr(k) for k in t['keys']))
    out.append('/-- `request[K] = v` (new value): the cache keys that disappear, per candidate key -/')
    out.append('def ecArms : List (String × List String) := [\n' + ',\n'.join(
        f'  ({lstr(k)}, {llist(lstr(x) for x in d)})' for k, d in t['arms']) + ']')
    out.append('/-- the same for `HTTP_*` names outside `ecKeys` (all probe names agree) -/')
    out.append('def ecArmHttp : List String := ' + llist(lstr(x) for x in t['arm_http']))
    out.append('/-- … and for every other name outside `ecKeys` (including near misses of the prefix) -/')
    out.append('def ecArmOther : List String := ' + llist(lstr(x) for x in t['arm_other']))
    out.append('/-- the (property, environ key) pairs the probe found UNCOVERED on this tree: the property reads the key, '
               'assigning the key through the request object leaves its cache entry in place -/')
    out.append('def ecUncovered : List (String × String) := [\n' + ',\n'.join(
        f'  ({lstr(a)}, {lstr(k)})' for a, k in t['uncovered']) + ']')
    un, dv, de, ro = t['setitem']
    out.append('/-- `request[K] = <the value it has>` drops nothing -/')
    out.append(f'def ecUnchangedNoop : Bool := {lbool(un)}')
    out.append("/-- `del request[K]` drops what `request[K] = ''` drops, then removes the key -/")
    out.append(f'def ecDelViaSet : Bool := {lbool(dv)}')
    out.append("/-- `del request[K]` of a key holding `''` drops nothing (the assignment is the unchanged-value no-op) -/")
    out.append(f'def ecDelEmptyNoop : Bool := {lbool(de)}')
    out.append('/-- what assignment raises when `ombott.request.readonly` is set -/')
    out.append(f'def ecReadonlyRaises : Option String := ' + ('none' if ro is None else f'some {lstr(ro)}'))
    nd, po, ca, sh = t['copy']
    out.append('/-- `request.copy()`: the environ is a new dict -/')
    out.append(f'def ecCopyNewDict : Bool := {lbool(nd)}')
    out.append('/-- … holding every plain entry of the original -/')
    out.append(f'def ecCopyPlain : Bool := {lbool(po)}')
    out.append('/-- … and every cache entry -/')
    out.append(f'def ecCopyCarriesCache : Bool := {lbool(ca)}')
    out.append('/-- … the cached values being the very same objects (shallow copy) for these cache keys -/')
    out.append('def ecCopyShared : List String := ' + llist(lstr(x) for x in sh))
    # a doc comment must sit directly on its definition
    txt = []
    for item in out:
        txt.append(item + ('\n' if item.startswith('/--') else '\n\n'))
    return ''.join(txt)


if __name__ == '__main__':
    import sys
    sys.path.insert(0, '/repo')
    print(generate())
