"""One module per generated Lean table file: `harness/tables/<name>.py` exposes `generate()`
returning the body (Lean definitions, no namespace lines) written to
`lean/OmbottModel/Gen/<Name>.lean` inside `namespace Ombott.Gen`."""
