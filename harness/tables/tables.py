"""Gen/Tables.lean: constants used by C17"""
import inspect


def generate():
    from ombott import static_stream
    sig = inspect.signature(static_stream._file_iter_range)
    maxread = sig.parameters['maxread'].default
    return f'/-- default streaming buffer of `_file_iter_range` -/\ndef fileIterMaxread : Nat := {int(maxread)}\n'
