"""Gen/Upload.lean: the constants and character classes behind `FileUpload` (ombott/request_pkg/helpers.py) and
`BytesIOProxy` (ombott/request_pkg/multipart.py), extracted from the LIVE modules (every generated name starts with `up`).

* `upPatt1`, `upPatt2`, `upStripChars`, `upMaxLen`, `upEmpty` - the two `re.sub` patterns, the argument of the last
  `strip`, the slice bound and the fallback name, read from the source text of `FileUpload.filename` and confirmed
  behaviourally on a live object (the extraction fails when the probes disagree with what was read).
* `upKeep1` - the code points <= 0x3000 that the first `re.sub` (live `re`, the extracted pattern) leaves in place;
  `upDashWs` - the code points <= 0x3000 the second pattern matches; `upStripWs` - the code points <= 0x3000 `str.strip()`
  removes (live `str`).
* `upSep` - `os.path.sep` as seen by the helpers module.
* `upNfkd` - for every character of the filename generator's alphabet (all of ASCII + ALPHABET_WIDE below) the ASCII
  characters of `normalize('NFKD', ch)` (the `normalize` the helpers module imported).
* `upSlots`, `upHeaderProps` (attribute, header name, reader, default), `upSaveDefaults`, `upWhence`,
  `upProxyFlags` (the constant answers of a live BytesIOProxy), `upFieldInit` (attributes of a fresh FieldStorage).
"""
import inspect
import io
import re

from harness.extract_tables import lstr, llist

LIMIT = 0x3000

# the non-ASCII part of the filename alphabet (harness/uploadlib.py draws from ASCII + this)
ALPHABET_WIDE = (
    '\x80\x85\xa0\xad\xe9\xc9\xfc\xdc\xe7\xc0\xf1\xdf\xf8\xc5\xaa\xb2\xbd\xb7\xff'
    'ıŁ̧́̈ΐЖאاก'
    '    ​․‥…  ‮ ⁄ ⁠™℃ÅⅠ①⑴'
    '　、あァ㎏中文가한ﬁﬃ﹒﻿－．／Ａ＼＿ａ０ﾠ�'
    '\U0001d400\U0001f600\U000e0041')


def _src():
    from ombott.request_pkg.helpers import FileUpload
    return inspect.getsource(FileUpload.__dict__['filename'].func)


def collect():
    from ombott.request_pkg import helpers, multipart
    from ombott.request_pkg.helpers import FileUpload
    from ombott.request_pkg.multipart import BytesIOProxy, FieldStorage
    src = _src()
    subs = re.findall(r"re\.sub\(r'((?:[^'\\]|\\.)*)',\s*'([^']*)'", src)
    if len(subs) != 2:
        raise RuntimeError(f'FileUpload.filename: expected two re.sub calls, found {subs!r}')
    (p1, r1), (p2, r2) = subs
    if r1 != '' or r2 != '-':
        raise RuntimeError(f'FileUpload.filename: replacements are {r1!r}, {r2!r}')
    strips = re.findall(r"\.strip\(('[^']*')?\)", src)
    if strips != ['', "'.-'"] and len(strips) != 2:
        raise RuntimeError(f'FileUpload.filename: strip calls {strips!r}')
    strip_chars = strips[1].strip("'")
    m = re.search(r"\[:(\d+)\]\s+or\s+'([^']*)'", src)
    if not m:
        raise RuntimeError('FileUpload.filename: no `[:N] or <fallback>`')
    maxlen, empty = int(m.group(1)), m.group(2)
    # behavioural confirmation on a live object
    if FileUpload(None, 'n', '').filename != empty or FileUpload(None, 'n', b'\xff').filename != empty:
        raise RuntimeError('fallback name differs from the source text')
    if len(FileUpload(None, 'n', 'a' * (maxlen + 50)).filename) != maxlen:
        raise RuntimeError('length bound differs from the source text')
    for ch in strip_chars:
        if FileUpload(None, 'n', ch + 'x' + ch).filename != 'x':
            raise RuntimeError(f'strip character {ch!r} not stripped')
    keep1 = [c for c in range(LIMIT + 1) if not (0xd800 <= c < 0xe000) and re.sub(p1, '', chr(c)) == chr(c)]
    dashws = [c for c in range(LIMIT + 1) if not (0xd800 <= c < 0xe000) and re.fullmatch(p2, chr(c))]
    stripws = [c for c in range(LIMIT + 1) if not (0xd800 <= c < 0xe000) and chr(c).strip() == '']
    sep = helpers.os.path.sep
    if len(sep) != 1:
        raise RuntimeError('os.path.sep')
    nf = helpers.normalize
    alphabet = [chr(c) for c in range(128)] + sorted(set(ALPHABET_WIDE))
    nfkd = [(ord(ch), [ord(x) for x in nf('NFKD', ch) if ord(x) < 128]) for ch in alphabet]
    props = []
    for attr in ('content_type', 'content_length'):
        hp = FileUpload.__dict__[attr]
        props.append((attr, hp.name, getattr(hp.reader, '__name__', 'none') if hp.reader else 'none', repr(hp.default)))
    sig = inspect.signature(FileUpload.save).parameters
    sig2 = inspect.signature(FileUpload._copy_file).parameters
    save_defaults = [('overwrite', repr(sig['overwrite'].default)), ('chunk_size', repr(sig['chunk_size'].default)),
                     ('_copy_file.chunk_size', repr(sig2['chunk_size'].default))]
    whence = [multipart.SEEK_SET, multipart.SEEK_CUR, multipart.SEEK_END]
    p = BytesIOProxy(io.BytesIO(b'abc'), 1, 2)

    def ans(fn):
        try:
            return repr(fn())
        except Exception as e:  # noqa: the class is the observation
            return type(e).__name__
    flags = [(n, ans(getattr(p, n))) for n in ('isatty', 'seekable', 'readable', 'writable', 'fileno', 'close', 'flush')]
    flags.append(('closed', ans(lambda: p.closed)))
    fs = FieldStorage()
    finit = [(k, repr(v)) for k, v in sorted(vars(fs).items())]
    return dict(p1=p1, p2=p2, strip_chars=strip_chars, maxlen=maxlen, empty=empty, keep1=keep1, dashws=dashws,
                stripws=stripws, sep=ord(sep), nfkd=nfkd, slots=list(FileUpload.__slots__), props=props,
                save_defaults=save_defaults, whence=whence, flags=flags, finit=finit)


def nats(l):
    return llist(str(x) for x in l)


def generate():
    c = collect()
    pairs = lambda l: llist('(%s, %s)' % (lstr(a), lstr(b)) for a, b in l)  # noqa: E731
    return (
        '/-- pattern of the first `re.sub` of `FileUpload.filename` (matches are removed) -/\n'
        f'def upPatt1 : String := {lstr(c["p1"])}\n\n'
        '/-- pattern of the second `re.sub` (each match becomes one `-`) -/\n'
        f'def upPatt2 : String := {lstr(c["p2"])}\n\n'
        '/-- code points <= 0x3000 the first `re.sub` leaves in place (live `re`) -/\n'
        f'def upKeep1 : List Nat := {nats(c["keep1"])}\n\n'
        '/-- code points <= 0x3000 the second pattern matches (live `re`) -/\n'
        f'def upDashWs : List Nat := {nats(c["dashws"])}\n\n'
        '/-- code points <= 0x3000 `str.strip()` removes (live `str`) -/\n'
        f'def upStripWs : List Nat := {nats(c["stripws"])}\n\n'
        '/-- the characters of the final `strip(...)` -/\n'
        f'def upStripChars : List Nat := {nats(ord(x) for x in c["strip_chars"])}\n\n'
        '/-- the slice bound `[:N]` and the fallback name -/\n'
        f'def upMaxLen : Nat := {c["maxlen"]}\n'
        f'def upEmpty : List Nat := {nats(ord(x) for x in c["empty"])}\n\n'
        '/-- `os.path.sep` -/\n'
        f'def upSep : Nat := {c["sep"]}\n\n'
        '/-- code point of the generator alphabet -> the ASCII characters of its NFKD form (live `normalize`) -/\n'
        f'def upNfkd : List (Nat × List Nat) := {llist("(%d, %s)" % (k, nats(v)) for k, v in c["nfkd"])}\n\n'
        '/-- `FileUpload.__slots__` -/\n'
        f'def upSlots : List String := {llist(lstr(s) for s in c["slots"])}\n\n'
        '/-- the HeaderProperty attributes: (attribute, header, reader, default) -/\n'
        f'def upHeaderProps : List (String × String × String × String) := '
        f'{llist("(%s, %s, %s, %s)" % tuple(lstr(x) for x in p) for p in c["props"])}\n\n'
        '/-- defaults of `save` / `_copy_file` -/\n'
        f'def upSaveDefaults : List (String × String) := {pairs(c["save_defaults"])}\n\n'
        '/-- SEEK_SET, SEEK_CUR, SEEK_END of the multipart module -/\n'
        f'def upWhence : List Nat := {nats(c["whence"])}\n\n'
        '/-- constant answers of a live BytesIOProxy -/\n'
        f'def upProxyFlags : List (String × String) := {pairs(c["flags"])}\n\n'
        '/-- attributes of a fresh `FieldStorage()` -/\n'
        f'def upFieldInit : List (String × String) := {pairs(c["finit"])}\n'
    )
