"""Gen/Multipart.lean: the byte constants of multipart.py, the text of `end_headers_patt`, and a
behavioural table of `end_headers_patt.search(s, base)` over all strings of length <= 5 over
{CR, LF, x} (every start offset), which the Lean function `endHeadersSearch` is checked against."""
import itertools


def lbytes(b):
    return '[' + ', '.join(str(x) for x in b) + ']'


def generate():
    from ombott.request_pkg import multipart as mp
    from harness.extract_tables import lstr
    out = []
    for name in ('HYPHEN', 'HYPHENx2', 'CR', 'LF', 'CRLF', 'LFCRLF', 'CRLFx2'):
        out.append(f'def mp{name} : List UInt8 := {lbytes(getattr(mp, name))}')
    out.append(f'def mpCRLF_LEN : Nat := {int(mp.CRLF_LEN)}')
    out.append(f'def mpCRLFx2_LEN : Nat := {int(mp.CRLFx2_LEN)}')
    out.append(f'/-- `end_headers_patt.pattern` -/\ndef mpEndHeadersPatt : String := {lstr(mp.end_headers_patt.pattern.decode("latin1"))}')
    # what BodyMarkuper.__init__ derives from a probe boundary
    m = mp.BodyMarkuper(b'bnd')
    out.append(f'/-- `BodyMarkuper(b"bnd").boundary`, `.token` -/\ndef mpProbeBoundary : List UInt8 := {lbytes(m.boundary)}')
    out.append(f'def mpProbeToken : List UInt8 := {lbytes(m.token)}')
    rows = []
    for n in range(0, 6):
        for t in itertools.product(b'\r\nx', repeat=n):
            s = bytes(t)
            for base in range(0, n + 1):
                r = mp.end_headers_patt.search(s, base)
                if r is None:
                    code = '(0, 0)'
                elif r.start(1) >= 0:
                    code = f'(1, {r.start(1)})'
                else:
                    code = f'(2, {len(r.group(2))})'
                rows.append(f'({lbytes(s)}, {base}, {code})')
    out.append('/-- (subject, start offset, result): (0,_) no match, (1,p) group 1 at p, (2,n) group 2 of length n -/\n'
               'def mpEndHeadersTable : List (List UInt8 × Nat × (Nat × Nat)) := [\n  ' + ',\n  '.join(rows) + ']')
    return '\n'.join(out) + '\n'
