"""Gen/Reqobj.lean: the constants of the request OBJECT protocol (ombott/request_pkg/request.py) that
Model/ReqObj.lean and the `reqobj` theorems of Props/C09.lean depend on, obtained from the live classes - behaviourally
where that is cheap (every generated name starts with `ro`).

* `roSlots` - `Request.__slots__` (the names `__setattr__` stores on the object itself and `__getattr__` answers
  `None` for), confirmed by probing: assigning any of them leaves the environ alone, assigning a probe name does not.
* `roExtPrefix` - the environ key prefix of extension attributes (probed with `request.probe = v`).
* `roSelfKey` - the environ key `__init__` stores the request object under (the only key a fresh `Request({})` has).
* `roReadonlyKey` / `roReadonlyRaises` - the flag `__setitem__` looks at and what it raises (probed over candidates).
* `roEvent` / `roInitialListeners` - the event `__setitem__` emits and the listeners of a fresh object (event, number of
  callbacks; the callback is checked to be `Request._on_env_changed`).
* `roConfigDefaults` - `RequestConfig` keys with `repr` of the defaults, in `RequestConfig.items()` order.
* `roThreadLocal` - the attributes `ts_props` made properties of `Request` (cross-checked against Gen/Tsprops.lean by a
  theorem); `roPlainSlots` - the slots that are ordinary (per object, every thread sees the same value).
* `roDelMissingRaises` - what `del request[k]` of a missing key raises (`none`: nothing, the key is assigned '' first).
* `roCopyKeepsListeners`, `roCopySelfKeyIsCopy` - probes of `copy()`.
"""
from harness.extract_tables import lstr, llist, lbool


def _exc(fn):
    try:
        fn()
        return None
    except Exception as e:  # noqa: the class is the observation
        return type(e).__name__


def generate():
    from ombott.request_pkg.request import Request, RequestConfig
    slots = list(Request.__slots__)
    r = Request({})
    self_keys = [k for k, v in r.environ.items() if v is r]
    if list(r.environ) != self_keys or len(self_keys) != 1:
        raise RuntimeError(f'fresh Request({{}}).environ = {list(r.environ)!r}')
    self_key = self_keys[0]
    # extension attributes
    before = set(r.environ)
    r.ro_probe = 'v'
    new = [k for k in r.environ if k not in before]
    if len(new) != 1 or not new[0].endswith('ro_probe') or r.environ[new[0]] != 'v':
        raise RuntimeError(f'extension attribute stored as {new!r}')
    prefix = new[0][:-len('ro_probe')]
    # slots: assignment leaves the environ alone and `__getattr__` answers None for them
    for s in slots:
        q = Request({})
        keys = list(q.environ)
        if s == 'environ':
            continue
        old = object.__getattribute__(q, s) if s not in ('_env_get',) else q._env_get
        try:
            setattr(q, s, old)
        except Exception as e:  # noqa
            raise RuntimeError(f'setattr({s}) raises {e!r}')
        if list(q.environ) != keys:
            raise RuntimeError(f'assigning slot {s} changed the environ')
        if q.__getattr__(s) is not None:
            raise RuntimeError(f'__getattr__({s!r}) is not None')
    # the read-only flag
    cands = [self_key + '.readonly', self_key + '.read_only', self_key + '.ro', 'ombott.readonly', 'readonly']
    hits = []
    for c in cands:
        q = Request({c: True})
        e = _exc(lambda: q.__setitem__('X_RO_PROBE', '1'))
        if e is not None:
            hits.append((c, e))
    if len(hits) != 1:
        raise RuntimeError(f'read-only flag candidates: {hits!r}')
    ro_key, ro_raises = hits[0]
    # events / listeners
    lst = Request({}).__listeners__
    initial = [(e, len(cbs)) for e, cbs in lst.items()]
    if [cb for cbs in lst.values() for cb in cbs] != [Request._on_env_changed]:
        raise RuntimeError('initial listeners are not [_on_env_changed]')
    seen = []
    q = Request({})
    orig_emit = q.emit
    for e in list(lst):
        q.on(e, lambda req, *a, _e=e: seen.append(_e))
    q['X_RO_PROBE'] = '1'
    if len(seen) != 1:
        raise RuntimeError(f'__setitem__ emitted {seen!r}')
    event = seen[0]
    del orig_emit
    cfg = [(k, repr(v)) for k, v in RequestConfig.items()]
    tl = [n for n in slots if isinstance(Request.__dict__.get(n), property)]
    plain = [n for n in slots if n not in tl]
    q = Request({})
    del_missing = _exc(lambda: q.__delitem__('X_RO_MISSING'))
    q = Request({'a': '1'})
    q.on(event, lambda *a: None)
    c = q.copy()
    copy_keeps = c.__listeners__ != Request({}).__listeners__
    copy_self = c.environ[self_key] is c and q.environ[self_key] is q
    out = []
    out.append('/-- `Request.__slots__` -/\ndef roSlots : List String := ' + llist(lstr(s) for s in slots))
    out.append('/-- the slots `ts_props` turned into per-thread properties -/\ndef roThreadLocal : List String := ' + llist(lstr(s) for s in tl))
    out.append('/-- the ordinary slots (one value per object, seen by every thread) -/\ndef roPlainSlots : List String := '
               + llist(lstr(s) for s in plain))
    out.append('/-- environ key prefix of extension attributes -/\ndef roExtPrefix : String := ' + lstr(prefix))
    out.append('/-- the environ key `__init__` stores the request object under -/\ndef roSelfKey : String := ' + lstr(self_key))
    out.append('/-- the flag `__setitem__` tests -/\ndef roReadonlyKey : String := ' + lstr(ro_key))
    out.append('def roReadonlyRaises : String := ' + lstr(ro_raises))
    out.append('/-- the event `__setitem__` emits -/\ndef roEvent : String := ' + lstr(event))
    out.append('/-- listeners of a fresh object: event, number of callbacks (the callback is `_on_env_changed`) -/\n'
               'def roInitialListeners : List (String × Nat) := ' + llist(f'({lstr(e)}, {n})' for e, n in initial))
    out.append('/-- `RequestConfig.items()` with `repr` of the defaults -/\ndef roConfigDefaults : List (String × String) := '
               + llist(f'({lstr(k)}, {lstr(v)})' for k, v in cfg))
    out.append('/-- what `del request[k]` of a missing key raises (`none`: nothing) -/\ndef roDelMissingRaises : Option String := '
               + ('none' if del_missing is None else f'some {lstr(del_missing)}'))
    out.append('/-- `copy()` carries the listeners registered on the original -/\ndef roCopyKeepsListeners : Bool := ' + lbool(copy_keeps))
    out.append("/-- `copy().environ[roSelfKey]` is the copy, the original's still the original -/\ndef roCopySelfKeyIsCopy : Bool := "
               + lbool(copy_self))
    return '\n'.join(out) + '\n'
