"""Gen/Headers.lean: the per-status header blacklist and the emission constants of
`BaseResponse`, obtained by probing the live class (C14; C17's 304 relies on it too).

For every valid status 100..999 a response is built, every candidate entity-header name is
stored under that exact name and `headerlist` is read back: the names that do not come out are
that status's blacklist.  The candidate pool is the union of the names the class attribute
mentions plus every name the RFC lists for 204/304 (so a name *removed* from the source's table
shows up as "emitted", i.e. missing from the generated table, and the `decide` in Props/C14
that compares the table with the RFC list fails)."""

RFC_ENTITY = ['Allow', 'Content-Encoding', 'Content-Language', 'Content-Length', 'Content-Range',
              'Content-Type', 'Content-Md5', 'Last-Modified']


def probe():
    from ombott.response import BaseResponse, HTTPResponse, HTTPError, Response
    pool = set(RFC_ENTITY)
    for names in BaseResponse.bad_headers.values():
        pool.update(names)
    pool = sorted(pool)
    table = []
    for code in range(100, 1000):
        r = HTTPResponse('', code)
        for n in pool:
            r.headers[n] = 'x'
        r.headers['X-Probe'] = 'x'
        out = [n for n, _ in r.headerlist]
        assert 'X-Probe' in out
        withheld = [n for n in pool if n not in out]
        if withheld:
            table.append((code, withheld))
    return dict(
        bad=table,
        ctype=BaseResponse.default_content_type,
        status=int(Response().status_code),
        err_status=int(HTTPError().status_code),
    )


def generate():
    from harness.extract_tables import lstr, llist
    p = probe()
    rows = llist('(%d, %s)' % (code, llist(lstr(n) for n in names)) for code, names in p['bad'])
    return (
        '/-- per status: the header names (compared after `str.title()`) withheld by `headerlist`;\n'
        'probed over 100..999 -/\n'
        f'def badHeaders : List (Nat × List String) := {rows}\n\n'
        '/-- `BaseResponse.default_content_type` -/\n'
        f'def defaultContentType : String := {lstr(p["ctype"])}\n\n'
        '/-- status of a `Response()` created without arguments -/\n'
        f'def defaultStatus : Nat := {p["status"]}\n\n'
        '/-- status of an `HTTPError()` created without arguments -/\n'
        f'def errorDefaultStatus : Nat := {p["err_status"]}\n'
    )
