"""Gen/Resphelp.lean: the constants and tables of the response-side helper classes that
Model/RespHelp.lean and the `resphelp` theorems of Props/C14.lean depend on, extracted from the
live modules (behaviourally where cheap):

* every `HeaderProperty` attribute that exists in the source (owner class, attribute, header name, reader kind, writer
  kind, default) - found by walking all modules of the package; reader / writer kinds are decided by probing;
* the attribute names `WSGIFileWrapper.__init__` copies from the file object (asked of a recording object);
* what `BaseResponse.__new__` makes of each response class with and without constructor arguments;
* the status lines the `status` setter knows (probed over 100..999);
* `http.cookies.Morsel._reserved` / `_flags` (sorted by key, the order `OutputString` uses) and `http_date(0)`."""
import importlib
import inspect
import pkgutil


def props():
    return [r for r, _ in prop_objects()]


def prop_objects():
    """[(row, live descriptor)] sorted by row"""
    import ombott
    from ombott.common_helpers import HeaderProperty
    from ombott.response import http_date
    rows = []
    seen = set()
    names = ['ombott'] + [m.name for m in pkgutil.walk_packages(ombott.__path__, 'ombott.')]
    for mn in sorted(names):
        try:
            mod = importlib.import_module(mn)
        except Exception:   # noqa: optional server adapters
            continue
        for cn, cls in sorted(vars(mod).items()):
            if not inspect.isclass(cls) or id(cls) in seen:
                continue
            seen.add(id(cls))
            for an, p in vars(cls).items():
                if not isinstance(p, HeaderProperty):
                    continue
                if p.reader is None:
                    rk = ''
                elif p.reader is int:
                    rk = 'int'
                else:
                    rk = 'other'
                if p.writer is None:
                    wk = ''
                else:
                    try:
                        same = (p.writer('x y') == 'x y' and p.writer('') == '' and p.writer(0) == http_date(0)
                                and p.writer(86400.5) == http_date(86400.5))
                    except Exception:   # noqa
                        same = False
                    wk = 'http_date' if same else 'other'
                d = p.default
                assert isinstance(d, (str, int)) and not isinstance(d, bool), d
                rows.append(((cls.__name__, an, p.name, rk, wk, isinstance(d, int), str(d)), p))
    return sorted(rows, key=lambda x: x[0])


def fw_attrs():
    from ombott.common_helpers import WSGIFileWrapper
    asked = []

    class Rec:
        def __getattr__(self, name):
            asked.append(name)
            raise AttributeError(name)
    w = WSGIFileWrapper(Rec())
    assert not [a for a in asked if hasattr(w, a)]
    # each name asked is copied when present
    for a in asked:
        class One:
            pass
        o = One()
        setattr(o, a, lambda *x: b'')
        assert getattr(WSGIFileWrapper(o), a) is getattr(o, a)
    return asked


def new_outcomes():
    import importlib
    response = importlib.import_module('ombott.response')
    out = []
    for cn in ('BaseResponse', 'Response', 'HTTPResponse', 'HTTPError'):
        cls = getattr(response, cn)
        for has_args in (False, True):
            try:
                if has_args:
                    cls.__new__(cls, status=200)
                else:
                    cls.__new__(cls)
                e = ''
            except Exception as ex:   # noqa
                e = type(ex).__name__
            out.append((cn, has_args, e))
    return out


def status_lines():
    from ombott.response import HTTPResponse
    r = HTTPResponse()
    out = []
    for code in range(100, 1000):
        r.status = code
        assert r.status_code == code
        if r.status_line != '%d Unknown' % code:
            out.append((code, r.status_line))
    return out


def generate():
    from harness.extract_tables import lstr, llist, lbool
    from http.cookies import Morsel
    from ombott.response import http_date
    rows = llist('(%s, %s, %s, %s, %s, %s, %s, %s)' % (lstr(o), lstr(a), lstr(n), lstr(r), lstr(w), lbool(i), lstr(d), '(%d : Int)' % (int(d) if i else 0))
                 for o, a, n, r, w, i, d in props())
    new = llist('(%s, %s, %s)' % (lstr(c), lbool(h), lstr(e)) for c, h, e in new_outcomes())
    sl = llist('(%d, %s)' % (c, lstr(l)) for c, l in status_lines())
    res = llist('(%s, %s)' % (lstr(k), lstr(v)) for k, v in sorted(Morsel._reserved.items()))
    return (
        '/-- every `HeaderProperty` attribute of the package: owner class, attribute, header name, reader kind\n'
        '("" none, "int", "other"), writer kind ("" none, "http_date", "other"), default is an int?, `str(default)`, the default as an integer (0 for a text default) -/\n'
        f'def rhProps : List (String × String × String × String × String × Bool × String × Int) := {rows}\n\n'
        '/-- the attribute names `WSGIFileWrapper.__init__` copies from `fp`, in the order it asks for them -/\n'
        f'def rhFwAttrs : List String := {llist(lstr(a) for a in fw_attrs())}\n\n'
        '/-- `cls.__new__(cls)` / `cls.__new__(cls, status=200)` per response class: the exception class, "" = an object -/\n'
        f'def rhNewOutcome : List (String × Bool × String) := {new}\n\n'
        '/-- the status lines the `status` setter produces for an `int` code, where it is not `"<code> Unknown"` -/\n'
        f'def rhStatusLines : List (Nat × String) := {sl}\n\n'
        '/-- `http.cookies.Morsel._reserved`, sorted by key (the order of `OutputString`) -/\n'
        f'def rhMorselReserved : List (String × String) := {res}\n\n'
        '/-- `http.cookies.Morsel._flags` -/\n'
        f'def rhMorselFlags : List String := {llist(lstr(k) for k in sorted(Morsel._flags))}\n\n'
        '/-- `http_date(0)`: the `expires` of `delete_cookie` -/\n'
        f'def rhEpochDate : String := {lstr(http_date(0))}\n'
    )
