"""Gen/Wsgi.lean: everything the C03/C09 theorems range over, taken from the live modules.

Behavioural where cheap:
  * wsgiBodylessStatuses   - every status 100..999 for which a GET handler returning b'x' gets an empty
                         iterable back from Ombott.__call__ (probed on a real application)
  * wsgiHookReversed       - for each hook name, whether add_hook registers in reverse order
                         (two callbacks registered, list order observed)
  * wsgiErrorsMap          - DefaultConfig.errors_map: class name -> (status code, status line, body)
  * wsgiStatusLines        - response._HTTP_STATUS_LINES
  * wsgiBadHeaders         - BaseResponse.bad_headers
  * wsgiErrorPage          - error.html as error_render.render walks it (stripped lines, <style> block
                         verbatim) cut into literal / placeholder segments by Python's own
                         string.Formatter
  * wsgiClassMutables      - dict/list/set valued class attributes and module globals of the package
  * wsgiCastMaxLoops       - the loop bound of Ombott._cast (from its source text)
  * defaultContentType, defaultStatus, errorDefaultStatus, catchall, debug
"""
import inspect
import io
import re
import string

from harness.extract_tables import lstr, llist, lbool


def _probe_bodyless():
    from ombott import Ombott
    app = Ombott()
    cur = {}

    def h():
        app.response.status = cur['s']
        return b'x'

    app.route('/p', method='GET', callback=h)
    out = []
    for s in range(100, 1000):
        cur['s'] = s
        env = {'REQUEST_METHOD': 'GET', 'PATH_INFO': '/p', 'QUERY_STRING': '', 'SERVER_NAME': 'h',
               'SERVER_PORT': '80', 'wsgi.url_scheme': 'http', 'wsgi.errors': io.StringIO(),
               'wsgi.input': io.BytesIO(b'')}
        seen = []
        body = app(env, lambda st, hd, ei=None: seen.append(st))
        data = b''.join(body)
        if not seen or not seen[0].startswith(str(s)):
            raise RuntimeError(f'status {s} not emitted: {seen}')
        if data == b'':
            out.append(s)
        elif data != b'x':
            raise RuntimeError(f'status {s}: unexpected body {data!r}')
    return out


def _probe_hook_order():
    from ombott import Ombott
    res = []
    for name in ('before_request', 'after_request'):
        app = Ombott()
        log = []
        f0 = lambda: log.append(0)
        f1 = lambda: log.append(1)
        app.add_hook(name, f0)
        app.add_hook(name, f1)
        app.emit(name)
        if sorted(log) != [0, 1]:
            raise RuntimeError(f'hook {name}: {log}')
        res.append((name, log == [1, 0]))
    return res


def _error_page():
    import importlib
    error_render = importlib.import_module('ombott.error_render')
    lines = [ln.strip() for ln in error_render.html.open('r').readlines()]
    segs = []
    skip_until = ''
    known = {'e.status', 'e.body', 'url', 'exception', 'traceback'}
    for ln in lines:
        if skip_until:
            if ln.startswith(skip_until):
                skip_until = ''
            segs.append((False, ln))
        elif ln.startswith('<style'):
            skip_until = '</style'
            segs.append((False, ln))
        else:
            for lit, field, spec, conv in string.Formatter().parse(ln):
                if lit:
                    segs.append((False, lit))
                if field is not None:
                    if field not in known or spec or conv:
                        raise RuntimeError(f'error.html: placeholder {field!r}:{spec!r}!{conv!r} is not modelled')
                    segs.append((True, field))
    # merge neighbouring literals
    out = []
    for hole, txt in segs:
        if out and not hole and not out[-1][0]:
            out[-1] = (False, out[-1][1] + txt)
        else:
            out.append((hole, txt))
    return out


def class_level_mutables():
    """every dict / list / set valued attribute of a class or module of the package under test
    (enum bookkeeping excluded): the places where state could outlive a request besides the
    per-thread request / response objects"""
    import importlib
    import inspect as _inspect
    import pkgutil
    import enum
    pkg = importlib.import_module('ombott')
    names = ['ombott'] + [m.name for m in pkgutil.walk_packages(pkg.__path__, 'ombott.')]
    out = []
    for mn in sorted(names):
        try:
            mod = importlib.import_module(mn)
        except Exception:      # optional server adapters etc.
            continue
        for name, obj in sorted(vars(mod).items()):
            if name.startswith('__'):
                continue
            if isinstance(obj, (dict, list, set)):
                out.append(f'{mn}:{name}:{type(obj).__name__}')
            if _inspect.isclass(obj) and obj.__module__ == mn and not issubclass(obj, enum.Enum):
                for an, av in sorted(vars(obj).items()):
                    if an.startswith('__') and an.endswith('__'):
                        continue
                    if isinstance(av, (dict, list, set)):
                        out.append(f'{mn}:{obj.__name__}.{an}:{type(av).__name__}')
    return out


def generate():
    import importlib
    om = importlib.import_module('ombott.ombott')
    rsp = importlib.import_module('ombott.response')
    bodyless = _probe_bodyless()
    hooks = _probe_hook_order()
    emap = []
    for cls, err in om.DefaultConfig.errors_map.items():
        if err._cookies or err._headers:
            raise RuntimeError('errors_map entry with headers/cookies is not modelled')
        emap.append((cls.__name__, err._status_code, err._status_line, str(err.body)))
    src = inspect.getsource(om.Ombott._cast)
    m = re.search(r'loops_cnt\s*>\s*(\d+)', src)
    if not m:
        raise RuntimeError('loop bound of _cast not found')
    lines = sorted(rsp._HTTP_STATUS_LINES.items())
    bad = sorted((k, sorted(v)) for k, v in rsp.BaseResponse.bad_headers.items())
    page = _error_page()
    o = []
    o.append('/-- statuses 100..999 whose GET response comes back with an empty iterable (probed) -/')
    o.append('def wsgiBodylessStatuses : List Nat := ' + llist(str(s) for s in bodyless) + '\n')
    o.append('/-- hook name, registered in reverse order? (probed through add_hook/emit) -/')
    o.append('def wsgiHookReversed : List (String × Bool) := ' +
             llist(f'({lstr(n)}, {lbool(r)})' for n, r in hooks) + '\n')
    o.append('/-- DefaultConfig.errors_map: exception class, status code, status line, body -/')
    o.append('def wsgiErrorsMap : List (String × Nat × String × String) := ' +
             llist(f'({lstr(c)}, {s}, {lstr(l)}, {lstr(b)})' for c, s, l, b in emap) + '\n')
    o.append('/-- response._HTTP_STATUS_LINES -/')
    o.append('def wsgiStatusLines : List (Nat × String) := [\n  ' +
             ',\n  '.join(f'({c}, {lstr(l)})' for c, l in lines) + ']\n')
    o.append('/-- BaseResponse.bad_headers -/')
    o.append('def wsgiBadHeaders : List (Nat × List String) := ' +
             llist(f'({c}, {llist(lstr(x) for x in v)})' for c, v in bad) + '\n')
    o.append('/-- error.html as render() emits it: (is placeholder, literal text or placeholder name) -/')
    o.append('def wsgiErrorPage : List (Bool × String) := [\n  ' +
             ',\n  '.join(f'({lbool(h)}, {lstr(t)})' for h, t in page) + ']\n')
    o.append('/-- class-level and module-level mutable containers of the package (module:Class.attr:type) -/')
    o.append('def wsgiClassMutables : List String := [\n  ' +
             ',\n  '.join(lstr(x) for x in class_level_mutables()) + ']\n')
    o.append(f'def wsgiCastMaxLoops : Nat := {int(m.group(1))}\n')
    o.append(f'def wsgiDefaultContentType : String := {lstr(rsp.BaseResponse.default_content_type)}')
    o.append(f'def wsgiDefaultStatus : Nat := {int(rsp.BaseResponse.default_status)}')
    o.append(f'def wsgiErrorDefaultStatus : Nat := {int(rsp.HTTPError.default_status)}')
    o.append(f'def wsgiCatchall : Bool := {lbool(om.DefaultConfig.catchall)}')
    o.append(f'def wsgiDebug : Bool := {lbool(om.DefaultConfig.debug)}')
    return '\n'.join(o) + '\n'
