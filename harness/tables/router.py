"""Gen/Router.lean: constants of the router that the model and the C01/C02 theorems refer to.
Obtained from the live objects: token / separator characters of a default `RadiRouter`, the
parser's delimiters, the anonymous-parameter prefix, the filter names of `FilterFactory`, the
`\\w` class of `re` (as code point ranges, the rule parser's identifier class), and the candidate
method lists `Ombott.to_route` really passes to the router (recorded by a stand-in router)."""
import re
import sys

from harness.extract_tables import lstr, llist


def lchar(c):
    return 'Char.ofNat %d' % ord(c)


def word_ranges():
    rx = re.compile(r'\w')
    out, start = [], None
    for cp in range(0x80, sys.maxunicode + 1):
        if 0xD800 <= cp <= 0xDFFF:
            ok = False
        else:
            ok = rx.match(chr(cp)) is not None
        if ok and start is None:
            start = cp
        elif not ok and start is not None:
            out.append((start, cp - 1))
            start = None
    if start is not None:
        out.append((start, sys.maxunicode))
    return out


class _Recorder:
    def __init__(self):
        self.seen = None

    def resolve(self, path, methods=None):
        self.seen = list(methods)
        return None, [404, 'Not Found', {}]


def candidate_templates():
    """for each probe verb: the list passed to router.resolve with the verb itself replaced by
    a slot (None)"""
    from ombott.ombott import Ombott
    app = Ombott()
    rec = _Recorder()
    app.router = rec
    probes = ['GET', 'HEAD', 'POST', 'PUT', 'DELETE', 'PATCH', 'OPTIONS', 'ANY', 'XPROBE']
    tmpl = {}
    for v in probes:
        app.to_route('/x', v)
        tmpl[v] = [None if m == v else m for m in rec.seen]
    return tmpl


def generate():
    from ombott.router.radirouter import RadiRouter, Route
    from ombott.router.parser import Parser
    from ombott.router.filter_factory import FilterFactory
    r = RadiRouter()
    tok, sep = r.radidict.param_token, r.radidict.path_sep
    assert len(tok) == 1 and len(sep) == 1
    delims = Parser.param_delimiters
    dmap = Parser.param_delimiters_map
    out = []
    out.append('/-- `RadiDict.param_token` of a default router -/\ndef paramToken : Char := %s\n' % lchar(tok))
    out.append('/-- `RadiDict.path_sep` of a default router -/\ndef pathSep : Char := %s\n' % lchar(sep))
    out.append('/-- `Parser.param_delimiters` with their closing partner (`param_delimiters_map`) -/\n'
               'def paramDelims : List (Char × Char) := %s\n'
               % llist('(%s, %s)' % (lchar(o), lchar(dmap[o])) for o in delims))
    out.append('/-- `Route.anon_prefix` -/\ndef anonPrefix : String := %s\n' % lstr(Route.anon_prefix))
    out.append('/-- keys of `FilterFactory.filters` -/\ndef filterNames : List String := %s\n'
               % llist(lstr(k) for k in FilterFactory.filters))
    rr = word_ranges()
    lines = []
    for i in range(0, len(rr), 8):
        lines.append('  ' + ', '.join('(%d, %d)' % p for p in rr[i:i + 8]))
    out.append('/-- code point ranges (>= 0x80) matched by `\\\\w` of the running `re` module -/\n'
               'def wordRanges : List (Nat × Nat) := [\n%s]\n' % ',\n'.join(lines))
    tmpl = candidate_templates()
    default = tmpl['XPROBE']

    def ltmpl(t):
        return llist('none' if m is None else 'some %s' % lstr(m) for m in t)
    special = [(v, t) for v, t in tmpl.items() if t != default]
    out.append('/-- what `Ombott.to_route` passes to `router.resolve` for a verb without a special case\n'
               '(`none` = the request verb itself); recorded with a stand-in router -/\n'
               'def candDefault : List (Option String) := %s\n' % ltmpl(default))
    out.append('/-- verbs for which `Ombott.to_route` builds another list -/\n'
               'def candSpecial : List (String × List (Option String)) := %s\n'
               % llist('(%s, %s)' % (lstr(v), ltmpl(t)) for v, t in special))
    return '\n'.join(out)
