"""Gen/Routerbuiltin.lean: the built-in route filters (`int`, `float`, `path` of
`FilterFactory.filters`): their mask texts for a list of configurations, and a behavioural probe
table (filter, conf, text) -> (value text, characters consumed) obtained from the live handlers
of `FilterFactory.make_filter`.  `Props/C01.lean` ties both to the reference semantics
`Model/RouterBuiltin.lean` (`builtin_masks_pinned`, `builtin_probes_agree`), so editing a mask or
a converter re-opens a proof obligation."""
from harness.extract_tables import lstr, llist

PATH_CONFS = ['', '/end', '.tar/', '+x', '(1)', '[a]', '$', '^', '|', '?', '*', '.', '\\', 'a']
INT_TEXTS = ['', '0', '12', '-7', '007', '-', '-0', '1a', 'a1', '+1', '1-2', '12/x', '--1', ' 1', '1.5', '-12x', '9' * 25]
FLOAT_TEXTS = ['1.5', '-0.25', '3', '1.', '.5', '1e3', '10.0x', '1.5.2', '-', '-.5', '00.10', '1..2', '', 'x', '-3.0.00001',
               '12/7.5', '1.e5']


def path_texts(conf):
    base = ['', 'a', 'a/b', 'site.tar/img/x.tar/1', 'axtar/', 'a+x+x', 'a(1)(1)', '1)', 'x[a]a', 'a$', 'a^a', 'a|b',
            'q?', 'a*z', '.', '..', 'ab\\c', 'aaa']
    if conf:
        base += [conf, 'x' + conf, conf + conf, 'x' + conf + 'y' + conf, conf + 'x']
    return base


def val_text(name, v, text, n):
    # int: the converted value in decimal; float / path: the matched text
    return str(v) if name == 'int' else text[:n]


def generate():
    from ombott.router.filter_factory import FilterFactory
    masks, probes = [], []
    cases = [('int', None, INT_TEXTS), ('float', None, FLOAT_TEXTS)] + [('path', c, path_texts(c)) for c in PATH_CONFS]
    for name, conf, texts in cases:
        mask = FilterFactory.filters[name](conf)[0]
        masks.append((name, conf or '', mask))
        h = FilterFactory.make_filter(name, conf)[0]
        for t in texts:
            v, n, sel = h(t)
            assert sel is None
            probes.append((name, conf or '', t, None if v is None else (val_text(name, v, t, n), n)))
    out = []
    out.append('/-- (filter, conf, mask text) of `FilterFactory.filters[filter](conf)` -/\n'
               'def builtinMasks : List (String × String × String) := [\n  %s]\n'
               % ',\n  '.join('(%s, %s, %s)' % (lstr(a), lstr(b), lstr(c)) for a, b, c in masks))
    out.append('/-- (filter, conf, text, answer of the live handler: value text and characters consumed) -/\n'
               'def builtinProbes : List (String × String × String × Option (String × Nat)) := [\n  %s]\n'
               % ',\n  '.join('(%s, %s, %s, %s)' % (lstr(a), lstr(b), lstr(t),
                                                    'none' if r is None else 'some (%s, %d)' % (lstr(r[0]), r[1]))
                               for a, b, t, r in probes))
    return '\n'.join(out)
