"""Gen/Routerbuiltin.lean: the built-in route filters (`int`, `float`, `path` of
`FilterFactory.filters`): their mask texts for a list of configurations, and a behavioural probe
table (filter, conf, text) -> (value text, characters consumed) obtained from the live handlers
of `FilterFactory.make_filter`.  `Props/C01.lean` ties both to the reference semantics
`Model/RouterBuiltin.lean` (`builtin_masks_pinned`, `builtin_probes_agree`), so editing a mask or
a converter re-opens a proof obligation.

`rb…` tables (tie of the *concrete* filter environment `Model/RouterBuiltinEnv.lean`, which the C01/C19
theorems `…_builtin` are stated over): `rbEnvProbes` = the live handlers' full answers (value as
the harness ships it, characters consumed) per handler identity `name(args)` and text, newline and
non-ASCII digit cases included; `rbFloatConv` = `repr(float(text))` for the probed texts outside the
exactly modelled domain (the parameter `FloatConv`); `rbFloatFmt` = the live `float` formatter per
`repr`.  `Props/C01.lean: builtin_env_probes_agree`, `builtin_float_fmt_agrees`."""
from harness.extract_tables import lstr, llist, lbool

PATH_CONFS = ['', '/end', '.tar/', '+x', '(1)', '[a]', '$', '^', '|', '?', '*', '.', '\\', 'a']
INT_TEXTS = ['', '0', '12', '-7', '007', '-', '-0', '1a', 'a1', '+1', '1-2', '12/x', '--1', ' 1', '1.5', '-12x', '9' * 25]
FLOAT_TEXTS = ['1.5', '-0.25', '3', '1.', '.5', '1e3', '10.0x', '1.5.2', '-', '-.5', '00.10', '1..2', '', 'x', '-3.0.00001',
               '12/7.5', '1.e5']


RB_INT_TEXTS = INT_TEXTS + ['٣', '1٣x', '-٠٧', '۱۲', '-', '٣-']
RB_FLOAT_TEXTS = FLOAT_TEXTS + [
    '0', '-0', '-0.0', '0.000', '000', '5', '007.50', '0.0001', '0.00001', '0.000015', '123456789012345',
    '1234567890123456', '0.1234567890123456', '1000000000000000', '10000000000000000', '10000000000000000.0',
    '1' + '0' * 22, '1' + '0' * 23, '٣.٥', '1.٥x', '12345.678e', '-12.50/', '3.', '3..', '3.a', '9' * 15 + '0' * 285,
    '0.' + '0' * 289 + '1', '0.' + '0' * 291 + '1', '12345678901234567890', '0.1' + '0' * 20 + '1', '1' + '0' * 309,
    '0.3', '2.675', '1.1', '100.0', '99999999999999.9', '4.35', '0.1', '-1.7976931348623157',
    '123456789.123456789', '1e5', '5e-324', '-.5', '--1', '-1.-2']
RB_PATH_EXTRA = [('', 'a\n'), ('', 'a\nb'), ('', '\n'), ('', 'a\n\n'), ('', 'ab\n'), ('/end', 'a\n/end'),
                 ('/end', 'a/end\nb/end'), ('/end', 'a/end/end\n/end'), ('\n', 'a\nb'), ('\n', 'a\n\n'), ('a', 'aaa\naa'),
                 ('.', '-3.1.5'), ('.', '-3.1.5.0'), ('-5', 'a-5-05'), ('-5', 'a-5-5'), ('0', 'a05/b'), ('0', 'a05.0/b'),
                 ('é', 'xéyéz'), ('/', 'a/b/c/'), ('/', '/'), ('/', '//'), ('<q>', 'ab<q>'), (':x', 'a:x:x')]
RB_FMT_VALUES = [0.0, -0.0, 5.0, 0.5, 1.5, -0.25, 100.0, 1e15, 1e16, 1.5e16, 1e22, 1e23, 1.2345678901234567e+16,
                 1e-4, 1e-5, 1.5e-5, 1.234e-7, 123.456, 1e100, 1.7976931348623157e308, 5e-324, 0.1, 1 / 3,
                 123456789012345680.0, -1e-10, 2.5e-300, 1e300]


def int_limit():
    from harness.tables import pyint
    return pyint.limit()


def long_int_texts(nonascii=False):
    """digit runs at the interpreter's `int()` limit (`sys.get_int_max_str_digits()`): LIMIT and LIMIT+1
    digit characters, with a sign, with leading zeros, followed by a literal; none when there is no limit"""
    lim = int_limit()
    if lim > 100000:
        return []
    # few and cheap for the kernel (`decide +kernel` walks every character; an accepted run of LIMIT
    # sevens costs seconds in `int`/`str`): the accepted text is LIMIT digit characters with leading
    # zeros.  Full-size accepted numerals are exercised by the correspondence run (harness/intlimlib.py).
    out = ['0' * (lim - 1) + '7/x', '-' + '7' * (lim + 1) + '.png']
    if nonascii:
        out = ['0' * (lim - 1) + '7/x', '-' + '7' * (lim + 1) + '/x', '٣' * (lim + 1)]
    return out


def lchars(s):
    """Lean term of type `List Char`; long runs of one character as `List.replicate` (the kernel
    evaluates `String.toList` of a long literal in quadratic time)"""
    if len(s) <= 40:
        return '%s.toList' % lstr(s)
    parts, i = [], 0
    while i < len(s):
        j = i
        while j < len(s) and s[j] == s[i]:
            j += 1
        if j - i >= 12:
            parts.append(('run', s[i], j - i))
        elif parts and parts[-1][0] == 'txt' and len(parts[-1][1]) < 40:
            parts[-1] = ('txt', parts[-1][1] + s[i:j])
        else:
            parts.append(('txt', s[i:j]))
        i = j
    return '(' + ' ++ '.join('List.replicate %d %s' % (x[2], "'%s'" % x[1]) if x[0] == 'run' else '%s.toList' % lstr(x[1])
                             for x in parts) + ')'


def enc_val(v):
    """(is it a `str`, the text the harness ships for it)"""
    if isinstance(v, str):
        return True, v
    return False, '%s:%r' % (type(v).__name__, v)


def rb_exact_float_text(text):
    """mirror of `exactDec (floatLex text).dec` (Model/RouterBuiltinEnv.lean) for a whole mask text"""
    neg = text.startswith('-')
    body = text[1:] if neg else text
    ip, _, fp = body.partition('.')
    al = ''.join(str(int(c)) for c in ip + fp)
    d1 = al.lstrip('0')
    ds = d1.rstrip('0')
    if not ds:
        return True
    pt = len(ip) - (len(al) - len(d1))
    return len(ds) <= 15 and -290 <= pt <= 300


def path_texts(conf):
    base = ['', 'a', 'a/b', 'site.tar/img/x.tar/1', 'axtar/', 'a+x+x', 'a(1)(1)', '1)', 'x[a]a', 'a$', 'a^a', 'a|b',
            'q?', 'a*z', '.', '..', 'ab\\c', 'aaa']
    if conf:
        base += [conf, 'x' + conf, conf + conf, 'x' + conf + 'y' + conf, conf + 'x']
    return base


def val_text(name, v, text, n):
    # int: the converted value in decimal; float / path: the matched text
    return str(v) if name == 'int' else text[:n]


def generate():
    from ombott.router.filter_factory import FilterFactory
    masks, probes = [], []
    cases = [('int', None, INT_TEXTS), ('float', None, FLOAT_TEXTS)] + [('path', c, path_texts(c)) for c in PATH_CONFS]
    for name, conf, texts in cases:
        mask = FilterFactory.filters[name](conf)[0]
        masks.append((name, conf or '', mask))
        h = FilterFactory.make_filter(name, conf)[0]
        for t in texts:
            v, n, sel = h(t)
            assert sel is None
            probes.append((name, conf or '', t, None if v is None else (val_text(name, v, t, n), n)))
    out = []
    out.append('/-- (filter, conf, mask text) of `FilterFactory.filters[filter](conf)` -/\n'
               'def builtinMasks : List (String × String × String) := [\n  %s]\n'
               % ',\n  '.join('(%s, %s, %s)' % (lstr(a), lstr(b), lstr(c)) for a, b, c in masks))
    out.append('/-- (filter, conf, text, answer of the live handler: value text and characters consumed) -/\n'
               'def builtinProbes : List (String × String × String × Option (String × Nat)) := [\n  %s]\n'
               % ',\n  '.join('(%s, %s, %s, %s)' % (lstr(a), lstr(b), lstr(t),
                                                    'none' if r is None else 'some (%s, %d)' % (lstr(r[0]), r[1]))
                               for a, b, t, r in probes))
    # --- at the interpreter's int() limit (texts as `List Char`: long runs as `List.replicate`) ----
    h = FilterFactory.make_filter('int', None)[0]
    long_probes = []
    for t in long_int_texts():
        v, n, sel = h(t)
        assert sel is None
        long_probes.append((t, None if v is None else (str(v), n)))
    out.append('/-- (text, answer of the live `int` handler: value text and characters consumed) for digit runs of\n'
               '`sys.get_int_max_str_digits()` and one more characters (sign, leading zeros, a following literal) -/\n'
               'def builtinIntLimitProbes : List (List Char × Option (List Char × Nat)) := [\n  %s]\n'
               % ',\n  '.join('(%s, %s)' % (lchars(t), 'none' if r is None else 'some (%s, %d)' % (lchars(r[0]), r[1]))
                               for t, r in long_probes))
    # --- the concrete environment ------------------------------------------------------------
    env_probes, fconv = [], {}
    rb_cases = [('int', None, RB_INT_TEXTS + long_int_texts(nonascii=True)), ('int', '', RB_INT_TEXTS[:6]),
                ('float', None, RB_FLOAT_TEXTS)]
    rb_cases += [('path', c, path_texts(c)) for c in PATH_CONFS]
    extra = {}
    for c, t in RB_PATH_EXTRA:
        extra.setdefault(c, []).append(t)
    rb_cases += [('path', c, ts) for c, ts in extra.items()]
    for name, conf, texts in rb_cases:
        fid = '%s(%s)' % (name, conf)
        h = FilterFactory.make_filter(name, conf)[0]
        for t in texts:
            v, n, sel = h(t)
            assert sel is None
            if v is None:
                env_probes.append((fid, t, None))
                continue
            isstr, txt = enc_val(v)
            env_probes.append((fid, t, (isstr, txt, n)))
            if name == 'float' and not rb_exact_float_text(t[:n]):
                fconv[t[:n]] = repr(v)
    out.append('/-- (handler identity, text, answer of the live handler: is the value a `str`, the value as the\n'
               'harness ships it (`type:repr` for a converted one), characters consumed) -/\n'
               'def rbEnvProbes : List (String × List Char × Option (Bool × List Char × Nat)) := [\n  %s]\n'
               % ',\n  '.join('(%s, %s, %s)' % (lstr(f), lchars(t),
                                                 'none' if r is None else 'some (%s, %s, %d)' % (lbool(r[0]), lchars(r[1]), r[2]))
                               for f, t, r in env_probes))
    out.append('/-- `repr(float(text))` for the probed mask texts outside the exactly modelled domain -/\n'
               'def rbFloatConv : List (List Char × List Char) := [\n  %s]\n'
               % ',\n  '.join('(%s, %s)' % (lchars(k), lchars(v)) for k, v in sorted(fconv.items())))
    f_out = FilterFactory.make_filter('float', None)[1]
    out.append('/-- (`repr(x)`, `_float_out(x)`): the live formatter of the `float` filter -/\n'
               'def rbFloatFmt : List (List Char × List Char) := [\n  %s]\n'
               % ',\n  '.join('(%s, %s)' % (lchars(repr(x)), lchars(f_out(x))) for x in RB_FMT_VALUES))
    return '\n'.join(out)
