"""Common machinery of every check: build + audit the Lean development, drive the model and
the real code with the same operation lines, run the independent search oracle, decide the
verdict (DESIGN.md section 1.2) and write the evidence file.

Exit codes: 0 = property held on everything explored (known findings are only announced),
1 = VIOLATION line printed, 2 = infrastructure failure (never a VIOLATION line).
"""
import fcntl
import hashlib
import json
import os
import random
import re
import signal
import subprocess
import sys
import time
import traceback

VERIF = os.path.dirname(os.path.dirname(os.path.abspath(__file__)))
LEAN = os.path.join(VERIF, 'lean')
REPO = os.environ.get('OMBOTT_REPO', '/repo')
GUARD = 'VALQ7711_OMBOTT_VERIF'
os.environ.setdefault(GUARD, '1')
if REPO not in sys.path:
    sys.path.insert(0, REPO)

ALLOWED_AXIOMS = {'propext', 'Classical.choice', 'Quot.sound'}
FORBIDDEN = re.compile(r'sorry|admit|^\s*axiom |native_decide|bv_decide|implemented_by|unsafe |maxHeartbeats 0')

TRUSTED_BASE = [
    'Lean 4.33.0 kernel (thorough tier: leanchecker re-check of the Props module)',
    'axioms allowed: propext, Classical.choice, Quot.sound (audited by #print axioms on every run)',
    'hand-written Lean model of the anchored Python functions; tie = regenerated tables + differential correspondence (this harness)',
    'CPython 3.12 semantics of the mirrored constructs; library calls taken as parameters (DESIGN.md section 5)',
]


class Infra(Exception):
    pass


# --------------------------------------------------------------------------------------
# hex helpers (mirror of lean/OmbottModel/Drv/Common.lean)

def hb(b):
    b = bytes(b)
    return b.hex() if b else '-'


def hs(s):
    """text as hex of UTF-8; lone surrogates are outside the model and must not get here"""
    return hb(s.encode('utf8', 'surrogatepass'))   # a faulty tree may hand back lone surrogates: the harness must not crash


def unhb(s):
    return b'' if s == '-' else bytes.fromhex(s)


def unhs(s):
    return unhb(s).decode('utf8')


def hbl(l):
    return ','.join(hb(x) for x in l) if l else '~'


def hsl(l):
    return ','.join(hs(x) for x in l) if l else '~'


def nl(l):
    return ','.join(str(x) for x in l) if l else '-'


def opt(x, f=str):
    return '~' if x is None else f(x)


# --------------------------------------------------------------------------------------
# a Python stream with a read schedule (mirror of Model/Stream.lean)

class SchedStream:
    def __init__(self, data, sched):
        self.data = bytes(data)
        self.sched = list(sched)
        self.pos = 0
        self.requested = []      # sizes asked for
        self.maxoff = 0

    def read(self, n=-1):
        if n is None or n < 0:
            n = len(self.data) - self.pos
        self.requested.append(n)
        k = n
        if self.sched:
            k = min(n, max(self.sched.pop(0), 1))
        part = self.data[self.pos:self.pos + k]
        self.pos += len(part)
        self.maxoff = max(self.maxoff, self.pos)
        return part


def gen_sched(rng, n):
    kind = rng.randrange(5)
    if kind == 0:
        return []
    if kind == 1:
        return [1] * min(n + 2, 400)
    if kind == 2:
        return [rng.randint(1, 3) for _ in range(rng.randint(1, 40))]
    if kind == 3:
        return [rng.randint(1, max(1, n)) for _ in range(rng.randint(1, 12))]
    return [rng.choice([1, 2, 5, 1000]) for _ in range(rng.randint(1, 20))]


# --------------------------------------------------------------------------------------
# Lean side

def _run(cmd, cwd=LEAN, inp=None, timeout=3600):
    p = subprocess.run(cmd, cwd=cwd, input=inp, capture_output=True, text=True, timeout=timeout)
    return p.returncode, p.stdout, p.stderr


class LeanLock:
    def __enter__(self):
        self.f = open(os.path.join(LEAN, '.lock'), 'w')
        fcntl.flock(self.f, fcntl.LOCK_EX)

    def __exit__(self, *a):
        fcntl.flock(self.f, fcntl.LOCK_UN)
        self.f.close()


def lake_build(targets):
    with LeanLock():
        rc, out, err = _run(['lake', 'build'] + list(targets))
    return rc == 0, out + err


def theorem_names(props_file):
    """all `theorem X` declared in a Props file, with their namespace prefix"""
    names = []
    ns = []
    src = open(props_file).read()
    src_nc = re.sub(r'/-.*?-/', '', src, flags=re.S)
    for ln in src_nc.split('\n'):
        ln_nc = ln.split('--')[0]
        m = re.match(r'\s*namespace\s+(\S+)', ln_nc)
        if m:
            ns.append(m.group(1))
            continue
        m = re.match(r'\s*end\s+(\S+)', ln_nc)
        if m and ns and ns[-1] == m.group(1):
            ns.pop()
            continue
        m = re.match(r'\s*(?:protected\s+)?theorem\s+(\S+)', ln_nc)
        if m:
            names.append('.'.join(ns + [m.group(1)]))
    return names, src_nc


def forbidden_hits(paths):
    hits = []
    for p in paths:
        src = re.sub(r'/-.*?-/', lambda m: '\n' * m.group(0).count('\n'), open(p).read(), flags=re.S)
        for i, ln in enumerate(src.split('\n'), 1):
            code = ln.split('--')[0]
            if FORBIDDEN.search(code):
                hits.append(f'{os.path.relpath(p, VERIF)}:{i}: {ln.strip()}')
    return hits


def lean_sources(mod):
    """transitive project-local imports of a module (file paths)"""
    seen, todo = [], [mod]
    while todo:
        m = todo.pop()
        p = os.path.join(LEAN, *m.split('.')) + '.lean'
        if p in seen or not os.path.exists(p):
            continue
        seen.append(p)
        for im in re.findall(r'^import\s+(OmbottModel\.\S+)', open(p).read(), flags=re.M):
            todo.append(im)
    return seen


def audit(pid, props_mod):
    """returns dict(theorems=[...], axioms={thm: [...]}, bad=[...], ok=bool, log=str)"""
    props_file = os.path.join(LEAN, *props_mod.split('.')) + '.lean'
    names, _ = theorem_names(props_file)
    os.makedirs(os.path.join(LEAN, '.audit'), exist_ok=True)
    af = os.path.join(LEAN, '.audit', f'{pid}.lean')
    with open(af, 'w') as f:
        f.write(f'import {props_mod}\n')
        for n in names:
            f.write(f'#print axioms {n}\n')
    with LeanLock():
        rc, out, err = _run(['lake', 'env', 'lean', af])
    axioms = {}
    for m in re.finditer(r"'([^']+)' (does not depend on any axioms|depends on axioms: \[([^\]]*)\])", out):
        axioms[m.group(1)] = [] if m.group(3) is None else [a.strip() for a in m.group(3).split(',') if a.strip()]
    bad = []
    for n in names:
        if n not in axioms:
            bad.append(f'{n}: no axiom report (does not compile?)')
        else:
            extra = [a for a in axioms[n] if a not in ALLOWED_AXIOMS]
            if extra:
                bad.append(f'{n}: disallowed axioms {extra}')
    hits = forbidden_hits(lean_sources(props_mod))
    bad += [f'forbidden token: {h}' for h in hits]
    return dict(theorems=names, axioms=axioms, bad=bad, ok=(rc == 0 and not bad and bool(names)),
                log=(out + err)[-4000:])


def run_driver(lines, timeout=3600):
    inp = ''.join(l + '\n' for l in lines)
    rc, out, err = _run(['lake', 'env', 'lean', '--run', 'Driver.lean'], inp=inp, timeout=timeout)
    res = out.split('\n')
    if res and res[-1] == '':
        res.pop()
    if rc != 0 or len(res) != len(lines):
        raise Infra(f'driver rc={rc} answered {len(res)} of {len(lines)} lines: {err[-2000:]}')
    return res


def run_driver_sharded(lines, shards=8, timeout=3600, min_lines=4000):
    """stateless lines only"""
    if len(lines) < min_lines or shards <= 1:
        return run_driver(lines, timeout)
    import concurrent.futures as cf
    n = (len(lines) + shards - 1) // shards
    parts = [lines[i:i + n] for i in range(0, len(lines), n)]
    with cf.ThreadPoolExecutor(len(parts)) as ex:
        outs = list(ex.map(lambda p: run_driver(p, timeout), parts))
    return [o for part in outs for o in part]


# --------------------------------------------------------------------------------------
# watchdog for implementation calls

class Hang(BaseException):
    """raised by the watchdog inside an implementation call.  A BaseException on purpose: neither the framework's own
    `except Exception` clauses (catch-all 500) nor a harness's generic error handling may swallow it -- once swallowed the
    one-shot timer is spent and a spinning call would never be stopped."""


def with_timeout(fn, seconds=5):
    """Watchdog for an implementation call.  The budget is PROCESS CPU TIME (ITIMER_PROF), so a
    loaded machine cannot turn a slow-but-terminating call into a false "hang"; a spinning loop
    burns CPU and is stopped after `seconds` of it.  A generous wall-clock alarm remains as a
    backstop for calls that block without using CPU.  Calls may nest: an outer budget keeps
    running (minus the CPU the inner call used) after an inner watchdog has finished."""
    def _h(sig, frm):
        raise Hang()
    outer_left = signal.getitimer(signal.ITIMER_PROF)[0]
    t0 = time.process_time()
    old_prof = signal.signal(signal.SIGPROF, _h)
    old_alrm = signal.signal(signal.SIGALRM, _h)
    budget = float(seconds) if outer_left <= 0 else min(float(seconds), outer_left)
    signal.setitimer(signal.ITIMER_PROF, max(budget, 0.01))
    outer_alarm = signal.alarm(int(max(120, seconds * 40)))
    try:
        return fn()
    finally:
        signal.setitimer(signal.ITIMER_PROF, 0)
        signal.alarm(0)
        signal.signal(signal.SIGPROF, old_prof)
        signal.signal(signal.SIGALRM, old_alrm)
        if outer_left > 0:     # re-arm the enclosing watchdog with what is left of its budget
            signal.setitimer(signal.ITIMER_PROF, max(outer_left - (time.process_time() - t0), 0.01))
        if outer_alarm:
            signal.alarm(outer_alarm)


# --------------------------------------------------------------------------------------
# check framework

class Finding:
    """a property-level failing input found on the real code"""

    def __init__(self, key, what, replay):
        self.key, self.what, self.replay = key, what, replay


class Check:
    pid = None
    props_mod = None          # e.g. 'OmbottModel.Props.C17'
    anchors = []              # repo-relative files whose drift escalates the budget
    rule = ''
    assumptions = []
    tables = []               # names of harness/tables/<name>.py modules this check depends on
    drv_stateful = False
    # MANIFEST entry (harness/mkmanifest.py reads these)
    design_ref = ''
    level_category = 'proof'
    level_text = ''
    technique = 'Lean 4 proof + differential correspondence'
    level_note_extra = ''

    def budget(self, tier, escalated):
        return 1

    def corr(self, rng, n):
        """return list of (line, impl_answer, sample) -- impl_answer computed on the real code"""
        return []

    def corr_stateful(self):
        return self.drv_stateful

    def search(self, rng, n, seeds):
        """independent oracle on the real code; return (evaluations, [Finding])"""
        return 0, []

    def replay(self, data):
        """re-run a replay input on the current tree; return a dict that is printed"""
        return {}

    def nontrivial(self, sample):
        return True


def load_known():
    p = os.path.join(VERIF, 'known_findings.json')
    if not os.path.exists(p):
        return {}
    d = json.load(open(p))
    return {(f['property'], f['key']): f for f in d.get('findings', [])}


def anchor_hash(files):
    h = hashlib.sha256()
    for f in files:
        p = os.path.join(REPO, f)
        h.update(f.encode())
        h.update(open(p, 'rb').read() if os.path.exists(p) else b'<missing>')
    return h.hexdigest()[:16]


def pins():
    p = os.path.join(VERIF, 'harness', 'pins.json')
    return json.load(open(p)) if os.path.exists(p) else {}


def write_replay(pid, kind, payload):
    d = os.path.join(VERIF, 'replays')
    os.makedirs(d, exist_ok=True)
    body = dict(property=pid, kind=kind, **payload)
    txt = json.dumps(body, indent=1, sort_keys=True, default=str)
    name = f'{pid}-{kind}-{hashlib.sha256(txt.encode()).hexdigest()[:10]}.json'
    path = os.path.join(d, name)
    with open(path, 'w') as f:
        f.write(txt)
    return path


def run_check(chk, tier, seed):
    t0 = time.time()
    pid = chk.pid
    rng = random.Random(f'{pid}-{seed}')
    known = load_known()
    drift = pins().get(pid) not in (None, anchor_hash(chk.anchors))
    notes = []
    if drift:
        notes.append('anchored source differs from the pinned hash: correspondence run at escalated budget')

    # stage 1: tables
    from harness import extract_tables
    tables_ok, tables_msg = extract_tables.regenerate(only=set(chk.tables))
    if not tables_ok:
        notes.append('table extraction failed: ' + tables_msg)

    # stage 2: build + audit
    ok_build, build_log = lake_build([chk.props_mod, 'OmbottModel.Drv.All'])
    aud = dict(theorems=[], axioms={}, bad=['build failed'], ok=False, log=build_log[-4000:])
    broken_theorems = []
    if ok_build:
        aud = audit(pid, chk.props_mod)
    else:
        props_file = os.path.join(LEAN, *chk.props_mod.split('.')) + '.lean'
        names, _ = theorem_names(props_file)
        aud['theorems'] = names
        # which declarations failed
        for m in re.finditer(r'error: (\S+?):(\d+):(\d+): (.*)', build_log):
            broken_theorems.append(f'{m.group(1)}:{m.group(2)}: {m.group(4)[:200]}')
    proof_ok = ok_build and aud['ok'] and tables_ok
    if tier == 'thorough' and proof_ok:
        with LeanLock():
            rc, out, err = _run(['lake', 'env', 'leanchecker', chk.props_mod], timeout=3000)
        if rc != 0:
            proof_ok = False
            aud['bad'].append('leanchecker: ' + (out + err)[-500:])
        notes.append(f'leanchecker rc={rc}')

    # stage 3: correspondence
    escalated = drift or not proof_ok
    n = chk.budget(tier, escalated)
    from harness import implcov          # measures which implementation lines stages 3 and 4 execute (evidence only)
    implcov.start(REPO)
    corr_cases = []
    disagreements = []
    driver_ok = True
    try:
        # global safety net: no stream may spin for ever (each stream has its own per-call watchdogs; this one only
        # turns a hang the streams missed into an infrastructure failure instead of a check that never returns)
        try:
            corr_cases = with_timeout(lambda: chk.corr(rng, n), 2400 if tier == 'quick' else 7200)
        except Hang:
            raise Infra('the correspondence stage did not finish within its CPU budget (a call without a watchdog spins?)')
        lines = [c[0] for c in corr_cases]
        if lines:
            # the driver is only usable when the model library builds
            ok_drv, drv_log = (True, '') if ok_build else lake_build(['OmbottModel.Drv.All'])
            if ok_drv:
                outs = run_driver(lines) if chk.corr_stateful() else run_driver_sharded(
                    lines, min_lines=getattr(chk, 'drv_shard_min', 4000))
                for (line, impl, sample), mod in zip(corr_cases, outs):
                    if impl != mod:
                        disagreements.append(dict(line=line, impl=impl, model=mod, sample=sample))
            else:
                driver_ok = False
                notes.append('model library does not build: correspondence not run')
    except Infra:
        raise
    corr_ok = driver_ok and not disagreements
    implcov.mark('corr')

    # stage 4: search (always; large budget when something above broke)
    sbudget = chk.budget(tier, escalated or not corr_ok)
    seeds = [d['sample'] for d in disagreements[:200]]
    try:
        evals, findings = with_timeout(lambda: chk.search(rng, sbudget if (proof_ok and corr_ok) else sbudget * 5, seeds),
                                       2400 if tier == 'quick' else 7200)
    except Hang:
        raise Infra('the search stage did not finish within its CPU budget (a call without a watchdog spins?)')

    implcov.stop()
    try:
        impl_cov = implcov.report(pid, REPO, VERIF, chk.anchors)
    except Exception as e:                # a measurement, never a verdict
        impl_cov = dict(measured=False, why=f'{type(e).__name__}: {e}')

    # stage 5: verdict
    new, old = [], []
    seen_keys = set()
    for f in findings:
        if f.key in seen_keys:
            continue
        seen_keys.add(f.key)
        (old if (pid, f.key) in known else new).append(f)
    out_lines = []
    violations = 0
    for f in old:
        out_lines.append(f'KNOWN-FINDING: property={pid} {f.key}: {f.what}')
    if new:
        for f in new[:5]:
            path = write_replay(pid, 'input', dict(key=f.key, what=f.what, input=f.replay, seed=seed))
            out_lines.append(f'VIOLATION property={pid} replay={path}')
            violations += 1
    elif not (proof_ok and corr_ok):
        if not proof_ok:
            path = write_replay(pid, 'proof', dict(
                theorem=(aud['bad'] + broken_theorems)[:20], build_log=aud['log'][-3000:], seed=seed,
                what='proof obligation / table tie no longer checks; search found no failing input'))
        else:
            d0 = disagreements[0]
            path = write_replay(pid, 'correspondence', dict(
                what='model and implementation disagree; search found no property-level failing input',
                input=d0['sample'], line=d0['line'], observed_impl=d0['impl'], observed_model=d0['model'],
                n_disagreements=len(disagreements), seed=seed))
        out_lines.append(f'VIOLATION property={pid} replay={path} no-failing-input-found')
        violations += 1

    samples = [c[2] for c in corr_cases[:: max(1, len(corr_cases) // 5)]][:6]
    distinct = len({c[0] for c in corr_cases if chk.nontrivial(c[2])})
    ev = dict(
        property_id=pid, tier=tier, seed=seed, level=chk.level_category,
        coverage=dict(
            obligations=len(aud['theorems']),
            discharged=len([t for t in aud['theorems'] if t in aud['axioms'] and
                            all(a in ALLOWED_AXIOMS for a in aud['axioms'][t])]) if proof_ok else
            len([t for t in aud['theorems'] if t in aud['axioms']]),
            checker_cmd=f'cd lean && lake build {chk.props_mod} && lake env lean .audit/{pid}.lean'
                        + (f' && lake env leanchecker {chk.props_mod}' if tier == 'thorough' else ''),
            trusted_base=TRUSTED_BASE,
            theorems=aud['theorems'],
            axioms=aud['axioms'],
            proof_problems=aud['bad'] if not proof_ok else [],
            evaluations=len(corr_cases) + evals,
            correspondence_cases=len(corr_cases),
            correspondence_disagreements=len(disagreements),
            search_evaluations=evals,
            distinct_nontrivial=distinct,
            rule=chk.rule,
            samples=samples or ['(no correspondence cases)'],
            known_findings_seen=[f.key for f in old],
            notes=notes,
            stats=getattr(chk, 'stats', {}),
            impl_line_coverage=impl_cov,
        ),
        assumptions=list(chk.assumptions),
        wall_s=round(time.time() - t0, 2),
        violations=violations,
    )
    os.makedirs(os.path.join(VERIF, 'evidence'), exist_ok=True)
    with open(os.path.join(VERIF, 'evidence', f'{pid}.json'), 'w') as f:
        json.dump(ev, f, indent=1, default=str)
    for l in out_lines:
        print(l)
    print(f'[{pid}] tier={tier} seed={seed} theorems={len(aud["theorems"])} proof_ok={proof_ok} '
          f'corr={len(corr_cases)} disagreements={len(disagreements)} search={evals} '
          f'findings={len(new)}new/{len(old)}known wall={ev["wall_s"]}s')
    return 1 if violations else 0


def main(registry, argv):
    import argparse
    ap = argparse.ArgumentParser()
    ap.add_argument('pid')
    ap.add_argument('--tier', default=os.environ.get('VERIF_TIER', 'quick'))
    ap.add_argument('--replay')
    a = ap.parse_args(argv)
    seed = int(os.environ.get('VERIF_SEED', '0'))
    try:
        chk = registry[a.pid]()
        if a.replay:
            data = json.load(open(a.replay))
            print(json.dumps(chk.replay(data), indent=1, default=str))
            return 0
        return run_check(chk, a.tier, seed)
    except Infra as e:
        print(f'INFRA-ERROR {a.pid}: {e}', file=sys.stderr)
        return 2
    except subprocess.TimeoutExpired as e:
        print(f'INFRA-TIMEOUT {a.pid}: {e}', file=sys.stderr)
        return 2
    except Hang:
        print(f'INFRA-HANG {a.pid}: a watchdog fired outside any handler', file=sys.stderr)
        traceback.print_exc()
        return 2
    except Exception:
        traceback.print_exc()
        return 2
