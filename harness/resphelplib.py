"""The response-side helper classes beyond Model/Headers.lean, as an extra stream of C14: the whole of `HeaderDict`
(thread-local `dict`, the proxied dict methods, copy / clear / update / repr), `HeaderProperty` for every attribute of the
generated table, `WSGIFileWrapper`, `_closeiter`, and `BaseResponse.__new__ / __iter__ / copy / status / delete_cookie /
__repr__`, `HTTPResponse.__init__`, `HTTPError.__init__`.

* correspondence: self-contained `resphelp ...` lines (a whole call sequence on real objects, the calls executed on real
  threads) against Model/RespHelp.lean (Drv/RespHelp.lean).
* oracle (no model involved), written from what the classes promise: HeaderDict behaves as an insertion-ordered dict whose
  single-value setters guard; no call sequence without `update` / `dict =` leaves CR/LF/NUL in the store; another thread has
  no dict; a header attribute reads back what was set (through writer and reader); a copy is independent; `delete_cookie`
  emits exactly one expired Set-Cookie for the name and a later `set_cookie` replaces it; `copy()` keeps status line and
  header list; WSGIFileWrapper yields non-empty bounded parts that concatenate to the rest of the file; `_closeiter.close`
  calls every callback once, in order.
"""
import importlib
import queue
import threading

from harness import core
from harness.core import hb, hs, Finding

NTHREADS = 3
ERRS = ('ValueError', 'TypeError', 'KeyError', 'IndexError', 'AttributeError')


def bump(stats, key, n=1):
    stats[key] = stats.get(key, 0) + n


def mods():
    ch = importlib.import_module('ombott.common_helpers')
    resp = importlib.import_module('ombott.response')
    omb = importlib.import_module('ombott.ombott')
    return ch, resp, omb


def prop_rows():
    """[(row tuple of the generated table, the live descriptor)] in table order"""
    from harness.tables import resphelp as T
    return T.prop_objects()


# --------------------------------------------------------------------------------------
# threads: the calls of one case run on up to three long-lived worker threads (a threading.local dies with its thread)

class Workers:
    def __init__(self, n=NTHREADS):
        self.qs = [queue.Queue() for _ in range(n)]
        self.out = queue.Queue()
        self.ts = [threading.Thread(target=self._loop, args=(q,), daemon=True) for q in self.qs]
        for t in self.ts:
            t.start()

    def _loop(self, q):
        while True:
            fn = q.get()
            if fn is None:
                return
            try:
                self.out.put(('ok', fn()))
            except BaseException as e:   # noqa
                self.out.put(('err', e))

    def run(self, t, fn):
        self.qs[t].put(fn)
        kind, v = self.out.get(timeout=20)
        if kind == 'err':
            raise v
        return v

    def close(self):
        for q in self.qs:
            q.put(None)


_SHARED = []


def shared_workers():
    """one set of worker threads for all cases (each case makes its own objects, so their thread-locals are fresh)"""
    if not _SHARED:
        _SHARED.append(Workers())
    return _SHARED[0]


def drop_workers():
    while _SHARED:
        _SHARED.pop().close()


# --------------------------------------------------------------------------------------
# canonical forms (mirror of Drv/RespHelp.lean)

def show_entry(v):
    if isinstance(v, str):
        return 's' + hs(v)
    if isinstance(v, list) and all(isinstance(x, str) for x in v):
        return 'l' + '/'.join(hs(x) for x in v)
    return '!' + type(v).__name__


def show_store(d):
    return ','.join(f'{hs(k)}={show_entry(v)}' for k, v in d.items()) if d else '~'


def exc(e):
    return 'e' + type(e).__name__


KEYS = ['Content-Type', 'Content-Length', 'Expires', 'content-length', 'X-A', 'X-B', 'x-a', '']
INT_TEXT = ['12', ' 12 ', '1_0', 'x', '', '-5', '+7', '0', '007', '1__0', '12\n', '1.5', '99999999999999999999']
DATES = ['Thu, 01 Jan 1970 00:00:00 GMT', 'Sun, 06 Nov 1994 08:49:37 GMT', 'nonsense', '', 'Sunday, 06-Nov-94 08:49:37 GMT']
RAW_TEXT = ['v', '', 'a b', 'caf\xe9', '€', 'a\r\nSet-Cookie: x=1', 'a\nb', '\0', "it's", 'say "hi"', 'a\\b', '\x7f', '\x85x', 'a\tb']


def gen_raw_store(rng):
    d = {}
    for _ in range(rng.randint(0, 3)):
        k = rng.choice(KEYS)
        if rng.random() < .3:
            d[k] = [rng.choice(RAW_TEXT) for _ in range(rng.randint(0, 3))]
        else:
            d[k] = rng.choice(RAW_TEXT + INT_TEXT[:3])
    return d


def gen_hd_calls(rng):
    from harness import c14
    rows = prop_rows()
    calls = []
    nobj = 1
    threads = [0] * 6 + [1, 1, 2]
    if rng.random() < .15:       # a list-valued header, a copy, then both sides mutated
        k = rng.choice(KEYS)
        calls = [[0, 0, ['app', k, ['s', 'one']]], [0, 0, ['app', k, ['s', 'two']]], [0, 0, ['copy']],
                 [rng.choice([0, 1]), 0, ['app', k, ['s', 'three']]]]
        nobj = 2
    for _ in range(rng.randint(1, 9)):
        i = rng.randrange(nobj)
        t = rng.choice(threads)
        k = rng.choice(KEYS)
        r = rng.randrange(100)
        if r < 12:
            v = c14.gen_val(rng)
            if rng.random() < .3:
                v = ['s', rng.choice(INT_TEXT + DATES)]
            op = ['set', k, v]
        elif r < 24:
            op = ['app', k, c14.gen_val(rng)]
        elif r < 30:
            v = c14.gen_val(rng)
            while v == ['o', 'list']:
                v = c14.gen_val(rng)
            op = ['sdf', k, v]
        elif r < 34:
            op = ['len']
        elif r < 37:
            op = ['iter']
        elif r < 41:
            op = ['has', k]
        elif r < 46:
            op = ['gi', k]
        elif r < 51:
            op = ['del', k]
        elif r < 60:
            op = [rng.choice(['keys', 'vals', 'items', 'gd', 'repr'])]
        elif r < 64:
            op = ['pget', k]
        elif r < 69:
            op = ['pop', k, rng.random() < .5]
        elif r < 72:
            op = ['popitem']
        elif r < 77:
            op = ['copy']
            nobj += 1
        elif r < 81:
            op = ['clr', [rng.choice(KEYS) for _ in range(rng.randint(0, 2))]]
        elif r < 85:
            op = ['upd', gen_raw_store(rng)]
        elif r < 88:
            op = ['sd', gen_raw_store(rng)]
        elif r < 93:
            op = ['pg', rng.randrange(len(rows))]
        elif r < 98:
            row = rng.randrange(len(rows))
            v = c14.gen_val(rng)
            kind = rng.random()
            if rows[row][0][3] == 'int' and kind < .6:
                v = rng.choice([['i', rng.choice([0, 5, -3, 10 ** 12])], ['s', rng.choice(INT_TEXT)]])
            elif rows[row][0][4] and kind < .6:
                v = rng.choice([['i', rng.choice([0, 86400, 784111777])], ['s', rng.choice(DATES)], ['f', '1.5']])
            op = ['ps', row, v]
        else:
            op = ['pd', rng.randrange(len(rows))]
        calls.append([i, t, op])
    return calls


class Holder:
    """the owner object of a HeaderProperty: anything with a `headers` attribute"""

    def __init__(self, headers):
        self.headers = headers


def _shipped(fn):
    try:
        return 'k' + hs(str(fn()))
    except Exception as e:   # noqa
        n = type(e).__name__
        return 'e' + n if n in ERRS else None


def run_hd(calls):
    """runs the calls on real HeaderDict objects; returns (tokens, answers, final dump) - a token is None when an outcome
    that has to be shipped (date reader / writer) is outside the exception classes the protocol names"""
    from harness import c14
    ch, resp, _ = mods()
    rows = prop_rows()
    w = shared_workers()
    try:
        objs = [w.run(0, lambda: ch.HeaderDict())]
        toks, outs = [], []
        for call_ in calls:
            call_[0] = call_[0] % len(objs)      # a `copy` that raised created no object
            i, t, op = call_
            h = objs[i]
            k = op[0]
            tok = [None]

            def call():
                if k == 'len':
                    return 'i%d' % len(h)
                if k == 'iter':
                    return 'K' + core.hsl(list(iter(h)))
                if k == 'has':
                    return 'b1' if op[1] in h else 'b0'
                if k == 'gi':
                    return show_entry(h[op[1]])
                if k == 'del':
                    del h[op[1]]
                    return 'n'
                if k == 'set':
                    h[op[1]] = c14.mk(op[2])
                    return 'n'
                if k == 'app':
                    r = h.append(op[1], c14.mk(op[2]))
                    return 'n' if r is None else '!'
                if k == 'sdf':
                    return show_entry(h.setdefault(op[1], c14.mk(op[2])))
                if k == 'keys':
                    return 'K' + core.hsl(list(h.keys()))
                if k == 'vals':
                    vs = list(h.values())
                    return 'V' + (','.join(show_entry(v) for v in vs) if vs else '~')
                if k == 'items':
                    return 'I' + show_store(dict(h.items()))
                if k == 'pget':
                    r = h.get(op[1])
                    return 'n' if r is None else show_entry(r)
                if k == 'pop':
                    r = h.pop(op[1], None) if op[2] else h.pop(op[1])
                    return 'n' if r is None else show_entry(r)
                if k == 'popitem':
                    a, b = h.popitem()
                    return f'P{hs(a)}={show_entry(b)}'
                if k == 'copy':
                    c = h.copy()
                    assert type(c) is type(h)
                    objs.append(c)
                    return 'O%d' % (len(objs) - 1)
                if k == 'clr':
                    r = h.clear(*op[1])
                    return 'n' if r is None else '!'
                if k == 'upd':
                    r = h.update({a: (list(b) if isinstance(b, list) else b) for a, b in op[1].items()})
                    return 'n' if r is None else '!'
                if k == 'repr':
                    return 'T' + hs(repr(h))
                if k == 'gd':
                    return 'I' + show_store(h.dict)
                if k == 'sd':
                    h.dict = {a: (list(b) if isinstance(b, list) else b) for a, b in op[1].items()}
                    return 'n'
                row, p = rows[op[1]]
                o = Holder(h)
                if k == 'pg':
                    if row[3] == 'other':
                        tok[0] = _shipped(lambda: p.reader(h.get(p.name, p.default)))
                        if tok[0] is None:
                            tok[0] = False
                    r = p.__get__(o, Holder)
                    if row[3] == 'other':
                        return 'T' + hs(str(r))
                    return 'i%d' % r if isinstance(r, int) and not isinstance(r, bool) else show_entry(r)
                if k == 'ps':
                    p.__set__(o, c14.mk(op[2]))
                    return 'n'
                if k == 'pd':
                    p.__delete__(o)
                    return 'n'
                raise AssertionError(op)

            try:
                a = w.run(t, call)
            except Exception as e:   # noqa: the class is the observable
                a = exc(e)
            outs.append(a)
            toks.append(hd_token(i, t, op, rows, tok[0]))
        dump = []
        for h in objs:
            per = []
            for t in range(NTHREADS):
                try:
                    per.append(w.run(t, lambda: show_store(h.dict)))
                except AttributeError:
                    per.append('x')
            dump.append('&'.join(per))
        return toks, outs, '|'.join(dump)
    except BaseException:
        drop_workers()
        raise


def hd_token(i, t, op, rows, shipped):
    from harness import c14
    _, resp, _ = mods()
    k = op[0]
    head = f'{i}:{t}:'
    if k in ('len', 'iter', 'keys', 'vals', 'items', 'popitem', 'copy', 'repr', 'gd'):
        return head + k
    if k in ('has', 'gi', 'del', 'pget'):
        return head + f'{k}:{hs(op[1])}'
    if k in ('set', 'app', 'sdf'):
        return head + f'{k}:{hs(op[1])}:{c14.enc_val(op[2])}'
    if k == 'pop':
        return head + f'pop:{hs(op[1])}:{1 if op[2] else 0}'
    if k == 'clr':
        return head + 'clr:' + core.hsl(op[1])
    if k in ('upd', 'sd'):
        return head + f'{k}:{show_store(op[1])}'
    if k == 'pg':
        if shipped is False:
            return None
        return head + f'pg:{op[1]}:{shipped or "-"}'
    if k == 'ps':
        fmt = '-'
        row, p = rows[op[1]]
        if row[4] and not (row[4] == 'http_date' and op[2][0] == 's'):
            fmt = _shipped(lambda: p.writer(c14.mk(op[2])))
            if fmt is None:
                return None
        return head + f'ps:{op[1]}:{c14.enc_val(op[2])}:{fmt}'
    if k == 'pd':
        return head + f'pd:{op[1]}'
    raise ValueError(op)


def hd_case(rng, stats):
    for _ in range(5):
        calls = gen_hd_calls(rng)
        toks, outs, dump = run_hd(calls)
        if all(t is not None for t in toks):
            break
    else:
        calls = [[0, 0, ['len']]]
        toks, outs, dump = run_hd(calls)
    bump(stats, 'resphelp:hd-cases')
    bump(stats, 'resphelp:hd-len-%d' % min(len(calls), 9))
    for (i, t, op), a in zip(calls, outs):
        bump(stats, 'resphelp:hd-op-' + op[0])
        if t:
            bump(stats, 'resphelp:hd-other-thread')
        if a[0] == 'e' and a[1:2].isupper():
            bump(stats, 'resphelp:hd-' + a)
    return ('resphelp hd ' + ' '.join(toks), ';'.join(outs) + ' ' + dump,
            dict(kind='resphelp', sub='hd', calls=calls))


# --------------------------------------------------------------------------------------
# WSGIFileWrapper / _closeiter

FW_ATTRS = ['read', 'close', 'fileno', 'tell', 'seek', 'readlines', 'name', 'mode']


def make_fp(attrs, data, sched):
    s = core.SchedStream(data, sched)

    class FP:
        pass
    fp = FP()
    for a in attrs:
        setattr(fp, a, s.read if a == 'read' else (lambda *x: None))
    return fp


def run_fw(attrs, data, sched, buff):
    ch, _, _ = mods()
    from harness.tables import resphelp as T
    w = ch.WSGIFileWrapper(make_fp(attrs, data, sched), buff)
    have = [a for a in T.fw_attrs() if a in vars(w)]
    try:
        parts = core.with_timeout(lambda: list(w), 5)
        return f'attrs={core.hsl(have)} ok ' + core.hbl(parts)
    except core.Hang:
        raise
    except Exception as e:   # noqa
        return f'attrs={core.hsl(have)} ' + exc(e)


def gen_fw(rng):
    attrs = [a for a in FW_ATTRS if rng.random() < .5]
    if rng.random() < .8 and 'read' not in attrs:
        attrs.append('read')
    n = rng.choice([0, 1, 2, 5, 9, 17, 40])
    data = bytes(rng.randrange(256) for _ in range(n))
    sched = [rng.choice([0, 1, 2, 3, 7, 100]) for _ in range(rng.randint(0, 8))]
    buff = rng.choice([0, 1, 2, 3, 4, 8, 16, 65536])
    return attrs, data, sched, buff


def fw_case(rng, stats):
    attrs, data, sched, buff = gen_fw(rng)
    ans = run_fw(attrs, data, sched, buff)
    bump(stats, 'resphelp:fw-cases')
    bump(stats, 'resphelp:fw-' + ('ok' if ' ok ' in ans else 'error'))
    bump(stats, 'resphelp:fw-buff-%d' % buff)
    return (f'resphelp fw {core.hsl(attrs)} {hb(data)} {core.nl(sched)} {buff}', ans,
            dict(kind='resphelp', sub='fw', attrs=attrs, data=data.hex(), sched=sched, buff=buff))


def run_ci(arg, items):
    _, _, omb = mods()
    calls = []

    def mkcb(i, raises):
        def cb():
            calls.append(i)
            if raises:
                raise RuntimeError('cb')
        return cb
    if arg[0] == 'n':
        ci = omb._closeiter(iter(items)) if arg[1] else omb._closeiter(iter(items), None)
    elif arg[0] == 'o':
        ci = omb._closeiter(iter(items), mkcb(*arg[1]))
    else:
        cbs = [mkcb(*c) for c in arg[1]]
        ci = omb._closeiter(iter(items), tuple(cbs) if arg[2] else cbs)
    got = list(ci)
    try:
        ci.close()
        err = 'ok'
    except Exception as e:   # noqa
        err = type(e).__name__
    return f'calls={core.nl(calls)} err={err} items={core.hbl(got)}'


def ci_token(arg):
    if arg[0] == 'n':
        return 'n'
    if arg[0] == 'o':
        return 'o%d.%d' % (arg[1][0], int(arg[1][1]))
    return 'm' + (','.join('%d.%d' % (i, int(r)) for i, r in arg[1]) or '~')


def ci_case(rng, stats):
    r = rng.randrange(10)
    if r < 2:
        arg = ['n', rng.random() < .5]
    elif r < 5:
        arg = ['o', [rng.randrange(9), rng.random() < .2]]
    else:
        arg = ['m', [[j + 1, rng.random() < .15] for j in range(rng.randint(0, 4))], rng.random() < .5]
    items = [bytes(rng.randrange(256) for _ in range(rng.randint(0, 3))) for _ in range(rng.randint(0, 3))]
    bump(stats, 'resphelp:ci-cases')
    bump(stats, 'resphelp:ci-arg-' + arg[0])
    return (f'resphelp ci {ci_token(arg)} {core.hbl(items)}', run_ci(arg, items),
            dict(kind='resphelp', sub='ci', arg=arg, items=[x.hex() for x in items]))


# --------------------------------------------------------------------------------------
# response objects

ST_INTS = [200, 200, 204, 304, 404, 500, 100, 999, 299, 418, 99, 1000, 0, -1, 1]
ST_STRS = ['200 OK', '404 Not Found', '200', ' 200 x', '99 x', '1000 y', 'abc def', ' ', '  ', '200 ', '+200 x', '2_0_0 x', '200\tx',
           '200 \xa0', '-200 x', '0200 x', '', 'x y', '3e2 x', '204 Gone Fishing', '304  Two  Spaces ', '500\tTab here', '\t404 x',
           '1e3 x', '20 0', '999 z']
ST_OTHERS = {'none': lambda: None, 'float': lambda: 2.5, 'bytes': lambda: b'200 OK'}
CK_NAMES = ['a', 'sid', 'B', 'x-y', 'path', 'Expires', 'bad name', '', '\xe9', 'b', 'c', 'Z']
CK_VALUES = ['v', 'a b', '', 'x;y', 'caf\xe9', '€', 'new', '"q"', 'a\\b']
CK_OPTS = [('path', '/'), ('path', '/x'), ('path', ''), ('Path', '/up'), ('domain', 'd.example'), ('max_age', 60), ('max_age', 0),
           ('max_age', -1), ('max_age', '5'), ('expires', 0), ('expires', 86400), ('expires', 'Thu, 01 Jan 2037 00:00:00 GMT'),
           ('secure', True), ('secure', False), ('httponly', True), ('samesite', 'Lax'), ('bad_key', 'x'), ('comment', 'c'), ('version', 1)]
CLASSES = ['HTTPResponse', 'HTTPResponse', 'HTTPError', 'Response', 'BaseResponse']


def gen_st(rng):
    r = rng.randrange(10)
    if r < 4:
        return ['i', rng.choice(ST_INTS)]
    if r < 9:
        return ['s', rng.choice(ST_STRS)]
    return ['o', rng.choice(sorted(ST_OTHERS))]


def mk_st(a):
    if a is None:
        return None
    return a[1] if a[0] in 'is' else ST_OTHERS[a[1]]()


def enc_st(a):
    if a is None:
        return '~'
    if a[0] == 'i':
        return 'i%d' % a[1]
    if a[0] == 's':
        return 's' + hs(a[1])
    return 'o'


def gen_opts(rng, maxn=3):
    out, seen = [], set()
    for _ in range(rng.choice([0, 0, 1, 1, 2, maxn])):
        k, v = rng.choice(CK_OPTS)
        if k not in seen:
            seen.add(k)
            out.append([k, v])
    return out


def enc_opts(opts):
    _, resp, _ = mods()
    toks = []
    for k, v in opts:
        if k == 'expires':
            v = resp.http_date(v)
        if isinstance(v, bool):
            a = 'fT' if v else 'fF'
        elif isinstance(v, int):
            a = 'i%d' % v
        else:
            a = 't' + hs(v)
        toks.append(f'{hs(k)}={a}')
    return ','.join(toks) or '~'


def gen_rops(rng):
    from harness import c14
    ops = []
    for _ in range(rng.randint(0, 6)):
        r = rng.randrange(100)
        if r < 25:
            ops.append(['st', gen_st(rng)])
        elif r < 40:
            ops.append(['set', rng.choice(c14.NAMES), c14.gen_val(rng)])
        elif r < 52:
            ops.append(['app', rng.choice(c14.NAMES), c14.gen_val(rng)])
        elif r < 72:
            v = rng.choice(CK_VALUES)
            k = rng.randrange(20)
            if k == 0:
                v = 'x' * rng.choice([4096, 4097])
            elif k == 1:
                v = None
            ops.append(['ck', rng.choice(CK_NAMES), v, gen_opts(rng)])
        elif r < 88:
            ops.append(['dck', rng.choice(CK_NAMES), [o for o in gen_opts(rng, 2) if o[0] not in ('max_age', 'expires') or rng.random() < .3]])
        else:
            st = gen_st(rng) if rng.random() < .8 else None
            if st and st[0] == 'o' and st[1] == 'none':
                st = None
            ops.append(['init', rng.choice(CLASSES), st, c14.gen_pairs(rng, 2), [list(p) for p in c14._dedup(c14.gen_pairs(rng, 2))]])
    return ops


def enc_rop(op):
    from harness import c14
    t = op[0]
    if t == 'st':
        return 'st:' + enc_st(op[1])
    if t in ('set', 'app'):
        return f'{t}:{hs(op[1])}:{c14.enc_val(op[2])}'
    if t == 'ck':
        return f'ck:{hs(op[1])}:{"~" if op[2] is None else hs(op[2])}:{enc_opts(op[3])}'
    if t == 'dck':
        return f'dck:{hs(op[1])}:{enc_opts(op[2])}'
    if t == 'init':
        return f'init:{op[1]}:{enc_st(op[2])}:{c14.enc_pairs(op[3])}:{c14.enc_pairs(op[4])}'
    raise ValueError(op)


def apply_rop(r, op):
    """returns (object afterwards, outcome)"""
    from harness import c14
    _, resp, _ = mods()
    t = op[0]
    try:
        if t == 'st':
            r.status = mk_st(op[1])
        elif t == 'set':
            r.headers[op[1]] = c14.mk(op[2])
        elif t == 'app':
            r.headers.append(op[1], c14.mk(op[2]))
        elif t == 'ck':
            r.set_cookie(op[1], 5 if op[2] is None else op[2], **dict(op[3]))
        elif t == 'dck':
            r.delete_cookie(op[1], **dict(op[2]))
        elif t == 'init':
            cls = getattr(resp, op[1])
            hdrs = [(k, c14.mk(v)) for k, v in op[3]]
            more = {k: c14.mk(v) for k, v in op[4]}
            if op[1] == 'HTTPError':
                r = cls(mk_st(op[2]), '', headers=hdrs, **more)
            else:
                r = cls('', mk_st(op[2]), hdrs, **more)
        return r, 'ok'
    except Exception as e:   # noqa
        return r, type(e).__name__


def show_obs(r):
    from harness import c14
    line = r.status_line
    assert r.status == line
    return f'st={core.opt(r.status_code)} ln={"~" if line is None else hs(line)} hl={c14.show_hl(r.headerlist)}'


def run_resp(fin, ops):
    _, resp, _ = mods()
    r = resp.HTTPResponse()
    outs = []
    for op in ops:
        r, o = apply_rop(r, op)
        outs.append(o)
    if fin[0] == 'obs':
        tail = show_obs(r)
    elif fin[0] == 'repr':
        tail = 'T' + hs(repr(r))
    else:
        try:
            cp = r.copy(getattr(resp, fin[1])) if fin[1] else r.copy()
            tail = show_obs(cp)
        except Exception as e:   # noqa
            tail = exc(e)
    return f'out={",".join(outs) or "~"} {tail}'


def fin_token(fin):
    return fin[0] if fin[0] != 'copy' else 'copy:' + (fin[1] or '~')


def resp_case(rng, stats):
    ops = gen_rops(rng)
    r = rng.randrange(10)
    fin = ['obs'] if r < 4 else (['repr'] if r < 5 else ['copy', rng.choice(['HTTPResponse', 'HTTPResponse', 'HTTPError', 'Response',
                                                                              'BaseResponse', None])])
    ans = run_resp(fin, ops)
    bump(stats, 'resphelp:resp-cases')
    bump(stats, 'resphelp:resp-fin-' + fin[0])
    for op in ops:
        bump(stats, 'resphelp:resp-op-' + op[0])
    for o in ans.split(' ')[0][4:].split(','):
        bump(stats, 'resphelp:resp-outcome-' + o)
    if fin[0] == 'copy':
        bump(stats, 'resphelp:resp-copy-' + ('raised' if ans.split(' ')[1].startswith('e') else 'ok'))
    return (f'resphelp resp {fin_token(fin)} ' + ' '.join(enc_rop(o) for o in ops), ans,
            dict(kind='resphelp', sub='resp', fin=fin, ops=ops))


def misc_case(rng, stats):
    _, resp, _ = mods()
    bump(stats, 'resphelp:misc-cases')
    if rng.random() < .5:
        cn, a = rng.choice(['BaseResponse', 'Response', 'HTTPResponse', 'HTTPError']), rng.random() < .5
        cls = getattr(resp, cn)
        try:
            cls.__new__(cls, status=200) if a else cls.__new__(cls)
            ans = 'ok'
        except Exception as e:   # noqa
            ans = exc(e)
        return f'resphelp new {cn} {int(a)}', ans, dict(kind='resphelp', sub='new', cls=cn, args=a)
    k = rng.randrange(3)
    r = resp.HTTPResponse()
    if k == 0:
        s = rng.choice(['', 'ab', 'h\xe9€', 'a\nb'])
        r.body, tok = s, 't' + hs(s)
    elif k == 1:
        l = [bytes(rng.randrange(256) for _ in range(rng.randint(0, 3))) for _ in range(rng.randint(0, 3))]
        r.body, tok = l, 'p' + core.hbl(l)
    else:
        r.body, tok = rng.choice([None, 5]), 'o'
    try:
        items = list(iter(r))
        ans = 'ok ' + (','.join(('s' + hs(x)) if isinstance(x, str) else ('b' + hb(x)) for x in items) or '~')
    except Exception as e:   # noqa
        ans = exc(e)
    return f'resphelp iter {tok}', ans, dict(kind='resphelp', sub='iter', body=tok)


MIX = [(hd_case, 50), (resp_case, 30), (fw_case, 10), (ci_case, 5), (misc_case, 5)]


def corr_stream(rng, n, pid, stats):
    fns, weights = [m[0] for m in MIX], [m[1] for m in MIX]
    out, hangs = [], 0
    for _ in range(n):
        fn = rng.choices(fns, weights)[0]
        try:
            out.append(core.with_timeout(lambda: fn(rng, stats), 5))
        except core.Hang:
            hangs += 1
            bump(stats, 'resphelp:hangs')
            if hangs >= 3:
                break
    return out


# --------------------------------------------------------------------------------------
# oracles (real code only; every function returns [(site, what)])

def has_ctl(s):
    return '\r' in s or '\n' in s or '\0' in s


def _guard(v):
    """what a single-value setter is promised to do with `v`: ('ok', text) or the exception class"""
    if not (v is None or isinstance(v, (str, int, float, bool))):
        return 'TypeError', None
    s = str(v)
    return ('ValueError', None) if has_ctl(s) else ('ok', s)


def oracle_hd(calls):
    """single thread, no update / dict=: the object is an insertion-ordered dict name -> str | list, guarded"""
    from harness import c14
    ch, _, _ = mods()
    h, ref = ch.HeaderDict(), {}
    bad = []

    def chk(site, got, want, op):
        if got != want:
            bad.append((f'hd-{site}', f'after {calls!r}: {op!r} gave {got!r}, an insertion-ordered guarded dict gives {want!r}'))
    for op in calls:
        k = op[0]
        try:
            if k in ('set', 'app', 'sdf'):
                v = c14.mk(op[2])
                o, s = _guard(v)
                try:
                    r = {'set': h.__setitem__, 'app': h.append, 'sdf': h.setdefault}[k](op[1], v)
                    got = 'ok'
                except Exception as e:   # noqa
                    got = type(e).__name__
                chk(k + '-outcome', got, o, op)
                if o == 'ok' and got == 'ok':
                    if k == 'set':
                        ref[op[1]] = s
                    elif k == 'sdf':
                        chk('sdf-result', r, ref.setdefault(op[1], s), op)
                    elif op[1] not in ref:
                        ref[op[1]] = s
                    elif isinstance(ref[op[1]], list):
                        ref[op[1]].append(s)
                    else:
                        ref[op[1]] = [ref[op[1]], s]
            elif k == 'len':
                chk('len', len(h), len(ref), op)
            elif k == 'iter':
                chk('iter', list(h), list(ref), op)
            elif k == 'has':
                chk('contains', op[1] in h, op[1] in ref, op)
            elif k in ('gi', 'del', 'pop', 'popitem'):
                def both(d):
                    try:
                        if k == 'gi':
                            return d[op[1]]
                        if k == 'del':
                            del d[op[1]]
                            return None
                        if k == 'pop':
                            return d.pop(op[1], None) if op[2] else d.pop(op[1])
                        return d.popitem()
                    except KeyError:
                        return 'KeyError!'
                chk(k, both(h), both(ref), op)
            elif k == 'keys':
                chk('keys', list(h.keys()), list(ref.keys()), op)
            elif k == 'vals':
                chk('values', list(h.values()), list(ref.values()), op)
            elif k in ('items', 'gd'):
                chk('items', list(h.items()), list(ref.items()), op)
            elif k == 'pget':
                chk('get', h.get(op[1]), ref.get(op[1]), op)
            elif k == 'clr':
                h.clear(*op[1])
                if op[1]:
                    for n in op[1]:
                        ref.pop(n, None)
                else:
                    ref.clear()
            elif k == 'repr':
                chk('repr', repr(h), '<HeaderDict: %r>' % (ref,), op)
        except Exception as e:   # noqa
            bad.append((f'hd-raises-{k}', f'{op!r} raised {type(e).__name__}: {e}'))
            break
        chk('state', list(h.dict.items()), list(ref.items()), op)
        for v in h.dict.values():
            for s in (v if isinstance(v, list) else [v]):
                if not isinstance(s, str) or has_ctl(s):
                    bad.append(('guarded-ops-unclean', f'after {calls!r} the store holds {s!r}'))
    return bad


def oracle_threads(key, val):
    ch, _, _ = mods()
    bad = []
    w = Workers(2)
    try:
        h = w.run(0, lambda: ch.HeaderDict())
        w.run(0, lambda: h.__setitem__(key, val))
        for name, fn in [('len', lambda: len(h)), ('getitem', lambda: h[key]), ('contains', lambda: key in h), ('keys', lambda: h.keys()),
                         ('copy', lambda: h.copy()), ('clear', lambda: h.clear()), ('setitem', lambda: h.__setitem__(key, val)),
                         ('append', lambda: h.append(key, val)), ('dict', lambda: h.dict), ('repr', lambda: repr(h))]:
            try:
                w.run(1, fn)
                bad.append((f'thread-sees-{name}', f'{name} on a thread that never assigned `dict` did not raise AttributeError'))
            except AttributeError:
                pass
            except Exception as e:   # noqa
                bad.append((f'thread-raises-{name}', f'{name} on a foreign thread raised {type(e).__name__}'))
        w.run(1, lambda: setattr(h, 'dict', {'other': 'x'}))
        if w.run(0, lambda: dict(h.items())) != {key: val}:
            bad.append(('thread-dict-leak', 'assigning `dict` on one thread changed what another thread sees'))
        if w.run(1, lambda: dict(h.items())) != {'other': 'x'}:
            bad.append(('thread-dict-lost', 'a thread does not see the dict it assigned'))
    finally:
        w.close()
    return bad


def oracle_update_witness():
    """the model witness of `update_is_the_only_unguarded_entry`, replayed: `update` and `dict =` store CR/LF unguarded
    (outside C14's list of single-value setters) - recorded in the stats, not a finding"""
    ch, _, _ = mods()
    h = ch.HeaderDict()
    h.update({'X': 'a\r\nSet-Cookie: x=1'})
    a = h['X'] == 'a\r\nSet-Cookie: x=1'
    h.dict = {'Y': ['a\nb']}
    return a and h['Y'] == ['a\nb']


def oracle_props(v):
    """get-after-set through writer and reader for every HeaderProperty attribute of the source"""
    import datetime
    from harness import c14
    ch, resp, _ = mods()
    bad = []
    for row, p in prop_rows():
        o = Holder(ch.HeaderDict())
        site = f'{row[0]}.{row[1]}'
        try:
            if p.__get__(o, Holder) != (p.reader(p.default) if p.reader else p.default):
                bad.append((f'prop-default:{site}', 'an unset attribute does not read as its default'))
        except Exception:   # noqa: int('') - the reader refuses the default; that is what the code does
            pass
        val = c14.mk(v)
        if row[4] == 'http_date' and not isinstance(val, str):
            val = 784111777
        g, s = _guard(val)
        try:
            p.__set__(o, val)
            got = 'ok'
        except Exception as e:   # noqa
            got = type(e).__name__
        if got != g:
            bad.append((f'prop-guard:{site}', f'{site} = {val!r}: {got}, the guard promises {g}'))
            continue
        if g != 'ok':
            if len(o.headers):
                bad.append((f'prop-rejected-stored:{site}', f'{site} = {val!r} raised but stored'))
            continue
        try:
            back = p.__get__(o, Holder)
        except Exception as e:   # noqa
            back = e
        if row[3] == '':
            want = s
        elif row[3] == 'int':
            try:
                want = int(s)
            except ValueError:
                want = None
        else:
            want = datetime.datetime(1994, 11, 6, 8, 49, 37) if val == 784111777 else None
        if want is not None and back != want:
            bad.append((f'prop-roundtrip:{site}', f'{site} = {val!r} reads back as {back!r}, expected {want!r}'))
        p.__delete__(o)
        if p.name in o.headers:
            bad.append((f'prop-delete:{site}', 'del attribute left the header'))
        try:
            p.__delete__(o)
            bad.append((f'prop-delete-twice:{site}', 'deleting an absent header attribute did not raise KeyError'))
        except KeyError:
            pass
    return bad


def oracle_copy(vals):
    ch, _, _ = mods()
    h = ch.HeaderDict()
    for v in vals:
        h.append('X', v)
    h['Y'] = 'y'
    before = [list(x) if isinstance(x, list) else x for x in h.values()]
    c = h.copy()
    bad = []
    if type(c) is not type(h) or list(c.items()) != list(h.items()):
        bad.append(('copy-differs', f'copy of {dict(h.items())!r} is {dict(c.items())!r}'))
    c.append('X', 'extra')
    c.append('Y', 'extra')
    c['Z'] = '1'
    if [list(x) if isinstance(x, list) else x for x in h.values()] != before or 'Z' in h:
        bad.append(('copy-not-independent', f'mutating the copy changed the original: {dict(h.items())!r}'))
    snap = [list(x) if isinstance(x, list) else x for x in c.values()]
    h.append('X', 'more')
    del h['Y']
    if [list(x) if isinstance(x, list) else x for x in c.values()] != snap:
        bad.append(('copy-not-independent', 'mutating the original changed the copy'))
    return bad


def oracle_delete_cookie(name, pre, kw, newval):
    ch, resp, _ = mods()
    r = resp.HTTPResponse()
    if pre is not None:
        r.set_cookie(name, pre, path='/p')
    r.set_cookie('other', 'o')
    r.delete_cookie(name, **kw)
    bad = []
    mine = [v for k, v in r.headerlist if k == 'Set-Cookie' and v.split('=', 1)[0] == name]
    if len(mine) != 1:
        return [('delete-cookie-count', f'delete_cookie({name!r}) emitted {mine!r}')]
    attrs = [a.strip() for a in mine[0].split(';')[1:]]
    if 'Max-Age=-1' not in attrs:
        bad.append(('delete-cookie-max-age', f'delete_cookie({name!r}) emitted {mine[0]!r}: no Max-Age=-1'))
    exp = [a.split('=', 1)[1] for a in attrs if a.lower().startswith('expires=')]
    ts = ch.parse_date(exp[0]) if exp else None
    if ts is None or ts > 0:
        bad.append(('delete-cookie-expires', f'delete_cookie({name!r}) emitted {mine[0]!r}: expires is not in the past'))
    if has_ctl(mine[0]) or mine[0].split(';')[0] != name + '=""':
        bad.append(('delete-cookie-value', f'delete_cookie({name!r}) emitted {mine[0]!r}'))
    for k, v in kw.items():
        if k in ('path', 'domain') and isinstance(v, str) and v and not any(a.lower() == f'{k}={v}'.lower() for a in attrs):
            bad.append(('delete-cookie-kwargs', f'delete_cookie({name!r}, {k}={v!r}) emitted {mine[0]!r}'))
    r.set_cookie(name, newval)
    mine2 = [v for k, v in r.headerlist if k == 'Set-Cookie' and v.split('=', 1)[0] == name]
    if len(mine2) != 1 or not mine2[0].startswith(f'{name}={newval}'):
        bad.append(('delete-cookie-replace', f'set_cookie after delete_cookie emitted {mine2!r}'))
    if len([1 for k, v in r.headerlist if k == 'Set-Cookie']) != 2:
        bad.append(('delete-cookie-others', 'delete_cookie / set_cookie disturbed another cookie'))
    return bad


def oracle_resp_copy(status, hdrs, cookies, cls):
    """inside the domain where copy() is defined (an exception-derived class, single-valued headers) and cookie names in
    sorted order: same status line, same header list"""
    _, resp, _ = mods()
    r = resp.HTTPResponse('', status)
    for k, v in hdrs:
        r.headers[k] = v
    for n, v, o in cookies:
        r.set_cookie(n, v, **o)
    try:
        c = r.copy(getattr(resp, cls))
    except Exception as e:   # noqa
        return [(f'resp-copy-raises:{type(e).__name__}', f'copy({cls}) of status={status!r} headers={hdrs!r} raised {type(e).__name__}: {e}')]
    bad = []
    if type(c).__name__ != cls:
        bad.append(('resp-copy-class', f'copy({cls}) is a {type(c).__name__}'))
    if (c.status_line, c.status_code) != (r.status_line, r.status_code):
        bad.append(('resp-copy-status', f'copy of {r.status_line!r} has {c.status_line!r}'))
    if c.headerlist != r.headerlist:
        bad.append(('resp-copy-headerlist', f'copy emits {c.headerlist!r}, the original {r.headerlist!r}'))
    c.headers['X-Copy'] = '1'
    c.set_cookie('zz', '1')
    if 'X-Copy' in r.headers or any('zz=' in v for _, v in r.headerlist):
        bad.append(('resp-copy-shared', 'mutating the copy changed the original'))
    return bad


def oracle_status(a):
    """the status setter: an int 100..999 or '<code> <reason>' sets code and line (the text, stripped); anything else raises"""
    _, resp, _ = mods()
    r = resp.HTTPResponse()
    bad = []
    if isinstance(a, int):
        want = (a, None) if 100 <= a <= 999 else None
    else:
        toks = a.split()
        ok = ' ' in a and toks and toks[0].isascii() and toks[0].isdigit() and 100 <= int(toks[0]) <= 999
        want = (int(toks[0]), a.strip()) if ok else None
        if not ok and ' ' in a and toks and not toks[0].isdigit():
            return []        # signs, underscores, exotic numerals: int() decides, not the oracle
    try:
        r.status = a
        got = (r.status_code, r.status_line)
    except (ValueError, IndexError):
        got = None
    if want is None:
        if got is not None and got != (200, '200 OK'):
            bad.append(('status-accepted', f'status = {a!r} was accepted as {got!r}'))
        if (r.status_code, r.status_line) != (200, '200 OK'):
            bad.append(('status-rejected-changed', f'status = {a!r} raised but left {(r.status_code, r.status_line)!r}'))
    elif got is None:
        bad.append(('status-refused', f'status = {a!r} was refused'))
    elif got[0] != want[0] or (want[1] is not None and got[1] != want[1]) or (isinstance(a, int) and not got[1].startswith(str(want[0]) + ' ')) or r.status != got[1]:
        bad.append(('status-line', f'status = {a!r} gives code {got[0]!r} line {got[1]!r}'))
    return bad


def oracle_fw(data, sched, buff):
    ch, _, _ = mods()
    w = ch.WSGIFileWrapper(make_fp(['read'], data, sched), buff)
    parts = core.with_timeout(lambda: list(w), 5)
    bad = []
    if b''.join(parts) != data:
        bad.append(('fw-content', f'data {data.hex()} sched {sched} buffer {buff}: parts {[p.hex() for p in parts]}'))
    if any(len(p) == 0 or len(p) > buff for p in parts):
        bad.append(('fw-part-size', f'data {data.hex()} sched {sched} buffer {buff}: part sizes {[len(p) for p in parts]}'))
    return bad


def oracle_ci(n, as_tuple):
    _, _, omb = mods()
    calls = []
    cbs = [(lambda j=j: calls.append(j)) for j in range(n)]
    arg = (tuple(cbs) if as_tuple else cbs) if n != 1 or as_tuple else cbs[0]
    items = [b'a', b'', b'bc']
    ci = omb._closeiter(iter(items), arg)
    bad = []
    if list(ci) != items:
        bad.append(('closeiter-iter', '_closeiter does not iterate its iterator'))
    ci.close()
    if calls != list(range(n)):
        bad.append(('closeiter-close', f'{n} callbacks: called {calls!r}'))
    return bad


OR_CALL_OPS = ('set', 'app', 'sdf', 'len', 'iter', 'has', 'gi', 'del', 'keys', 'vals', 'items', 'gd', 'pget', 'pop', 'popitem', 'clr', 'repr')


def search_stream(rng, n, pid, stats, seeds=()):
    """(evaluations, [Finding])"""
    from harness import c14
    cases = []
    for s in seeds:
        if isinstance(s, dict) and s.get('sub') == 'hd':
            cases.append(('hd', [c[2] for c in s['calls'] if c[0] == 0 and c[1] == 0 and c[2][0] in OR_CALL_OPS]))
        if isinstance(s, dict) and s.get('sub') == 'fw':
            cases.append(('fw', [bytes.fromhex(s['data']), s['sched'], max(s['buff'], 1)]))
    v_ctl = ['s', 'a\r\nb']
    for k in ('set', 'app', 'sdf'):
        cases.append(('hd', [['set', 'X-A', ['s', 'one']], [k, 'X-A', v_ctl], [k, 'X-B', ['y', '78']], ['items'], ['popitem'], ['len']]))
    cases.append(('hd', [['app', 'A', ['s', '1']], ['app', 'A', ['i', 2]], ['app', 'A', ['n']], ['gi', 'A'], ['set', 'B', ['b', True]], ['keys'],
                         ['set', 'A', ['f', '1.5']], ['keys'], ['vals'], ['pop', 'A', False], ['pop', 'A', False], ['pop', 'A', True], ['del', 'A'],
                         ['clr', ['B', 'C']], ['len'], ['popitem'], ['repr']]))
    cases.append(('threads', ['X', 'v']))
    for v in (['s', 'text/plain'], ['i', 42], ['s', '42'], ['s', 'a\r\nb'], ['y', '78'], ['n'], ['s', ' 7 '], ['f', '1.5'], ['b', True], ['s', '\0']):
        cases.append(('props', v))
    for vals in (['1'], ['1', '2'], ['1', '2', '3']):
        cases.append(('copy', vals))
    for name, pre, kw in (('a', None, {}), ('a', 'v', {}), ('sid', 'x y', {'path': '/p'}), ('k', None, {'path': '/', 'domain': 'd.example'}),
                          ('k', 'v', {'max_age': 60, 'expires': 86400})):
        cases.append(('dck', [name, pre, kw, 'new']))
    for st in (200, 404, '200 OK', '299 Custom', 204, 304, '500 Oops here'):
        for cls in ('HTTPResponse', 'HTTPError'):
            cases.append(('rcopy', [st, [['X-A', 'v'], ['Content-Type', 'text/plain']], [['a', 'v', {}], ['b', 'x y', {'path': '/'}]], cls]))
    for a in ST_INTS + ST_STRS:
        cases.append(('status', a))
    for nn in range(5):
        for tup in (False, True):
            cases.append(('ci', [nn, tup]))
    for data, sched, buff in ((b'', [], 4), (b'abcdef', [], 4), (b'abcdef', [1, 0, 9], 2), (b'x' * 40, [7], 16), (b'ab', [], 1), (b'abc', [], 65536)):
        cases.append(('fw', [data, sched, buff]))
    for _ in range(n):
        k = rng.randrange(100)
        if k < 45:
            cases.append(('hd', [c[2] for c in gen_hd_calls(rng) if c[2][0] in OR_CALL_OPS]))
        elif k < 55:
            cases.append(('props', c14.gen_val(rng) if rng.random() < .6 else ['s', rng.choice(INT_TEXT + DATES)]))
        elif k < 62:
            cases.append(('copy', [rng.choice(RAW_TEXT[:5]) for _ in range(rng.randint(1, 4))]))
        elif k < 72:
            kw = {o[0]: o[1] for o in gen_opts(rng, 2) if o[0] in ('path', 'domain', 'max_age', 'expires', 'secure', 'httponly')}
            cases.append(('dck', [rng.choice(['a', 'sid', 'B', 'x-y']), rng.choice([None, 'v', 'a b']), kw, rng.choice(['new', 'n2', 'x'])]))
        elif k < 82:
            st = rng.choice([200, 404, 204, 304, 500, 299, '200 OK', '404 Nope', '299 Custom text', 100, 999])
            hdrs = [[nm, rng.choice(RAW_TEXT[:5] + ['12'])] for nm in rng.sample(['X-A', 'X-B', 'Content-Type', 'Content-Length', 'Allow', 'x-c'],
                                                                                rng.randint(0, 3))]
            names = sorted(rng.sample(['a', 'b', 'sid', 'B', 'Z'], rng.randint(0, 3)))
            cks = [[nm, rng.choice(['v', 'a b', 'x;y', '']), dict([o for o in gen_opts(rng, 2)
                                                                   if o[0] in ('path', 'domain', 'secure', 'httponly', 'max_age') and o[1] != ''])]
                   for nm in names]
            cases.append(('rcopy', [st, hdrs, cks, rng.choice(['HTTPResponse', 'HTTPError'])]))
        elif k < 95:
            _, data, sched, buff = gen_fw(rng)
            cases.append(('fw', [data, sched, max(buff, 1)]))
        else:
            cases.append(('ci', [rng.randint(0, 6), rng.random() < .5]))
    if oracle_update_witness():
        bump(stats, 'resphelp:update-witness-replayed')
    else:
        bump(stats, 'resphelp:update-witness-stale')
    findings, evals = [], 0
    fns = dict(hd=lambda x: oracle_hd(x), threads=lambda x: oracle_threads(*x), props=lambda x: oracle_props(x), copy=lambda x: oracle_copy(x),
               dck=lambda x: oracle_delete_cookie(*x), rcopy=lambda x: oracle_resp_copy(*x), fw=lambda x: oracle_fw(*x), ci=lambda x: oracle_ci(*x),
               status=lambda x: oracle_status(x))
    for kind, x in cases:
        evals += 1
        try:
            bad = core.with_timeout(lambda: fns[kind](x), 10)
        except core.Hang:
            bad = [(f'{kind}-hang', f'{kind} on {x!r} did not terminate')]
        except Exception as e:  # noqa
            bad = [(f'{kind}-raises:{type(e).__name__}', f'{type(e).__name__}: {e} on {x!r}')]
        bump(stats, 'resphelp:oracle-' + kind)
        for site, what in bad:
            findings.append(Finding(f'{pid}:resphelp:{site}', what, dict(probe='resphelp', kind=kind, value=_jsonable(x))))
    findings.sort(key=lambda f: len(repr(f.replay['value'])))
    return evals, findings


def _jsonable(x):
    if isinstance(x, bytes):
        return {'bytes': x.hex()}
    if isinstance(x, (list, tuple)):
        return [_jsonable(y) for y in x]
    if isinstance(x, dict):
        return {'dict': [[k, _jsonable(v)] for k, v in x.items()]}
    return x


def _unjson(x):
    if isinstance(x, dict) and 'bytes' in x:
        return bytes.fromhex(x['bytes'])
    if isinstance(x, dict) and 'dict' in x:
        return {k: _unjson(v) for k, v in x['dict']}
    if isinstance(x, list):
        return [_unjson(y) for y in x]
    return x


def replay_case(i, pid):
    if i.get('probe') == 'resphelp':
        kind, x = i['kind'], _unjson(i['value'])
        fn = dict(hd=lambda: oracle_hd(x), threads=lambda: oracle_threads(*x), props=lambda: oracle_props(x), copy=lambda: oracle_copy(x),
                  dck=lambda: oracle_delete_cookie(*x), rcopy=lambda: oracle_resp_copy(*x), fw=lambda: oracle_fw(*x),
                  ci=lambda: oracle_ci(*x), status=lambda: oracle_status(x))[kind]
        return dict(input=i, oracle=[list(b) for b in fn()])
    out = dict(input=i)
    sub = i.get('sub')
    if sub == 'hd':
        calls = [[c[0], c[1], [dict(y) if isinstance(y, dict) else y for y in c[2]]] for c in i['calls']]
        toks, outs, dump = run_hd(calls)
        out['line'] = 'resphelp hd ' + ' '.join(str(t) for t in toks)
        out['impl_now'] = ';'.join(outs) + ' ' + dump
    elif sub == 'resp':
        out['line'] = f'resphelp resp {fin_token(i["fin"])} ' + ' '.join(enc_rop(o) for o in i['ops'])
        out['impl_now'] = run_resp(i['fin'], i['ops'])
    elif sub == 'fw':
        out['impl_now'] = run_fw(i['attrs'], bytes.fromhex(i['data']), list(i['sched']), i['buff'])
    elif sub == 'ci':
        out['impl_now'] = run_ci(i['arg'], [bytes.fromhex(x) for x in i['items']])
    return out


# --------------------------------------------------------------------------------------
# hooking the stream into C14

RH_ANCHORS = ['ombott/common_helpers.py', 'ombott/response.py', 'ombott/ombott.py', 'ombott/request_pkg/helpers.py']
RH_RULE = (' || response helpers (resphelplib): call sequences on real HeaderDict objects, every call on one of three real threads '
           '(len / iter / in / item get, set, del / append / setdefault / keys / values / items / get / pop with and without default / '
           'popitem / copy and calls on the copies / clear with and without names / update and `dict =` with raw CR/LF values / repr / '
           'every HeaderProperty attribute of the generated table get, set, delete), statement sequences on real response objects '
           '(status setter with ints, reason-phrase strings in every malformed shape, None / float / bytes; set_cookie with options; '
           'delete_cookie with kwargs; constructors of all four classes) observed through status_code / status_line / headerlist, '
           'copy(cls) for every class and repr; WSGIFileWrapper over read schedules and buffer sizes; _closeiter with None / one / '
           'list / tuple of callbacks some raising; BaseResponse.__new__ and __iter__, vs Model/RespHelp.lean; oracle: HeaderDict is an '
           'insertion-ordered guarded dict, guarded sequences keep the store free of CR/LF/NUL, foreign threads have no dict, '
           'attribute get-after-set, copy independence, delete_cookie emits one expired Set-Cookie that set_cookie replaces, copy() '
           'keeps the wire form, file wrapper parts are non-empty, bounded and concatenate to the file, close calls each callback once')
RH_ASSUMPTIONS = ['response helpers: values entering through `update` / `dict =` are str or list of str in the model; '
                  'http.cookies output -> load reads every morsel back as it was (compared on every run for the generated names, values, '
                  'attributes); the outcomes of the date reader / writer of `expires` are shipped as parameters; timedelta max_age and '
                  'signed cookies are C15\'s; int() of non-ASCII digits is outside the model']
RH_NOTE = ('response helpers (HeaderDict full API, HeaderProperty, copy, delete_cookie, WSGIFileWrapper, _closeiter): `update` and '
           '`dict =` are not single-value setters and store CR/LF unguarded (outside the statement; witness replayed on every run); '
           'BaseResponse.__new__ forwards constructor arguments to object.__new__, so Response(...) with arguments and copy() with the '
           'default class raise TypeError; copy(cls) of a response holding a list-valued header raises TypeError; a cookie set again '
           'after delete_cookie keeps Max-Age=-1 and the epoch expires (SimpleCookie keeps the morsel)')


def install(cls, quick=(1000, 350), thorough=(30000, 8000)):
    """adds the stream to check class `cls`: table, anchors, correspondence, oracle, replay"""
    pid = cls.pid
    cls.tables = list(cls.tables) + ['resphelp']
    cls.anchors = list(cls.anchors) + [a for a in RH_ANCHORS if a not in cls.anchors]
    cls.rule = cls.rule + RH_RULE
    cls.assumptions = list(cls.assumptions) + RH_ASSUMPTIONS
    cls.level_note_extra = (cls.level_note_extra + '; ' if cls.level_note_extra else '') + RH_NOTE
    o_budget, o_corr, o_search, o_replay, o_nontrivial = cls.budget, cls.corr, cls.search, cls.replay, cls.nontrivial

    def budget(self, tier, escalated):
        self._rh = (tier, escalated)
        return o_budget(self, tier, escalated)

    def sizes(self):
        tier, esc = getattr(self, '_rh', ('quick', False))
        a, b = quick if tier == 'quick' else thorough
        return (a * 3, b * 3) if (esc and tier == 'quick') else (a, b)

    def corr(self, rng, n):
        out = o_corr(self, rng, n)
        if not hasattr(self, 'stats') or self.stats is None:
            self.stats = {}
        out += corr_stream(rng, sizes(self)[0], pid, self.stats)
        return out

    def search(self, rng, n, seeds):
        def is_mine(s):
            return isinstance(s, dict) and s.get('kind') == 'resphelp'
        mine = [s for s in seeds if is_mine(s)]
        evals, findings = o_search(self, rng, n, [s for s in seeds if not is_mine(s)])
        if not hasattr(self, 'stats') or self.stats is None:
            self.stats = {}
        try:
            ev, fs = core.with_timeout(lambda: search_stream(rng, sizes(self)[1], pid, self.stats, mine), 120)
        except core.Hang:
            ev, fs = 1, [Finding(f'{pid}:resphelp:hang', 'a response helper did not terminate (120 s of CPU time in the oracle stream)',
                                 dict(probe='resphelp', kind='hang', value=None))]
        return evals + ev, list(findings) + fs

    def replay(self, data):
        i = data.get('input')
        if isinstance(i, dict) and (i.get('probe') == 'resphelp' or i.get('kind') == 'resphelp'):
            return replay_case(i, pid)
        return o_replay(self, data)

    def nontrivial(self, sample):
        if isinstance(sample, dict) and sample.get('kind') == 'resphelp':
            sub = sample.get('sub')
            if sub == 'hd':
                return len(sample.get('calls', [])) >= 2
            if sub == 'resp':
                return len(sample.get('ops', [])) >= 1
            return True
        return o_nontrivial(self, sample)

    cls.budget, cls.corr, cls.search, cls.replay, cls.nontrivial = budget, corr, search, replay, nontrivial
    return cls
