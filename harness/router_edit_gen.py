"""C11: edit histories of a router.  The runner plays route registrations, removals (by rule,
by name, by `prefix*`), route-hook installations/removals and probes on a real `Ombott`
application and renders the history as one protocol line (`redit hist …`, see
lean/OmbottModel/Drv/RouterEdit.lean); rule universes with shared prefixes, wildcard siblings and
hook-only prefixes; the trivial dict spec of the survivors and the rebuilt-router comparison the
search oracle uses."""
import re

from harness import core
from harness.core import hs, hsl
from harness import router_gen as G

# ---------------------------------------------------------------------------------------------
# rule universes.  Mini syntax: literal text and `{name}` / `{name:filter}` / `{name:re:REGEX}`

_SEG = re.compile(r'\{(\w*)(?::(\w+)(?::([^}]*))?)?\}')


def ast_of(txt):
    out, pos = [], 0
    for m in _SEG.finditer(txt):
        if m.start() > pos:
            out.append(('lit', txt[pos:m.start()]))
        out.append(('w', m.group(1) or None, m.group(2), m.group(3), None))
        pos = m.end()
    if pos < len(txt):
        out.append(('lit', txt[pos:]))
    return out


UNIVERSES = {
    # splits and merges of literal keys, route at the root
    'lit': ['', 'a', 'ab', 'abc', 'abd', 'ab/c', 'abc/d', 'abc/de', 'a/b', 'a/b/c', 'a/c', 'b', 'b/a', 'x/y/z',
            'x/y', 'x', 'abcd', 'ac'],
    # wildcard siblings, same pattern under other names, filter clashes
    'wild': ['a/{x}', 'a/{x}/c', 'a/{y}/d', 'a/{x:int}', 'a/b', 'a/b/{z}', 'u/{n:int}', 'u/{n:int}/e',
             'u/{n:int}-{m}', 'u/v', 'u/{k:int}', 'f/{p:path}', 'f/{p:path}/t', '{w}', '{w}/q', 'a/{x}/c/{y}',
             'u/{n}', 'a', 'u'],
    'mix': ['', 'a', 'ab', 'a/{x}', 'a/{x}/b', 'a/{x}/bc', 'a/{y}/bd', 'ab/{x}', 'ab/c', 'abc', 'a/b', 'a/bc',
            '{w}', '{w}/a', '{w}/ab', 'a/{x:re:[a-z]+}', 'x/{n:int}/y', 'x/{n:int}', 'x/y', 'x/{n:int}/yz'],
    # very small (exhaustive scope)
    'tiny': ['a', 'ab', 'abc', 'a/{x}', 'ab/{x}', 'b'],
}

METHODS = [['GET'], ['GET'], ['POST'], ['GET', 'POST'], ['ANY'], 'get', ['PUT']]
NAMES = ['n1', 'n2', 'n3']
PROBE_METHODS = [['GET', 'ANY'], ['GET', 'ANY'], ['POST', 'ANY'], ['HEAD', 'GET', 'ANY'], ['PUT', 'ANY'], ['GET']]
VERBS = ['GET', 'GET', 'POST', 'HEAD', 'get', 'PUT']


def random_universe(rng, n=14):
    """ASTs from the C01 rule generator (all filter kinds but `rex`, whose selector rewrites the
    path and with it the hook positions)"""
    asts = []
    for _ in range(n * 3):
        if len(asts) >= n:
            break
        t, ast = G.gen_rule(rng, asts)
        if ast is None or any(s[0] == 'w' and s[2] == 'rex' for s in ast):
            continue
        if any(s[0] == 'lit' and ('*' in s[1]) for s in ast):
            continue
        asts.append(ast)
    return asts or [ast_of('a')]


def cut_ast(rng, ast):
    """a prefix of the rule: at a segment border or inside a literal run"""
    if not ast:
        return []
    k = rng.randint(0, len(ast))
    out = [tuple(s) for s in ast[:k]]
    if k < len(ast) and ast[k][0] == 'lit' and rng.random() < .6:
        t = ast[k][1]
        out.append(('lit', t[:rng.randint(1, len(t))]))
    return out


def rule_text(rng, ast, star=False):
    a = list(ast) + ([('lit', '*')] if star else [])
    # merge a trailing literal with the star
    if star and len(a) >= 2 and a[-2][0] == 'lit':
        a[-2:] = [('lit', a[-2][1] + '*')]
    t = G.print_rule(rng, a)
    return t if t is not None else '/' + ''.join(s[1] if s[0] == 'lit' else '<q%d>' % i for i, s in enumerate(a))


# ---------------------------------------------------------------------------------------------
# the runner

class EditRunner(G.Runner):
    def __init__(self):
        super().__init__()
        self.hook_calls = []
        self.hook_pattern = {}      # hook id -> pattern it was installed for
        self.spec = None            # Spec() kept next to the router (set by track_spec)
        self.outside = False

    def track_spec(self):
        self.spec = Spec()
        return self

    def _spec(self, fn):
        if self.spec is None or self.outside:
            return
        try:
            fn(self.spec)
        except Outside:
            self.outside = True

    def _via_app(self):
        """every other call goes through the thin wrappers of `Ombott` (`add_route`, `on_route`,
        `remove_route_hook`; `remove_route` has its own op) instead of the `RadiRouter` method"""
        return len(self.ops) % 2 == 1

    def add(self, rule, methods, name=None, overwrite=False):
        idx = len(self.ops)
        if self._via_app():
            # as `G.Runner.add`, through `Ombott.add_route`
            bad = self._scan_filters(rule) if rule else []

            def handler(**kw):
                meth = self.app.request.environ.get('ombott.route')
                self.calls.append((idx, getattr(meth, 'name', None), kw))
                return 'h%d' % idx
            try:
                route = self.app.add_route(rule, methods, handler, name, overwrite=overwrite)
                self.routes[idx] = route
                ans = 'ok:' + hs(route.pattern)
            except Exception as e:
                ans = 'err:' + G.err_name(e)
            cerr = ';'.join('%s=%s' % (hs(k), v) for k, v in bad) if bad else '~'
            self.ops.append('A|%s|%s|%s|%d|%s' % (hs(rule), hsl([methods] if isinstance(methods, str) else methods),
                                                  '~' if name is None else hs(name), 1 if overwrite else 0, cerr))
            self.answers.append(ans)
        else:
            ans = super().add(rule, methods, name, overwrite)
        out = 'ok' if ans.startswith('ok') else ans[4:]
        self._spec(lambda sp: sp.add(rule, methods, name, overwrite, idx, out))
        return ans

    # -- helpers ------------------------------------------------------------------------
    def _cerr(self, rule):
        bad = self._scan_filters(rule) if rule else []
        return ';'.join('%s=%s' % (hs(k), v) for k, v in bad) if bad else '~'

    def _emit(self, op, ans):
        self.ops.append(op)
        self.answers.append(ans)
        return ans

    def _outcome(self, fn):
        try:
            core.with_timeout(fn)
            return 'ok'
        except core.Hang:
            raise
        except Exception as e:
            return 'err:' + G.err_name(e)

    def make_hook(self, idx, partial):
        if partial:
            def hook(route, values):
                self.hook_calls.append(('p', idx, route, list(values)))
                return 'p%d' % idx
        else:
            def hook(route):
                self.hook_calls.append(('s', idx, route))
        hook.hid = idx
        return hook

    def show_route(self, r):
        if r is None:
            return 'none'
        ms = ','.join('%s=%d' % (hs(m), self._hid_of(rm.handler)) for m, rm in sorted(r.methods.items()))
        return 'route:%s:%s' % (hs(r.pattern), ms or '~')

    @staticmethod
    def show_hooks(hooks):
        if not hooks:
            return '-'
        return ','.join('%d.%s.%s' % (pos, '~' if p[0] is None else p[0].hid, '~' if p[1] is None else p[1].hid)
                        for pos, p in hooks)

    # -- edits --------------------------------------------------------------------------
    def remove_rule(self, rule):
        cerr = self._cerr(rule)
        ans = self._emit('X|%s|%s' % (hs(rule), cerr), self._outcome(lambda: self.router.remove(rule)))
        self._spec(lambda sp: sp.remove_rule(rule, ans if ans == 'ok' else ans[4:]))
        return ans

    def remove_name(self, name):
        ans = self._emit('XN|%s' % hs(name), self._outcome(lambda: self.router.remove(name=name)))
        self._spec(lambda sp: sp.remove_name(name, ans if ans == 'ok' else ans[4:]))
        return ans

    def add_hook(self, rule, partial):
        idx = len(self.ops)
        cerr = self._cerr(rule)
        hook = self.make_hook(idx, partial)
        try:
            if not partial and self._via_app():
                core.with_timeout(lambda: self.app.on_route(rule, hook))       # returns nothing
                pat = self.router.to_pattern(rule)
            else:
                pat = core.with_timeout(lambda: self.router.add_hook(rule, hook, 1 if partial else 0))
            self.hook_pattern[idx] = pat
            ans = 'ok:' + hs(pat)
        except core.Hang:
            raise
        except Exception as e:
            ans = 'err:' + G.err_name(e)
        self._spec(lambda sp: sp.add_hook(rule, partial, idx, 'ok' if ans.startswith('ok') else ans[4:]))
        return self._emit('H|%s|%d|%s' % (hs(rule), 1 if partial else 0, cerr), ans)

    def remove_hook(self, rule):
        cerr = self._cerr(rule)
        rm = self.app.remove_route_hook if self._via_app() else self.router.remove_hook
        ans = self._emit('XH|%s|%s' % (hs(rule), cerr), self._outcome(lambda: rm(rule)))
        self._spec(lambda sp: sp.remove_hook(rule, ans if ans == 'ok' else ans[4:]))
        return ans

    # -- probes -------------------------------------------------------------------------
    def by_name(self, name):
        return self._emit('I|%s' % hs(name), self.show_route(self.router[name]))

    def by_rule(self, rule):
        cerr = self._cerr(rule)
        try:
            ans = self.show_route(self.router[{rule}])
        except Exception as e:
            ans = 'err:' + G.err_name(e)
        return self._emit('IR|%s|%s' % (hs(rule), cerr), ans)

    def get_hook(self, rule):
        cerr = self._cerr(rule)
        try:
            p = self.router.get_hook(rule)
            ans = 'pair:%s:%s' % ('~' if p[0] is None else p[0].hid, '~' if p[1] is None else p[1].hid)
        except Exception as e:
            ans = 'err:' + G.err_name(e)
        return self._emit('K|%s|%s' % (hs(rule), cerr), ans)

    def indexes(self):
        r = self.router
        named = ','.join('%s=%s' % (hs(n), hs(rt.pattern)) for n, rt in sorted(r.named_routes.items())) or '~'
        return self._emit('L', 'routes=%s;named=%s;hooks=%s' % (hsl(sorted(r.routes)), named, hsl(sorted(r.hooks))))

    def resolve_h(self, path, methods):
        env = self.env_for(path.strip('/'))
        ep, err = core.with_timeout(lambda: self.router.resolve(path, list(methods)))
        if ep:
            meth, kw, hooks = ep
            ans = 'hit:%d:%s:%s:%s' % (self._hid(meth), hs(meth.name), G.enc_kwargs(kw), self.show_hooks(hooks))
        elif err[0] == 404:
            x = err[2]
            vals = ','.join(G.enc_val(v) for v in x['param_values']) or '~'
            ans = '404:%s:%s:%s' % (vals, self.show_hooks(x['hooks']), hs(x['partial']))
        else:
            ans = '405:' + hs(err[2])
        return self._emit('P|%s|%s|%s' % (hs(path), hsl(methods), self._env_txt(env)), ans)

    def serve_raw(self, verb, path):
        self.hook_calls = []
        status, allow, calls = self.wsgi_raw(verb, path)
        return status, allow, calls, list(self.hook_calls)

    def serve(self, verb, path):
        env = self.env_for(path.strip('/'))
        status, allow, calls, hcalls = self.serve_raw(verb, path)
        part = [h for h in hcalls if h[0] == 'p']
        if status == 200 and len(calls) == 1 and not part:
            idx, mname, kw = calls[0]
            fired = ','.join('%d@%s' % (h[1], hs(h[2])) for h in hcalls) or '-'
            ans = 'ran:%d:%s:%s:%s' % (idx, hs(mname or ''), G.enc_kwargs(kw), fired)
        elif len(part) == 1 and not calls and len(hcalls) == 1:
            _, idx, route, values = part[0]
            ans = '404h:%d:%s:%s' % (idx, hs(route), ','.join(G.enc_val(v) for v in values) or '~')
        elif status == 404 and not hcalls:
            ans = '404'
        elif status == 405 and not hcalls:
            ans = '405:' + hs(allow or '')
        else:
            ans = 'status:%s:%r:%r' % (status, calls, hcalls)
        return self._emit('V|%s|%s|%s' % (hs(verb), hs(path), self._env_txt(env)), ans)

    def fresh_same(self, paths, methods):
        """compare this (edited) application with one rebuilt from the survivors; emitted only
        where the comparison is fully specified (no unspecified hooks, inside the domain)"""
        if self.spec is None or self.outside or self.spec.tainted:
            return None
        env = []
        for p in paths:
            env += [e for e in self.env_for(p.strip('/')) if e not in env]
        try:
            fresh = self.spec.rebuild()
        except Exception as e:
            return self._emit('FS|%s|%s|%s' % (hsl(paths), hsl(methods), self._env_txt(env)), 'diff:rebuild:' + type(e).__name__)
        ans = 'same'

        def norm(runner, p):
            ep, err = core.with_timeout(lambda: runner.router.resolve(p, list(methods)))
            if ep:
                m, kw, hooks = ep
                return 'hit:%d:%s:%s:%s' % (runner._hid_of(m.handler), hs(m.name), G.enc_kwargs(kw), self.show_hooks(hooks))
            return '404' if err[0] == 404 else '405:' + hs(err[2])
        for p in paths:
            a, b = norm(self, p), norm(fresh, p)
            if a != b:
                ans = 'diff:path:%s:%s:%s' % (hs(p), a, b)
                break
        if ans == 'same':
            for nm in self.router.named_routes:
                a, b = self.show_route(self.router[nm]), fresh.show_route(fresh.router[nm])
                if a != b:
                    ans = 'diff:name:%s:%s:%s' % (hs(nm), a, b)
                    break
        if ans == 'same' and (sorted(self.router.routes) != sorted(fresh.router.routes)
                              or sorted(self.router.named_routes) != sorted(fresh.router.named_routes)):
            ans = 'diff:indexes'
        return self._emit('FS|%s|%s|%s' % (hsl(paths), hsl(methods), self._env_txt(env)), ans)

    # -- listing / key-form probes (lean/OmbottModel/Drv/RouterListing.lean) ---------------------
    def _fid(self, f):
        if f is None:
            return '~'
        for k, v in self.FF._filter_cache.items():
            if v[0] is f:
                return hs(k)
        raise core.Infra('filter handler not in the cache')

    def _name_handlers(self):
        """give every registered handler a printable identity: `str(handler)` is rewritten to
        `h<id>` (see `_canon_text`), `handler_fullname` becomes `m.h<id>`"""
        for rt in self.router.routes.values():
            for rm in rt.methods.values():
                fn = rm.handler
                fn.__module__ = 'm'
                fn.__qualname__ = 'h%d' % self._hid_of(fn)

    @staticmethod
    def _canon_text(t):
        return re.sub(r'<function (h\d+) at 0x[0-9a-fA-F]+>', r'\1', t)

    def observe_path(self, path):
        """what a consumer reads off one yielded node path (independent of the model: plain
        indexing of the list nodes)"""
        from ombott.router.radidict import KEY, PARAMS, FILTER, HOOKS, DATA
        pat = ''.join(n[KEY] for n in path[1:])
        flt = [n[FILTER] for n in path[1:] if n[KEY] == G.TOKEN]
        last = path[-1]
        return pat, flt, list(last[PARAMS]), last[DATA], last[HOOKS]

    def list_iter(self, startswith='', yield_hooks=False):
        rd = self.router.radidict
        paths = core.with_timeout(lambda: list(rd._routes_iter(startswith=startswith or None, yield_hooks=yield_hooks)))
        out = []
        for path in paths:
            pat, flt, keys, data, hooks = self.observe_path(path)
            fl = ','.join(self._fid(f) for f in flt) if flt else '-'
            d = '~' if data is None else self.show_route(data)
            hk = '~' if not hooks else '%s.%s' % ('~' if hooks[0] is None else hooks[0].hid, '~' if hooks[1] is None else hooks[1].hid)
            out.append('%s/%s/%s/%s/%s' % (hs(pat), fl, hsl(keys), d, hk))
        return self._emit('LI|%s|%d' % (hs(startswith), 1 if yield_hooks else 0), ';'.join(out) or '~')

    def list_dicts(self):
        return self._emit('LR', 'routes=%s;named=%s' % (hsl(list(self.app.routes)), hsl(list(self.router.named_routes))))

    def list_text(self):
        from ombott.router.radidict import DATA
        self._name_handlers()
        lines = []
        for path in self.router.radidict._routes_iter():
            rt = path[-1][DATA]
            lines.append(repr(rt))
            for m in (rt.methods.values() if rt is not None else ()):
                lines += [repr(m), str(m), m.handler_fullname]
        return self._emit('LS', hs(self._canon_text('\n'.join(lines))))

    @staticmethod
    def enc_atom(v):
        if v is None:
            return 'N'
        if isinstance(v, str):
            return 'S' + hs(v)
        return 'I1' if v else 'I0'

    @classmethod
    def enc_key(cls, key):
        """key forms: ('n', name) | ('s', [atoms]) | ('d', [(k, v)]) | ('k', rule, pattern) | ('o', object)"""
        k = key[0]
        if k == 'n':
            return 'n.' + hs(key[1])
        if k == 's':           # a set: equal elements collapse
            return 's:' + ','.join(cls.enc_atom(a) for a in dict.fromkeys(key[1]))
        if k == 'd':           # a dict: a repeated key keeps its first position and last value
            return 'd:' + ','.join('%s=%s' % (cls.enc_atom(a), cls.enc_atom(b)) for a, b in dict((a, b) for a, b in key[1]).items())
        if k == 'k':
            return 'k:%s:%s' % (cls.enc_atom(key[1]), cls.enc_atom(key[2]))
        return 'o'

    @staticmethod
    def make_key(key):
        from ombott.router.radirouter import RouteKey
        k = key[0]
        if k == 'n':
            return key[1]
        if k == 's':
            return set(key[1])
        if k == 'd':
            return dict((a, b) for a, b in key[1])
        if k == 'k':
            return RouteKey(key[1], pattern=key[2])
        return OTHER_KEYS[key[1]]

    @staticmethod
    def key_rule(key):
        """the rule text a key form carries (for the filters it may ask `make_filter` to build)"""
        k = key[0]
        if k == 's' and len(key[1]) == 1 and isinstance(key[1][0], str):
            return key[1][0]
        if k == 'd' and len(key[1]) == 1 and key[1][0][0] == 'rule' and isinstance(key[1][0][1], str):
            return key[1][0][1]
        if k == 'k' and isinstance(key[1], str):
            return key[1]
        return None

    def lookup_key(self, key):
        """`router[key]` (the route, or raises)"""
        return core.with_timeout(lambda: self.router[self.make_key(key)])

    def by_key(self, key):
        rule = self.key_rule(key)
        cerr = self._cerr(rule) if rule else '~'
        try:
            ans = self.show_route(self.lookup_key(key))
        except core.Hang:
            raise
        except Exception as e:
            ans = 'err:' + G.err_name(e)
        return self._emit('LK|%s|%s' % (self.enc_key(key), cerr), ans)

    def clash_text(self, rule):
        """text of the RadiDictKeyError a registration of `rule` meets (read-only: `_match` tells
        whether `add` would stop at a filter clash, which it does before touching the tree)"""
        from ombott.router.radidict import MismatchType, RadiDictKeyError
        if not G.in_domain(rule):
            return None
        cerr = self._cerr(rule)
        try:
            route = self.Route(rule)
        except Exception as e:
            return self._emit('LE|%s|%s' % (hs(rule), cerr), 'err:' + G.err_name(e))
        rd = self.router.radidict
        mm = rd._match(route.pattern, param_filters=route.filters)[1]
        ans = 'none'
        if mm == MismatchType.FILTER:
            try:
                rd.add(route.pattern, route, route.params_signature())
                raise core.Infra('clash probe changed the tree')
            except RadiDictKeyError as e:
                ans = hs(str(e))
        return self._emit('LE|%s|%s' % (hs(rule), cerr), ans)

    def method_clash_text(self, rule, methods):
        idx = len(self.ops)
        cerr = self._cerr(rule)
        from ombott.router.errors import RouteMethodError
        try:
            rt = self.router[{rule}]
        except Exception:
            rt = None
        if rt is None:
            ans = 'noroute'
        else:
            self._name_handlers()

            def cand():
                pass
            cand.__module__ = 'm'
            cand.__qualname__ = 'h%d' % idx
            try:
                rt._raise_if_registered(list(methods), cand)
                ans = 'none'
            except RouteMethodError as e:
                ans = hs(self._canon_text(str(e)))
        return self._emit('LC|%s|%s|%s' % (hs(rule), hsl(methods), cerr), ans)

    def render(self, pattern, names):
        return self._emit('LP|%s|%s' % (hs(pattern), hsl(names)),
                          hs(self.router.radidict._render_route(pattern, list(names))))

    def unpack(self, rule):
        cerr = self._cerr(rule)
        try:
            ex, fl, keys = self.router.radidict.params_unpack(self.Route(rule).params_signature())
            ans = '%s/%s/%s' % (hsl(keys), ','.join(self._fid(f) for f in fl) if fl else '-',
                                ','.join('1' if e else '0' for e in ex) if ex else '-')
        except Exception as e:
            ans = 'err:' + G.err_name(e)
        return self._emit('LU|%s|%s' % (hs(rule), cerr), ans)

    def remove_route(self, rule=None, name=None, pattern=None):
        """`Ombott.remove_route(rule, route_pattern=pattern, name=name)`"""
        cerr = self._cerr(rule) if rule else '~'
        ans = self._outcome(lambda: self.app.remove_route(rule, route_pattern=pattern, name=name))
        out = ans if ans == 'ok' else ans[4:]
        if rule is not None:
            self._spec(lambda sp: sp.remove_rule(rule, out))
        elif name is not None:
            self._spec(lambda sp: sp.remove_name(name, out))
        elif pattern is not None:
            self._spec(lambda sp: sp.remove_pattern(pattern, out))
        o = lambda v: '~' if v is None else hs(v)
        return self._emit('WX|%s|%s|%s|%s' % (o(rule), o(name), o(pattern), cerr), ans)

    LISTING_OPS = ('LI', 'LR', 'LS', 'LK', 'LE', 'LC', 'LP', 'LU', 'WX')

    def line(self):
        area = 'rlist' if any(op.split('|')[0] in self.LISTING_OPS for op in self.ops) else 'redit'
        return area + ' hist ' + ' '.join(self.ops)


def play(run, ops):
    """replay a recorded op list on an EditRunner"""
    for op in ops:
        k = op[0]
        if k == 'A':
            run.add(op[1], op[2], op[3], op[4])
        elif k == 'X':
            run.remove_rule(op[1])
        elif k == 'XN':
            run.remove_name(op[1])
        elif k == 'H':
            run.add_hook(op[1], op[2])
        elif k == 'XH':
            run.remove_hook(op[1])
        elif k == 'I':
            run.by_name(op[1])
        elif k == 'IR':
            run.by_rule(op[1])
        elif k == 'K':
            run.get_hook(op[1])
        elif k == 'L':
            run.indexes()
        elif k == 'P':
            run.resolve_h(op[1], op[2])
        elif k == 'V':
            run.serve(op[1], op[2])
        elif k == 'G':
            run.get(op[1])
        elif k == 'FS':
            run.fresh_same(op[1], op[2])
        elif k == 'LI':
            run.list_iter(op[1], op[2])
        elif k == 'LR':
            run.list_dicts()
        elif k == 'LS':
            run.list_text()
        elif k == 'LK':
            run.by_key(op[1])
        elif k == 'LE':
            run.clash_text(op[1])
        elif k == 'LC':
            run.method_clash_text(op[1], op[2])
        elif k == 'LP':
            run.render(op[1], op[2])
        elif k == 'LU':
            run.unpack(op[1])
        elif k == 'WX':
            run.remove_route(op[1], op[2], op[3])
        else:
            raise core.Infra('unknown op %r' % (op,))


EDIT_KINDS = ('A', 'X', 'XN', 'H', 'XH', 'WX')

#: keys that are neither str, set nor dict (`('o', name)` in a key form)
OTHER_KEYS = {'tuple': ('/a',), 'tuple0': (), 'list': ['/a'], 'frozenset': frozenset(['/a']), 'int': 5, 'zero': 0,
              'none': None, 'bytes': b'/a', 'float': 1.5}


# ---------------------------------------------------------------------------------------------
# history generator

class Universe:
    def __init__(self, rng, kind=None):
        kind = kind or rng.choice(['lit', 'wild', 'mix', 'mix', 'wild', 'random'])
        self.kind = kind
        if kind == 'random':
            self.asts = random_universe(rng)
        else:
            self.asts = [ast_of(t) for t in UNIVERSES[kind]]
        self.live = []            # ASTs given to add so far (probe paths are drawn from them)

    def rule(self, rng, add=False):
        ast = rng.choice(self.asts)
        if add:
            self.live.append(ast)
        return rule_text(rng, ast)

    def prefix_rule(self, rng, star=False):
        return rule_text(rng, cut_ast(rng, rng.choice(self.asts)), star)

    def path(self, rng):
        if self.live and rng.random() < .75:
            return G.gen_path(rng, self.live[-12:])
        return G.gen_path(rng, self.asts)


def gen_edit(rng, U, stats=None):
    r = rng.random()
    if r < .42:
        rule = U.rule(rng, add=True) if rng.random() < .93 else rng.choice(G.MALFORMED + ['/a*', '/a/b*'])
        name = rng.choice(NAMES) if rng.random() < .3 else None
        return ['A', rule, rng.choice(METHODS), name, rng.random() < .15]
    if r < .57:
        return ['X', U.rule(rng) if rng.random() < .85 else U.prefix_rule(rng)]
    if r < .65:
        return ['X', U.prefix_rule(rng, star=True)]
    if r < .71:
        return ['XN', rng.choice(NAMES)]
    if r < .89:
        rule = U.rule(rng) if rng.random() < .4 else U.prefix_rule(rng)
        return ['H', rule, rng.random() < .25]
    rule = U.rule(rng) if rng.random() < .4 else U.prefix_rule(rng, star=rng.random() < .05)
    return ['XH', rule]


def gen_probes(rng, U, edits, full):
    """probe ops for the current point of the history"""
    out = []
    rules = []
    for op in edits:
        if op[0] in ('A', 'H', 'X', 'XH') and op[1] not in rules and not op[1].endswith('*'):
            rules.append(op[1])
    npaths = rng.randint(5, 9) if full else rng.randint(1, 3)
    for _ in range(npaths):
        p = U.path(rng)
        if rng.random() < .5:
            out.append(['P', p, rng.choice(PROBE_METHODS)])
        else:
            out.append(['V', rng.choice(VERBS), '/' + p if rng.random() < .8 else p])
    if full:
        out.append(['L'])
        for n in NAMES:
            out.append(['I', n])
        rng.shuffle(rules)
        for rl in rules[:10]:
            out.append(['IR', rl])
        for rl in rules[:6]:
            out.append(['K', rl])
    else:
        if rng.random() < .5:
            out.append(['I', rng.choice(NAMES)])
        if rules and rng.random() < .5:
            out.append(['IR', rng.choice(rules)])
    return out


def parse_pattern(rule):
    """pattern string of a rule text (pure: `Route.parse_rule`), None when it does not parse"""
    from ombott.router.radirouter import Route
    try:
        return Route.parse_rule(rule)[0]
    except Exception:
        return None


def gen_key(rng, rules, pats):
    """one key form for `router[key]`: mostly the accepted forms over live rules / patterns, and
    every malformed shape"""
    rule = rng.choice(rules) if rules and rng.random() < .85 else rng.choice(G.MALFORMED + ['', 'a', '/zz', '/'])
    pat = rng.choice(pats) if pats and rng.random() < .8 else rng.choice(['', '/a', 'zz', 'a/\r', '\r', 'a'])
    if rng.random() < .15 and pat:
        pat = pat[:rng.randint(0, len(pat))]
    r = rng.random()
    if r < .12:
        return ['n', rng.choice(NAMES + ['zz', ''])]
    if r < .27:
        return ['s', [rule]]
    if r < .39:
        return ['d', [['rule', rule]]]
    if r < .49:
        return ['k', rule, None]
    if r < .61:
        return ['d', [['pattern', pat]]]
    if r < .68:
        return ['d', [['route_pattern', pat]]]
    if r < .78:
        return ['k', None, pat]
    other = rules[0] if rules else '/b'
    return rng.choice([
        ['s', []], ['s', [rule, other + 'x']], ['s', [None]], ['s', [5]], ['s', [0]], ['s', [rule, None]],
        ['d', []], ['d', [['rule', rule], ['pattern', pat]]], ['d', [['pattern', pat], ['route_pattern', pat]]],
        ['d', [['filters', None]]], ['d', [['filters', 'x']]], ['d', [['filters', 0]]], ['d', [['get_hooks', 1]]],
        ['d', [['get_hooks', None]]], ['d', [['foo', 'x']]], ['d', [[None, 'x']]], ['d', [[3, 'x']]], ['d', [[0, rule]]],
        ['d', [['pattern', None]]], ['d', [['pattern', 0]]], ['d', [['pattern', 7]]], ['d', [['rule', None]]],
        ['d', [['rule', 0]]], ['d', [['rule', 3]]], ['d', [['route_pattern', None]]], ['d', [['route_pattern', 2]]],
        ['k', None, None], ['k', '', None], ['k', rule, pat], ['k', '', pat], ['k', 0, pat], ['k', 1, None],
        ['k', rule, 0], ['k', None, 0], ['k', None, 4], ['k', 0, None],
    ] + [['o', k] for k in sorted(OTHER_KEYS)])


def gen_listing_probes(rng, U, edits, full):
    """probes of the enumeration / printing / key-form model (Drv/RouterListing.lean)"""
    rules, pats = [], []
    for op in edits:
        if op[0] in ('A', 'H', 'X', 'XH') and not op[1].endswith('*') and op[1] not in rules:
            rules.append(op[1])
            p = parse_pattern(op[1])
            if p is not None and p not in pats:
                pats.append(p)
    out = [['LI', '', rng.random() < .4]]
    for _ in range(2 if full else 1):
        sw = rng.choice(pats) if pats and rng.random() < .85 else rng.choice(['a', 'zz', '\r', 'a/\r/', 'ab'])
        sw = sw[:rng.randint(0, len(sw))] if rng.random() < .7 else sw
        out.append(['LI', sw, rng.random() < .4])
    out.append(['LR'])
    if full or rng.random() < .3:
        out.append(['LS'])
    for _ in range(rng.randint(4, 8) if full else rng.randint(1, 3)):
        out.append(['LK', gen_key(rng, rules, pats)])
    dom = [r for r in rules if G.in_domain(r)]
    for _ in range(2 if full else 1):
        if dom and rng.random() < .8:
            out.append(['LE', rng.choice(dom) if rng.random() < .5 else U.rule(rng)])
        if rules and rng.random() < .7:
            out.append(['LC', rng.choice(rules), [rng.choice(['GET', 'POST', 'ANY', 'PUT'])] * rng.choice([1, 1, 2])])
    if rng.random() < .6:
        pat = rng.choice(pats) if pats and rng.random() < .8 else 'a/\r/\r\rb'
        n = pat.count('\r') + rng.choice([0, 0, 0, -1, 1])
        names = [rng.choice(['x', 'y', 'id', '', 'anon-0', 'é', 'a\rb', 'n_1']) for _ in range(max(n, 0))]
        out.append(['LP', pat, names])
    if rules and rng.random() < .5:
        out.append(['LU', rng.choice(rules)])
    return out


def gen_wrapper_removal(rng, U, edits):
    """`Ombott.remove_route` in its three argument forms (and mixed)"""
    pats = [p for p in (parse_pattern(op[1]) for op in edits if op[0] == 'A') if p is not None]
    pat = rng.choice(pats) if pats and rng.random() < .8 else rng.choice(['zz', 'a', ''])
    if rng.random() < .25:
        pat = pat[:rng.randint(0, len(pat))] + '*'
    r = rng.random()
    if r < .45:
        return ['WX', None, None, pat]
    if r < .6:
        return ['WX', U.rule(rng), None, None]
    if r < .72:
        return ['WX', None, rng.choice(NAMES), None]
    if r < .82:
        return ['WX', U.rule(rng), rng.choice(NAMES), pat]
    if r < .95:
        return ['WX', None, rng.choice(NAMES), pat]
    return ['WX', None, None, None]


def gen_history(rng, max_edits=40, kind=None):
    U = Universe(rng, kind)
    n = rng.choice([3, 6, 10, 15, 20, 30, max_edits])
    ops, edits = [], []
    listing = rng.random() < .6
    for i in range(n):
        e = gen_wrapper_removal(rng, U, edits) if listing and rng.random() < .06 else gen_edit(rng, U)
        ops.append(e)
        edits.append(e)
        if rng.random() < .25:
            ops += gen_probes(rng, U, edits, False)
            if listing and rng.random() < .5:
                ops += gen_listing_probes(rng, U, edits, False)
    ops += gen_probes(rng, U, edits, True)
    if listing:
        ops += gen_listing_probes(rng, U, edits, True)
    paths = [op[1] for op in ops if op[0] == 'P'] + [op[2] for op in ops if op[0] == 'V']
    ops.append(['FS', sorted(set(paths))[:12], rng.choice([['GET', 'ANY'], ['POST', 'ANY']])])
    return ops, U


# ---------------------------------------------------------------------------------------------
# the survivors: a trivial dict spec written from the property text

class Outside(Exception):
    """the history left the domain the property speaks about"""


class Spec:
    """three maps: pattern -> methods, name -> pattern, pattern -> hook pair.  Hook patterns at or
    below a removed `prefix*` are unspecified (`tainted`) until `remove_hook` clears them."""

    def __init__(self):
        self.routes = {}     # pattern -> {METHOD: (handler id, rule text)}
        self.names = {}      # name -> pattern
        self.hooks = {}      # pattern -> [rule text, simple id | None, partial id | None]
        self.tainted = set()
        self.filters = {}    # pattern -> filter handlers of the rule that created the entry

    def clash(self, pat, filters):
        """would the tree refuse `pat` (tokens filter mismatch)?  Some survivor shares a prefix
        with it up to a wildcard that carries another filter.  None = unknown (unspecified hooks
        may still sit in the tree)."""
        if self.tainted:
            return None
        for q in list(self.routes) + list(self.hooks):
            fq = self.filters[q]
            k = 0
            for a, b in zip(pat, q):
                if a != b:
                    break
                if a == G.TOKEN:
                    if filters[k] is not fq[k]:
                        return True
                    k += 1
        return False

    @staticmethod
    def parse(rule):
        from ombott.router.radirouter import Route
        pat, params, filters, _, _ = Route.parse_rule(rule)
        if G.TOKEN in rule or len(set(params)) != len(params):
            raise Outside('rule outside the domain (marker character / repeated name)')
        return pat, filters

    def add(self, rule, methods, name, overwrite, hid, outcome):
        """`outcome` = what the router said ('ok' or the exception class).  Rejections before
        anything is registered (syntax, filter build) are taken from it; filter clashes (unless
        unspecified hooks may sit in the tree), method clashes and name clashes are predicted.
        Returns the predicted outcome class (None = no prediction)."""
        ms = [methods] if isinstance(methods, str) else list(methods)
        ms = [m.upper() for m in ms]
        if outcome not in ('ok', 'RouteMethodError', 'RouteBuildError', 'RadiDictKeyError'):
            return None                       # rejected before anything was registered (syntax, filter build)
        pat, flt = self.parse(rule)
        if pat.endswith('*'):
            raise Outside('registered pattern ends with the removal marker')
        same = pat in self.routes and all(a is b for a, b in zip(flt, self.filters[pat]))
        if same:
            if outcome == 'RadiDictKeyError':
                return 'ok'                   # the route is there: the tree is not even asked
        else:
            c = self.clash(pat, flt)          # a new tree entry: refused iff a survivor clashes
            if c is None:
                if outcome == 'RadiDictKeyError':
                    return None
            elif c:
                return 'RadiDictKeyError'
            elif outcome == 'RadiDictKeyError':
                return 'ok'
        if pat not in self.routes and pat not in self.hooks:
            self.filters[pat] = flt
        cur = self.routes.get(pat, {})
        if not overwrite and any(m in cur for m in ms):
            return 'RouteMethodError'
        cur = dict(cur)
        for m in ms:
            cur[m] = (hid, rule)
        self.routes[pat] = cur
        if name:
            if not overwrite and name in self.names and self.names[name] != pat:
                return 'RouteBuildError'
            self.names[name] = pat
        return 'ok'

    def _drop_names(self, pats):
        for n in [n for n, p in self.names.items() if p in pats]:
            del self.names[n]

    def remove_rule(self, rule, outcome):
        if outcome != 'ok':
            return
        pat, _ = self.parse(rule)
        self.remove_pattern(pat, outcome)

    def remove_pattern(self, pat, outcome):
        """`remove_route(route_pattern=pat)`: the pattern string as it is"""
        if outcome != 'ok':
            return
        if pat.endswith('*'):
            pre = pat[:-1]
            gone = {p for p in self.routes if p.startswith(pre)}
            for p in gone:
                del self.routes[p]
            self._drop_names(gone)
            for p in [p for p in self.hooks if p.startswith(pre)]:
                del self.hooks[p]
                self.tainted.add(p)
        else:
            self.routes.pop(pat, None)
            self._drop_names({pat})

    def remove_name(self, name, outcome):
        if name not in self.names:
            return 'KeyError'
        pat = self.names[name]
        self.routes.pop(pat, None)
        self._drop_names({pat})
        return 'ok'

    def predict_hook(self, rule):
        """'ok' / 'RadiDictKeyError' / None (no prediction)"""
        try:
            pat, flt = self.parse(rule)
        except Outside:
            raise
        except Exception:
            return None
        if pat.startswith('/') or pat.endswith('*'):
            return None
        if pat in self.hooks:
            return 'ok'                      # the pair is updated in place, filters are not compared
        c = self.clash(pat, flt)
        return None if c is None else ('RadiDictKeyError' if c else 'ok')

    def add_hook(self, rule, partial, hid, outcome):
        if outcome != 'ok':
            return
        pat, flt = self.parse(rule)
        if pat.endswith('*'):
            raise Outside('hook pattern ends with the removal marker')
        if pat in self.tainted:
            return                            # still unspecified (an old pair, with its filters, may be there)
        if pat not in self.hooks and pat not in self.routes:
            self.filters[pat] = flt
        h = self.hooks.setdefault(pat, [rule, None, None])
        h[2 if partial else 1] = hid

    def remove_hook(self, rule, outcome):
        if outcome != 'ok':
            return
        pat, _ = self.parse(rule)
        self.hooks.pop(pat, None)
        self.tainted.discard(pat)

    def rebuild(self):
        """a fresh application holding exactly the survivors"""
        run = EditRunner()
        for pat, ms in self.routes.items():
            for m, (hid, rule) in ms.items():
                run.router.add(rule, [m], self._handler(run, hid))
        for name, pat in self.names.items():
            m, (hid, rule) = next(iter(self.routes[pat].items()))
            run.router.add(rule, [m], self._handler(run, hid), name, overwrite=True)
        for pat, (rule, s, p) in self.hooks.items():
            if s is not None:
                run.router.add_hook(rule, run.make_hook(s, False), 0)
            if p is not None:
                run.router.add_hook(rule, run.make_hook(p, True), 1)
        return run

    @staticmethod
    def _handler(run, hid):
        def handler(**kw):
            meth = run.app.request.environ.get('ombott.route')
            run.calls.append((hid, getattr(meth, 'name', None), kw))
            return 'h%d' % hid
        handler.hid = hid
        return handler
