"""Pristine reference for C09: a helper process that imports the code under test but never serves
a request itself.  For every reference request it forks a child, the child serves the request on
a fresh application and sends the complete response back; so nothing an earlier request left in
class-level or module-level state of the parent (shared error objects, caches, class attributes)
can reach a reference answer.

Protocol on stdin/stdout: 4-byte big-endian length + pickle.
  request : (spec, [hreq, ...])        reply : [(status, headers, body, extra) | ('EXC', repr), ...]
"""
import os
import pickle
import struct
import sys


def _read(f):
    hdr = f.read(4)
    if len(hdr) < 4:
        return None
    n = struct.unpack('>I', hdr)[0]
    return pickle.loads(f.read(n))


def _write(f, obj):
    data = pickle.dumps(obj)
    f.write(struct.pack('>I', len(data)) + data)
    f.flush()


def serve_in_child(spec, h):
    from harness import c09
    r, w = os.pipe()
    pid = os.fork()
    if pid == 0:
        try:
            os.close(r)
            try:
                res = c09.Server(spec).serve(h)
            except BaseException as e:   # noqa
                res = ('EXC', repr(e))
            data = pickle.dumps(res)
            off = 0
            while off < len(data):
                off += os.write(w, data[off:off + 65536])
        finally:
            os._exit(0)
    os.close(w)
    chunks = []
    while True:
        c = os.read(r, 65536)
        if not c:
            break
        chunks.append(c)
    os.close(r)
    os.waitpid(pid, 0)
    return pickle.loads(b''.join(chunks))


def measure_in_child(what, kind, n, seed):
    """retention / growth measurements in a child with a small heap of its own"""
    import random
    from harness import c09
    r, w = os.pipe()
    pid = os.fork()
    if pid == 0:
        try:
            os.close(r)
            chk = c09.C09()
            try:
                fn = {'retention': chk._retention, 'growth': chk._growth, 'class-state': chk._class_state}[what]
                res = fn(kind, n, random.Random(seed))
            except BaseException as e:   # noqa
                res = ('EXC', repr(e))
            os.write(w, pickle.dumps(res))
        finally:
            os._exit(0)
    os.close(w)
    chunks = []
    while True:
        c = os.read(r, 65536)
        if not c:
            break
        chunks.append(c)
    os.close(r)
    os.waitpid(pid, 0)
    return pickle.loads(b''.join(chunks))


def main():
    from harness import c09   # noqa
    # import the code under test (and what serving needs) here, so that the children do not pay for
    # it; nothing is ever served in this process
    import importlib
    import json, traceback, wsgiref.util, html, urllib.parse   # noqa
    for m in ('ombott', 'ombott.ombott', 'ombott.response', 'ombott.error_render', 'ombott.request_pkg.request',
              'ombott.request_pkg.body_mixin', 'ombott.request_pkg.multipart', 'ombott.request_pkg.helpers'):
        importlib.import_module(m)
    inp, out = sys.stdin.buffer, sys.stdout.buffer
    while True:
        msg = _read(inp)
        if msg is None:
            break
        if msg[0] == 'measure':
            _write(out, measure_in_child(*msg[1:]))
            continue
        spec, hs = msg
        _write(out, [serve_in_child(spec, h) for h in hs])


class Reference:
    """client side"""

    def __init__(self):
        import subprocess
        from harness import core
        env = dict(os.environ)
        env['PYTHONPATH'] = core.VERIF + os.pathsep + env.get('PYTHONPATH', '')
        self.p = subprocess.Popen([sys.executable, '-c', 'from harness import c09ref; c09ref.main()'],
                                  stdin=subprocess.PIPE, stdout=subprocess.PIPE, cwd=core.VERIF, env=env)

    def serve(self, spec, hs):
        _write(self.p.stdin, (spec, list(hs)))
        res = _read(self.p.stdout)
        if res is None:
            raise RuntimeError('reference process died')
        return res

    def measure(self, what, kind, n, seed):
        _write(self.p.stdin, ('measure', what, kind, n, seed))
        res = _read(self.p.stdout)
        if res is None:
            raise RuntimeError('reference process died')
        return res

    def close(self):
        try:
            self.p.stdin.close()
            self.p.wait(timeout=10)
        except Exception:
            self.p.kill()


if __name__ == '__main__':
    main()
