"""Mutation self-test: applies each seeded change of /verif/seeded/<id>/ to a scratch copy of
the repository and expects the check of the property it breaks to exit 1 with a VIOLATION line,
while the repository's own tests stay green.  Nothing is changed in /repo or in /verif's
evidence: both the repository and the framework are copied to a scratch directory first.

    ./check selftest [--jobs N] [--tier quick|thorough] [id ...]

Writes seeded/RESULTS.json (one record per seeded change)."""
import concurrent.futures as cf
import json
import os
import shutil
import subprocess
import sys
import tempfile
import time

VERIF = os.path.dirname(os.path.dirname(os.path.abspath(__file__)))
REPO = os.environ.get('OMBOTT_REPO', '/repo')
PY = '/venv/bin/python'


def sh(cmd, cwd=None, env=None, timeout=3600):
    p = subprocess.run(cmd, cwd=cwd, env=env, capture_output=True, text=True, timeout=timeout)
    return p.returncode, p.stdout + p.stderr


def one(sid, tier, keep=False):
    d = os.path.join(VERIF, 'seeded', sid)
    meta = json.load(open(os.path.join(d, 'meta.json')))
    pids = meta['property'] if isinstance(meta['property'], list) else [meta['property']]
    base = os.environ.get('VERIF_TMP') or tempfile.gettempdir()
    work = tempfile.mkdtemp(prefix=f'selftest_{sid}_', dir=base)
    rec = dict(id=sid, property=pids, checks={})
    t0 = time.time()
    try:
        repo = os.path.join(work, 'repo')
        rc, out = sh(['git', '-C', REPO, 'worktree', 'add', '--detach', repo, 'HEAD'])
        if rc:
            rec['error'] = 'worktree: ' + out[-300:]
            return rec
        rc, out = sh(['git', 'apply', os.path.join(d, 'patch.diff')], cwd=repo)
        if rc:
            rec['error'] = 'patch does not apply: ' + out[-300:]
            return rec
        env = dict(os.environ, PYTHONDONTWRITEBYTECODE='1')
        env.pop('VALQ7711_OMBOTT_VERIF', None)
        rc, out = sh([PY, '-m', 'pytest', '-q', '-p', 'no:cacheprovider', '--timeout=900'], cwd=repo, env=env)
        rec['tests_pass'] = (rc == 0)
        rec['tests_tail'] = out.strip().split('\n')[-1][-120:]
        demo = os.path.join(d, meta.get('demo', 'demo.py'))
        if os.path.exists(demo):
            rc, out = sh([PY, demo], cwd=repo, env=dict(env, PYTHONPATH=repo), timeout=600)
            rec['demo_fails_with_patch'] = (rc != 0)
        verif = os.path.join(work, 'verif')
        sh(['rsync', '-a', '--exclude', '.git', '--exclude', 'replays', VERIF + '/', verif + '/'])
        for pid in pids:
            env2 = dict(os.environ, OMBOTT_REPO=repo, VERIF_TMP=work)
            rc, out = sh([os.path.join(verif, 'check'), pid, '--tier', tier], cwd=verif, env=env2, timeout=3000)
            vio = [l for l in out.split('\n') if l.startswith('VIOLATION')]
            kind = 'missed'
            if rc == 1 and vio:
                kind = 'no-failing-input-found' if all('no-failing-input-found' in l for l in vio) else 'input'
            elif rc not in (0, 1):
                kind = f'infra(rc={rc})'
            rec['checks'][pid] = dict(rc=rc, caught=(rc == 1 and bool(vio)), kind=kind,
                                      lines=vio[:3], tail=out.strip().split('\n')[-1][-300:])
    except subprocess.TimeoutExpired as e:
        rec['error'] = f'timeout: {e}'
    finally:
        sh(['git', '-C', REPO, 'worktree', 'remove', '--force', os.path.join(work, 'repo')])
        sh(['git', '-C', REPO, 'worktree', 'prune'])
        if not keep:
            shutil.rmtree(work, ignore_errors=True)
    rec['wall_s'] = round(time.time() - t0, 1)
    return rec


def main(argv):
    import argparse
    ap = argparse.ArgumentParser()
    ap.add_argument('ids', nargs='*')
    ap.add_argument('--jobs', type=int, default=6)
    ap.add_argument('--tier', default='quick')
    a = ap.parse_args(argv)
    sd = os.path.join(VERIF, 'seeded')
    ids = a.ids or sorted(x for x in os.listdir(sd) if os.path.exists(os.path.join(sd, x, 'meta.json')))
    if not a.ids:   # seeds whose demonstration stopped failing after a later fix are kept for the record but not scored
        ids = [x for x in ids if not json.load(open(os.path.join(sd, x, 'meta.json'))).get('neutralised_by')]
    recs = []
    with cf.ThreadPoolExecutor(a.jobs) as ex:
        for r in ex.map(lambda s: one(s, a.tier), ids):
            recs.append(r)
            st = ' '.join(f"{p}:{c['kind']}" for p, c in r.get('checks', {}).items())
            print(f"{r['id']:28s} tests={'ok' if r.get('tests_pass') else 'FAIL'} {st} {r.get('error', '')} ({r.get('wall_s')}s)",
                  flush=True)
    if not a.ids:
        with open(os.path.join(sd, 'RESULTS.json'), 'w') as f:
            json.dump(recs, f, indent=1)
    missed = [r['id'] for r in recs if r.get('error') or not any(c['caught'] for c in r['checks'].values())]
    print(f'{len(recs) - len(missed)}/{len(recs)} seeded changes caught; missed: {missed}')
    return 0 if not missed else 1


if __name__ == '__main__':
    sys.exit(main(sys.argv[1:]))
