"""Shared by C01 and C02: rule/path generators built from the router's own grammar, the runner
that plays an op history on the real `Ombott`/`RadiRouter` and renders it as one protocol line
(`router hist …`, see lean/OmbottModel/Drv/Router.lean), and the plain rule-by-rule matcher the
search oracles use."""
import re

from harness import core
from harness.core import hs, hsl

TOKEN = '\r'

# ---------------------------------------------------------------------------------------------
# rule ASTs
#   segment = ('lit', text) | ('w', name|None, filter|None, args|None, selector|None)

LIT_ALPHA = ['a', 'b', '/', '-', '0', '1', 'é', '\n', '.', 'a', 'b', '/', '/']
NAMES = ['x', 'y', 'z', 'id', 'n_1', 'Xé', '_p']
RE_POOL = [r'[a-z]+', r'\d+', r'[^/]+', r'a*', r'a|ab', r'(?:ab)+', r'.*', r'.+', r'[ab]*b', r'\w+',
           r'é+', r'[0-9][0-9]', r'x?', r'[^-]*', r'-?1', r'/+', r'a\)b', r'[^/]*/b']
REX_POOL = [r'(a)|(b)', r'(\d+)|([a-z]+)', r'(a)|b', r'(ab?)(x)?', r'(a)|(ab)|(.)']
BAD_RE = [r'(', r'[a', r'*a', r'(?P<n', r'a{2,1}']
# regexes with CONTEXT-SENSITIVE zero-width assertions (`^ \A \b \B`, look-behinds): what they accept
# depends on the text in front of the cursor, so "the filter matched on the remaining text" (the
# property) and "the filter matched in place, somewhere inside the whole path" differ as soon as the
# wildcard does not stand at offset 0.  The characters the look-behinds ask for are the ones literal
# runs are made of (LIT_ALPHA), so both outcomes occur behind generated literals.
CTX_RE_POOL = [r'^[a-z-]+$', r'\A[a-z]+', r'^\d+', r'\b\d+', r'\b[a-z]+\b', r'\B[a-z0-9]+', r'(?<=a)\d+', r'(?<=/)[a-z]+',
               r'(?<!a)b+', r'(?<![0-9])\d+', r'(?<!/)[a-z0-9]+', r'(?<=[ab/])x?1', r'(?m)^[a-z]+', r'(?<!\w)\w+', r'\b.+']
CTX_REX_POOL = [r'\b(a)|(b)', r'(?<=a)(\d+)|([a-z]+)', r'^(ab?)(x)?']
#: share of `re` / `rex` wildcards drawn from the context-sensitive pools; 0 for the checks that did
#: not opt in (their random streams stay what they were).  Set through `ctx_regexes`.
CTX_SHARE = 0.0


class ctx_regexes:
    """`with ctx_regexes(.4): …` — rule generation inside draws that share of its regex filters from
    CTX_RE_POOL / CTX_REX_POOL"""

    def __init__(self, share):
        self.share = share

    def __enter__(self):
        global CTX_SHARE
        self.old, CTX_SHARE = CTX_SHARE, self.share

    def __exit__(self, *a):
        global CTX_SHARE
        CTX_SHARE = self.old


def _pick_re(rng, rex=False):
    if CTX_SHARE and rng.random() < CTX_SHARE:
        return rng.choice(CTX_REX_POOL if rex else CTX_RE_POOL)
    return rng.choice(REX_POOL if rex else RE_POOL)


def gen_lit(rng, maxlen=4):
    n = rng.choice([1, 1, 2, 2, 3, maxlen])
    return ''.join(rng.choice(LIT_ALPHA) for _ in range(n))


def gen_wild(rng, anon_ok=True):
    k = rng.randrange(12)
    name = rng.choice(NAMES)
    if anon_ok and rng.random() < .15:
        name = None
    if k < 4:
        return ('w', name, None, None, None)
    if k < 6:
        return ('w', name, 'int', rng.choice([None, None, None, '']), None)
    if k == 6:
        return ('w', name, 'float', None, None)
    if k == 7:
        return ('w', name, 'path', None, None)
    if k < 10:
        return ('w', name, 're', _pick_re(rng), None)
    if k == 10:
        return ('w', name, 'rex', _pick_re(rng, rex=True), rng.choice([None, '1', '2', '3', '1', '2', 'x']))
    return ('w', name, 're', _pick_re(rng), None)


def gen_rule_ast(rng, base=None):
    """a rule AST; with `base` it starts with a prefix of an existing AST (possibly cut inside a
    literal run) so that rules share and split prefixes"""
    segs = []
    if base and rng.random() < .8:
        cut = rng.randint(0, len(base))
        segs = [tuple(s) for s in base[:cut]]
        if cut < len(base) and base[cut][0] == 'lit' and rng.random() < .6:
            t = base[cut][1]
            segs.append(('lit', t[:rng.randint(1, len(t))]))
        elif cut < len(base) and base[cut][0] == 'w':
            w = base[cut]
            r = rng.random()
            if r < .5:
                segs.append(('w', rng.choice(NAMES), w[2], w[3], w[4]))   # same wildcard, other name
            elif r < .85:
                segs.append(('lit', gen_lit(rng)))                         # literal sibling of a wildcard
    n = rng.choice([0, 1, 1, 2, 2, 3, 4])
    for _ in range(n):
        if rng.random() < .5:
            segs.append(('lit', gen_lit(rng)))
        else:
            segs.append(gen_wild(rng))
    if segs and segs[0][0] == 'lit' and segs[0][1].startswith('/') and rng.random() < .9:
        t = segs[0][1].lstrip('/')          # a pattern starting with '/' is refused by RadiRouter._match
        segs[0:1] = [('lit', t)] if t else []
    # merge adjacent literals
    out = []
    for s in segs:
        if s[0] == 'lit' and out and out[-1][0] == 'lit':
            out[-1] = ('lit', out[-1][1] + s[1])
        else:
            out.append(s)
    # unique names inside one rule (a repeated name is outside the domain: see Model/Router.lean)
    seen = set()
    res = []
    for s in out:
        if s[0] == 'w' and s[1] is not None:
            nm = s[1]
            while nm in seen:
                nm = nm + '_'
            seen.add(nm)
            s = ('w', nm) + tuple(s[2:])
        res.append(s)
    return res


def _balanced(a):
    lvl = 0
    i = 0
    while i < len(a):
        c = a[i]
        if c == '\\':
            i += 2
            continue
        if c == '(':
            lvl += 1
        elif c == ')':
            if lvl == 0:
                return False
            lvl -= 1
        i += 1
    return lvl == 0 and not a.endswith('\\')


def print_wild(rng, seg, nxt):
    """one of the syntax flavours that expresses the wildcard `seg`; `nxt` = the text that follows
    in the rule ('' at the end)"""
    _, name, flt, args, sel = seg
    opts = []
    if flt is None:
        if name is None:
            if nxt == '':
                opts.append(':')
        else:
            if nxt == '' or nxt[0] == '/':
                opts.append(':' + name)
            opts += ['<%s>' % name, '{%s}' % name, '<%s>' % name]
    else:
        for o, c in (('<', '>'), ('{', '}')):
            if sel is not None:
                if args is not None and _balanced(args):
                    if name is None:
                        opts += ['%s%s(%s)[%s]%s' % (o, flt, args, sel, c), '%s:%s(%s)[%s]%s' % (o, flt, args, sel, c)]
                    else:
                        opts += ['%s%s.%s(%s)[%s]%s' % (o, name, flt, args, sel, c),
                                 '%s%s:%s(%s)[%s]%s' % (o, name, flt, args, sel, c)]
                continue
            if args is None:
                if name is None:
                    opts += ['%s:%s%s' % (o, flt, c), '%s:%s:%s' % (o, flt, c)]
                else:
                    opts += ['%s%s:%s%s' % (o, name, flt, c), '%s%s.%s%s' % (o, name, flt, c),
                             '%s%s:%s:%s' % (o, name, flt, c)]
            else:
                if _balanced(args):
                    if name is None:
                        opts += ['%s%s(%s)%s' % (o, flt, args, c), '%s:%s(%s)%s' % (o, flt, args, c)]
                    else:
                        opts += ['%s%s.%s(%s)%s' % (o, name, flt, args, c), '%s%s:%s(%s)%s' % (o, name, flt, args, c)]
                if args != '' and c not in args:
                    if name is None:
                        opts += ['%s:%s:%s%s' % (o, flt, args, c)]
                    else:
                        opts += ['%s%s:%s:%s%s' % (o, name, flt, args, c), '%s%s.%s:%s%s' % (o, name, flt, args, c)]
    if not opts:
        return None
    return rng.choice(opts)


def print_rule(rng, ast):
    """rule text for an AST, or None when some wildcard has no flavour in its context"""
    out = ['/']
    for i, s in enumerate(ast):
        if s[0] == 'lit':
            out.append(s[1])
        else:
            nxt = ''
            if i + 1 < len(ast):
                nxt = ast[i + 1][1] if ast[i + 1][0] == 'lit' else '<'
            w = print_wild(rng, s, nxt)
            if w is None:
                return None
            out.append(w)
    return ''.join(out)


MALFORMED = ['/<x', '/<x.int', '/<x:int', '/a/:/b', '/:x-y', '/<1>', '/<x.>', '/<x:re:(>', '/<x.re(a>',
             '/<x.rex((a))[>', '/<x.rex((a))[\n]>', '/<x:nofilter>', '/<x:re>', 'a/b', '', '/<x>>', '/{x>',
             '/<x.int()[1]>', '/<:>', '/<x.int(\\)>', '/<x.f(a(b)c)[]]>', '/a/<x:int', '/<x.int>/<y', '/<:re:[a>']


def in_domain(rule):
    """no marker character in the rule text and no repeated wildcard name (see Model/Router.lean:
    outside, Python pairs filters and markers wrongly and the model does not follow)"""
    if TOKEN in rule:
        return False
    from ombott.router.radirouter import Route
    try:
        params = Route.parse_rule(rule)[1]
    except Exception:
        # the parse stops at the error; names seen so far cannot be paired wrongly
        return True
    return len(set(params)) == len(params)


def gen_rule(rng, asts):
    """(rule text, ast or None); always inside the model's domain"""
    for _ in range(20):
        t, ast = _gen_rule(rng, asts)
        if in_domain(t):
            return t, ast
    return '/a', [('lit', 'a')]


def _gen_rule(rng, asts):
    r = rng.random()
    if r < .06:
        t = rng.choice(MALFORMED)
        if rng.random() < .3 and asts:
            p = print_rule(rng, rng.choice(asts))
            if p:
                t = p + t.lstrip('/')
        return t, None
    if r < .09:
        ast = gen_rule_ast(rng, rng.choice(asts) if asts else None)
        ast.append(('w', 'bad', 're', rng.choice(BAD_RE), None))
        t = print_rule(rng, ast)
        return (t, None) if t else ('/<x:re:(>', None)
    for _ in range(10):
        ast = gen_rule_ast(rng, rng.choice(asts) if asts else None)
        t = print_rule(rng, ast)
        if t is not None and TOKEN not in t:
            return t, ast
    return '/a', [('lit', 'a')]


# ---------------------------------------------------------------------------------------------
# paths

SAMPLES = {
    None: ['a', 'ab', 'x1', 'é', '0', '-1', 'a-b', '', 'a.b', '\r', 'a\rb', 'b'],
    'int': ['0', '12', '-7', '007', '1', '-', '1a', '٣'],
    'float': ['1.5', '-0.25', '3', '1.', '.5', '1e3', '10.0'],
    'path': ['a/b', 'a', 'a/b/c', '/', 'x/é/1', 'a//b'],
    're': ['a', 'ab', 'abab', 'b', 'aab', '12', 'é', 'x', '', 'éé', '-1', 'a)b', '//', 'a/b', '01'],
    'rex': ['a', 'b', 'ab', '12', 'abx', 'x', 'q'],
}
RE_SAMPLES = {
    r'[a-z]+': ['a', 'ab', 'abab'], r'\d+': ['12', '0', '007'], r'[^/]+': ['a', 'x1', 'é', 'a-b'], r'a*': ['', 'a', 'aa'],
    r'a|ab': ['a', 'ab'], r'(?:ab)+': ['ab', 'abab'], r'.*': ['', 'a/b', 'x'], r'.+': ['a', 'a/b'], r'[ab]*b': ['b', 'ab', 'abb'],
    r'\w+': ['a1', 'é', 'x_'], r'é+': ['é', 'éé'], r'[0-9][0-9]': ['12', '01'], r'x?': ['x', ''], r'[^-]*': ['a', '', 'a/b'],
    r'-?1': ['1', '-1'], r'/+': ['/', '//'], r'a\)b': ['a)b'], r'[^/]*/b': ['a/b', '/b'],
    r'(a)|(b)': ['a', 'b'], r'(\d+)|([a-z]+)': ['12', 'ab'], r'(a)|b': ['a', 'b'], r'(ab?)(x)?': ['a', 'ab', 'abx'],
    r'(a)|(ab)|(.)': ['a', 'ab', 'q'],
    # context-sensitive pool: texts the filter accepts standing alone (= on the remaining text)
    r'^[a-z-]+$': ['intro', 'a-b', 'b'], r'\A[a-z]+': ['later', 'a', 'ab'], r'^\d+': ['12', '0'], r'\b\d+': ['2', '12', '007'],
    r'\b[a-z]+\b': ['ab', 'b', 'x'], r'\B[a-z0-9]+': ['a', '1b', 'ab'], r'(?<=a)\d+': ['12', '0'], r'(?<=/)[a-z]+': ['ab', 'b'],
    r'(?<!a)b+': ['b', 'bb'], r'(?<![0-9])\d+': ['12', '1'], r'(?<!/)[a-z0-9]+': ['a1', 'b', '0'], r'(?<=[ab/])x?1': ['1', 'x1'],
    r'(?m)^[a-z]+': ['ab', 'a'], r'(?<!\w)\w+': ['a1', 'é', '0'], r'\b.+': ['a/b', '1', 'a'],
    r'\b(a)|(b)': ['a', 'b'], r'(?<=a)(\d+)|([a-z]+)': ['12', 'ab'], r'^(ab?)(x)?': ['a', 'ab', 'abx'],
}
PATH_ALPHA = ['a', 'b', '/', '-', '0', '1', 'é', '\r', '\n', '.', 'x', '2']


def path_for(rng, ast):
    out = []
    for s in ast:
        if s[0] == 'lit':
            out.append(s[1])
        else:
            if s[2] in ('re', 'rex') and s[3] in RE_SAMPLES and rng.random() < .8:
                out.append(rng.choice(RE_SAMPLES[s[3]]))
            else:
                out.append(rng.choice(SAMPLES[s[2]]))
    return ''.join(out)


def mutate(rng, p):
    k = rng.randrange(9)
    pos = rng.randint(0, len(p))
    if k == 0 and p:
        pos = rng.randrange(len(p))
        return p[:pos] + p[pos + 1:]
    if k == 1:
        return p[:pos] + rng.choice(PATH_ALPHA) + p[pos:]
    if k == 2:
        return p[:pos] + '/' + p[pos:]
    if k == 3:
        return p[:pos] + '\r' + p[pos:]
    if k == 4 and p:
        pos = rng.randrange(len(p))
        return p[:pos] + rng.choice(PATH_ALPHA) + p[pos + 1:]
    if k == 5:
        return p + rng.choice(['/', '1', 'a', '/x', '\r'])
    if k == 6:
        return p[:pos]
    if k == 7:
        return p.replace('/', '//', 1)
    return p


def gen_path(rng, asts):
    r = rng.random()
    if asts and r < .85:
        p = path_for(rng, rng.choice(asts))
        m = rng.random()
        if m < .45:
            p = mutate(rng, p)
        if m < .1:
            p = mutate(rng, p)
    else:
        p = ''.join(rng.choice(PATH_ALPHA) for _ in range(rng.randint(0, 6)))
    if rng.random() < .3:
        p = rng.choice(['/', '/', '//']) + p
    if rng.random() < .1:
        p = p + '/'
    return p


# ---------------------------------------------------------------------------------------------
# playing a history on the real code

def enc_val(v):
    if isinstance(v, str):
        return 's.' + hs(v)
    return 'c.' + hs('%s:%r' % (type(v).__name__, v))


def err_name(e):
    if isinstance(e, re.error):
        return 'error'
    return type(e).__name__


def enc_kwargs(kw):
    if not kw:
        return '~'
    return ','.join('%s=%s' % (hs(k), enc_val(v)) for k, v in sorted(kw.items()))


def float_inexact(text):
    """the mask text of a `float` wildcard lies outside the domain in which the Lean model computes
    `float(text)` itself (Model/RouterBuiltinEnv.lean: exactDec): its value is shipped under
    (filter, that text) for the `…b` driver lines"""
    from harness.tables.routerbuiltin import rb_exact_float_text
    try:
        return not rb_exact_float_text(text)
    except ValueError:
        return True


def filter_handler(FF, fk):
    """the live handler of filter key `name(args)`: from the factory's cache when it is keyed that way, otherwise
    through the public `make_filter` (a tree that re-keys or drops the cache must not crash the harness)"""
    ent = FF._filter_cache.get(fk) if isinstance(getattr(FF, '_filter_cache', None), dict) else None
    if ent:
        return ent[0]
    name, args = fk.split('(', 1)
    return FF.make_filter(name, args[:-1])[0]



class Runner:
    """plays ops on a fresh application object; `line()` is the protocol line, `answers` the
    implementation's answers token by token"""

    ENV_CAP = 600
    histb = False            # render the history as `router histb` (built-in handlers computed by the model)

    def __init__(self):
        from ombott.ombott import Ombott
        from ombott.router.filter_factory import FilterFactory
        from ombott.router.radirouter import Route
        self.app = Ombott()
        self.router = self.app.router
        self.FF = FilterFactory
        self.Route = Route
        self.ops = []
        self.answers = []
        self.fkeys = []          # filters built so far in this history
        self.routes = {}         # op index -> route returned
        self.calls = []
        self.env_overflow = False

    # -- filters ------------------------------------------------------------------------
    def _scan_filters(self, rule):
        """fkeys of the rule; the ones make_filter refuses (other than an unknown name) with
        the exception name"""
        bad = []
        try:
            for part, param, flt, args, sel in self.Route.parser.iter_parse(rule[1:]):
                if not flt:
                    continue
                fk = f'{flt}({args})'
                try:
                    self.FF.make_filter(flt, args)
                    if fk not in self.fkeys:
                        self.fkeys.append(fk)
                except KeyError:
                    pass
                except Exception as e:
                    bad.append((fk, err_name(e)))
        except Exception:
            pass
        return bad

    def env_for(self, path):
        """the real handlers' answers for every (filter, suffix) the lookup of `path` can ask for"""
        entries = []
        seen = set()
        todo = [path]
        while todo:
            p = todo.pop()
            for i in range(len(p)):
                s = p[i:]
                if s in seen:
                    continue
                seen.add(s)
                for fk in self.fkeys:
                    if len(entries) >= self.ENV_CAP:
                        self.env_overflow = True
                        return entries
                    h = filter_handler(self.FF, fk)
                    v, n, sel = core.with_timeout(lambda: h(s))
                    if v is None:
                        entries.append('%s:%s=~' % (hs(fk), hs(s)))
                    else:
                        entries.append('%s:%s=%s:%d:%s' % (hs(fk), hs(s), enc_val(v), n, '~' if sel is None else sel))
                        if sel is not None:
                            todo.append(str(sel) + s[n:])
                        if fk.startswith('float(') and n < len(s) and (fk, s[:n]) not in seen and float_inexact(s[:n]):
                            # `float(text)` of a numeral the model does not convert itself
                            seen.add((fk, s[:n]))
                            entries.append('%s:%s=%s:%d:~' % (hs(fk), hs(s[:n]), enc_val(v), n))
        return entries

    @staticmethod
    def _env_txt(entries):
        return ';'.join(entries) if entries else '~'

    # -- ops ----------------------------------------------------------------------------
    def add(self, rule, methods, name=None, overwrite=False):
        idx = len(self.ops)
        bad = self._scan_filters(rule) if rule else []

        def handler(**kw):
            meth = self.app.request.environ.get('ombott.route')
            self.calls.append((idx, getattr(meth, 'name', None), kw))
            return 'h%d' % idx
        try:
            route = self.router.add(rule, methods, handler, name, overwrite=overwrite)
            self.routes[idx] = route
            ans = 'ok:' + hs(route.pattern)
        except Exception as e:
            ans = 'err:' + err_name(e)
        cerr = ';'.join('%s=%s' % (hs(k), v) for k, v in bad) if bad else '~'
        self.ops.append('A|%s|%s|%s|%d|%s' % (hs(rule), hsl([methods] if isinstance(methods, str) else methods), '~' if name is None else hs(name),
                                              1 if overwrite else 0, cerr))
        self.answers.append(ans)
        return ans

    def resolve(self, path, methods):
        env = self.env_for(path.strip('/'))
        if methods:
            ep, err = core.with_timeout(lambda: self.router.resolve(path, list(methods)))
            if ep:
                meth, kw, hooks = ep
                ans = 'hit:%d:%s:%s' % (self._hid(meth), hs(meth.name), enc_kwargs(kw))
            elif err[0] == 404:
                ans = '404'
            else:
                ans = '405:' + hs(err[2])
        else:
            r = core.with_timeout(lambda: self.router.resolve(path))
            ans = 'none' if r is None else 'route:' + hs(r.pattern)
        self.ops.append('R|%s|%s|%s' % (hs(path), hsl(methods or []), self._env_txt(env)))
        self.answers.append(ans)
        return ans

    def _hid(self, meth):
        # the handler closes over its op index
        return self._hid_of(meth.handler)

    @staticmethod
    def _hid_of(fn):
        for c in fn.__closure__ or ():
            if isinstance(c.cell_contents, int):
                return c.cell_contents
        raise core.Infra('handler without id')

    def get(self, path):
        env = self.env_for(path)
        data, extra = core.with_timeout(lambda: self.router.radidict.get(path, allow_partial=True))
        hp = core.nl([h[0] for h in extra['hooks']])
        vals = ','.join(enc_val(v) for v in extra['param_values']) or '~'
        if data:
            ans = 'hit:%s:%s:%s:%s' % (hs(data.pattern), hsl(extra['param_keys']), vals, hp)
        else:
            ans = 'miss:%s:%s:%s' % (vals, hp, hs(extra['partial']))
        self.ops.append('G|%s|%s' % (hs(path), self._env_txt(env)))
        self.answers.append(ans)
        return ans

    def wsgi(self, verb, path):
        """a request through Ombott.__call__; returns (status, allow, calls)"""
        env = self.env_for(path.strip('/'))
        st = self.wsgi_raw(verb, path)
        status, allow, calls = st
        if status == 200 and len(calls) == 1:
            idx, mname, kw = calls[0]
            ans = 'hit:%d:%s:%s' % (idx, hs(mname or ''), enc_kwargs(kw))
        elif status == 404:
            ans = '404'
        elif status == 405:
            ans = '405:' + hs(allow or '')
        else:
            ans = 'status:%s' % status
        self.ops.append('W|%s|%s|%s' % (hs(verb), hs(path), self._env_txt(env)))
        self.answers.append(ans)
        return ans

    def wsgi_raw(self, verb, path):
        import io
        self.calls = []
        got = {}

        def sr(status, headers, exc_info=None):
            got['status'] = int(status.split()[0])
            got['headers'] = headers
        environ = {
            'REQUEST_METHOD': verb, 'PATH_INFO': path.encode('utf8').decode('latin1'),
            'SERVER_NAME': 'h', 'SERVER_PORT': '80', 'wsgi.url_scheme': 'http',
            'wsgi.input': io.BytesIO(b''), 'wsgi.errors': io.StringIO(), 'SERVER_PROTOCOL': 'HTTP/1.1',
        }
        out = core.with_timeout(lambda: self.app(environ, sr))
        if hasattr(out, 'close'):
            out.close()
        allow = None
        for k, v in got.get('headers', []):
            if k.lower() == 'allow':
                allow = v
        return got.get('status'), allow, list(self.calls)

    def remove_method(self, idx, methods):
        if idx not in self.routes:           # the add it refers to was rejected: keep positions aligned
            self.ops.append('N')
            self.answers.append('skip')
            return
        self.routes[idx].remove_method(list(methods))
        self.ops.append('D|%d|%s' % (idx, hsl(methods)))
        self.answers.append('ok')

    def line(self):
        return ('router histb ' if self.histb else 'router hist ') + ' '.join(self.ops)

    def answer(self):
        return ' '.join(self.answers)


# ---------------------------------------------------------------------------------------------
# the plain rule-by-rule semantics.  Independent of the tree AND of the repository's filter
# factory: the built-in filters are re-stated here from their documentation, user regular
# expressions are compiled here from the rule's own text.

def ref_plain(s, nxt=None):
    j = s.find('/')
    j = len(s) if j < 0 else j
    return s[:j], j


def _digits_end(s, i):
    j = i
    while j < len(s) and s[j].isdecimal():      # \d: Unicode decimal digits
        j += 1
    return j


def ref_int(s, nxt=None):
    """optional '-', then digits; value int(text)"""
    i = 1 if s[:1] == '-' else 0
    j = _digits_end(s, i)
    if j == i:
        return None
    return int(s[:j]), j


def ref_float(s, nxt=None):
    """optional '-', digits, optionally '.' and digits; value float(text)"""
    i = 1 if s[:1] == '-' else 0
    j = _digits_end(s, i)
    if j == i:
        return None
    if s[j:j + 1] == '.':
        k = _digits_end(s, j + 1)
        if k > j + 1:
            j = k
    return float(s[:j]), j


def ref_path(s, nxt):
    """followed by literal text L in the rule: the longest non-empty prefix of the remaining path
    (not running over a newline) that is followed by L taken literally, matched once; at the end
    of the rule: the whole non-empty rest"""
    nl = s.find('\n')
    maxk = len(s) if nl < 0 else nl
    if nxt == '':
        if maxk == len(s) or maxk == len(s) - 1:
            return (s[:maxk], maxk) if maxk > 0 else None
        return None
    for k in range(maxk, 0, -1):
        if s.startswith(nxt, k):
            return s[:k], k
    return None


def make_ref(flt, args, nxt):
    """the reference handler of one wildcard: text -> None | 'skip' | (value, consumed).
    `nxt` = the literal text that follows in the rule ('' at the end, None before a wildcard)."""
    if not flt:
        return ref_plain
    if flt == 'int':
        return ref_int
    if flt == 'float':
        return ref_float
    if flt == 'path':
        if nxt is None:
            return lambda s, n=None: 'skip'       # `path` directly before another wildcard: undocumented
        return lambda s, n=None: ref_path(s, nxt)
    if flt == 're' and args is not None:
        rx = re.compile(args)

        def f(s, n=None):
            m = rx.match(s)
            return None if m is None else (m.group(), m.end())
        return f
    return lambda s, n=None: 'skip'               # rex (selectors), unknown


def rule_spec(rule):
    """(pattern string, reference handlers, parameter names) of a rule text.  Only the syntax
    (where literal text, names, filter names and arguments are) is taken from the repository's
    parser; pattern, names and filter semantics are rebuilt here."""
    from ombott.router.radirouter import Route
    parts = list(Route.parser.iter_parse(rule[1:]))
    pattern, funcs, params = '', [], []
    anon = 0
    for i, (part, param, flt, args, sel) in enumerate(parts):
        if part:
            pattern += part
            continue
        pattern += TOKEN + (sel or '')
        if i + 1 < len(parts):
            nxt = parts[i + 1][0]            # None when a wildcard follows
        else:
            nxt = ''
        funcs.append(make_ref(flt, args, nxt))
        if param:
            params.append(param)
        else:
            params.append('anon-%d' % anon)
            anon += 1
    return pattern, funcs, params


def match_rule(pattern, filters, path):
    """left to right: literal text must be next; a wildcard needs something left and takes what
    its filter says, once.  Returns the values, None, or 'skip' (outside the plain semantics)."""
    i = 0
    fi = 0
    vals = []
    for ch in pattern:
        if ch != TOKEN:
            if i < len(path) and path[i] == ch:
                i += 1
            else:
                return None
        else:
            f = filters[fi]
            fi += 1
            if i >= len(path):
                return None
            r = f(path[i:])
            if r == 'skip':
                return 'skip'
            if r is None:
                return None
            vals.append(r[0])
            i += r[1]
    return vals if i == len(path) else None


def prio(p, q):
    """p wins over q: at the first index where they differ p holds literal text, q a wildcard"""
    for a, b in zip(p, q):
        if a != b:
            return a != TOKEN and b == TOKEN
    return False


def spec_resolve(rules, path):
    """rules = {pattern: filters}.  Returns ('none',) | ('one', pattern, vals) | ('skip',)"""
    hits = []
    for pat, flt in rules.items():
        m = match_rule(pat, flt, path)
        if m == 'skip':
            return ('skip',)
        if m is not None:
            hits.append((pat, m))
    if not hits:
        return ('none',)
    best = [h for h in hits if all(h is o or prio(h[0], o[0]) for o in hits)]
    if len(best) != 1:
        return ('skip',)
    return ('one', best[0][0], best[0][1])
