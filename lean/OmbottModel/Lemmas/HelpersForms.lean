import OmbottModel.Model.FormsDict
import OmbottModel.Lemmas.QsDict
import OmbottModel.Lemmas.Text
import OmbottModel.Lemmas.Cookies
import OmbottModel.Lemmas.CookieTok
/-! Reading a `FormsDict` built by `parse_qsl`'s promotion closure, and a `CookieDict` built from a returned cookie. -/
namespace Ombott.Qs
open Py

theorem Dict.get?_table {β} (l : List Str) (f : Str → β) (k : Str) :
    Dict.get? (l.map fun k' => (k', f k')) k = if k ∈ l then some (f k) else none := by
  induction l with
  | nil => rfl
  | cons a r ih =>
    simp only [List.map_cons, Dict.get?_cons, ih, List.mem_cons]
    by_cases h : a = k
    · subst h; simp
    · have : ¬ k = a := fun e => h e.symm
      simp [h, this]

/-- looking a key up in the dictionary a form reads as: the value(s) submitted under it, or nothing -/
theorem group_get? (ps : List (Str × Str)) (k : Str) :
    (group ps).get? k = if valuesOf k ps = [] then none else some (valOf (valuesOf k ps)) := by
  unfold group
  rw [Dict.get?_table]
  by_cases h : valuesOf k ps = []
  · have : k ∉ firstKeys ps := fun hm => (mem_firstKeys ps k).mp hm h
    simp [h, this]
  · have : k ∈ firstKeys ps := (mem_firstKeys ps k).mpr h
    simp [h, this]

theorem valuesOf_eq_nil_iff (ps : List (Str × Str)) (k : Str) : valuesOf k ps = [] ↔ k ∉ ps.map (·.1) := by
  unfold valuesOf
  simp only [List.map_eq_nil_iff, List.filter_eq_nil_iff, decide_eq_true_eq, List.mem_map, not_exists, not_and]

end Ombott.Qs

namespace Ombott.FormsDict
open Py

/-- ASCII text is its own Latin-1 and UTF-8 encoding -/
theorem latin1Enc_ascii (s : Str) (h : ∀ c ∈ s, c.toNat < 128) : latin1Enc s = some (Py.utf8Enc s) := by
  induction s with
  | nil => rfl
  | cons c r ih =>
    have hc := h c (by simp)
    have hlt : c.toNat < 256 := by omega
    simp only [latin1Enc, hlt, if_true, ih (fun d hd => h d (by simp [hd])), Option.map_some, Py.utf8Enc,
      List.flatMap_cons]
    rw [Py.utf8EncodeChar_ascii c (by omega)]
    rfl

theorem utf8Enc_isEmpty (s : Str) : (Py.utf8Enc s).isEmpty = s.isEmpty := by
  cases s with
  | nil => rfl
  | cons c r =>
    have h0 : utf8Dec [] = some [] := utf8Dec_utf8Enc []
    have h1 := utf8Dec_utf8Enc (c :: r)
    cases hb : Py.utf8Enc (c :: r) with
    | nil => rw [hb, h0] at h1; cases h1
    | cons _ _ => rfl

/-- `_fix` leaves ASCII text alone, for the UTF-8, Latin-1 and ASCII codecs alike -/
theorem fix_ascii (s enc : Str) (h : ∀ c ∈ s, c.toNat < 128) (hc : (codecOf enc).isSome = true) : fix s enc = .ok s := by
  unfold fix
  rw [latin1Enc_ascii s h]
  simp only [decodeWith]
  rw [utf8Enc_isEmpty]
  cases s with
  | nil => rfl
  | cons c r =>
    simp only [List.isEmpty_cons, Bool.false_eq_true, if_false]
    have hb : ∀ b ∈ Py.utf8Enc (c :: r), b.toNat < 128 := by
      intro b hb
      simp only [Py.utf8Enc, List.mem_flatMap] at hb
      obtain ⟨x, hx, hbx⟩ := hb
      have hx' := h x hx
      rw [Py.utf8EncodeChar_ascii x (by omega)] at hbx
      simp only [List.mem_singleton] at hbx
      subst hbx
      simp only [UInt8.toNat_ofNat']
      omega
    have hl : latin1Dec (Py.utf8Enc (c :: r)) = c :: r := by
      have := transcode_ascii (c :: r) (fun x hx => by have := h x hx; omega)
      exact this
    cases hcod : codecOf enc with
    | none => rw [hcod] at hc; cases hc
    | some cd =>
      cases cd with
      | utf8 => simp only [utf8Dec_utf8Enc]
      | latin1 => simp only [hl]
      | ascii =>
        have : (Py.utf8Enc (c :: r)).all (fun x => decide (x.toNat < 128)) = true := by
          simp only [List.all_eq_true, decide_eq_true_eq]; exact hb
        simp only [this, if_true, hl]

theorem sget?_single (k v : Str) : sget? [(k, v)] k = some v := by simp [sget?]

end Ombott.FormsDict
