import OmbottModel.Model.FormsDict
import OmbottModel.Lemmas.QsDict
import OmbottModel.Lemmas.Text
import OmbottModel.Lemmas.Cookies
import OmbottModel.Lemmas.CookieTok
/-! Reading a `FormsDict` built by `parse_qsl`'s promotion closure, and a `CookieDict` built from a returned cookie. -/
namespace Ombott.Qs
open Py

theorem Dict.get?_table {β} (l : List Str) (f : Str → β) (k : Str) :
    Dict.get? (l.map fun k' => (k', f k')) k = if k ∈ l then some (f k) else none := by
  induction l with
  | nil => rfl
  | cons a r ih =>
    simp only [List.map_cons, Dict.get?_cons, ih, List.mem_cons]
    by_cases h : a = k
    · subst h; simp
    · have : ¬ k = a := fun e => h e.symm
      simp [h, this]

/-- looking a key up in the dictionary a form reads as: the value(s) submitted under it, or nothing -/
theorem group_get? (ps : List (Str × Str)) (k : Str) :
    (group ps).get? k = if valuesOf k ps = [] then none else some (valOf (valuesOf k ps)) := by
  unfold group
  rw [Dict.get?_table]
  by_cases h : valuesOf k ps = []
  · have : k ∉ firstKeys ps := fun hm => (mem_firstKeys ps k).mp hm h
    simp [h, this]
  · have : k ∈ firstKeys ps := (mem_firstKeys ps k).mpr h
    simp [h, this]

theorem valuesOf_eq_nil_iff (ps : List (Str × Str)) (k : Str) : valuesOf k ps = [] ↔ k ∉ ps.map (·.1) := by
  unfold valuesOf
  simp only [List.map_eq_nil_iff, List.filter_eq_nil_iff, decide_eq_true_eq, List.mem_map, not_exists, not_and]

end Ombott.Qs

namespace Ombott.FormsDict
open Py

/-- ASCII text is its own Latin-1 and UTF-8 encoding -/
theorem latin1Enc_ascii (s : Str) (h : ∀ c ∈ s, c.toNat < 128) : latin1Enc s = some (Py.utf8Enc s) := by
  induction s with
  | nil => rfl
  | cons c r ih =>
    have hc := h c (by simp)
    have hlt : c.toNat < 256 := by omega
    simp only [latin1Enc, hlt, if_true, ih (fun d hd => h d (by simp [hd])), Option.map_some, Py.utf8Enc,
      List.flatMap_cons]
    rw [Py.utf8EncodeChar_ascii c (by omega)]
    rfl

theorem utf8Enc_isEmpty (s : Str) : (Py.utf8Enc s).isEmpty = s.isEmpty := by
  cases s with
  | nil => rfl
  | cons c r =>
    have h0 : utf8Dec [] = some [] := utf8Dec_utf8Enc []
    have h1 := utf8Dec_utf8Enc (c :: r)
    cases hb : Py.utf8Enc (c :: r) with
    | nil => rw [hb, h0] at h1; cases h1
    | cons _ _ => rfl

/-- `_fix` leaves ASCII text alone, for the UTF-8, Latin-1 and ASCII codecs alike -/
theorem fix_ascii (s enc : Str) (h : ∀ c ∈ s, c.toNat < 128) (hc : (codecOf enc).isSome = true) : fix s enc = .ok s := by
  unfold fix
  rw [latin1Enc_ascii s h]
  simp only [decodeWith]
  rw [utf8Enc_isEmpty]
  cases s with
  | nil => rfl
  | cons c r =>
    simp only [List.isEmpty_cons, Bool.false_eq_true, if_false]
    have hb : ∀ b ∈ Py.utf8Enc (c :: r), b.toNat < 128 := by
      intro b hb
      simp only [Py.utf8Enc, List.mem_flatMap] at hb
      obtain ⟨x, hx, hbx⟩ := hb
      have hx' := h x hx
      rw [Py.utf8EncodeChar_ascii x (by omega)] at hbx
      simp only [List.mem_singleton] at hbx
      subst hbx
      simp only [UInt8.toNat_ofNat']
      omega
    have hl : latin1Dec (Py.utf8Enc (c :: r)) = c :: r := by
      have := transcode_ascii (c :: r) (fun x hx => by have := h x hx; omega)
      exact this
    cases hcod : codecOf enc with
    | none => rw [hcod] at hc; cases hc
    | some cd =>
      cases cd with
      | utf8 => simp only [utf8Dec_utf8Enc]
      | latin1 => simp only [hl]
      | ascii =>
        have : (Py.utf8Enc (c :: r)).all (fun x => decide (x.toNat < 128)) = true := by
          simp only [List.all_eq_true, decide_eq_true_eq]; exact hb
        simp only [this, if_true, hl]

theorem sget?_single (k v : Str) : sget? [(k, v)] k = some v := by simp [sget?]

theorem fix_error (s enc : Str) (x : HErr) (hx : fix s enc = .error x) :
    x = .unicodeError ∨ (codecOf enc = none ∧ x = .lookupError) := by
  unfold fix at hx
  split at hx
  · cases hx; exact Or.inl rfl
  · unfold decodeWith at hx
    split at hx
    · cases hx
    · cases hcod : codecOf enc with
      | none => rw [hcod] at hx; cases hx; exact Or.inr ⟨rfl, rfl⟩
      | some cd =>
        rw [hcod] at hx
        cases cd with
        | utf8 => simp only at hx; split at hx <;> cases hx; exact Or.inl rfl
        | latin1 => cases hx
        | ascii => simp only at hx; split at hx <;> cases hx; exact Or.inl rfl

theorem decodeGo_error (enc : Str) (items acc : List (Str × Str)) (x : HErr) (hx : decodeGo enc items acc = .error x) :
    x = .unicodeError ∨ (codecOf enc = none ∧ x = .lookupError) := by
  induction items generalizing acc with
  | nil => cases hx
  | cons p r ih =>
    obtain ⟨k, v⟩ := p
    unfold decodeGo at hx
    cases hv : fix v enc with
    | error y => rw [hv] at hx; cases hx; exact fix_error v enc _ hv
    | ok v' =>
      rw [hv] at hx
      cases hk : fix k enc with
      | error y => rw [hk] at hx; cases hx; exact fix_error k enc _ hk
      | ok k' => rw [hk] at hx; exact ih _ hx

theorem cookiedict_getunicode_ok (c : CD) (henc : (codecOf c.enc).isSome = true) (name : Str) (d : Option Str := none) :
    ∃ r, cdGetunicode c name d none = .ok r := by
  unfold cdGetunicode
  simp only [Option.getD_none]
  cases hg : cdGetitem c name with
  | error y =>
    have : y = .keyError := by
      unfold cdGetitem at hg; split at hg <;> cases hg; rfl
    subst this; exact ⟨_, rfl⟩
  | ok v =>
    simp only
    cases hf : fix v c.enc with
    | ok s => exact ⟨_, rfl⟩
    | error y =>
      rcases fix_error v c.enc y hf with rfl | h
      · exact ⟨_, rfl⟩
      · rw [h.1] at henc; cases henc


section
open Ombott.Qs
/-- what every accessor answers on the dictionary a form with the submitted pairs `ps` reads as -/
theorem accessors_on_group (ps : List (Str × Str)) (k : Str) (dflt : Option Val) :
    fdGetitem (group ps) k = (if k ∈ ps.map (·.1) then .ok (valOf (valuesOf k ps)) else .error .keyError) ∧
    fdGet (group ps) k dflt = (if k ∈ ps.map (·.1) then some (valOf (valuesOf k ps)) else dflt) ∧
    fdContains (group ps) k = decide (k ∈ ps.map (·.1)) ∧
    fdKeys (group ps) = firstKeys ps ∧ fdLen (group ps) = (firstKeys ps).length ∧ fdCopy (group ps) = group ps := by
  have hg := group_get? ps k
  have hiff := valuesOf_eq_nil_iff ps k
  refine ⟨?_, ?_, ?_, group_keys ps, ?_, rfl⟩
  · unfold fdGetitem
    rw [hg]
    by_cases h : k ∈ ps.map (·.1)
    · have : ¬ valuesOf k ps = [] := fun e => (hiff.mp e) h
      simp [h, this]
    · simp [h, hiff.mpr h]
  · unfold fdGet
    rw [hg]
    by_cases h : k ∈ ps.map (·.1)
    · have : ¬ valuesOf k ps = [] := fun e => (hiff.mp e) h
      simp [h, this]
    · simp [h, hiff.mpr h]
  · unfold fdContains
    rw [hg]
    by_cases h : k ∈ ps.map (·.1)
    · have : ¬ valuesOf k ps = [] := fun e => (hiff.mp e) h
      simp [h, this]
    · simp [h, hiff.mpr h]
  · unfold fdLen
    rw [← group_keys ps, List.length_map]

end

end Ombott.FormsDict
