import OmbottModel.Lemmas.RouterGet
/-!
Soundness of the lookup for *every* filter environment, `rex` selectors included: a hit is a
rule of the tree whose pattern matches the path in the selector-aware sense `MatchSel`, with the
values the filters answered.  (Completeness and priority are `getN_core`, for environments
without selectors.)
-/
namespace Ombott.Router
open Py

/-- selector-aware matching of one rule: as `matchRule`, but after a wildcard whose filter
answers with selector `s` the rest of the pattern may also be matched against
`str(s) + remaining text` -/
inductive MatchSel (env : FilterEnv) : List Sym → Str → List Val → Prop
  | nil : MatchSel env [] [] []
  | lit {c ps p vs} : MatchSel env ps p vs → MatchSel env (.lit c :: ps) (c :: p) vs
  | tok {f ps rest r vs} : rest ≠ [] → tokRes env f rest = some r →
      MatchSel env ps (rest.drop r.n) vs → MatchSel env (.tok f :: ps) rest (r.val :: vs)
  | tokSel {f ps rest r s vs} : rest ≠ [] → tokRes env f rest = some r → r.sel = some s →
      MatchSel env ps (natStr s ++ rest.drop r.n) vs → MatchSel env (.tok f :: ps) rest (r.val :: vs)

theorem MatchSel.lits {env : FilterEnv} (k : Str) {ps : List Sym} {p rest : Str} {vs : List Val}
    (hs : stripPre k p = some rest) (h : MatchSel env ps rest vs) :
    MatchSel env (litSyms k ++ ps) p vs := by
  induction k generalizing p with
  | nil => simp only [stripPre, Option.some.injEq] at hs; subst hs; simpa [litSyms] using h
  | cons c cs ih =>
    cases p with
    | nil => simp [stripPre] at hs
    | cons d p' =>
      simp only [stripPre] at hs
      split at hs
      · rename_i hcd
        have : c = d := by simpa using hcd
        subst this
        simp only [litSyms, List.map_cons, List.cons_append]
        exact MatchSel.lit (ih hs)
      · cases hs

/-- what a hit says -/
def HitSound (env : FilterEnv) (l : List Rule) (vals0 : List Val) (path : Str) (r : Res) : Prop :=
  ∀ d keys vs, r.core = some (d, keys, vs) →
    ∃ rule ∈ l, rule.data = d ∧ rule.keys = keys ∧ ∃ vs', vs = vals0 ++ vs' ∧ MatchSel env rule.pat path vs'

theorem HitSound.miss (env : FilterEnv) (l : List Rule) (v0 : List Val) (p : Str) (a : Acc) :
    HitSound env l v0 p a.miss := by
  intro d keys vs h; simp [Acc.miss, Res.core] at h

theorem HitSound.mono {env : FilterEnv} {l l' : List Rule} {v0 : List Val} {p : Str} {r : Res}
    (h : HitSound env l v0 p r) (hsub : ∀ x ∈ l, x ∈ l') : HitSound env l' v0 p r := by
  intro d keys vs hc
  obtain ⟨rule, hm, h1, h2, h3⟩ := h d keys vs hc
  exact ⟨rule, hsub rule hm, h1, h2, h3⟩

theorem orTok_sound {env : FilterEnv} {l : List Rule} {v0 : List Val} {p : Str}
    (lit : Option Res) (hasTok : Bool) (alt : Unit → Res)
    (h1 : ∀ r, lit = some r → HitSound env l v0 p r) (h2 : HitSound env l v0 p (alt ())) :
    HitSound env l v0 p (Res.orTok lit hasTok alt) := by
  cases lit with
  | none => exact h2
  | some r =>
    cases r with
    | hit d k v hk => exact h1 _ rfl
    | miss v hk pp =>
      cases hasTok with
      | true => exact h2
      | false => exact h1 _ rfl

mutual
theorem getN_sound (env : FilterEnv) (n : Node) (a : Acc) (path : Str) :
    HitSound env (denN n) a.vals path (getN env n a path) := by
  match n, path with
  | .mk k d pk f hk lits tok, [] =>
    intro d' keys vs h
    simp only [getN, Acc.atEnd] at h
    cases d with
    | none => simp [Acc.miss, Res.core] at h
    | some v =>
      simp only [Res.core, Option.some.injEq, Prod.mk.injEq] at h
      obtain ⟨rfl, rfl, rfl⟩ := h
      exact ⟨⟨[], v, pk⟩, by simp [denN, ownRule], rfl, rfl, [], by simp, MatchSel.nil⟩
  | .mk k d pk f hk lits tok, c :: p =>
    simp only [getN]
    apply orTok_sound
    · intro r hr
      exact (getL_sound env lits a c p r hr).mono (by intro x hx; simp [denN, hx])
    · exact (getT_sound env tok a (c :: p) (by simp)).mono (by intro x hx; simp [denN, hx])
theorem getT_sound (env : FilterEnv) (t : Option Node) (a : Acc) (path : Str) (hne : path ≠ []) :
    HitSound env (denT t) a.vals path (getT env t a path) := by
  match t with
  | none => exact HitSound.miss env _ _ _ a
  | some t =>
    simp only [getT, tokStep]
    cases he : tokRes env t.filter path with
    | none => exact HitSound.miss env _ _ _ a
    | some r =>
      obtain ⟨v, n, sel⟩ := r
      have lift : ∀ (a' : Acc) (path' : Str), a'.vals = a.vals ++ [v] →
          (∀ ps vs', MatchSel env ps path' vs' → MatchSel env (.tok t.filter :: ps) path (v :: vs')) →
          HitSound env (denT (some t)) a.vals path (getN env t a' path') := by
        intro a' path' hv hm d keys vs hc
        obtain ⟨rule, hmem, h1, h2, vs', h3, h4⟩ := getN_sound env t a' path' d keys vs hc
        refine ⟨rule.under [Sym.tok t.filter], ?_, h1, h2, v :: vs', ?_, ?_⟩
        · simp only [denT, List.mem_map]; exact ⟨rule, hmem, rfl⟩
        · rw [h3, hv]; simp
        · exact hm rule.pat vs' h4
      cases sel with
      | none =>
        simp only
        apply lift
        · simp
        · intro ps vs' hm
          exact MatchSel.tok (r := ⟨v, n, none⟩) hne he hm
      | some s =>
        simp only
        intro d keys vs hc
        unfold Res.orElse at hc
        split at hc
        · rename_i d0 k0 v0 h0 heq
          refine lift _ _ ?_ ?_ d keys vs (by rw [heq]; exact hc)
          · simp
          · intro ps vs' hm
            exact MatchSel.tokSel (r := ⟨v, n, some s⟩) hne he rfl hm
        · refine lift _ _ ?_ ?_ d keys vs hc
          · simp
          · intro ps vs' hm
            exact MatchSel.tok (r := ⟨v, n, some s⟩) hne he hm
theorem getL_sound (env : FilterEnv) (ks : List Node) (a : Acc) (c : Char) (p : Str) (r : Res)
    (hr : getL env ks a c p = some r) : HitSound env (denL ks) a.vals (c :: p) r := by
  match ks with
  | [] => simp [getL] at hr
  | k :: ks =>
    simp only [getL] at hr
    split at hr
    · simp only [Option.some.injEq] at hr
      subst hr
      cases hs : stripPre k.key (c :: p) with
      | none => simp only [Option.elim]; exact HitSound.miss env _ _ _ a
      | some rest =>
        simp only [Option.elim]
        intro d keys vs hc
        obtain ⟨rule, hmem, h1, h2, vs', h3, h4⟩ := getN_sound env k _ rest d keys vs hc
        refine ⟨rule.under (litSyms k.key), ?_, h1, h2, vs', ?_, ?_⟩
        · simp only [denL, List.mem_append, List.mem_map]; exact Or.inl ⟨rule, hmem, rfl⟩
        · rw [h3]; simp
        · exact MatchSel.lits k.key hs h4
    · exact (getL_sound env ks a c p r hr).mono (by intro x hx; simp [denL, hx])
end

/-- under `NoSel` the selector-aware relation is the plain matcher -/
theorem MatchSel.matchRule {env : FilterEnv} (hs : NoSel env) {ps : List Sym} {p : Str} {vs : List Val}
    (h : MatchSel env ps p vs) : matchRule env ps p = some vs := by
  induction h with
  | nil => rfl
  | lit _ ih => simp [Ombott.Router.matchRule, ih]
  | @tok f ps rest r vs hne he _ ih =>
    cases rest with
    | nil => exact absurd rfl hne
    | cons d p => simp [Ombott.Router.matchRule, he, ih]
  | @tokSel f ps rest r s vs hne he hsel _ _ =>
    have := tokRes_noSel hs he
    rw [hsel] at this; cases this

/-- every value of a selector-aware match is a filter answer on some non-empty text -/
theorem MatchSel.vals {env : FilterEnv} {ps : List Sym} {p : Str} {vs : List Val}
    (h : MatchSel env ps p vs) :
    ∀ v ∈ vs, ∃ f s r, Sym.tok f ∈ ps ∧ s ≠ [] ∧ tokRes env f s = some r ∧ r.val = v := by
  induction h with
  | nil => intro v hv; cases hv
  | lit _ ih =>
    intro v hv
    obtain ⟨f, s, r, h1, h2, h3, h4⟩ := ih v hv
    exact ⟨f, s, r, by simp [h1], h2, h3, h4⟩
  | @tok f ps rest r vs hne he _ ih =>
    intro v hv
    rcases List.mem_cons.mp hv with rfl | hv
    · exact ⟨f, rest, r, by simp, hne, he, rfl⟩
    · obtain ⟨f', s, r', h1, h2, h3, h4⟩ := ih v hv
      exact ⟨f', s, r', by simp [h1], h2, h3, h4⟩
  | @tokSel f ps rest r s vs hne he _ _ ih =>
    intro v hv
    rcases List.mem_cons.mp hv with rfl | hv
    · exact ⟨f, rest, r, by simp, hne, he, rfl⟩
    · obtain ⟨f', s', r', h1, h2, h3, h4⟩ := ih v hv
      exact ⟨f', s', r', by simp [h1], h2, h3, h4⟩

/-- number of wildcards (as `countToks` of `Lemmas/RouterResolve.lean`, kept local to avoid the import) -/
def tokCount : List Sym → Nat
  | [] => 0
  | .lit _ :: p => tokCount p
  | .tok _ :: p => tokCount p + 1

theorem MatchSel.length {env : FilterEnv} {ps : List Sym} {p : Str} {vs : List Val}
    (h : MatchSel env ps p vs) : vs.length = tokCount ps := by
  induction h with
  | nil => rfl
  | lit _ ih => simpa [tokCount] using ih
  | tok _ _ _ ih => simp [tokCount, ih]
  | tokSel _ _ _ _ ih => simp [tokCount, ih]

end Ombott.Router
