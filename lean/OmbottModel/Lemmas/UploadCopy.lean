import OmbottModel.Model.Upload
/-! Helper lemmas for `FileUpload._copy_file` and the `BytesIOProxy` window (C07, upload object). -/
namespace Ombott.Upload
open Py Ombott.Forms

/-! ### a file object with short reads -/

theorem sfile_read_spec (f : SFile) (n : Int) (hn : 0 < n) :
    ∃ k : Nat, 1 ≤ k ∧ (k : Int) ≤ n ∧ (f.read n).1 = (f.data.drop f.pos).take k ∧
      (f.read n).2.data = f.data ∧ (f.read n).2.pos = f.pos + (f.read n).1.length := by
  have hneg : ¬ n < 0 := by omega
  cases hs : f.sched with
  | nil =>
    exact ⟨n.toNat, by omega, by omega, by simp [SFile.read, hs, hneg], by simp [SFile.read],
      by simp [SFile.read, hs, hneg]⟩
  | cons x xs =>
    exact ⟨min n.toNat (max x 1), by omega, by omega, by simp [SFile.read, hs, hneg], by simp [SFile.read],
      by simp [SFile.read, hs, hneg]⟩

theorem copyLoop_sfile (chunk : Int) (hc : 0 < chunk) :
    ∀ (fuel : Nat) (f : SFile), f.data.length - f.pos + 1 ≤ fuel →
      ∃ ps f', copyLoop sfileOps chunk fuel f = some (.ok (ps, f')) ∧
        ps.flatten = f.data.drop f.pos ∧ (∀ p ∈ ps, p ≠ [] ∧ (p.length : Int) ≤ chunk) ∧
        f'.data = f.data := by
  intro fuel
  induction fuel with
  | zero => intro f h; omega
  | succ fuel ih =>
    intro f hf
    obtain ⟨k, hk1, hk2, hout, hdata, hpos⟩ := sfile_read_spec f chunk hc
    unfold copyLoop
    simp only [sfileOps]
    by_cases he : (f.read chunk).1 = []
    · simp only [he, List.isEmpty_nil, ↓reduceIte]
      refine ⟨[], _, rfl, ?_, by simp, hdata⟩
      rw [he] at hout
      have : f.data.drop f.pos = [] := by
        cases hr : f.data.drop f.pos with
        | nil => rfl
        | cons a as => rw [hr] at hout; cases k with
          | zero => omega
          | succ k => simp at hout
      simp [this]
    · have hne : (f.read chunk).1.isEmpty = false := by simpa using he
      simp only [hne, Bool.false_eq_true, ↓reduceIte]
      have hlen : 1 ≤ (f.read chunk).1.length := by
        cases h : (f.read chunk).1 with
        | nil => exact absurd h he
        | cons a as => simp
      have hle : (f.read chunk).1.length ≤ k := by rw [hout]; simp [List.length_take]; omega
      have hle2 : (f.read chunk).1.length ≤ f.data.length - f.pos := by
        rw [hout]; simp [List.length_take]; omega
      obtain ⟨ps, f', h1, h2, h3, h4⟩ := ih (f.read chunk).2 (by rw [hdata, hpos]; omega)
      simp only [sfileOps] at h1
      rw [h1]
      refine ⟨(f.read chunk).1 :: ps, f', rfl, ?_, ?_, by rw [h4, hdata]⟩
      · rw [List.flatten_cons, h2, hdata, hpos, ← List.drop_drop]
        have : (f.read chunk).1 = (f.data.drop f.pos).take (f.read chunk).1.length := by
          conv => lhs; rw [hout]
          rw [hout, List.length_take, List.take_eq_take_iff]
          omega
        conv => lhs; lhs; rw [this]
        exact List.take_append_drop _ _
      · intro p hp
        simp only [List.mem_cons] at hp
        rcases hp with rfl | hp
        · exact ⟨he, by omega⟩
        · exact h3 p hp

/-! ### the proxy window -/

/-- the window as a slice of the body -/
def window (body : Bytes) (a b : Nat) : Bytes := (body.drop a).take (b - a)

theorem proxyRead_open (body : Bytes) (sp : Bool) (st en pos : Nat) (sz : Option Int)
    (h2 : pos ≤ en) (h3 : en ≤ body.length) :
    ∃ m : Nat, pos + m ≤ en ∧
      proxyRead false ⟨st, en, pos⟩ body sp sz = .ok ((body.drop pos).take m, ⟨st, en, ((pos + m : Nat) : Int)⟩) ∧
      ((body.drop pos).take m).length = m ∧
      (m = match sz with
        | some k => if k > 0 then min k.toNat (en - pos) else en - pos
        | none => en - pos) := by
  unfold proxyRead
  by_cases hz : ((en : Int) - (pos : Int)) ≤ 0
  · have : pos = en := by omega
    subst this
    refine ⟨0, by omega, ?_, by simp, ?_⟩
    · simp
    · cases sz with
      | none => simp
      | some k => simp
  · simp only [hz, ↓reduceIte, Bool.false_eq_true, Proxy.read, srcRead]
    have hp : ¬ ((pos : Int) < 0) := by omega
    simp only [hp, ↓reduceIte]
    cases sz with
    | none =>
      refine ⟨en - pos, by omega, ?_, by simp [List.length_take]; omega, rfl⟩
      have h0 : ¬ ((en : Int) - (pos : Int) < 0) := by omega
      simp only [h0, ↓reduceIte, Int.toNat_natCast]
      have e1 : ((en : Int) - (pos : Int)).toNat = en - pos := by omega
      have e2 : (pos : Int) + ((en : Int) - (pos : Int)) = ((pos + (en - pos) : Nat) : Int) := by omega
      rw [e1, e2]
    | some k =>
      by_cases hk : k > 0
      · refine ⟨min k.toNat (en - pos), by omega, ?_, by simp [List.length_take]; omega, by simp [hk]⟩
        simp only [hk, ↓reduceIte]
        have h0 : ¬ (min k ((en : Int) - (pos : Int)) < 0) := by omega
        simp only [h0, ↓reduceIte, Int.toNat_natCast]
        have e1 : (min k ((en : Int) - (pos : Int))).toNat = min k.toNat (en - pos) := by omega
        have e2 : (pos : Int) + min k ((en : Int) - (pos : Int)) = ((pos + min k.toNat (en - pos) : Nat) : Int) := by omega
        rw [e1, e2]
      · refine ⟨en - pos, by omega, ?_, by simp [List.length_take]; omega, by simp [hk]⟩
        simp only [hk, ↓reduceIte]
        have h0 : ¬ ((en : Int) - (pos : Int) < 0) := by omega
        simp only [h0, ↓reduceIte, Int.toNat_natCast]
        have e1 : ((en : Int) - (pos : Int)).toNat = en - pos := by omega
        have e2 : (pos : Int) + ((en : Int) - (pos : Int)) = ((pos + (en - pos) : Nat) : Int) := by omega
        rw [e1, e2]

theorem copyLoop_proxy (body : Bytes) (sp : Bool) (chunk : Int) (st en : Nat) (h3 : en ≤ body.length) :
    ∀ (fuel pos : Nat), pos ≤ en → en - pos + 1 ≤ fuel →
      ∃ ps, copyLoop (proxyOps body sp false) chunk fuel ⟨st, en, pos⟩ = some (.ok (ps, ⟨st, en, en⟩)) ∧
        ps.flatten = window body pos en ∧ (∀ p ∈ ps, p ≠ [] ∧ (0 < chunk → (p.length : Int) ≤ chunk)) := by
  intro fuel
  induction fuel with
  | zero => intro pos _ h; omega
  | succ fuel ih =>
    intro pos h2 hf
    obtain ⟨m, hm, hread, hlen, hmdef⟩ := proxyRead_open body sp st en pos (some chunk) h2 h3
    unfold copyLoop
    simp only [proxyOps, hread]
    by_cases hm0 : m = 0
    · subst hm0
      have hpe : pos = en := by
        simp only at hmdef
        split at hmdef <;> omega
      subst hpe
      simp only [List.take_zero, List.isEmpty_nil, ↓reduceIte, Nat.add_zero]
      exact ⟨[], rfl, by simp [window], by simp⟩
    · have hne : ((body.drop pos).take m).isEmpty = false := by
        cases h : (body.drop pos).take m with
        | nil => rw [h] at hlen; simp at hlen; omega
        | cons a as => rfl
      simp only [hne, Bool.false_eq_true, ↓reduceIte]
      obtain ⟨ps, h1, hfl, hps⟩ := ih (pos + m) hm (by omega)
      simp only [proxyOps] at h1
      rw [h1]
      refine ⟨_ :: ps, rfl, ?_, ?_⟩
      · rw [List.flatten_cons, hfl]
        unfold window
        rw [← List.drop_drop]
        have : en - pos = m + (en - (pos + m)) := by omega
        rw [this, List.take_add]
      · intro p hp
        simp only [List.mem_cons] at hp
        rcases hp with rfl | hp
        · refine ⟨by intro h; rw [h] at hne; simp at hne, fun hc => ?_⟩
          rw [hlen]
          simp only at hmdef
          rw [if_pos hc] at hmdef
          omega
        · exact hps p hp

/-- `_copy_file` from a proxy over an open source: everything from the current position to the end
of the window, and the position is restored -/
theorem copyProxy_exact (body : Bytes) (sp : Bool) (chunk : Int) (st en pos : Nat)
    (h1 : st ≤ pos) (h2 : pos ≤ en) (h3 : en ≤ body.length) :
    ∃ ps, copyProxy body sp false chunk ⟨st, en, pos⟩ = some (.ok (ps, ⟨st, en, pos⟩)) ∧
      ps.flatten = window body pos en ∧ (∀ p ∈ ps, p ≠ [] ∧ (0 < chunk → (p.length : Int) ≤ chunk)) := by
  obtain ⟨ps, hl, hfl, hps⟩ := copyLoop_proxy body sp chunk st en h3 (proxyFuel ⟨st, en, pos⟩) pos h2
    (by simp [proxyFuel])
  refine ⟨ps, ?_, hfl, hps⟩
  unfold copyProxy copyFileFuel
  rw [hl]
  simp only [proxyOps, proxySeek, Proxy.tell, Proxy.seek, Proxy.seekSet]
  have e0 : ¬ ((0 : Int) < 0) := by omega
  have e1 : ¬ ((pos : Int) - (st : Int) < 0) := by omega
  have e2 : min ((st : Int) + ((pos : Int) - (st : Int))) (en : Int) = (pos : Int) := by omega
  simp [e1, e2]

/-! ### invariant of arbitrary operation sequences -/

/-- the position stays inside the window -/
def PInv (st en : Nat) (s : PSt) : Prop :=
  s.p.st = st ∧ s.p.en = en ∧ (st : Int) ≤ s.p.pos ∧ s.p.pos ≤ (en : Int)

/-- a result that carries bytes carries a piece of the window -/
def InWindow (body : Bytes) (st en : Nat) : PRes → Prop
  | .bytes b => ∃ a k : Nat, st ≤ a ∧ a + k ≤ en ∧ b = (body.drop a).take k
  | _ => True

theorem seek_inv (p : Proxy) (pos : Int) (w : Nat) :
    match p.seek pos w with
    | .ok p' => p'.st = p.st ∧ p'.en = p.en ∧ (p.st ≤ p.en → p.st ≤ p'.pos ∧ p'.pos ≤ p.en)
    | .error _ => True := by
  match w with
  | 0 => simp only [Proxy.seek, Proxy.seekSet]; and_intros <;> first | trivial | rfl | (intro h; omega)
  | 1 => simp only [Proxy.seek, Proxy.seekSet, Proxy.tell]; and_intros <;> first | trivial | rfl | (intro h; omega)
  | 2 => simp only [Proxy.seek, Proxy.seekSet]; and_intros <;> first | trivial | rfl | (intro h; omega)
  | n + 3 => simp [Proxy.seek]

theorem proxyOp_inv (body : Bytes) (sp : Bool) (st en : Nat) (hse : st ≤ en) (s : PSt) (op : POp)
    (h : PInv st en s) :
    PInv st en (proxyOp body sp s op).2 ∧ InWindow body st en (proxyOp body sp s op).1 := by
  obtain ⟨p, closed⟩ := s
  obtain ⟨pst, pen, ppos⟩ := p
  obtain ⟨h1, h2, h3, h4⟩ := h
  simp only at h1 h2 h3 h4
  subst h1 h2
  cases op with
  | read sz =>
    simp only [proxyOp, proxyRead]
    by_cases hz : (en : Int) - ppos ≤ 0
    · simp only [hz, ↓reduceIte]
      exact ⟨⟨rfl, rfl, h3, h4⟩, ⟨st, 0, by omega, by omega, by simp⟩⟩
    · simp only [hz, ↓reduceIte]
      cases closed with
      | true => exact ⟨⟨rfl, rfl, h3, h4⟩, trivial⟩
      | false =>
        simp only [Bool.false_eq_true, ↓reduceIte, Proxy.read, hz, srcRead]
        have hp : ¬ (ppos < 0) := by omega
        simp only [hp, ↓reduceIte]
        cases sz with
        | none =>
          have h0 : ¬ ((en : Int) - ppos < 0) := by omega
          simp only [h0, ↓reduceIte]
          exact ⟨⟨rfl, rfl, by simp only; omega, by simp only; omega⟩,
            ⟨ppos.toNat, ((en : Int) - ppos).toNat, by omega, by omega, rfl⟩⟩
        | some k =>
          by_cases hk : k > 0
          · simp only [hk, ↓reduceIte]
            have h0 : ¬ (min k ((en : Int) - ppos) < 0) := by omega
            simp only [h0, ↓reduceIte]
            exact ⟨⟨rfl, rfl, by simp only; omega, by simp only; omega⟩,
              ⟨ppos.toNat, (min k ((en : Int) - ppos)).toNat, by omega, by omega, rfl⟩⟩
          · simp only [hk, ↓reduceIte]
            have h0 : ¬ ((en : Int) - ppos < 0) := by omega
            simp only [h0, ↓reduceIte]
            exact ⟨⟨rfl, rfl, by simp only; omega, by simp only; omega⟩,
              ⟨ppos.toNat, ((en : Int) - ppos).toNat, by omega, by omega, rfl⟩⟩
  | seek pos w =>
    simp only [proxyOp, proxySeek]
    by_cases hw : w < 0
    · simp only [hw, ↓reduceIte]; exact ⟨⟨rfl, rfl, h3, h4⟩, trivial⟩
    · simp only [hw, ↓reduceIte]
      have hi := seek_inv ⟨st, en, ppos⟩ pos w.toNat
      cases hs : Proxy.seek ⟨st, en, ppos⟩ pos w.toNat with
      | error e => exact ⟨⟨rfl, rfl, h3, h4⟩, trivial⟩
      | ok p' =>
        rw [hs] at hi
        simp only at hi
        obtain ⟨i1, i2, i3⟩ := hi
        have := i3 (by omega)
        exact ⟨⟨i1, i2, by simp only; omega, by simp only; omega⟩, trivial⟩
  | tell => exact ⟨⟨rfl, rfl, h3, h4⟩, trivial⟩
  | isatty => exact ⟨⟨rfl, rfl, h3, h4⟩, trivial⟩
  | seekable => exact ⟨⟨rfl, rfl, h3, h4⟩, trivial⟩
  | readable => exact ⟨⟨rfl, rfl, h3, h4⟩, trivial⟩
  | writable => exact ⟨⟨rfl, rfl, h3, h4⟩, trivial⟩
  | fileno => exact ⟨⟨rfl, rfl, h3, h4⟩, trivial⟩
  | closed => exact ⟨⟨rfl, rfl, h3, h4⟩, trivial⟩
  | close => exact ⟨⟨rfl, rfl, h3, h4⟩, trivial⟩
  | flush => exact ⟨⟨rfl, rfl, h3, h4⟩, trivial⟩
  | closeSrc => exact ⟨⟨rfl, rfl, h3, h4⟩, trivial⟩

theorem runProxy_inv (body : Bytes) (sp : Bool) (st en : Nat) (hse : st ≤ en) :
    ∀ (ops : List POp) (s : PSt), PInv st en s →
      PInv st en (runProxy body sp s ops).2 ∧ ∀ r ∈ (runProxy body sp s ops).1, InWindow body st en r := by
  intro ops
  induction ops with
  | nil => intro s h; exact ⟨h, by simp [runProxy]⟩
  | cons op ops ih =>
    intro s h
    obtain ⟨h1, h2⟩ := proxyOp_inv body sp st en hse s op h
    obtain ⟨h3, h4⟩ := ih _ h1
    simp only [runProxy]
    refine ⟨h3, ?_⟩
    intro r hr
    simp only [List.mem_cons] at hr
    rcases hr with rfl | hr
    · exact h2
    · exact h4 r hr

end Ombott.Upload
