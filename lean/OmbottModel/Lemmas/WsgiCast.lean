import OmbottModel.Model.Wsgi
/-! Lemmas about the casting loop of `Model/Wsgi.lean`: shape of one iteration, termination. -/
namespace Ombott.Wsgi
open Py

def Cfg.isDone : Cfg → Bool
  | .done _ _ => true
  | .run _ _ _ => false

theorem finishEmpty_done (s : Slots) : (finishEmpty s).isDone = true := by
  unfold finishEmpty; rfl

theorem finishBytes_done (s : Slots) (b : Bytes) : (finishBytes s b).isDone = true := by
  unfold finishBytes; rfl

/-- `castIter` either returns or continues with the same counter -/
theorem castIter_cnt (cnt : Nat) (s : Slots) (id : Nat) (hc : Bool) (items : List Item) :
    (castIter cnt s id hc items).isDone = true ∨
    ∃ s' o, castIter cnt s id hc items = .run cnt s' o := by
  unfold castIter
  simp only
  split <;> first | (left; rfl) | (right; exact ⟨_, _, rfl⟩)

/-- the loop body either returns or continues with the same counter -/
theorem castOut_cnt (app : App) (fw : Bool) (cnt : Nat) (s : Slots) (out : Out) :
    (castOut app fw cnt s out).isDone = true ∨
    ∃ s' o, castOut app fw cnt s out = .run cnt s' o := by
  unfold castOut
  split
  · left; exact finishEmpty_done _
  · split
    · left; exact finishEmpty_done _
    · left; exact finishBytes_done _ _
  · split
    · left; exact finishEmpty_done _
    · left; exact finishBytes_done _ _
  · simp only
    split
    · split <;> first | (left; rfl) | (right; exact ⟨_, _, rfl⟩)
    · right; exact ⟨_, _, rfl⟩
    · right; exact ⟨_, _, rfl⟩
    · left; rfl
  · right; exact ⟨_, _, rfl⟩
  · split
    · left; rfl
    · split
      · left; rfl
      · exact castIter_cnt _ _ _ _ _
  · exact castIter_cnt _ _ _ _ _
  · right; exact ⟨_, _, rfl⟩

/-- a text output ends the loop -/
theorem castOut_text_done (app : App) (fw : Bool) (cnt : Nat) (s : Slots) (t : Str) :
    (castOut app fw cnt s (.text t)).isDone = true := by
  unfold castOut
  simp only
  split
  · exact finishEmpty_done _
  · exact finishBytes_done _ _

/-- the default error handler answers a text body with a text page (HTML or JSON) -/
theorem defaultHandler_text (s : Slots) (r : RState) (t : Str) :
    ∃ s' x, defaultHandler s r (.text t) = some (s', .text x) := by
  unfold defaultHandler
  split
  · simp only [jsonPage, jsonBody, Option.map_some]
    exact ⟨_, _, rfl⟩
  · exact ⟨_, _, rfl⟩

/-- the two ways the default error handler answers: the HTML page on unchanged slots, or a JSON
text with the response's Content-Type set -/
theorem defaultHandler_cases (s : Slots) (r : RState) (body : Out) (s' : Slots) (o : Out)
    (h : defaultHandler s r body = some (s', o)) :
    (s' = s ∧ o = defaultPage s r body) ∨
    (∃ j, s' = withResp s (setJsonCtype s.resp) ∧ o = .text j) := by
  unfold defaultHandler at h
  split at h
  · split at h
    · cases h
    · simp only [Option.some.injEq, Prod.mk.injEq] at h
      right; exact ⟨_, h.1.symm, h.2.symm⟩
  · simp only [Option.some.injEq, Prod.mk.injEq] at h
    left; exact ⟨h.1.symm, h.2.symm⟩

/-- once the counter has passed the bound the iteration returns -/
theorem step_guard_done (app : App) (fw : Bool) (cnt : Nat) (s : Slots) (out : Out)
    (h : Gen.wsgiCastMaxLoops < cnt + 1) : (step app fw (.run cnt s out)).isDone = true := by
  unfold step
  simp only [gt_iff_lt, h, if_true]
  obtain ⟨s', x, hd⟩ := defaultHandler_text
    (withResp s (apply { code := 500, line := lineOfCode 500, headers := [], cookies := [] } s.resp))
    { code := 500, line := lineOfCode 500, headers := [], cookies := [] } "too many iterations".toList
  rw [hd]
  exact castOut_text_done _ _ _ _ _

/-- one iteration returns or continues with the counter incremented -/
theorem step_cnt (app : App) (fw : Bool) (cnt : Nat) (s : Slots) (out : Out) :
    (step app fw (.run cnt s out)).isDone = true ∨
    ∃ s' o, step app fw (.run cnt s out) = .run (cnt + 1) s' o := by
  by_cases h : Gen.wsgiCastMaxLoops < cnt + 1
  · left; exact step_guard_done app fw cnt s out h
  · unfold step
    simp only [gt_iff_lt, h, if_false]
    exact castOut_cnt _ _ _ _ _

theorem runLoop_done (app : App) (fw : Bool) (n : Nat) (s : Slots) (r : CastRes) :
    runLoop app fw n (.done s r) = .done s r := by
  cases n <;> rfl

theorem runLoop_of_isDone (app : App) (fw : Bool) (n : Nat) (c : Cfg) (h : c.isDone = true) :
    (runLoop app fw n c).isDone = true := by
  cases c with
  | done s r => rw [runLoop_done]; rfl
  | run _ _ _ => cases h

theorem runLoop_succ_run (app : App) (fw : Bool) (n cnt : Nat) (s : Slots) (o : Out) :
    runLoop app fw (n + 1) (.run cnt s o) = runLoop app fw n (step app fw (.run cnt s o)) := rfl

/-- the loop returns within the iterations its own guard allows -/
theorem runLoop_terminates (app : App) (fw : Bool) :
    ∀ (n cnt : Nat) (s : Slots) (out : Out), cnt ≤ Gen.wsgiCastMaxLoops → Gen.wsgiCastMaxLoops + 1 ≤ cnt + n →
      (runLoop app fw n (.run cnt s out)).isDone = true := by
  intro n
  induction n with
  | zero => intro cnt s out h1 h2; omega
  | succ n ih =>
    intro cnt s out h1 h2
    rw [runLoop_succ_run]
    rcases step_cnt app fw cnt s out with hd | ⟨s', o, hs⟩
    · exact runLoop_of_isDone _ _ _ _ hd
    · by_cases hg : Gen.wsgiCastMaxLoops < cnt + 1
      · exact runLoop_of_isDone _ _ _ _ (step_guard_done app fw cnt s out hg)
      · rw [hs]
        exact ih (cnt + 1) s' o (by omega) (by omega)

/-- an invariant of `step` is an invariant of the loop -/
theorem runLoop_invariant (app : App) (fw : Bool) (P : Cfg → Prop)
    (hstep : ∀ c, P c → P (step app fw c)) : ∀ (n : Nat) (c : Cfg), P c → P (runLoop app fw n c) := by
  intro n
  induction n with
  | zero => intro c h; exact h
  | succ n ih =>
    intro c h
    cases c with
    | done s r => rw [runLoop_done]; exact h
    | run cnt s o => rw [runLoop_succ_run]; exact ih _ (hstep _ h)

def Cfg.notDiverged : Cfg → Prop
  | .done _ .diverged => False
  | _ => True

theorem castIter_notDiverged (cnt : Nat) (s : Slots) (id : Nat) (hc : Bool) (items : List Item) :
    (castIter cnt s id hc items).notDiverged := by
  unfold castIter
  simp only
  split <;> trivial

theorem castOut_notDiverged (app : App) (fw : Bool) (cnt : Nat) (s : Slots) (out : Out) :
    (castOut app fw cnt s out).notDiverged := by
  unfold castOut
  split
  · unfold finishEmpty; trivial
  · split
    · unfold finishEmpty; trivial
    · unfold finishBytes; trivial
  · split
    · unfold finishEmpty; trivial
    · unfold finishBytes; trivial
  · simp only
    split
    · split <;> trivial
    · trivial
    · trivial
    · trivial
  · trivial
  · split
    · trivial
    · split
      · trivial
      · exact castIter_notDiverged _ _ _ _ _
  · exact castIter_notDiverged _ _ _ _ _
  · trivial

theorem step_notDiverged (app : App) (fw : Bool) (c : Cfg) (h : c.notDiverged) :
    (step app fw c).notDiverged := by
  cases c with
  | done s r => exact h
  | run cnt s o =>
    unfold step
    simp only
    split
    · split
      · trivial
      · exact castOut_notDiverged _ _ _ _ _
    · exact castOut_notDiverged _ _ _ _ _

end Ombott.Wsgi
