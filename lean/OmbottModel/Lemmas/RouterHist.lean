import OmbottModel.Lemmas.RouterInv
/-!
Histories: the invariant holds after every sequence of `add` / `remove_method`, and every entry
of a method table was stored by an `add` of the history, together with the parameter names of
the rule text that `add` was given.
-/
namespace Ombott.Router
open Py

/-- the domain restriction on a registration: the parsed pattern has no literal marker
character (true for every rule text without CR, see `Model/Router.lean`) -/
def OpOK : Op → Prop
  | .add cenv a => ∀ p, parseRule cenv a.rule = .ok p → NoLitTok p.syms
  | .removeMethod _ _ => True

theorem Inv.add {R : Router} (h : Inv R) (upper : Str → Str) (cenv : CompileEnv) (a : AddArgs)
    (hok : OpOK (.add cenv a)) : Inv (R.add upper cenv a).1 := by
  unfold Router.add
  simp only
  cases hp : parseRule cenv a.rule with
  | error e => exact h
  | ok p => exact h.addParsed _ p (hok p hp)

theorem Inv.step {R : Router} (h : Inv R) (upper : Str → Str) (op : Op) (hok : OpOK op) :
    Inv (R.step upper op) := by
  cases op with
  | add cenv a => exact h.add upper cenv a hok
  | removeMethod id ms => exact h.removeMethod id ms

theorem foldl_inv (upper : Str → Str) (ops : List Op) (hok : ∀ op ∈ ops, OpOK op) (R : Router)
    (h : Inv R) : Inv (ops.foldl (Router.step upper) R) := by
  induction ops generalizing R with
  | nil => exact h
  | cons op ops ih =>
    exact ih (fun o ho => hok o (by simp [ho])) _ (h.step upper op (hok op (by simp)))

theorem run_inv (upper : Str → Str) (ops : List Op) (hok : ∀ op ∈ ops, OpOK op) :
    Inv (Router.run upper ops) := foldl_inv upper ops hok {} inv_init

/-! ### `_match` finds what the tree denotes -/

mutual
theorem findN_den (n : Node) (p : List Sym) (n' : Node) (d : Nat)
    (h : findN true n p = .ok n') (hd : n'.data = some d) : ⟨p, d, n'.params⟩ ∈ denN n := by
  match n, p with
  | .mk k d0 pk f hk lits tok, [] =>
    simp only [findN, Except.ok.injEq] at h
    subst h
    simp only [Node.data] at hd
    subst hd
    simp [denN, ownRule, Node.params]
  | .mk k d0 pk f hk lits tok, .lit c :: r =>
    simp only [findN] at h
    simp only [denN, List.mem_append]
    exact Or.inl (Or.inr (findL_den lits c r n' d h hd))
  | .mk k d0 pk f hk lits tok, .tok g :: r =>
    simp only [findN] at h
    simp only [denN, List.mem_append]
    exact Or.inr (findT_den tok g r n' d h hd)
theorem findT_den (t : Option Node) (g : Option Fid) (r : List Sym) (n' : Node) (d : Nat)
    (h : findT true t g r = .ok n') (hd : n'.data = some d) :
    ⟨.tok g :: r, d, n'.params⟩ ∈ denT t := by
  match t with
  | none => simp [findT] at h
  | some t0 =>
    simp only [findT] at h
    split at h
    · cases h
    · rename_i hf
      have hfg : t0.filter = g := by simpa using hf
      simp only [denT, List.mem_map]
      exact ⟨_, findN_den t0 r n' d h hd, by simp [Rule.under, hfg]⟩
theorem findL_den (ks : List Node) (c : Char) (r : List Sym) (n' : Node) (d : Nat)
    (h : findL true ks c r = .ok n') (hd : n'.data = some d) :
    ⟨.lit c :: r, d, n'.params⟩ ∈ denL ks := by
  match ks with
  | [] => simp [findL] at h
  | k :: ks =>
    simp only [findL] at h
    simp only [denL, List.mem_append, List.mem_map]
    split at h
    · cases hs : stripKey k.key (.lit c :: r) with
      | none => rw [hs] at h; simp [Option.elim] at h
      | some rest =>
        rw [hs] at h
        simp only [Option.elim] at h
        exact Or.inl ⟨_, findN_den k rest n' d h hd, by simp [Rule.under, stripKey_some hs]⟩
    · exact Or.inr (findL_den ks c r n' d h hd)
end

/-! ### where the entries of a method table come from -/

/-- the entry `name ↦ rm` of route `r` is what this operation stored: an `add` whose rule text
parses to the route's pattern, lists `name` among its (upper-cased) methods, and whose handler
and parameter names are the entry's -/
def StoredBy (upper : Str → Str) (op : Op) (r : Route) (name : Str) (rm : RouteMethod) : Prop :=
  match op with
  | .add cenv a => ∃ p, parseRule cenv a.rule = .ok p ∧ p.syms = r.syms ∧
      name ∈ a.methods.map upper ∧ rm = ⟨name, a.handler, p.params⟩
  | .removeMethod _ _ => False

def EntriesFrom (upper : Str → Str) (ops : List Op) (R : Router) : Prop :=
  ∀ id r name rm, R.obj? id = some r → (name, rm) ∈ r.methods → ∃ op ∈ ops, StoredBy upper op r name rm

theorem EntriesFrom.mono {upper : Str → Str} {ops ops' : List Op} {R : Router}
    (h : EntriesFrom upper ops R) (hsub : ∀ o ∈ ops, o ∈ ops') : EntriesFrom upper ops' R :=
  fun id r name rm hr hm => let ⟨op, ho, hs⟩ := h id r name rm hr hm; ⟨op, hsub op ho, hs⟩

theorem mem_setMethods (r : Route) (ms : List Str) (h : Nat) (ps : List Str) (name : Str)
    (rm : RouteMethod) (hm : (name, rm) ∈ (r.setMethods ms h ps).methods) :
    (name, rm) ∈ r.methods ∨ (name ∈ ms ∧ rm = ⟨name, h, ps⟩) := by
  unfold Route.setMethods at hm
  induction ms generalizing r with
  | nil => exact Or.inl hm
  | cons m ms ih =>
    simp only [List.foldl_cons] at hm
    rcases ih _ hm with h1 | ⟨h1, h2⟩
    · rcases (mem_dictSet _ _ _ _ _).mp h1 with ⟨rfl, rfl⟩ | ⟨_, h1⟩
      · exact Or.inr ⟨by simp, rfl⟩
      · exact Or.inl h1
    · exact Or.inr ⟨by simp [h1], h2⟩

theorem mem_removeMethod (r : Route) (ms : List Str) (x : Str × RouteMethod)
    (hm : x ∈ (r.removeMethod ms).methods) : x ∈ r.methods := by
  unfold Route.removeMethod at hm
  simp only at hm
  generalize r.methods = d at hm ⊢
  induction ms generalizing d with
  | nil => exact hm
  | cons m ms ih =>
    simp only [List.foldl_cons] at hm
    have := ih _ hm
    unfold dictPop at this
    exact (List.mem_filter.mp this).1

theorem registerName_objs (R : Router) (a : AddArgs) (id : Nat) :
    (R.registerName a id).1.objs = R.objs := by
  unfold Router.registerName
  cases a.name with
  | none => rfl
  | some nm =>
    simp only
    split
    · rfl
    · cases dictGet R.named nm with
      | none => rfl
      | some reg => simp only; split <;> rfl

theorem obj?_of_objs_eq {R R' : Router} (h : R'.objs = R.objs) (j : Nat) : R'.obj? j = R.obj? j := by
  unfold Router.obj?; rw [h]

theorem findOrInsert_objs (R : Router) (rule : Str) (p : Parsed) (j : Nat) (r : Route)
    (h : (R.findOrInsert rule p).1.obj? j = some r) :
    R.obj? j = some r ∨ (r.methods = [] ∧ r.syms = p.syms) := by
  unfold Router.findOrInsert at h
  cases hm : R.matchPat p.syms with
  | some id => rw [hm] at h; exact Or.inl h
  | none =>
    rw [hm] at h
    simp only at h
    cases hi : treeAdd R.tree p.syms R.objs.length p.params with
    | error e => rw [hi] at h; exact Or.inl h
    | ok t =>
      rw [hi] at h
      simp only [Router.obj?] at h ⊢
      rcases Nat.lt_or_ge j R.objs.length with hlt | hge
      · rw [List.getElem?_append_left hlt] at h; exact Or.inl h
      · rw [List.getElem?_append_right hge] at h
        cases hj : j - R.objs.length with
        | zero => rw [hj] at h; simp at h; subst h; exact Or.inr ⟨rfl, rfl⟩
        | succ k => rw [hj] at h; simp at h

theorem findOrInsert_ok_syms {R : Router} (hinv : Inv R) (rule : Str) (p : Parsed) (R1 : Router)
    (id : Nat) (h : R.findOrInsert rule p = (R1, .ok id)) :
    ∃ r, R1.obj? id = some r ∧ r.syms = p.syms := by
  unfold Router.findOrInsert at h
  cases hm : R.matchPat p.syms with
  | some id0 =>
    rw [hm] at h
    simp only [Prod.mk.injEq, Except.ok.injEq] at h
    obtain ⟨rfl, rfl⟩ := h
    unfold Router.matchPat at hm
    cases hf : findN true R.tree p.syms with
    | error e => rw [hf] at hm; cases hm
    | ok n =>
      rw [hf] at hm
      simp only at hm
      have := findN_den R.tree p.syms n id0 hf hm
      obtain ⟨ps, id, r, _, hr, heq⟩ := (mem_rules R _).mp ((hinv.den _).mp this)
      simp only [Rule.mk.injEq] at heq
      obtain ⟨h1, h2, _⟩ := heq
      subst h2
      exact ⟨r, hr, h1.symm⟩
  | none =>
    rw [hm] at h
    simp only at h
    cases hi : treeAdd R.tree p.syms R.objs.length p.params with
    | error e => rw [hi] at h; simp at h
    | ok t =>
      rw [hi] at h
      simp only [Prod.mk.injEq, Except.ok.injEq] at h
      obtain ⟨rfl, rfl⟩ := h
      exact ⟨{ rule := rule, syms := p.syms, params := p.params, symsOut := p.symsOut },
        by simp [Router.obj?], rfl⟩

/-- entries after replacing route `id` by `r'` whose entries are old ones or stored by `op` -/
theorem EntriesFrom.setObj {upper : Str → Str} {ops : List Op} {R : Router}
    (h : EntriesFrom upper ops R) (op : Op) (id : Nat) (r r' : Route) (hr : R.obj? id = some r)
    (hsyms : r'.syms = r.syms)
    (hent : ∀ name rm, (name, rm) ∈ r'.methods → (name, rm) ∈ r.methods ∨ StoredBy upper op r' name rm) :
    EntriesFrom upper (ops ++ [op]) (R.setObj id r') := by
  intro j rj name rm hj hm
  rw [obj?_setObj] at hj
  split at hj
  · rename_i hij
    subst hij
    rw [hr] at hj
    simp only [Option.map_some, Option.some.injEq] at hj
    subst hj
    rcases hent name rm hm with h1 | h1
    · obtain ⟨o, ho, hs⟩ := h id r name rm hr h1
      refine ⟨o, by simp [ho], ?_⟩
      cases o with
      | add cenv a => simpa [StoredBy, hsyms] using hs
      | removeMethod _ _ => exact hs
    · exact ⟨op, by simp, h1⟩
  · obtain ⟨o, ho, hs⟩ := h j rj name rm hj hm
    exact ⟨o, by simp [ho], hs⟩

theorem EntriesFrom.step {upper : Str → Str} {ops : List Op} {R : Router} (hinv : Inv R)
    (h : EntriesFrom upper ops R) (op : Op) : EntriesFrom upper (ops ++ [op]) (R.step upper op) := by
  cases op with
  | removeMethod id ms =>
    simp only [Router.step, Router.removeMethod]
    cases hr : R.obj? id with
    | none => exact h.mono (by simp +contextual)
    | some r =>
      exact h.setObj _ id r _ hr rfl (fun name rm hm => Or.inl (mem_removeMethod r ms _ hm))
  | add cenv a =>
    simp only [Router.step, Router.add]
    cases hp : parseRule cenv a.rule with
    | error e => exact h.mono (by simp +contextual)
    | ok p =>
      simp only [Router.addParsed]
      split
      · exact h.mono (by simp +contextual)
      · cases hf : R.findOrInsert a.rule p with
        | mk R1 out =>
          have h1 : EntriesFrom upper ops R1 := by
            intro j rj name rm hj hm
            have := findOrInsert_objs R a.rule p j rj (by rw [hf]; exact hj)
            rcases this with hold | ⟨hnil, _⟩
            · exact h j rj name rm hold hm
            · rw [hnil] at hm; cases hm
          cases out with
          | error e => exact h1.mono (by simp +contextual)
          | ok id =>
            simp only
            obtain ⟨route, hroute, hsyms⟩ := findOrInsert_ok_syms hinv a.rule p R1 id hf
            unfold Router.register
            simp only [hroute]
            have hstored : ∀ (r' : Route), r'.syms = route.syms → ∀ name rm,
                (name ∈ List.map upper a.methods ∧ rm = ⟨name, a.handler, p.params⟩) →
                StoredBy upper (.add cenv a) r' name rm := by
              intro r' hs' name rm ⟨hn, hrm⟩
              exact ⟨p, hp, by rw [hs', hsyms], hn, hrm⟩
            split
            · intro j rj name rm hj hm
              rw [obj?_of_objs_eq (registerName_objs _ _ _)] at hj
              refine (h1.setObj (.add cenv a) id route _ hroute
                (Route.setMethods_syms route _ _ _).1 ?_) j rj name rm hj hm
              intro name rm hm
              rcases mem_setMethods route _ _ _ name rm hm with h2 | h2
              · exact Or.inl h2
              · exact Or.inr (hstored _ (Route.setMethods_syms route _ _ _).1 name rm h2)
            · cases ha : route.addMethod (List.map upper a.methods) a.handler p.params with
              | error e => exact h1.mono (by simp +contextual)
              | ok route' =>
                simp only
                intro j rj name rm hj hm
                rw [obj?_of_objs_eq (registerName_objs _ _ _)] at hj
                refine (h1.setObj (.add cenv a) id route route' hroute
                  (Route.addMethod_syms ha).1 ?_) j rj name rm hj hm
                intro name rm hm
                have hsm : route' = route.setMethods (List.map upper a.methods) a.handler p.params := by
                  unfold Route.addMethod at ha
                  split at ha
                  · cases ha
                  · simp only [pure, Except.pure, Except.ok.injEq] at ha; exact ha.symm
                rw [hsm] at hm
                rcases mem_setMethods route _ _ _ name rm hm with h2 | h2
                · exact Or.inl h2
                · exact Or.inr (hstored _ (Route.addMethod_syms ha).1 name rm h2)

theorem foldl_entries (upper : Str → Str) (ops : List Op) (hok : ∀ op ∈ ops, OpOK op)
    (pre : List Op) (R : Router) (hinv : Inv R) (h : EntriesFrom upper pre R) :
    EntriesFrom upper (pre ++ ops) (ops.foldl (Router.step upper) R) := by
  induction ops generalizing R pre with
  | nil => simpa using h
  | cons op ops ih =>
    have := ih (fun o ho => hok o (by simp [ho])) (pre ++ [op]) _
      (hinv.step upper op (hok op (by simp))) (h.step hinv op)
    simpa using this

/-- every entry of every method table of the router was stored by an `add` of the history -/
theorem run_entries (upper : Str → Str) (ops : List Op) (hok : ∀ op ∈ ops, OpOK op) :
    EntriesFrom upper ops (Router.run upper ops) := by
  have := foldl_entries upper ops hok [] {} inv_init (by
    intro id r name rm hr; simp [Router.obj?] at hr)
  simpa [Router.run] using this

end Ombott.Router
