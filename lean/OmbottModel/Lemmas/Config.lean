import OmbottModel.Model.Config
/-! Helper lemmas for the configuration machinery (`Model/Config.lean`): association lists, the heap, `get_from`,
frames of the NameSpace edits. -/
namespace Ombott.Config

/-! ### association lists -/

theorem aget_aset_same {β} (d : AList β) (k : Name) (v : β) : aget (aset d k v) k = some v := by
  induction d with
  | nil => simp [aset, aget]
  | cons p r ih =>
    obtain ⟨k', v'⟩ := p
    by_cases h : k' = k <;> simp [aset, aget, h, ih]

theorem aget_aset_ne {β} (d : AList β) (k k' : Name) (v : β) (h : k' ≠ k) : aget (aset d k v) k' = aget d k' := by
  induction d with
  | nil => simp [aset, aget, Ne.symm h]
  | cons p r ih =>
    obtain ⟨k0, v0⟩ := p
    by_cases h0 : k0 = k
    · subst h0; simp [aset, aget, Ne.symm h]
    · by_cases h1 : k0 = k'
      · subst h1; simp [aset, aget, h0]
      · simp [aset, aget, h0, h1, ih]

theorem aget_aset {β} (d : AList β) (k k' : Name) (v : β) :
    aget (aset d k v) k' = if k' = k then some v else aget d k' := by
  by_cases h : k' = k
  · subst h; simp [aget_aset_same]
  · simp [h, aget_aset_ne _ _ _ _ h]

theorem aget_append {β} (d e : AList β) (k : Name) : aget (d ++ e) k = (aget d k).orElse fun _ => aget e k := by
  induction d with
  | nil => simp [aget]
  | cons p r ih =>
    obtain ⟨k', v'⟩ := p
    by_cases h : k' = k <;> simp [aget, h, ih]

theorem aget_none_of_not_mem {β} (d : AList β) (k : Name) (h : k ∉ akeys d) : aget d k = none := by
  induction d with
  | nil => rfl
  | cons p r ih =>
    obtain ⟨k', v'⟩ := p
    simp only [akeys, List.map_cons, List.mem_cons, not_or] at h
    simp only [aget, Ne.symm h.1, if_false]
    exact ih h.2

/-- `{k: f(k, d) for k, d in items}` read back -/
theorem aget_map {β γ} (items : AList β) (f : Name → β → γ) (k : Name) :
    aget (items.map fun p => (p.1, f p.1 p.2)) k = (aget items k).map (f k) := by
  induction items with
  | nil => rfl
  | cons p r ih =>
    obtain ⟨k', v'⟩ := p
    by_cases h : k' = k
    · subst h; simp [aget]
    · simp [aget, h, ih]

/-! ### the heap -/

theorem hget_alloc_old (h : Heap) (d : AList Val) (o : Nat) (ho : o < h.length) : hget (alloc h d).1 o = hget h o := by
  simp [hget, alloc, List.getElem?_append_left ho]

theorem hget_alloc_new (h : Heap) (d : AList Val) : hget (alloc h d).1 (alloc h d).2 = d := by
  simp [hget, alloc]

theorem hget_hset_ne (h : Heap) (o o' : Nat) (d : AList Val) (hne : o' ≠ o) : hget (hset h o d) o' = hget h o' := by
  simp [hget, hset, List.getElem?_set_ne (Ne.symm hne)]

theorem hset_length (h : Heap) (o : Nat) (d : AList Val) : (hset h o d).length = h.length := by simp [hset]

/-! ### `SimpleConfig.items` / `get_from` -/

theorem itemsLoop_spec (cs : Classes) (c : CClass) (keys : List Name) (items : AList Val)
    (h : itemsLoop cs c keys = .ok items) :
    akeys items = keys ∧ ∀ k ∈ keys, aget items k = getattrC cs c k := by
  induction keys generalizing items with
  | nil =>
    simp only [itemsLoop, Except.ok.injEq] at h
    subst h; simp [akeys]
  | cons k r ih =>
    simp only [itemsLoop] at h
    cases hg : getattrC cs c k with
    | none => simp [hg] at h
    | some v =>
      simp only [hg] at h
      cases hl : itemsLoop cs c r with
      | error e => simp [hl] at h
      | ok l =>
        simp only [hl, Except.ok.injEq] at h
        subst h
        obtain ⟨h1, h2⟩ := ih l hl
        refine ⟨by simp [akeys] at h1 ⊢; exact h1, ?_⟩
        intro k' hk'
        by_cases hkk : k = k'
        · subst hkk; simp [aget, hg]
        · simp only [aget, hkk, if_false]
          rcases List.mem_cons.mp hk' with h' | h'
          · exact absurd h'.symm hkk
          · exact h2 k' h'

theorem akeys_pickValues (items src kw : AList Val) : akeys (pickValues items src kw) = akeys items := by
  simp [akeys, pickValues, List.map_map, Function.comp_def]

theorem aget_pickValues (items src kw : AList Val) (k : Name) :
    aget (pickValues items src kw) k = (aget items k).map fun d => (aget src k).getD ((aget kw k).getD d) := by
  have := aget_map items (fun k d => (aget src k).getD ((aget kw k).getD d)) k
  simpa [pickValues] using this

/-! ### `_MetaSimpleConfig.__init__` -/

theorem metaCheckKeys_ok (keys l : List Name) :
    metaCheckKeys keys l = .ok () ↔ ∀ k ∈ l, isPrivate k = true ∨ k ∈ keys := by
  induction l with
  | nil => simp [metaCheckKeys]
  | cons k r ih =>
    simp only [metaCheckKeys, List.mem_cons, forall_eq_or_imp]
    by_cases hp : isPrivate k = true
    · simp [hp, ih]
    · by_cases hc : k ∈ keys
      · simp [hp, hc, ih]
      · simp [hp, hc]

theorem metaCheckKeys_err (keys l : List Name) (e : CErr) (h : metaCheckKeys keys l = .error e) : e = .keyError := by
  induction l with
  | nil => simp [metaCheckKeys] at h
  | cons k r ih =>
    simp only [metaCheckKeys] at h
    by_cases hp : isPrivate k = true
    · simp only [hp, if_true] at h; exact ih h
    · by_cases hc : k ∈ keys
      · simp [hp, hc] at h; exact ih h
      · simp [hp, hc] at h; exact h.symm

/-! ### applications -/

theorem app_setApp_same (w : World) (a : Nat) (x : App) : (w.setApp a x).app a = some x := by
  simp [World.setApp, World.app]

theorem app_setApp_ne (w : World) (a b : Nat) (x : App) (hab : b ≠ a) : (w.setApp a x).app b = w.app b := by
  simp [World.setApp, World.app, hab]

/-! ### `proxy` -/

theorem aget_proxyInject (d : AList PAttr) (prop : Name) (attrs : List Name) (a : Name) :
    aget (proxyInject d prop attrs) a = if a ∈ attrs then some (.forward prop a) else aget d a := by
  unfold proxyInject
  induction attrs generalizing d with
  | nil => simp
  | cons x l ih =>
    simp only [List.foldl_cons, ih, aget_aset, List.mem_cons]
    by_cases hl : a ∈ l
    · simp [hl]
    · by_cases hx : a = x
      · subst hx; simp [hl]
      · simp [hl, hx]

end Ombott.Config
