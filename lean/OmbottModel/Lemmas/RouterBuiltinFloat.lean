import OmbottModel.Lemmas.RouterBuiltinEnv
/-!
The `float` wildcard on the exactly modelled domain: the value of a matched numeral (`floatVal` of
the canonical numeral) is formatted by `_float_out` to the positional text of that numeral, which
the handler reads back, whole, as the same value (`floatValOK_exact`).  Pure text manipulation:
canonical numerals (`CanonDec`), their `repr` (`reprDec`), `Decimal(repr)` (`parseRepr`),
`format(·, 'f')` (`positional`), and lexing the result again (`floatLex`, `canon`).
-/
namespace Ombott.Builtins
open Py Ombott.Router Ombott.RouteUrl

/-! ### ASCII digits -/

theorem isDigit_ne {c : Char} (h : c.isDigit = true) : c ≠ '.' ∧ c ≠ 'e' ∧ c ≠ '-' := by
  have ⟨h1, h2⟩ := isDigit_bounds c h
  refine ⟨?_, ?_, ?_⟩ <;> (intro he; subst he; revert h1 h2; decide)

theorem ascDigit_ascii {c : Char} (h : c.isDigit = true) : ascDigit c = c := by
  unfold ascDigit
  rw [decDigit_ascii c h]
  have ⟨h1, h2⟩ := isDigit_bounds c h
  simp only [Option.getD_some]
  have : 48 + (c.toNat - 48) = c.toNat := by omega
  rw [this]
  exact Char.ofNat_toNat c

theorem map_ascDigit_ascii {l : Str} (h : ∀ c ∈ l, c.isDigit = true) : l.map ascDigit = l := by
  induction l with
  | nil => rfl
  | cons a l ih =>
    simp only [List.map_cons]
    rw [ascDigit_ascii (h a (by simp)), ih (fun c hc => h c (by simp [hc]))]

theorem decDigit_lt {c : Char} {k : Nat} (h : decDigit? c = some k) : k < 10 := by
  unfold decDigit? at h
  cases hf : Gen.digitZeros.find? (fun z => z ≤ c.toNat && c.toNat < z + 10) with
  | none => rw [hf] at h; cases h
  | some z =>
    rw [hf] at h
    simp only [Option.map_some, Option.some.injEq] at h
    have := List.find?_some hf
    simp only [Bool.and_eq_true, decide_eq_true_eq] at this
    omega

theorem isDigit_ofNat_48 (k : Nat) (hk : k < 10) : (Char.ofNat (48 + k)).isDigit = true := by
  have : k = 0 ∨ k = 1 ∨ k = 2 ∨ k = 3 ∨ k = 4 ∨ k = 5 ∨ k = 6 ∨ k = 7 ∨ k = 8 ∨ k = 9 := by omega
  rcases this with rfl | rfl | rfl | rfl | rfl | rfl | rfl | rfl | rfl | rfl <;> decide

theorem ascDigit_isDigit {c : Char} (h : isDecDigit c = true) : (ascDigit c).isDigit = true := by
  unfold isDecDigit at h
  unfold ascDigit
  cases hd : decDigit? c with
  | none => rw [hd] at h; cases h
  | some k =>
    simp only [Option.getD_some]
    exact isDigit_ofNat_48 k (decDigit_lt hd)

/-! ### zeros, stripping -/

theorem zeros_all (n : Nat) : ∀ c ∈ zeros n, c = '0' := by
  intro c hc
  exact (List.mem_replicate.mp hc).2

theorem zeros_length (n : Nat) : (zeros n).length = n := List.length_replicate

theorem dropWhile0_zeros_append (k : Nat) (ds : Str) (h : ds.head? ≠ some '0') :
    (zeros k ++ ds).dropWhile (· == '0') = ds := by
  induction k with
  | zero =>
    simp only [zeros, List.replicate_zero, List.nil_append]
    cases ds with
    | nil => rfl
    | cons a r =>
      have : (a == '0') = false := by
        simp only [List.head?_cons, ne_eq, Option.some.injEq] at h
        simpa using h
      simp [List.dropWhile, this]
  | succ k ih =>
    have : zeros (k + 1) = '0' :: zeros k := rfl
    rw [this, List.cons_append, List.dropWhile_cons]
    simpa using ih

theorem dropWhile0_id (ds : Str) (h : ds.head? ≠ some '0') : ds.dropWhile (· == '0') = ds :=
  dropWhile0_zeros_append 0 ds h

theorem zeros_reverse (k : Nat) : (zeros k).reverse = zeros k := List.reverse_replicate ..

theorem rstrip0_append_zeros (ds : Str) (k : Nat) (h : ds.getLast? ≠ some '0') : rstrip0 (ds ++ zeros k) = ds := by
  unfold rstrip0
  rw [List.reverse_append, zeros_reverse, dropWhile0_zeros_append k ds.reverse (by rwa [List.head?_reverse]),
    List.reverse_reverse]

theorem rstrip0_id (ds : Str) (h : ds.getLast? ≠ some '0') : rstrip0 ds = ds := by
  have := rstrip0_append_zeros ds 0 h
  simpa [zeros] using this

theorem rstrip0_prefix (l : Str) : rstrip0 l <+: l := by
  unfold rstrip0
  have : l.reverse.dropWhile (· == '0') <:+ l.reverse := List.dropWhile_suffix _
  have := List.reverse_prefix.mpr this
  simpa using this

theorem rstrip0_last (l : Str) : (rstrip0 l).getLast? ≠ some '0' := by
  unfold rstrip0
  rw [List.getLast?_reverse]
  intro h
  have := dropWhile_head (· == '0') l.reverse '0' h
  simp at this

/-! ### canonical numerals -/

/-- ASCII digits, no leading and no trailing zero; zero is `[]` with the point at 0 -/
structure CanonDec (d : Dec) : Prop where
  digits : ∀ c ∈ d.ds, c.isDigit = true
  head : d.ds.head? ≠ some '0'
  last : d.ds.getLast? ≠ some '0'
  zero : d.ds = [] → d.pt = 0

theorem canon_canonDec (neg : Bool) (all : Str) (pt : Int) (hd : ∀ c ∈ all, c.isDigit = true) :
    CanonDec (canon neg all pt) := by
  unfold canon
  simp only
  by_cases he : (rstrip0 (all.dropWhile (· == '0'))).isEmpty = true
  · rw [if_pos he]
    exact ⟨(by intro c hc; cases hc), (by simp), (by simp), fun _ => rfl⟩
  · rw [if_neg he]
    have hne : rstrip0 (all.dropWhile (· == '0')) ≠ [] := by simpa using he
    have hpre := rstrip0_prefix (all.dropWhile (· == '0'))
    refine ⟨?_, ?_, rstrip0_last _, fun h => absurd h hne⟩
    · intro c hc
      exact hd c ((List.dropWhile_suffix _).subset (hpre.subset hc))
    · simp only
      intro h
      obtain ⟨t, ht⟩ := hpre
      cases hr : rstrip0 (all.dropWhile (· == '0')) with
      | nil => exact hne hr
      | cons a r =>
        rw [hr] at h ht
        simp only [List.head?_cons, Option.some.injEq] at h
        subst h
        have := dropWhile_head (· == '0') all '0' (by rw [← ht]; rfl)
        simp at this

theorem lex_canonDec {s : Str} {l : FloatLex} (h : floatLex s = some l) : CanonDec l.dec := by
  obtain ⟨_, h2, h3, _, _⟩ := floatLex_spec h
  unfold FloatLex.dec
  apply canon_canonDec
  intro c hc
  obtain ⟨x, hx, rfl⟩ := List.mem_map.mp hc
  apply ascDigit_isDigit
  rcases List.mem_append.mp hx with hx | hx
  · exact h2 x hx
  · exact h3 x hx

/-- the canonical numeral of a digit string that is canonical already -/
theorem canon_of_canonical (neg : Bool) (ds : Str) (lz tz : Nat) (pt : Int)
    (hne : ds ≠ []) (hh : ds.head? ≠ some '0') (hl : ds.getLast? ≠ some '0') :
    canon neg (zeros lz ++ ds ++ zeros tz) pt = ⟨neg, ds, pt - (lz : Int)⟩ := by
  unfold canon
  simp only
  have hd1 : (zeros lz ++ ds ++ zeros tz).dropWhile (· == '0') = ds ++ zeros tz := by
    rw [List.append_assoc]
    apply dropWhile0_zeros_append
    cases ds with
    | nil => exact absurd rfl hne
    | cons a r => simpa using hh
  rw [hd1, rstrip0_append_zeros ds tz hl]
  have : ds.isEmpty = false := by simpa using hne
  rw [this]
  simp only [Bool.false_eq_true, if_false, List.length_append, zeros_length, Dec.mk.injEq, true_and]
  omega

/-! ### the positional text of a canonical numeral, and lexing it again -/

def signStr (neg : Bool) : Str := if neg then ['-'] else []

/-- positional notation with at least one digit on either side of the point -/
def posText (d : Dec) : Str :=
  if d.ds.isEmpty then ['0', '.', '0']
  else if d.pt ≤ 0 then '0' :: '.' :: (zeros (-d.pt).toNat ++ d.ds)
  else if d.pt < (d.ds.length : Int) then d.ds.take d.pt.toNat ++ '.' :: d.ds.drop d.pt.toNat
  else d.ds ++ zeros (d.pt - (d.ds.length : Int)).toNat ++ ['.', '0']

/-- how `posText` is lexed -/
def posLex (d : Dec) : FloatLex :=
  if d.ds.isEmpty then ⟨d.neg, ['0'], ['0']⟩
  else if d.pt ≤ 0 then ⟨d.neg, ['0'], zeros (-d.pt).toNat ++ d.ds⟩
  else if d.pt < (d.ds.length : Int) then ⟨d.neg, d.ds.take d.pt.toNat, d.ds.drop d.pt.toNat⟩
  else ⟨d.neg, d.ds ++ zeros (d.pt - (d.ds.length : Int)).toNat, ['0']⟩

theorem isDigit_zero : ('0' : Char).isDigit = true := by decide

theorem zeros_digits (n : Nat) : ∀ c ∈ zeros n, c.isDigit = true := by
  intro c hc; rw [zeros_all n c hc]; exact isDigit_zero

theorem posLex_spec (d : Dec) (hc : CanonDec d) :
    (posLex d).text = signStr d.neg ++ posText d ∧ (posLex d).ip ≠ [] ∧ (posLex d).fp ≠ [] ∧
      (∀ c ∈ (posLex d).ip, c.isDigit = true) ∧ (∀ c ∈ (posLex d).fp, c.isDigit = true) := by
  unfold posLex posText
  by_cases h0 : d.ds.isEmpty = true
  · simp only [h0, if_true]
    refine ⟨by cases d.neg <;> rfl, by simp, by simp, ?_, ?_⟩ <;>
      (intro c hc'; simp only [List.mem_singleton] at hc'; subst hc'; exact isDigit_zero)
  · simp only [h0, Bool.false_eq_true, if_false]
    have hne : d.ds ≠ [] := by simpa using h0
    by_cases h1 : d.pt ≤ 0
    · simp only [h1, if_true]
      refine ⟨?_, by simp, ?_, ?_, ?_⟩
      · have : (zeros (-d.pt).toNat ++ d.ds).isEmpty = false := by simp [hne]
        simp only [FloatLex.text, this, Bool.false_eq_true, if_false, signStr]
        cases d.neg <;> simp
      · simp [hne]
      · intro c hc'; simp only [List.mem_singleton] at hc'; subst hc'; exact isDigit_zero
      · intro c hc'
        rcases List.mem_append.mp hc' with h | h
        · exact zeros_digits _ c h
        · exact hc.digits c h
    · simp only [h1, if_false]
      by_cases h2 : d.pt < (d.ds.length : Int)
      · simp only [h2, if_true]
        have hlt : d.pt.toNat < d.ds.length := by omega
        have hpos : 0 < d.pt.toNat := by omega
        have hdrop : d.ds.drop d.pt.toNat ≠ [] := by
          intro h
          have := congrArg List.length h
          simp only [List.length_drop, List.length_nil] at this
          omega
        have htake : d.ds.take d.pt.toNat ≠ [] := by
          intro h
          have := congrArg List.length h
          simp only [List.length_take, List.length_nil] at this
          omega
        refine ⟨?_, htake, hdrop, ?_, ?_⟩
        · have : (d.ds.drop d.pt.toNat).isEmpty = false := by simpa using hdrop
          simp only [FloatLex.text, this, Bool.false_eq_true, if_false, signStr]
          cases d.neg <;> simp
        · intro c hc'; exact hc.digits c (List.mem_of_mem_take hc')
        · intro c hc'; exact hc.digits c (List.mem_of_mem_drop hc')
      · simp only [h2, if_false]
        refine ⟨?_, by simp [hne], by simp, ?_, ?_⟩
        · simp only [FloatLex.text, List.isEmpty_cons, Bool.false_eq_true, if_false, signStr]
          cases d.neg <;> simp
        · intro c hc'
          rcases List.mem_append.mp hc' with h | h
          · exact hc.digits c h
          · exact zeros_digits _ c h
        · intro c hc'; simp only [List.mem_singleton] at hc'; subst hc'; exact isDigit_zero

theorem zeros_succ (k : Nat) : zeros (k + 1) = '0' :: zeros k := rfl

theorem zeros_succ' (k : Nat) : zeros (k + 1) = zeros k ++ ['0'] := by
  unfold zeros
  rw [List.replicate_succ']

/-- lexing the positional text gives the numeral back -/
theorem posLex_dec (d : Dec) (hc : CanonDec d) : (posLex d).dec = d := by
  obtain ⟨_, _, _, hip, hfp⟩ := posLex_spec d hc
  have hmap : ((posLex d).ip ++ (posLex d).fp).map ascDigit = (posLex d).ip ++ (posLex d).fp :=
    map_ascDigit_ascii (fun c hc' => by
      rcases List.mem_append.mp hc' with h | h
      · exact hip c h
      · exact hfp c h)
  unfold FloatLex.dec
  rw [hmap]
  unfold posLex
  by_cases h0 : d.ds.isEmpty = true
  · simp only [h0, if_true]
    have hds : d.ds = [] := by simpa using h0
    have hpt := hc.zero hds
    cases d with
    | mk neg ds pt =>
      simp only at hds hpt
      subst hds hpt
      rfl
  · simp only [h0, Bool.false_eq_true, if_false]
    have hne : d.ds ≠ [] := by simpa using h0
    by_cases h1 : d.pt ≤ 0
    · simp only [h1, if_true]
      have : ['0'] ++ (zeros (-d.pt).toNat ++ d.ds) = zeros ((-d.pt).toNat + 1) ++ d.ds ++ zeros 0 := by
        rw [zeros_succ]; simp [zeros]
      rw [this, canon_of_canonical d.neg d.ds _ 0 _ hne hc.head hc.last]
      cases d with
      | mk neg ds pt =>
        simp only [Dec.mk.injEq, true_and, List.length_singleton] at h1 ⊢
        omega
    · simp only [h1, if_false]
      by_cases h2 : d.pt < (d.ds.length : Int)
      · simp only [h2, if_true]
        have : d.ds.take d.pt.toNat ++ d.ds.drop d.pt.toNat = zeros 0 ++ d.ds ++ zeros 0 := by
          rw [List.take_append_drop]; simp [zeros]
        rw [this, canon_of_canonical d.neg d.ds 0 0 _ hne hc.head hc.last]
        cases d with
        | mk neg ds pt =>
          simp only [Dec.mk.injEq, true_and, List.length_take] at h1 h2 ⊢
          omega
      · simp only [h2, if_false]
        have : d.ds ++ zeros (d.pt - (d.ds.length : Int)).toNat ++ ['0'] =
            zeros 0 ++ d.ds ++ zeros ((d.pt - (d.ds.length : Int)).toNat + 1) := by
          rw [zeros_succ']; simp [zeros, List.append_assoc]
        rw [this, canon_of_canonical d.neg d.ds 0 _ _ hne hc.head hc.last]
        cases d with
        | mk neg ds pt =>
          simp only [Dec.mk.injEq, true_and, List.length_append, zeros_length] at h1 h2 ⊢
          omega

/-- the handler reads the positional text of a canonical numeral back, whole, in front of nothing -/
theorem floatLex_posText (d : Dec) (hc : CanonDec d) :
    floatLex (signStr d.neg ++ posText d) = some (posLex d) ∧ (posLex d).len = (signStr d.neg ++ posText d).length := by
  obtain ⟨htext, h1, h2, hip, hfp⟩ := posLex_spec d hc
  have hb := floatLex_build (posLex d) [] h1 (fun c hc' => isDecDigit_ascii c (hip c hc'))
    (fun c hc' => isDecDigit_ascii c (hfp c hc')) ⟨(by intro c h; cases h), fun h => absurd h h2⟩
  rw [List.append_nil, htext] at hb
  exact ⟨hb, by rw [← htext, FloatLex.text_length]⟩

/-! ### `Decimal(repr)` -/

theorem parseMant_eq (ip fp ex : Str) (dot : Bool) (hip : ip ≠ []) (hdi : ∀ c ∈ ip, c.isDigit = true)
    (hdf : ∀ c ∈ fp, c.isDigit = true) (hdot : dot = false → fp = [])
    (hex : ∀ c, ex.head? = some c → c = 'e') :
    parseMant (ip ++ (if dot then '.' :: fp else []) ++ ex) =
      mantTail (ip ++ fp) (ip.length : Int) ex := by
  have hmant_e : ∀ c ∈ ip ++ (if dot then '.' :: fp else []), (c != 'e') = true := by
    intro c hc
    rcases List.mem_append.mp hc with h | h
    · simpa using (isDigit_ne (hdi c h)).2.1
    · cases dot with
      | false => simp at h
      | true =>
        simp only [if_true, List.mem_cons] at h
        rcases h with rfl | h
        · decide
        · simpa using (isDigit_ne (hdf c h)).2.1
  have h1 : (ip ++ (if dot then '.' :: fp else []) ++ ex).takeWhile (· != 'e') = ip ++ (if dot then '.' :: fp else []) := by
    apply takeWhile_append_stop _ _ _ hmant_e
    intro c hc
    rw [hex c hc]; decide
  have h2 : (ip ++ (if dot then '.' :: fp else [])).takeWhile (· != '.') = ip := by
    apply takeWhile_append_stop
    · intro c hc; simpa using (isDigit_ne (hdi c hc)).1
    · intro c hc
      cases dot with
      | false => simp at hc
      | true => simp only [if_true, List.head?_cons, Option.some.injEq] at hc; subst hc; decide
  have h3 : ((ip ++ (if dot then '.' :: fp else [])).drop ip.length).drop 1 = fp := by
    rw [List.drop_left]
    cases dot with
    | false => simp [hdot rfl]
    | true => simp
  have h4 : (ip ++ (if dot then '.' :: fp else []) ++ ex).drop (ip ++ (if dot then '.' :: fp else [])).length = ex :=
    List.drop_left
  have h5 : (ip.isEmpty || !(ip ++ fp).all Char.isDigit) = false := by
    have : ip.isEmpty = false := by simpa using hip
    rw [this, Bool.false_or]
    have : (ip ++ fp).all Char.isDigit = true := by
      rw [List.all_eq_true]
      intro c hc
      rcases List.mem_append.mp hc with h | h
      · exact hdi c h
      · exact hdf c h
    rw [this]; rfl
  unfold parseMant
  simp only [h1, h2, h3, h4, h5, Bool.false_eq_true, if_false]

theorem parseRepr_signed (neg : Bool) (body : Str) (hb : ∀ c, body.head? = some c → c.isDigit = true) :
    parseRepr (signStr neg ++ body) = (parseMant body).map fun x => (neg, x.1, x.2) := by
  unfold parseRepr
  cases neg with
  | true =>
    have : ((signStr true ++ body).head? == some '-') = true := by simp [signStr]
    rw [this]
    simp [signStr]
  | false =>
    have : ((signStr false ++ body).head? == some '-') = false := by
      simp only [signStr, Bool.false_eq_true, if_false, List.nil_append, beq_eq_false_iff_ne, ne_eq]
      intro h
      exact (isDigit_ne (hb '-' h)).2.2 rfl
    rw [this]
    simp [signStr]

/-! ### exponent digits -/

theorem digitsValue_zero_cons (s : Str) : digitsValue ('0' :: s) = digitsValue s := by
  unfold digitsValue
  simp only [List.foldl_cons]
  have : (decDigit? '0').getD 0 = 0 := by decide
  rw [this]

theorem exp2_spec (n : Nat) : digitsValue (exp2 n) = n ∧ (exp2 n).isEmpty = false ∧ (exp2 n).all Char.isDigit = true := by
  unfold exp2
  have hne : (natStr n).isEmpty = false := by
    cases h : natStr n with
    | nil => exact absurd h (natStr_ne_nil n)
    | cons _ _ => rfl
  have hall : (natStr n).all Char.isDigit = true := List.all_eq_true.mpr (natStr_digits n)
  split
  · refine ⟨by rw [digitsValue_zero_cons, digitsValue_natStr], rfl, ?_⟩
    simp only [List.all_cons, hall, Bool.and_true]; decide
  · exact ⟨digitsValue_natStr n, hne, hall⟩

/-! ### `format(·, 'f')` -/

theorem positional_small (neg : Bool) (ds : Str) (lz : Nat) (P pt : Int) (hne : ds ≠ []) (hh : ds.head? ≠ some '0')
    (hP : P - ((lz + ds.length : Nat) : Int) = pt - (ds.length : Int)) (hpt : pt ≤ 0) :
    positional neg (zeros lz ++ ds) P = signStr neg ++ '0' :: '.' :: (zeros (-pt).toNat ++ ds) := by
  unfold positional
  simp only
  rw [dropWhile0_zeros_append lz ds hh]
  have he : ds.isEmpty = false := by simpa using hne
  simp only [he, Bool.false_eq_true, if_false, List.length_append, zeros_length]
  have hlen : 0 < ds.length := List.length_pos_iff.mpr hne
  have h1 : ¬ (0 ≤ P - ((lz + ds.length : Nat) : Int)) := by omega
  have h2 : ¬ (ds.length > (-(P - ((lz + ds.length : Nat) : Int))).toNat) := by omega
  have h3 : (-(P - ((lz + ds.length : Nat) : Int))).toNat - ds.length = (-pt).toNat := by omega
  rw [if_neg h1, if_neg h2, h3]
  rfl

theorem positional_mid (neg : Bool) (ds : Str) (pt : Int) (hne : ds ≠ []) (hh : ds.head? ≠ some '0')
    (h0 : 0 < pt) (h1 : pt < (ds.length : Int)) :
    positional neg ds pt = signStr neg ++ (ds.take pt.toNat ++ '.' :: ds.drop pt.toNat) := by
  unfold positional
  simp only
  rw [dropWhile0_id ds hh]
  have he : ds.isEmpty = false := by simpa using hne
  simp only [he, Bool.false_eq_true, if_false]
  have a1 : ¬ (0 ≤ pt - (ds.length : Int)) := by omega
  have a2 : ds.length > (-(pt - (ds.length : Int))).toNat := by omega
  have a3 : ds.length - (-(pt - (ds.length : Int))).toNat = pt.toNat := by omega
  rw [if_neg a1, if_pos a2, a3]
  rfl

theorem positional_big (neg : Bool) (ds : Str) (j : Nat) (hne : ds ≠ []) (hh : ds.head? ≠ some '0') :
    positional neg (ds ++ zeros j ++ ['0']) ((ds.length + j : Nat) : Int) = signStr neg ++ (ds ++ zeros j ++ ['.', '0']) := by
  unfold positional
  simp only
  have hh' : (ds ++ zeros j ++ ['0']).head? ≠ some '0' := by
    cases ds with
    | nil => exact absurd rfl hne
    | cons a r => simpa using hh
  rw [dropWhile0_id _ hh']
  have he : (ds ++ zeros j ++ ['0']).isEmpty = false := by simp
  simp only [he, Bool.false_eq_true, if_false, List.length_append, zeros_length, List.length_singleton]
  have hlen : 0 < ds.length := List.length_pos_iff.mpr hne
  have a1 : ¬ (0 ≤ ((ds.length + j : Nat) : Int) - ((ds.length + j + 1 : Nat) : Int)) := by omega
  have a2 : ds.length + j + 1 > (-(((ds.length + j : Nat) : Int) - ((ds.length + j + 1 : Nat) : Int))).toNat := by omega
  have a3 : ds.length + j + 1 - (-(((ds.length + j : Nat) : Int) - ((ds.length + j + 1 : Nat) : Int))).toNat = ds.length + j := by
    omega
  rw [if_neg a1, if_pos a2, a3]
  have hl : (ds ++ zeros j).length = ds.length + j := by simp [zeros_length]
  rw [List.take_left' hl, List.drop_left' hl]
  simp [signStr]

/-! ### the formatter on the value of a canonical numeral -/

theorem head?_append_ne_nil {l r : Str} (h : l ≠ []) : (l ++ r).head? = l.head? := by
  cases l with
  | nil => exact absurd rfl h
  | cons a t => rfl

theorem mem_of_head? {l : Str} {c : Char} (h : l.head? = some c) : c ∈ l := by
  cases l with
  | nil => cases h
  | cons a t => simp only [List.head?_cons, Option.some.injEq] at h; subst h; simp

theorem head_digit_of_ds {d : Dec} (hc : CanonDec d) (hne : d.ds ≠ []) (r : Str) :
    ∀ c, (d.ds ++ r).head? = some c → c.isDigit = true := by
  intro c h
  cases hd : d.ds with
  | nil => exact absurd hd hne
  | cons a t =>
    rw [hd] at h
    simp only [List.cons_append, List.head?_cons, Option.some.injEq] at h
    subst h
    exact hc.digits a (by rw [hd]; simp)

theorem floatFmt_unfold (d : Dec) :
    floatFmt (floatVal d) = (parseRepr (reprDec d)).map fun x => positional x.1 x.2.1 x.2.2 := by
  have hpre : "float:".toList.isPrefixOf ("float:".toList ++ reprDec d) = true :=
    List.isPrefixOf_iff_prefix.mpr (List.prefix_append _ _)
  have hdrop : ("float:".toList ++ reprDec d).drop 6 = reprDec d := List.drop_left' rfl
  unfold floatFmt floatVal
  simp only [hpre, if_true, hdrop]

/-- **the formatter on an exactly converted value**: for a canonical numeral below 1e17 the live
formatter `format(Decimal(repr(x)), 'f')` gives the positional text of the numeral -/
theorem floatFmt_floatVal (d : Dec) (hc : CanonDec d) (hpt : d.pt ≤ 16) :
    floatFmt (floatVal d) = some (signStr d.neg ++ posText d) := by
  rw [floatFmt_unfold]
  by_cases h0 : d.ds.isEmpty = true
  · -- zero
    have hr : reprDec d = signStr d.neg ++ ['0', '.', '0'] := by simp [reprDec, h0, signStr]
    rw [hr, parseRepr_signed d.neg _ (by intro c h; simp at h; subst h; exact isDigit_zero)]
    have hp : parseMant ['0', '.', '0'] = some (['0', '0'], 1) := by decide
    rw [hp]
    simp only [Option.map_some, posText, h0, if_true, Option.some.injEq]
    cases d.neg <;> decide
  · have hne : d.ds ≠ [] := by simpa using h0
    have hlen : 0 < d.ds.length := List.length_pos_iff.mpr hne
    by_cases hA : -4 < d.pt ∧ d.pt ≤ 16
    · by_cases h1 : d.pt ≤ 0
      · -- 0.000ddd
        have hr : reprDec d = signStr d.neg ++ (['0'] ++ (if true then '.' :: (zeros (-d.pt).toNat ++ d.ds) else []) ++ []) := by
          simp [reprDec, h0, hA, h1, signStr]
        rw [hr, parseRepr_signed d.neg _ (by intro c h; simp at h; subst h; exact isDigit_zero),
          parseMant_eq ['0'] (zeros (-d.pt).toNat ++ d.ds) [] true (by simp)
            (by intro c h; simp at h; subst h; exact isDigit_zero)
            (by
              intro c h
              rcases List.mem_append.mp h with h | h
              · exact zeros_digits _ c h
              · exact hc.digits c h)
            (by intro h; cases h) (by intro c h; cases h)]
        simp only [mantTail, Option.map_some, Option.some.injEq]
        have hz : ['0'] ++ (zeros (-d.pt).toNat ++ d.ds) = zeros ((-d.pt).toNat + 1) ++ d.ds := by
          rw [zeros_succ]; simp
        rw [hz, positional_small d.neg d.ds _ _ d.pt hne hc.head (by simp only [List.length_singleton]; omega) h1]
        simp [posText, h0, h1]
      · by_cases h2 : d.pt < (d.ds.length : Int)
        · -- dd.ddd
          have hr : reprDec d = signStr d.neg ++ (d.ds.take d.pt.toNat ++ (if true then '.' :: d.ds.drop d.pt.toNat else []) ++ []) := by
            simp [reprDec, h0, hA, h1, h2, signStr]
          have htk : d.ds.take d.pt.toNat ≠ [] := by
            intro h
            have := congrArg List.length h
            simp only [List.length_take, List.length_nil] at this
            omega
          have hhead : ∀ c, (d.ds.take d.pt.toNat ++ (if true then '.' :: d.ds.drop d.pt.toNat else []) ++ []).head? = some c →
              c.isDigit = true := by
            intro c h
            rw [List.append_assoc, head?_append_ne_nil htk] at h
            exact hc.digits c (List.mem_of_mem_take (mem_of_head? h))
          rw [hr, parseRepr_signed d.neg _ hhead,
            parseMant_eq (d.ds.take d.pt.toNat) (d.ds.drop d.pt.toNat) [] true htk
              (fun c h => hc.digits c (List.mem_of_mem_take h)) (fun c h => hc.digits c (List.mem_of_mem_drop h))
              (by intro h; cases h) (by intro c h; cases h)]
          simp only [mantTail, Option.map_some, Option.some.injEq, List.take_append_drop]
          have hl : ((d.ds.take d.pt.toNat).length : Int) = d.pt := by
            simp only [List.length_take]; omega
          rw [hl, positional_mid d.neg d.ds d.pt hne hc.head (by omega) h2]
          simp [posText, h0, h1, h2]
        · -- ddd000.0
          have hr : reprDec d = signStr d.neg ++
              ((d.ds ++ zeros (d.pt - (d.ds.length : Int)).toNat) ++ (if true then '.' :: ['0'] else []) ++ []) := by
            simp [reprDec, h0, hA, h1, h2, signStr]
          have hhead : ∀ c, ((d.ds ++ zeros (d.pt - (d.ds.length : Int)).toNat) ++ (if true then '.' :: ['0'] else []) ++ []).head? = some c →
              c.isDigit = true := by
            intro c h
            rw [List.append_assoc, List.append_assoc] at h
            exact head_digit_of_ds hc hne _ c h
          rw [hr, parseRepr_signed d.neg _ hhead,
            parseMant_eq (d.ds ++ zeros (d.pt - (d.ds.length : Int)).toNat) ['0'] [] true (by simp [hne])
              (by
                intro c h
                rcases List.mem_append.mp h with h | h
                · exact hc.digits c h
                · exact zeros_digits _ c h)
              (by intro c h; simp at h; subst h; exact isDigit_zero)
              (by intro h; cases h) (by intro c h; cases h)]
          simp only [mantTail, Option.map_some, Option.some.injEq]
          have hl : ((d.ds ++ zeros (d.pt - (d.ds.length : Int)).toNat).length : Int) =
              ((d.ds.length + (d.pt - (d.ds.length : Int)).toNat : Nat) : Int) := by
            simp [zeros_length]
          rw [hl, positional_big d.neg d.ds _ hne hc.head]
          simp [posText, h0, h1, h2]
    · -- d.ddde-XX
      have hsmall : d.pt ≤ -4 := by omega
      have hx : d.pt - 1 < 0 := by omega
      obtain ⟨e1, e2, e3⟩ := exp2_spec (d.pt - 1).natAbs
      have hdot : (decide (d.ds.length > 1)) = false → d.ds.drop 1 = [] := by
        intro h
        have : ¬ d.ds.length > 1 := by simpa using h
        apply List.drop_eq_nil_of_le
        omega
      have hr : reprDec d = signStr d.neg ++ (d.ds.take 1 ++ (if decide (d.ds.length > 1) = true then '.' :: d.ds.drop 1 else []) ++
          'e' :: '-' :: exp2 (d.pt - 1).natAbs) := by
        simp [reprDec, h0, hA, hx, signStr]
      have htk : d.ds.take 1 ≠ [] := by
        intro h
        have := congrArg List.length h
        simp only [List.length_take, List.length_nil] at this
        omega
      have hhead : ∀ c, (d.ds.take 1 ++ (if decide (d.ds.length > 1) = true then '.' :: d.ds.drop 1 else []) ++
          'e' :: '-' :: exp2 (d.pt - 1).natAbs).head? = some c → c.isDigit = true := by
        intro c h
        rw [List.append_assoc, head?_append_ne_nil htk] at h
        exact hc.digits c (List.mem_of_mem_take (mem_of_head? h))
      rw [hr, parseRepr_signed d.neg _ hhead,
        parseMant_eq (d.ds.take 1) (d.ds.drop 1) ('e' :: '-' :: exp2 (d.pt - 1).natAbs) (decide (d.ds.length > 1)) htk
          (fun c h => hc.digits c (List.mem_of_mem_take h)) (fun c h => hc.digits c (List.mem_of_mem_drop h))
          hdot (by intro c h; simp at h; exact h.symm)]
      simp only [mantTail, e1, e2, e3, Bool.not_true, Bool.or_self, Bool.false_eq_true, if_false, Option.map_some,
        Option.some.injEq, List.take_append_drop]
      have hl : ((d.ds.take 1).length : Int) - ((d.pt - 1).natAbs : Int) = d.pt := by
        simp only [List.length_take]; omega
      rw [hl]
      have := positional_small d.neg d.ds 0 d.pt d.pt hne hc.head (by simp) (by omega)
      simp only [zeros, List.replicate_zero, List.nil_append] at this
      rw [this]
      have h1 : d.pt ≤ 0 := by omega
      simp [posText, h0, h1, zeros]

/-! ### the value of an exactly converted numeral meets the side condition -/

theorem dot_mem_posText (d : Dec) : '.' ∈ posText d := by
  unfold posText
  split
  · simp
  · split
    · simp
    · split <;> simp

theorem floatValOK_canon (fc : FloatConv) (d : Dec) (hc : CanonDec d) (he : exactDec d = true) (hpt : d.pt ≤ 16) :
    floatValOK fc (floatVal d) = true := by
  obtain ⟨hl, hlen⟩ := floatLex_posText d hc
  have hf : floatFilter fc (signStr d.neg ++ posText d) =
      some ⟨floatVal d, (signStr d.neg ++ posText d).length, none⟩ := by
    unfold floatFilter
    rw [hl]
    simp only [Option.map_some, posLex_dec d hc, he, if_true, hlen]
  unfold floatValOK
  rw [floatFmt_floatVal d hc hpt]
  simp only [hf, beq_self_eq_true, Bool.and_true, List.contains_iff_mem]
  exact List.mem_append_right _ (dot_mem_posText d)

/-- **every exactly converted value below 1e17 meets the side condition**: if the numeral matched
by the `float` mask has at most 15 significant digits (`exactDec`) and its decimal point stands
after at most 16 digits, the formatter's text for its value has a decimal point and is read back
by the handler, whole, as the same value -/
theorem floatValOK_exact (fc : FloatConv) {s : Str} {l : FloatLex} (h : floatLex s = some l)
    (he : exactDec l.dec = true) (hpt : l.dec.pt ≤ 16) : floatValOK fc (floatVal l.dec) = true :=
  floatValOK_canon fc l.dec (lex_canonDec h) he hpt

/-- the `float` part of the side conditions from the texts: when every numeral a `float` wildcard
takes is exactly converted and below 1e17, every `float` value is `floatValOK` -/
theorem floatsOK_of_texts (fc : FloatConv) (env : FilterEnv) (p : List Sym) :
    ∀ (path : Str) (vs : List Val), matchRule (withBuiltin fc env) p path = some vs →
      floatTextsExact (withBuiltin fc env) p path = true → floatsOK fc p vs = true := by
  induction p with
  | nil => intro _ _ _ _; rfl
  | cons s p ih =>
    intro path vs hm ht
    cases s with
    | lit c =>
      obtain ⟨r, rfl, hm'⟩ := matchRule_lit.mp hm
      have : floatsOK fc (.lit c :: p) vs = floatsOK fc p vs := by cases vs <;> rfl
      rw [this]
      exact ih r vs hm' ht
    | tok f =>
      obtain ⟨_, res, vs', htr, hm', rfl⟩ := matchRule_tok.mp hm
      cases f with
      | none =>
        have ht' : (true && floatTextsExact (withBuiltin fc env) p (path.drop res.n)) = true := by
          have := ht
          unfold floatTextsExact at this
          rw [htr] at this
          exact this
        simp only [Bool.true_and] at ht'
        simp only [floatsOK, Bool.true_and]
        exact ih _ vs' hm' ht'
      | some g =>
        have ht' : ((!isFloatFid g || (floatLex path).elim true fun l => exactDec l.dec && decide (l.dec.pt ≤ 16)) &&
            floatTextsExact (withBuiltin fc env) p (path.drop res.n)) = true := by
          have := ht
          unfold floatTextsExact at this
          rw [htr] at this
          cases hl : floatLex path <;> simpa [hl] using this
        simp only [Bool.and_eq_true] at ht'
        simp only [floatsOK, Bool.and_eq_true]
        refine ⟨?_, ih _ vs' hm' ht'.2⟩
        by_cases hg : isFloatFid g = true
        · simp only [hg, Bool.not_true, Bool.false_or]
          have h1 := ht'.1
          simp only [hg, Bool.not_true, Bool.false_or] at h1
          have htr' : floatFilter fc path = some res := by rw [← withBuiltin_float fc env hg]; exact htr
          obtain ⟨l, hl, hr⟩ := floatFilter_spec htr'
          rw [hl] at h1
          simp only [Option.elim, Bool.and_eq_true, decide_eq_true_eq] at h1
          rw [hr]
          simp only [h1.1, if_true]
          exact floatValOK_exact fc hl h1.1 h1.2
        · simp [hg]

end Ombott.Builtins
