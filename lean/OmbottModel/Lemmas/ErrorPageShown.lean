import OmbottModel.Lemmas.ErrorPageRepr
/-! The URL cell read back by the strict HTML data reader (C20). -/
namespace Ombott.ErrorPage
open Py

theorem opt_map_some {α β} {f : α → β} {x : Option α} {b : β} (h : x.map f = some b) :
    ∃ a, x = some a ∧ b = f a := by
  cases x with
  | none => cases h
  | some a => exact ⟨a, rfl, by cases h; rfl⟩

theorem htmlData_mono (f f' : Nat) (t r : Str) (h : htmlData f t = some r) (hle : f ≤ f') :
    htmlData f' t = some r := by
  induction f generalizing f' t r with
  | zero =>
    cases t with
    | nil => cases f' <;> (simp only [htmlData] at h ⊢; exact h)
    | cons c cs => simp [htmlData] at h
  | succ f ih =>
    cases t with
    | nil => cases f' <;> (simp only [htmlData] at h ⊢; exact h)
    | cons c cs =>
      cases f' with
      | zero => omega
      | succ f'' =>
        have hle' : f ≤ f'' := by omega
        simp only [htmlData] at h ⊢
        split at h
        · rename_i hc
          simp only [hc, if_true]
          split at h
          · rename_i d r' hm
            obtain ⟨a, ha, rfl⟩ := opt_map_some h
            simp only [ih f'' r' a ha hle']
            rfl
          · cases h
        · rename_i hc
          simp only [hc]
          split at h
          · cases h
          · rename_i hc2
            simp only [hc2, if_false, Bool.false_eq_true]
            obtain ⟨a, ha, rfl⟩ := opt_map_some h
            simp only [ih f'' cs a ha hle']
            rfl

theorem htmlData_safe_prefix (l rest : Str) (h : ∀ x ∈ l, x ∉ special) (f : Nat) :
    htmlData (f + l.length) (l ++ rest) = (htmlData f rest).map (l ++ ·) := by
  induction l with
  | nil =>
    simp only [List.length_nil, Nat.add_zero, List.nil_append]
    cases htmlData f rest <;> rfl
  | cons c cs ih =>
    have hc : c ∉ special := h c (by simp)
    have h1 : (c == '&') = false := by
      rw [beq_eq_false_iff_ne]; rintro rfl; exact hc (by decide)
    have h2 : (c == '<') = false := by
      rw [beq_eq_false_iff_ne]; rintro rfl; exact hc (by decide)
    have : f + (c :: cs).length = (f + cs.length) + 1 := by simp only [List.length_cons]; omega
    rw [this]
    simp only [List.cons_append, htmlData, h1, h2, Bool.false_eq_true, if_false,
      ih fun x hx => h x (by simp [hx])]
    cases htmlData f rest <;> rfl

theorem htmlData_entity (ent : Str) (c : Char) (rest : Str) (f : Nat) (hent : ent ∈ entities)
    (hm : matchEntity ent = some (c, [])) :
    htmlData (f + 1) (ent ++ rest) = (htmlData f rest).map (c :: ·) := by
  obtain ⟨⟨r', hr', _⟩, _⟩ := entities_shape ent hent
  have hm' := matchEntity_append ent c rest hm
  rw [hr'] at hm' ⊢
  simp only [List.cons_append] at hm' ⊢
  simp only [htmlData, beq_self_eq_true, if_true, hm']

theorem urlCell_cons (pr : Char → Bool) (c : Char) (cs : Str) :
    urlCell pr (c :: cs) =
      ((Gen.pageEscapePairs.lookup c).getD [c]).flatMap (reprChar pr '\'') ++ urlCell pr cs := by
  simp [urlCell, pageEscape, escapeWith, List.flatMap_append]

/-- the URL cell is pure character data, and the data is the URL with `repr`'s escapes -/
theorem htmlData_urlCell (pr : Char → Bool) (hp : PairsOK Gen.pageEscapePairs = true)
    (hd : PairsDecode Gen.pageEscapePairs = true) (url : Str) :
    htmlData (urlCell pr url).length (urlCell pr url) = some (shownUrl pr url) := by
  induction url with
  | nil => rfl
  | cons c cs ih =>
    rw [urlCell_cons]
    have hp' := hp
    simp only [PairsOK, Bool.and_eq_true, List.all_eq_true] at hp'
    cases hl : Gen.pageEscapePairs.lookup c with
    | none =>
      have hns : c ∉ special := by
        intro hc
        have := hp'.1 c hc
        rw [hl] at this
        simp at this
      have hsafe : ∀ x ∈ reprChar pr '\'' c, x ∉ special := by
        intro x hx
        rcases reprChar_mem pr '\'' c x hx with rfl | h
        · exact hns
        · exact h
      simp only [Option.getD_none, List.flatMap_cons, List.flatMap_nil, List.append_nil, List.length_append]
      rw [Nat.add_comm, htmlData_safe_prefix _ _ hsafe, ih]
      simp [shownUrl, hns]
    | some r =>
      have hmem := lookup_mem hl
      have hent : r ∈ entities := by
        have := hp'.2 (c, r) hmem
        simpa using this
      simp only [PairsDecode, List.all_eq_true, beq_iff_eq] at hd
      have hm := hd (c, r) hmem
      have hsp : c ∈ special := by
        -- the decoded character of an entity is special
        have : ∀ ent ∈ entities, (match matchEntity ent with
            | some (d, _) => special.contains d
            | none => true) = true := by decide
        have h := this r hent
        rw [hm] at h
        simpa using h
      simp only [Option.getD_some]
      rw [flatMap_id_of r fun x hx => reprChar_plain pr x (entities_plain r hent x hx)]
      have hstep := htmlData_entity r c (urlCell pr cs) (urlCell pr cs).length hent hm
      rw [ih] at hstep
      have hshown : shownUrl pr (c :: cs) = c :: shownUrl pr cs := by
        simp [shownUrl, hsp]
      rw [hshown]
      obtain ⟨⟨r', hr', _⟩, _⟩ := entities_shape r hent
      refine htmlData_mono _ _ _ _ hstep ?_
      simp only [List.length_append, hr', List.length_cons]
      omega

end Ombott.ErrorPage
