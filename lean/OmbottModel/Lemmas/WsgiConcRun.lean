import OmbottModel.Model.WsgiConc
import OmbottModel.Lemmas.TsPropsMachine
/-!
The event-level replay the driver uses (`runEvents`) is a run of the interleaving machine on the
fine-grained schedule it returns, so the theorems about `run` speak about what the driver executes.
-/
namespace Ombott.WsgiConc
open Py Ombott.TsProps

theorem advance_eq_run (v : Variant) (t : ThreadId) (fuel : Nat) (m : Machine) :
    (advance v t fuel m).1 = run v m (advance v t fuel m).2 := by
  induction fuel generalizing m with
  | zero => rfl
  | succ n ih =>
    unfold advance
    split
    · rfl
    · split
      · rfl
      · simp only []
        rw [ih]
        rfl
    · simp only []
      rw [ih]
      rfl

theorem drain_eq_run (v : Variant) (t : ThreadId) (fuel : Nat) (m : Machine) :
    (drain v t fuel m).1 = run v m (drain v t fuel m).2 := by
  induction fuel generalizing m with
  | zero => rfl
  | succ n ih =>
    unfold drain
    split
    · rfl
    · simp only []
      rw [ih]
      rfl

theorem runEv_eq_run (v : Variant) (m : Machine) (e : Ev) : (runEv v m e).1 = run v m (runEv v m e).2 := by
  cases e with
  | step t => exact advance_eq_run v t _ m
  | finish t => exact drain_eq_run v t _ m

/-- what the driver executes for an event-level schedule is `run` on the schedule it returns -/
theorem runEvents_eq_run (v : Variant) (m : Machine) (evs : List Ev) :
    (runEvents v m evs).1 = run v m (runEvents v m evs).2 := by
  induction evs generalizing m with
  | nil => rfl
  | cons e es ih =>
    simp only [runEvents]
    rw [run_append, ← runEv_eq_run, ← ih]

end Ombott.WsgiConc
