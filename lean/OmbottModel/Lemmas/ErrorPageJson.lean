import OmbottModel.Model.ErrorPageSpec
/-! `jsonParse ∘ dumpsObj = some` (C20). -/
namespace Ombott.ErrorPage
open Py

theorem hexVal_hexDigitL : ∀ k : Fin 16, hexVal? (hexDigitL k.val) = some k.val := by decide

theorem hexVal_hexDigitL' (k : Nat) (h : k < 16) : hexVal? (hexDigitL k) = some k :=
  hexVal_hexDigitL ⟨k, h⟩

theorem parseHex4_hex4 (n : Nat) (h : n < 65536) (r : Str) : parseHex4 (hex4 n ++ r) = some (n, r) := by
  simp only [hex4, hex2, List.cons_append, List.nil_append, parseHex4]
  rw [hexVal_hexDigitL' _ (Nat.mod_lt _ (by decide)), hexVal_hexDigitL' _ (Nat.mod_lt _ (by decide)),
    hexVal_hexDigitL' _ (Nat.mod_lt _ (by decide)), hexVal_hexDigitL' _ (Nat.mod_lt _ (by decide))]
  simp only [Option.some.injEq, Prod.mk.injEq, and_true]
  omega

theorem char_cases (c : Char) : c.toNat < 0xd800 ∨ (0xdfff < c.toNat ∧ c.toNat < 0x110000) := by
  have := c.valid
  simp only [UInt32.isValidChar, Nat.isValidChar] at this
  exact this

theorem ofNat_toNat (c : Char) : Char.ofNat c.toNat = c := Char.ofNat_toNat c

end Ombott.ErrorPage


namespace Ombott.ErrorPage
open Py

theorem parseUnit_bs_u (r : Str) : parseUnit ('\\' :: 'u' :: r) = parseU r := rfl

theorem parseU_bmp (c : Char) (h : c.toNat < 65536) (rest : Str) :
    parseU (hex4 c.toNat ++ rest) = some (c, rest) := by
  unfold parseU
  rw [parseHex4_hex4 _ h]
  simp only
  have hc := char_cases c
  have h1 : (0xd800 ≤ c.toNat && c.toNat < 0xdc00) = false := by
    rw [Bool.eq_false_iff]; intro hh
    simp only [Bool.and_eq_true, decide_eq_true_eq] at hh; omega
  have h2 : (0xdc00 ≤ c.toNat && c.toNat < 0xe000) = false := by
    rw [Bool.eq_false_iff]; intro hh
    simp only [Bool.and_eq_true, decide_eq_true_eq] at hh; omega
  rw [h1]
  simp only [Bool.false_eq_true, if_false]
  rw [h2]
  simp only [Bool.false_eq_true, if_false, ofNat_toNat]

theorem parseU_pair (hi lo : Nat) (h1 : 0xd800 ≤ hi) (h2 : hi < 0xdc00) (h3 : 0xdc00 ≤ lo) (h4 : lo < 0xe000)
    (rest : Str) :
    parseU (hex4 hi ++ ('\\' :: 'u' :: hex4 lo) ++ rest) =
      some (Char.ofNat (65536 + (hi - 0xd800) * 1024 + (lo - 0xdc00)), rest) := by
  unfold parseU
  rw [List.append_assoc, parseHex4_hex4 _ (by omega)]
  simp only [List.cons_append]
  rw [parseHex4_hex4 _ (by omega)]
  have h1 : (0xd800 ≤ hi && hi < 0xdc00) = true := by
    simp only [Bool.and_eq_true, decide_eq_true_eq]; omega
  have h2 : (0xdc00 ≤ lo && lo < 0xe000) = true := by
    simp only [Bool.and_eq_true, decide_eq_true_eq]; omega
  rw [h1]
  simp only [if_true]
  rw [h2]
  simp only [if_true]

theorem parseU_astral (c : Char) (h : 65536 ≤ c.toNat) (rest : Str) :
    parseU (hex4 (0xd800 + (c.toNat - 65536) / 1024) ++
      ('\\' :: 'u' :: hex4 (0xdc00 + (c.toNat - 65536) % 1024)) ++ rest) = some (c, rest) := by
  have hc := char_cases c
  have hv : (c.toNat - 65536) / 1024 < 1024 := by omega
  have hm : (c.toNat - 65536) % 1024 < 1024 := Nat.mod_lt _ (by decide)
  rw [parseU_pair _ _ (by omega) (by omega) (by omega) (by omega)]
  have : 65536 + (0xd800 + (c.toNat - 65536) / 1024 - 0xd800) * 1024 +
      (0xdc00 + (c.toNat - 65536) % 1024 - 0xdc00) = c.toNat := by omega
  rw [this, ofNat_toNat]

theorem parseU_astral' (c : Char) (h : 65536 ≤ c.toNat) (rest : Str) :
    parseU (hex4 (0xd800 + (c.toNat - 65536) / 1024) ++
      '\\' :: 'u' :: (hex4 (0xdc00 + (c.toNat - 65536) % 1024) ++ rest)) = some (c, rest) := by
  have := parseU_astral c h rest
  rw [List.append_assoc] at this
  exact this

/-- reading back one escaped character -/
theorem parseUnit_esc (c : Char) (rest : Str) : parseUnit (jsonEscChar c ++ rest) = some (c, rest) := by
  unfold jsonEscChar
  simp only
  split
  · rename_i h; simp only [beq_iff_eq] at h; subst h; rfl
  split
  · rename_i h; simp only [beq_iff_eq] at h; subst h; rfl
  split
  · rename_i h; simp only [beq_iff_eq] at h; subst h; rfl
  split
  · rename_i h; simp only [beq_iff_eq] at h; subst h; rfl
  split
  · rename_i h; simp only [beq_iff_eq] at h; subst h; rfl
  split
  · rename_i h; simp only [beq_iff_eq] at h
    have : c = Char.ofNat 8 := by rw [← h, ofNat_toNat]
    subst this; rfl
  split
  · rename_i h; simp only [beq_iff_eq] at h
    have : c = Char.ofNat 12 := by rw [← h, ofNat_toNat]
    subst this; rfl
  split
  · rename_i h1 h2 _ _ _ _ _ h
    simp only [Bool.and_eq_true, decide_eq_true_eq] at h
    have hlt : ¬ c.toNat < 32 := by omega
    simp [parseUnit, h1, h2, hlt]
  split
  · rename_i h
    simp only [List.cons_append, parseUnit_bs_u]
    exact parseU_bmp c h rest
  · rename_i h
    simp only [List.cons_append, List.append_assoc]
    rw [parseUnit_bs_u]
    exact parseU_astral' c (by omega) rest

end Ombott.ErrorPage

namespace Ombott.ErrorPage
open Py

/-- an escaped character never starts with the closing quote, and is not empty -/
theorem jsonEscChar_head (c : Char) : ∃ x xs, jsonEscChar c = x :: xs ∧ x ≠ '"' := by
  unfold jsonEscChar
  simp only
  repeat' split
  all_goals first
    | exact ⟨'\\', _, rfl, by decide⟩
    | (rename_i h _ _ _ _ _ _ _; exact ⟨c, [], rfl, by simpa using h⟩)

theorem parseStrBody_esc (s : Str) (rest : Str) (fuel : Nat) (hf : s.length < fuel) :
    parseStrBody fuel (s.flatMap jsonEscChar ++ '"' :: rest) = some (s, rest) := by
  induction s generalizing fuel with
  | nil =>
    cases fuel with
    | zero => omega
    | succ f => simp [parseStrBody]
  | cons c cs ih =>
    cases fuel with
    | zero => omega
    | succ f =>
      obtain ⟨x, xs, hx, hne⟩ := jsonEscChar_head c
      have hu := parseUnit_esc c (cs.flatMap jsonEscChar ++ '"' :: rest)
      rw [List.flatMap_cons, List.append_assoc]
      rw [hx] at hu ⊢
      simp only [List.cons_append] at hu ⊢
      have hne' : (x == '"') = false := by simpa using hne
      simp only [parseStrBody, hne', Bool.false_eq_true, if_false, hu]
      rw [ih f (by simp only [List.length_cons] at hf; omega)]
      rfl

theorem flatMap_esc_length (s : Str) : s.length ≤ (s.flatMap jsonEscChar).length := by
  induction s with
  | nil => simp
  | cons c cs ih =>
    obtain ⟨x, xs, hx, _⟩ := jsonEscChar_head c
    rw [List.flatMap_cons, hx]
    simp only [List.cons_append, List.length_cons, List.length_append]
    omega

theorem parseString_jsonStr (s rest : Str) : parseString (jsonStr s ++ rest) = some (s, rest) := by
  unfold jsonStr parseString
  simp only [List.cons_append, List.append_assoc, List.nil_append]
  apply parseStrBody_esc
  have := flatMap_esc_length s
  simp only [List.length_append, List.length_cons]
  omega

theorem jsonStr_cons (s : Str) : jsonStr s = '"' :: (s.flatMap jsonEscChar ++ ['"']) := rfl

theorem parseValue_jsonVal (v : Option Str) (rest : Str) :
    parseValue (jsonVal v ++ rest) = some (v, rest) := by
  cases v with
  | none => rfl
  | some s =>
    have h := parseString_jsonStr s rest
    simp only [jsonVal]
    rw [jsonStr_cons] at h ⊢
    simp only [List.cons_append] at h ⊢
    unfold parseValue
    simp only [h]
    rfl

theorem skipWs_quote (r : Str) : skipWs ('"' :: r) = '"' :: r := rfl
theorem skipWs_space (r : Str) : skipWs (' ' :: r) = skipWs r := rfl
theorem skipWs_colon (r : Str) : skipWs (':' :: r) = ':' :: r := rfl
theorem skipWs_comma (r : Str) : skipWs (',' :: r) = ',' :: r := rfl
theorem skipWs_brace (r : Str) : skipWs ('}' :: r) = '}' :: r := rfl
theorem skipWs_n (r : Str) : skipWs ('n' :: r) = 'n' :: r := rfl

theorem skipWs_jsonVal (v : Option Str) (r : Str) : skipWs (jsonVal v ++ r) = jsonVal v ++ r := by
  cases v with
  | none => rfl
  | some s => rfl

theorem parseMembers_space (fuel : Nat) (s : Str) : parseMembers fuel (' ' :: s) = parseMembers fuel s := by
  cases fuel with
  | zero => rfl
  | succ f => simp only [parseMembers, skipWs_space]

/-- one member `"k": v` read back, followed by whatever the text after it says -/
theorem parseMembers_step (f : Nat) (k : Str) (v : Option Str) (r : Str) :
    parseMembers (f + 1) (jsonStr k ++ ':' :: ' ' :: (jsonVal v ++ r)) =
      match skipWs r with
      | ',' :: r3 => (parseMembers f r3).map fun (l, t) => ((k, v) :: l, t)
      | '}' :: r3 => some ([(k, v)], r3)
      | _ => none := by
  rw [parseMembers]
  rw [show skipWs (jsonStr k ++ ':' :: ' ' :: (jsonVal v ++ r)) = jsonStr k ++ (':' :: ' ' :: (jsonVal v ++ r)) from by
    rw [jsonStr_cons]; simp only [List.cons_append, skipWs_quote]]
  rw [parseString_jsonStr]
  simp only [skipWs_colon, skipWs_space, skipWs_jsonVal, parseValue_jsonVal]
  rfl

theorem parseMembers_members (kvs : List (Str × Option Str)) (hne : kvs ≠ []) (rest : Str) (fuel : Nat)
    (hf : kvs.length ≤ fuel) :
    parseMembers fuel (jsonMembers kvs ++ '}' :: rest) = some (kvs, rest) := by
  induction kvs generalizing fuel with
  | nil => exact absurd rfl hne
  | cons kv more ih =>
    obtain ⟨k, v⟩ := kv
    cases fuel with
    | zero => simp at hf
    | succ f =>
      cases more with
      | nil =>
        simp only [jsonMembers, List.append_assoc, List.cons_append]
        rw [parseMembers_step]
        simp only [skipWs_brace]
      | cons kv2 more2 =>
        simp only [jsonMembers, List.append_assoc, List.cons_append]
        rw [parseMembers_step]
        simp only [skipWs_comma, parseMembers_space]
        have := ih (by simp) f (by simp only [List.length_cons] at hf ⊢; omega)
        rw [this]
        rfl

theorem jsonMembers_length (kvs : List (Str × Option Str)) : kvs.length ≤ (jsonMembers kvs).length := by
  induction kvs with
  | nil => simp [jsonMembers]
  | cons kv more ih =>
    obtain ⟨k, v⟩ := kv
    cases more with
    | nil => simp [jsonMembers, jsonStr]
    | cons kv2 more2 =>
      simp only [jsonMembers, List.length_append, List.length_cons] at ih ⊢
      omega

theorem jsonMembers_head (kv : Str × Option Str) (more : List (Str × Option Str)) :
    ∃ r, jsonMembers (kv :: more) = '"' :: r := by
  obtain ⟨k, v⟩ := kv
  cases more with
  | nil => exact ⟨_, rfl⟩
  | cons kv2 more2 => exact ⟨_, rfl⟩

/-- the JSON reader inverts `json.dumps` on every dict of strings / `None` -/
theorem jsonParse_dumpsObj (kvs : List (Str × Option Str)) : jsonParse (dumpsObj kvs) = some kvs := by
  cases kvs with
  | nil => rfl
  | cons kv more =>
    obtain ⟨r, hr⟩ := jsonMembers_head kv more
    have hm := parseMembers_members (kv :: more) (by simp) [] ((jsonMembers (kv :: more) ++ ['}']).length + 1)
      (by have := jsonMembers_length (kv :: more); simp only [List.length_append] at this ⊢; omega)
    unfold jsonParse dumpsObj
    rw [hr] at hm ⊢
    simp only [List.cons_append] at hm ⊢
    have h1 : skipWs ('{' :: '"' :: (r ++ ['}'])) = '{' :: '"' :: (r ++ ['}']) := rfl
    simp only [h1, skipWs_quote]
    split
    · rename_i r1 heq
      simp at heq
    · simp only [hm]
      rfl

end Ombott.ErrorPage
