import OmbottModel.Lemmas.RouterIns
/-!
Router level: the `routes` table and the tree describe the same rule set after every history of
`add` calls (`Inv`, `addParsed_inv`), and `specResolve` does not depend on the order in which
the rules are listed (`specResolve_congr`).
-/
namespace Ombott.Router
open Py

/-! ### pattern strings -/

/-- no literal character of the pattern is the wildcard marker itself -/
def NoLitTok (p : List Sym) : Prop := ∀ c, Sym.lit c ∈ p → c ≠ Gen.paramToken

theorem NoLitTok.of_append_right {a b : List Sym} (h : NoLitTok (a ++ b)) : NoLitTok b :=
  fun c hc => h c (List.mem_append_right _ hc)

theorem patStr_append (a b : List Sym) : patStr (a ++ b) = patStr a ++ patStr b := by
  simp [patStr]

/-- rules with equal pattern strings are equal (among marker-free patterns) -/
def PatStrInj (l : List Rule) : Prop :=
  ∀ e ∈ l, ∀ e' ∈ l, NoLitTok e.pat → NoLitTok e'.pat → patStr e.pat = patStr e'.pat → e = e'

theorem Rule.under_inj {pre : List Sym} {a b : Rule} (h : a.under pre = b.under pre) : a = b := by
  cases a; cases b
  simp only [Rule.under, Rule.mk.injEq] at h ⊢
  exact ⟨List.append_cancel_left h.1, h.2.1, h.2.2⟩

theorem PatStrInj.map_under {l : List Rule} (h : PatStrInj l) (pre : List Sym) :
    PatStrInj (l.map (Rule.under pre)) := by
  intro e he e' he' hn hn' hp
  simp only [List.mem_map] at he he'
  obtain ⟨x, hx, rfl⟩ := he
  obtain ⟨y, hy, rfl⟩ := he'
  simp only [Rule.under, patStr_append] at hp
  have := h x hx y hy (NoLitTok.of_append_right hn) (NoLitTok.of_append_right hn')
    (List.append_cancel_left hp)
  rw [this]

theorem PatStrInj.append {l1 l2 : List Rule} (h1 : PatStrInj l1) (h2 : PatStrInj l2)
    (hx : ∀ e ∈ l1, ∀ e' ∈ l2, NoLitTok e.pat → NoLitTok e'.pat → patStr e.pat ≠ patStr e'.pat) :
    PatStrInj (l1 ++ l2) := by
  intro e he e' he' hn hn' hp
  rcases List.mem_append.mp he with he | he <;> rcases List.mem_append.mp he' with he' | he'
  · exact h1 e he e' he' hn hn' hp
  · exact absurd hp (hx e he e' he' hn hn')
  · exact absurd hp.symm (hx e' he' e he hn' hn)
  · exact h2 e he e' he' hn hn' hp

mutual
theorem denN_patStrInj (n : Node) (h : WFN n) : PatStrInj (denN n) := by
  match n with
  | .mk k d pk f hk lits tok =>
    unfold WFN at h
    obtain ⟨hl, ht⟩ := h
    simp only [denN]
    rw [List.append_assoc]
    apply PatStrInj.append
    · intro e he e' he' _ _ _
      cases d with
      | none => simp [ownRule] at he
      | some v =>
        simp only [ownRule, List.mem_singleton] at he he'
        rw [he, he']
    · apply PatStrInj.append (denL_patStrInj lits hl) (denT_patStrInj tok ht)
      intro e he e' he' hn _ hp
      obtain ⟨_, _, c, q, _, hq⟩ := mem_denL_shape hl he
      obtain ⟨g, q', hq'⟩ := mem_denT_shape he'
      rw [hq, hq'] at hp
      simp only [patStr, List.map_cons, symChar, List.cons.injEq] at hp
      exact hn c (by rw [hq]; simp) hp.1
    · intro e he e' he' _ _ hp
      rw [ownRule_pat e he] at hp
      rcases List.mem_append.mp he' with he' | he'
      · exact denL_pat_ne_nil hl e' he' (by simpa [patStr] using hp.symm)
      · exact denT_pat_ne_nil e' he' (by simpa [patStr] using hp.symm)
theorem denT_patStrInj (t : Option Node) (h : WFT t) : PatStrInj (denT t) := by
  match t with
  | none => intro e he; simp [denT] at he
  | some t =>
    unfold WFT at h
    simp only [denT]
    exact (denN_patStrInj t h).map_under _
theorem denL_patStrInj (ks : List Node) (h : WFL ks) : PatStrInj (denL ks) := by
  match ks with
  | [] => intro e he; simp [denL] at he
  | k :: ks =>
    have h' := h
    unfold WFL at h
    obtain ⟨hne, hk, hks, hdist⟩ := h
    simp only [denL]
    apply PatStrInj.append ((denN_patStrInj k hk).map_under _) (denL_patStrInj ks hks)
    intro e he e' he' _ _ hp
    obtain ⟨k0, hk0, c, q, hc, hq⟩ := mem_denL_shape h' (by simp [denL, he] : e ∈ denL (k :: ks))
    obtain ⟨k', hk', c', q', hc', hq'⟩ := mem_denL_shape hks he'
    simp only [List.mem_map] at he
    obtain ⟨a0, _, rfl⟩ := he
    have hkc : k.key.head? = some c := by
      cases hkk : k.key with
      | nil => exact absurd hkk hne
      | cons d ds =>
        simp only [Rule.under, litSyms, hkk, List.map_cons, List.cons_append, List.cons.injEq,
          Sym.lit.injEq] at hq
        simp [hq.1]
    rw [hq, hq'] at hp
    simp only [patStr, List.map_cons, symChar, List.cons.injEq] at hp
    exact hdist k' hk' (by rw [hc', hkc, hp.1])
end

/-! ### `specResolve` depends on the rule set only -/

/-- at most one rule per pattern -/
def PatInj (l : List Rule) : Prop := ∀ e ∈ l, ∀ e' ∈ l, e.pat = e'.pat → e = e'

theorem specPick_congr (env : FilterEnv) (L L' : List Rule) (p : Str) (h : ∀ e, e ∈ L ↔ e ∈ L') :
    specPick env L p = specPick env L' p := by
  funext r
  unfold specPick
  have : (L.all fun q => q.pat == r.pat || (matchRule env q.pat p).isNone || prio r.pat q.pat) =
      (L'.all fun q => q.pat == r.pat || (matchRule env q.pat p).isNone || prio r.pat q.pat) := by
    rw [Bool.eq_iff_iff, List.all_eq_true, List.all_eq_true]
    exact ⟨fun hh q hq => hh q ((h q).mpr hq), fun hh q hq => hh q ((h q).mp hq)⟩
  rw [this]

theorem specPick_unique (env : FilterEnv) (L : List Rule) (p : Str) (hinj : PatInj L)
    {x y : Rule} (hx : x ∈ L) (hy : y ∈ L) {u w : Rule × List Val}
    (h1 : specPick env L p x = some u) (h2 : specPick env L p y = some w) : x = y := by
  unfold specPick at h1 h2
  cases hmx : matchRule env x.pat p with
  | none => simp [hmx] at h1
  | some vx =>
    cases hmy : matchRule env y.pat p with
    | none => simp [hmy] at h2
    | some vy =>
      simp only [hmx, hmy] at h1 h2
      split at h1
      · rename_i ha1
        split at h2
        · rename_i ha2
          rw [List.all_eq_true] at ha1 ha2
          have a := ha1 y hy
          have b := ha2 x hx
          simp only [hmy, hmx, Option.isNone_some, Bool.or_false, Bool.or_eq_true, beq_iff_eq] at a b
          rcases a with a | a
          · exact (hinj y hy x hx a).symm
          · rcases b with b | b
            · exact hinj x hx y hy b
            · rw [prio_asymm _ _ a] at b; cases b
        · cases h2
      · cases h1

theorem specResolve_congr (env : FilterEnv) (L L' : List Rule) (p : Str)
    (h : ∀ e, e ∈ L ↔ e ∈ L') (hinj : PatInj L) : specResolve env L p = specResolve env L' p := by
  rw [specResolve_eq, specResolve_eq, specPick_congr env L L' p h]
  have hinj' : PatInj L' := fun e he e' he' hp => hinj e ((h e).mpr he) e' ((h e').mpr he') hp
  generalize hf : specPick env L' p = f
  have huniq : ∀ x ∈ L', ∀ y ∈ L', ∀ u w, f x = some u → f y = some w → x = y := by
    intro x hx y hy u w h1 h2
    rw [← hf] at h1 h2
    exact specPick_unique env L' p hinj' hx hy h1 h2
  cases h1 : L.findSome? f with
  | none =>
    rw [List.findSome?_eq_none_iff] at h1
    symm
    rw [List.findSome?_eq_none_iff]
    exact fun x hx => h1 x ((h x).mpr hx)
  | some u =>
    obtain ⟨x, hx, hfx⟩ := List.exists_of_findSome?_eq_some h1
    cases h2 : L'.findSome? f with
    | none =>
      rw [List.findSome?_eq_none_iff] at h2
      rw [h2 x ((h x).mp hx)] at hfx; cases hfx
    | some w =>
      obtain ⟨y, hy, hfy⟩ := List.exists_of_findSome?_eq_some h2
      have := huniq x ((h x).mp hx) y hy u w hfx hfy
      subst this
      rw [hfx] at hfy; exact hfy

/-! ### Python dict operations -/

theorem mem_dictSet {β} (d : List (Str × β)) (k : Str) (v : β) (k' : Str) (v' : β) :
    (k', v') ∈ dictSet d k v ↔ (k' = k ∧ v' = v) ∨ (k' ≠ k ∧ (k', v') ∈ d) := by
  unfold dictSet
  split
  · rename_i hany
    rw [List.any_eq_true] at hany
    obtain ⟨⟨k0, v0⟩, h0, hk0⟩ := hany
    have hk0' : k0 = k := by simpa using hk0
    subst hk0'
    simp only [List.mem_map, Prod.exists]
    constructor
    · rintro ⟨a, b, hab, heq⟩
      by_cases hak : a = k0
      · subst hak
        simp only [beq_self_eq_true, if_true, Prod.mk.injEq] at heq
        exact Or.inl ⟨heq.1.symm, heq.2.symm⟩
      · have : (a == k0) = false := by simpa using hak
        simp only [this, Bool.false_eq_true, if_false, Prod.mk.injEq] at heq
        obtain ⟨rfl, rfl⟩ := heq
        exact Or.inr ⟨hak, hab⟩
    · rintro (⟨rfl, rfl⟩ | ⟨hne, hmem⟩)
      · exact ⟨k', v0, h0, by simp⟩
      · refine ⟨k', v', hmem, ?_⟩
        have : (k' == k0) = false := by simpa using hne
        simp [this]
  · rename_i hany
    simp only [List.any_eq_true, not_exists, not_and, Bool.not_eq_true] at hany
    simp only [List.mem_append, List.mem_singleton, Prod.mk.injEq]
    constructor
    · rintro (hmem | ⟨rfl, rfl⟩)
      · refine Or.inr ⟨?_, hmem⟩
        have := hany (k', v') hmem
        simpa using this
      · exact Or.inl ⟨rfl, rfl⟩
    · rintro (⟨rfl, rfl⟩ | ⟨_, hmem⟩)
      · exact Or.inr ⟨rfl, rfl⟩
      · exact Or.inl hmem

theorem dictSet_keys_nodup {β} (d : List (Str × β)) (k : Str) (v : β) (h : (d.map (·.1)).Nodup) :
    ((dictSet d k v).map (·.1)).Nodup := by
  unfold dictSet
  split
  · have : (d.map fun x => if (x.1 == k) = true then (x.1, v) else (x.1, x.2)).map (·.1) = d.map (·.1) := by
      rw [List.map_map]
      apply List.map_congr_left
      intro x _
      simp only [Function.comp]
      split <;> rfl
    have e : (fun (x : Str × β) => match x with | (k', v') => if (k' == k) = true then (k', v) else (k', v')) =
        (fun x => if (x.1 == k) = true then (x.1, v) else (x.1, x.2)) := by
      funext ⟨a, b⟩; rfl
    rw [e, this]; exact h
  · rename_i hany
    simp only [List.any_eq_true, not_exists, not_and, Bool.not_eq_true] at hany
    rw [List.map_append, List.nodup_append]
    refine ⟨h, by simp, ?_⟩
    intro a ha b hb
    simp only [List.map_cons, List.map_nil, List.mem_singleton] at hb
    subst hb
    simp only [List.mem_map] at ha
    obtain ⟨x, hx, rfl⟩ := ha
    have := hany x hx
    simpa using this

theorem insert_wf' (t t' : Node) (pat : List Sym) (d : Nat) (names : List Str) (ow : Bool)
    (h : WFN t) (hi : treeAdd t pat d names ow = .ok t') : WFN t' :=
  (insN_spec _ t h pat t' hi).1

theorem insert_denote' (t t' : Node) (pat : List Sym) (d : Nat) (names : List Str) (ow : Bool)
    (h : WFN t) (hi : treeAdd t pat d names ow = .ok t') :
    ∀ e, e ∈ denote t' ↔ e = ⟨pat, d, names⟩ ∨ (e ∈ denote t ∧ e.pat ≠ pat) := by
  intro e
  have := (insN_spec _ t h pat t' hi).2.2.2 e
  simpa [newRule, denote] using this

/-! ### the router's rule table -/

/-- the registered rules as the `routes` table lists them -/
def Router.rules (R : Router) : List Rule :=
  R.routes.filterMap fun x => (R.obj? x.2).map fun r => ⟨r.syms, x.2, r.params⟩

theorem mem_rules (R : Router) (e : Rule) :
    e ∈ R.rules ↔ ∃ ps id r, (ps, id) ∈ R.routes ∧ R.obj? id = some r ∧ e = ⟨r.syms, id, r.params⟩ := by
  unfold Router.rules
  simp only [List.mem_filterMap, Option.map_eq_some_iff, Prod.exists]
  constructor
  · rintro ⟨ps, id, hmem, r, hr, rfl⟩
    exact ⟨ps, id, r, hmem, hr, rfl⟩
  · rintro ⟨ps, id, r, hmem, hr, rfl⟩
    exact ⟨ps, id, hmem, r, hr, rfl⟩

/-- tree and `routes` agree -/
structure Inv (R : Router) : Prop where
  wf : WFN R.tree
  den : ∀ e, e ∈ denote R.tree ↔ e ∈ R.rules
  keys : ∀ ps id, (ps, id) ∈ R.routes → ∃ r, R.obj? id = some r ∧ ps = patStr r.syms
  nodup : (R.routes.map (·.1)).Nodup
  notok : ∀ e ∈ denote R.tree, NoLitTok e.pat

theorem inv_init : Inv {} := by
  refine ⟨?_, ?_, ?_, ?_, ?_⟩
  · show WFN Node.root
    unfold Node.root WFN WFL WFT; exact ⟨trivial, trivial⟩
  · intro e
    show e ∈ denN Node.root ↔ _
    simp [Node.root, denN, denL, denT, ownRule, Router.rules]
  · intro ps id h; cases h
  · exact List.nodup_nil
  · intro e he
    have : e ∈ denN Node.root := he
    simp [Node.root, denN, denL, denT, ownRule] at this

theorem filterMap_congr' {α β} {f g : α → Option β} {l : List α} (h : ∀ x ∈ l, f x = g x) :
    l.filterMap f = l.filterMap g := by
  induction l with
  | nil => rfl
  | cons x xs ih =>
    rw [List.filterMap_cons, List.filterMap_cons, h x (by simp), ih (fun y hy => h y (by simp [hy]))]

theorem obj?_setObj (R : Router) (id : Nat) (r : Route) (j : Nat) :
    (R.setObj id r).obj? j = if id = j then (R.obj? j).map (fun _ => r) else R.obj? j := by
  unfold Router.setObj Router.obj?
  simp only [List.getElem?_set]
  split
  · rename_i h
    subst h
    split
    · rename_i hlt
      simp [List.getElem?_eq_getElem hlt]
    · rename_i hlt
      simp [List.getElem?_eq_none (Nat.le_of_not_lt hlt)]
  · rfl

/-- replacing a route object by one with the same pattern and names keeps the invariant
(method registration and removal) -/
theorem Inv.setObj {R : Router} (h : Inv R) (id : Nat) (r r' : Route) (hr : R.obj? id = some r)
    (hs : r'.syms = r.syms) (hp : r'.params = r.params) : Inv (R.setObj id r') := by
  have hobj : ∀ j, ((R.setObj id r').obj? j).map (fun x => (x.syms, x.params)) =
      (R.obj? j).map (fun x => (x.syms, x.params)) := by
    intro j
    rw [obj?_setObj]
    split
    · rename_i hj; subst hj; simp [hr, hs, hp]
    · rfl
  have hrules : (R.setObj id r').rules = R.rules := by
    unfold Router.rules
    show List.filterMap _ R.routes = _
    apply filterMap_congr'
    intro x _
    have := hobj x.2
    cases h1 : (R.setObj id r').obj? x.2 <;> cases h2 : R.obj? x.2 <;> simp_all
  refine ⟨h.wf, ?_, ?_, h.nodup, h.notok⟩
  · intro e; rw [hrules]; exact h.den e
  · intro ps j hmem
    obtain ⟨r0, hr0, hps⟩ := h.keys ps j hmem
    rw [obj?_setObj]
    split
    · rename_i hj; subst hj
      rw [hr] at hr0; cases hr0
      exact ⟨r', by simp [hr], by rw [hs]; exact hps⟩
    · exact ⟨r0, hr0, hps⟩

theorem Route.setMethods_syms (r : Route) (ms : List Str) (h : Nat) (ps : List Str) :
    (r.setMethods ms h ps).syms = r.syms ∧ (r.setMethods ms h ps).params = r.params := by
  unfold Route.setMethods
  induction ms generalizing r with
  | nil => exact ⟨rfl, rfl⟩
  | cons m ms ih =>
    simp only [List.foldl_cons]
    have := ih { r with methods := dictSet r.methods m ⟨m, h, ps⟩ }
    exact this

theorem Route.addMethod_syms {r r' : Route} {ms : List Str} {h : Nat} {ps : List Str}
    (ha : r.addMethod ms h ps = .ok r') : r'.syms = r.syms ∧ r'.params = r.params := by
  unfold Route.addMethod at ha
  split at ha
  · cases ha
  · simp only [pure, Except.pure, Except.ok.injEq] at ha
    subst ha
    exact Route.setMethods_syms r ms h ps

theorem Route.removeMethod_syms (r : Route) (ms : List Str) :
    (r.removeMethod ms).syms = r.syms ∧ (r.removeMethod ms).params = r.params := ⟨rfl, rfl⟩

theorem Inv.registerName {R : Router} (h : Inv R) (a : AddArgs) (id : Nat) :
    Inv (R.registerName a id).1 := by
  unfold Router.registerName
  cases a.name with
  | none => exact h
  | some nm =>
    simp only
    split
    · exact h
    · cases dictGet R.named nm with
      | none => exact ⟨h.wf, h.den, h.keys, h.nodup, h.notok⟩
      | some reg =>
        simp only
        split
        · exact h
        · exact ⟨h.wf, h.den, h.keys, h.nodup, h.notok⟩

theorem Inv.register {R : Router} (h : Inv R) (a : AddArgs) (p : Parsed) (id : Nat) :
    Inv (R.register a p id).1 := by
  unfold Router.register
  cases hr : R.obj? id with
  | none => exact h
  | some route =>
    simp only
    split
    · exact (h.setObj id route _ hr (Route.setMethods_syms route _ _ _).1
        (Route.setMethods_syms route _ _ _).2).registerName a id
    · cases ha : route.addMethod a.methods a.handler p.params with
      | error e => exact h
      | ok route' =>
        exact (h.setObj id route route' hr (Route.addMethod_syms ha).1
          (Route.addMethod_syms ha).2).registerName a id

theorem Inv.removeMethod {R : Router} (h : Inv R) (id : Nat) (ms : List Str) :
    Inv (R.removeMethod id ms) := by
  unfold Router.removeMethod
  cases hr : R.obj? id with
  | none => exact h
  | some r => exact h.setObj id r _ hr rfl rfl

theorem obj?_append_lt (R : Router) (extra : List Route) (j : Nat) (r : Route)
    (h : R.obj? j = some r) : ({ R with objs := R.objs ++ extra } : Router).obj? j = some r := by
  unfold Router.obj? at h ⊢
  have hlt : j < R.objs.length := by
    rcases Nat.lt_or_ge j R.objs.length with hlt | hge
    · exact hlt
    · rw [List.getElem?_eq_none hge] at h; cases h
  simp only
  rw [List.getElem?_append_left hlt]; exact h

/-- storing a new route: tree, `routes` and the object store change together -/
theorem Inv.findOrInsert {R : Router} (h : Inv R) (rule : Str) (p : Parsed) (hp : NoLitTok p.syms) :
    Inv (R.findOrInsert rule p).1 := by
  unfold Router.findOrInsert
  cases R.matchPat p.syms with
  | some id => exact h
  | none =>
    simp only
    cases hi : treeAdd R.tree p.syms R.objs.length p.params with
    | error e => exact h
    | ok t =>
      simp only
      have hwf := insert_wf' R.tree t p.syms R.objs.length p.params false h.wf hi
      have hden := insert_denote' R.tree t p.syms R.objs.length p.params false h.wf hi
      let newRoute : Route := { rule := rule, syms := p.syms, params := p.params, symsOut := p.symsOut }
      let R' : Router := { R with tree := t, objs := R.objs ++ [newRoute],
                                  routes := dictSet R.routes (patStr p.syms) R.objs.length }
      have hnew : R'.obj? R.objs.length = some newRoute := by
        show (R.objs ++ [newRoute])[R.objs.length]? = some newRoute
        simp
      have hold : ∀ j r, R.obj? j = some r → R'.obj? j = some r :=
        fun j r hj => obj?_append_lt R [newRoute] j r hj
      have hnotok : ∀ e ∈ denote t, NoLitTok e.pat := by
        intro e he
        rcases (hden e).mp he with rfl | ⟨he, _⟩
        · exact hp
        · exact h.notok e he
      have hinj : PatStrInj (denote t) := denN_patStrInj t hwf
      show Inv R'
      refine ⟨hwf, ?_, ?_, dictSet_keys_nodup _ _ _ h.nodup, hnotok⟩
      · intro e
        rw [hden e, mem_rules]
        constructor
        · rintro (rfl | ⟨he, hne⟩)
          · exact ⟨patStr p.syms, R.objs.length, newRoute,
              (mem_dictSet _ _ _ _ _).mpr (Or.inl ⟨rfl, rfl⟩), hnew, rfl⟩
          · obtain ⟨ps, id, r, hmem, hr, rfl⟩ := (mem_rules R e).mp ((h.den e).mp he)
            obtain ⟨r0, hr0, hps⟩ := h.keys ps id hmem
            rw [hr] at hr0; cases hr0
            refine ⟨ps, id, r, (mem_dictSet _ _ _ _ _).mpr (Or.inr ⟨?_, hmem⟩), hold id r hr, rfl⟩
            intro hpeq
            -- same pattern string as the new rule: both are in the new tree, so they are equal
            have he' : (⟨r.syms, id, r.params⟩ : Rule) ∈ denote t := (hden _).mpr (Or.inr ⟨he, hne⟩)
            have hn' : (⟨p.syms, R.objs.length, p.params⟩ : Rule) ∈ denote t := (hden _).mpr (Or.inl rfl)
            have := hinj _ he' _ hn' (hnotok _ he') hp (by rw [← hps]; exact hpeq)
            exact hne (by rw [this])
        · rintro ⟨ps, id, r, hmem, hr, rfl⟩
          rcases (mem_dictSet _ _ _ _ _).mp hmem with ⟨rfl, rfl⟩ | ⟨hne, hmem⟩
          · rw [hnew] at hr; cases hr
            exact Or.inl rfl
          · obtain ⟨r0, hr0, hps⟩ := h.keys ps id hmem
            have hr' := hold id r0 hr0
            rw [hr] at hr'; cases hr'
            refine Or.inr ⟨(h.den _).mpr ((mem_rules R _).mpr ⟨ps, id, r, hmem, hr0, rfl⟩), ?_⟩
            intro heq
            simp only at heq
            exact hne (by rw [hps, heq])
      · intro ps id hmem
        rcases (mem_dictSet _ _ _ _ _).mp hmem with ⟨rfl, rfl⟩ | ⟨_, hmem⟩
        · exact ⟨newRoute, hnew, rfl⟩
        · obtain ⟨r0, hr0, hps⟩ := h.keys ps id hmem
          exact ⟨r0, hold id r0 hr0, hps⟩

theorem Inv.addParsed {R : Router} (h : Inv R) (a : AddArgs) (p : Parsed) (hp : NoLitTok p.syms) :
    Inv (R.addParsed a p).1 := by
  unfold Router.addParsed
  split
  · exact h
  · have := h.findOrInsert a.rule p hp
    cases hf : R.findOrInsert a.rule p with
    | mk R' out =>
      rw [hf] at this
      cases out with
      | error e => exact this
      | ok id => exact Inv.register this a p id

end Ombott.Router
