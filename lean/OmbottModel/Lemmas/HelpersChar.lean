import OmbottModel.Model.WsgiHeaders
/-! ASCII case folding, `-`/`_` replacement and `str.title()` commute the way `WSGIHeaderDict` needs
(`_ekey` against `__iter__`).  Character facts are checked on the 128 ASCII code points by evaluation and are
trivial above them, where every function involved is the identity. -/
namespace Ombott.WsgiHeaders
open Py

theorem isAsciiLower_iff (c : Char) : isAsciiLower c = true ↔ 97 ≤ c.toNat ∧ c.toNat ≤ 122 := by
  unfold isAsciiLower
  simp only [Bool.and_eq_true, decide_eq_true_eq, Char.le_def, Char.toNat]
  constructor
  · rintro ⟨h1, h2⟩
    have := UInt32.le_iff_toNat_le.mp h1
    have := UInt32.le_iff_toNat_le.mp h2
    constructor <;> simpa using ‹_›
  · rintro ⟨h1, h2⟩
    exact ⟨UInt32.le_iff_toNat_le.mpr (by simpa using h1), UInt32.le_iff_toNat_le.mpr (by simpa using h2)⟩

theorem isAsciiUpper_iff (c : Char) : isAsciiUpper c = true ↔ 65 ≤ c.toNat ∧ c.toNat ≤ 90 := by
  unfold isAsciiUpper
  simp only [Bool.and_eq_true, decide_eq_true_eq, Char.le_def, Char.toNat]
  constructor
  · rintro ⟨h1, h2⟩
    have := UInt32.le_iff_toNat_le.mp h1
    have := UInt32.le_iff_toNat_le.mp h2
    constructor <;> simpa using ‹_›
  · rintro ⟨h1, h2⟩
    exact ⟨UInt32.le_iff_toNat_le.mpr (by simpa using h1), UInt32.le_iff_toNat_le.mpr (by simpa using h2)⟩

theorem hi_lower (c : Char) (h : 128 ≤ c.toNat) : isAsciiLower c = false := by
  rw [Bool.eq_false_iff]; intro hc; have := (isAsciiLower_iff c).mp hc; omega

theorem hi_upper (c : Char) (h : 128 ≤ c.toNat) : isAsciiUpper c = false := by
  rw [Bool.eq_false_iff]; intro hc; have := (isAsciiUpper_iff c).mp hc; omega

theorem hi_ne (c : Char) (h : 128 ≤ c.toNat) (d : Char) (hd : d.toNat < 128) : c ≠ d := by
  intro e; subst e; omega

/-- a Boolean fact about one character holds for all characters if it holds on ASCII (checked by evaluation) and
above -/
theorem all_chars (Q : Char → Bool) (lo : ∀ n : Fin 128, Q (Char.ofNat n.val) = true)
    (hi : ∀ c : Char, 128 ≤ c.toNat → Q c = true) (c : Char) : Q c = true := by
  by_cases h : c.toNat < 128
  · have := lo ⟨c.toNat, h⟩
    simpa [Char.ofNat_toNat] using this
  · exact hi c (by omega)

/-- the three per-character maps -/
def upC (c : Char) : Char := if isAsciiLower c then c.toUpper else c
def unC (c : Char) : Char := if c = '-' then '_' else c
def daC (c : Char) : Char := if c = '_' then '-' else c

theorem upper_eq (s : Str) : upper s = s.map upC := rfl
theorem undash_eq (s : Str) : undash s = s.map unC := rfl
theorem dash_eq (s : Str) : dash s = s.map daC := rfl

theorem hi_upC (c : Char) (h : 128 ≤ c.toNat) : upC c = c := by simp [upC, hi_lower c h]
theorem hi_unC (c : Char) (h : 128 ≤ c.toNat) : unC c = c := by
  simp [unC, hi_ne c h '-' (by decide)]
theorem hi_daC (c : Char) (h : 128 ≤ c.toNat) : daC c = c := by
  simp [daC, hi_ne c h '_' (by decide)]

/-- one step of `titleGo`: the character put out -/
def tiC (c : Char) (prev : Bool) : Char :=
  if isAsciiLower c then (if prev then c else c.toUpper)
  else if isAsciiUpper c then (if prev then c.toLower else c) else c

def cased (c : Char) : Bool := isAsciiLower c || isAsciiUpper c

theorem titleGo_cons (c : Char) (s : Str) (b : Bool) : titleGo (c :: s) b = tiC c b :: titleGo s (cased c) := by
  simp only [titleGo, tiC, cased]
  by_cases h1 : isAsciiLower c = true
  · simp [h1]
  · by_cases h2 : isAsciiUpper c = true
    · simp [h1, h2]
    · simp [h1, h2]

theorem hi_tiC (c : Char) (h : 128 ≤ c.toNat) (b : Bool) : tiC c b = c := by
  simp [tiC, hi_lower c h, hi_upper c h]

theorem hi_cased (c : Char) (h : 128 ≤ c.toNat) : cased c = false := by
  simp [cased, hi_lower c h, hi_upper c h]

/-! character facts -/

theorem up_un_ti (c : Char) (b : Bool) : upC (unC (tiC c b)) = upC (unC c) := by
  have := all_chars (fun c => upC (unC (tiC c true)) == upC (unC c) && upC (unC (tiC c false)) == upC (unC c))
    (by decide +kernel) (by intro c h; simp [hi_tiC c h]) c
  simp only [Bool.and_eq_true, beq_iff_eq] at this
  cases b <;> simp [this.1, this.2]

theorem un_da (c : Char) : unC (daC c) = unC c := by
  have := all_chars (fun c => unC (daC c) == unC c) (by decide +kernel) (by intro c h; simp [hi_daC c h]) c
  simpa using this

theorem da_up_un (c : Char) : daC (upC (unC c)) = upC (daC c) := by
  have := all_chars (fun c => daC (upC (unC c)) == upC (daC c)) (by decide +kernel)
    (by intro c h; simp [hi_unC c h, hi_upC c h, hi_daC c h]) c
  simpa using this

theorem ti_up (c : Char) (b : Bool) : tiC (upC c) b = tiC c b ∧ cased (upC c) = cased c := by
  have := all_chars (fun c => tiC (upC c) true == tiC c true && tiC (upC c) false == tiC c false &&
      (cased (upC c) == cased c)) (by decide +kernel) (by intro c h; simp [hi_upC c h]) c
  simp only [Bool.and_eq_true, beq_iff_eq] at this
  cases b <;> simp [this.1.1, this.1.2, this.2]

theorem da_not_under (c : Char) (h : c ≠ '_') : daC c = c := by simp [daC, h]

/-! list level -/

theorem upper_undash_titleGo (s : Str) (b : Bool) : upper (undash (titleGo s b)) = upper (undash s) := by
  induction s generalizing b with
  | nil => rfl
  | cons c s ih =>
    rw [titleGo_cons]
    simp only [upper_eq, undash_eq, List.map_cons, List.map_map] at ih ⊢
    rw [ih, up_un_ti]

theorem undash_dash (s : Str) : undash (dash s) = undash s := by
  simp only [undash_eq, dash_eq, List.map_map]
  apply List.map_congr_left; intro c _; exact un_da c

theorem dash_upper_undash (s : Str) : dash (upper (undash s)) = upper (dash s) := by
  simp only [undash_eq, dash_eq, upper_eq, List.map_map]
  apply List.map_congr_left; intro c _; exact da_up_un c

theorem titleGo_upper (s : Str) (b : Bool) : titleGo (upper s) b = titleGo s b := by
  induction s generalizing b with
  | nil => rfl
  | cons c s ih =>
    rw [upper_eq, List.map_cons, ← upper_eq, titleGo_cons, titleGo_cons, ih, (ti_up c b).1, (ti_up c b).2]

/-- `_ekey` only looks at the case-folded, `-`→`_` form of the name -/
theorem upper_undash_title_dash (n : Str) : upper (undash (title (dash n))) = upper (undash n) := by
  unfold title
  rw [upper_undash_titleGo, undash_dash]

theorem title_dash_upper_undash (n : Str) : title (dash (upper (undash n))) = title (dash n) := by
  unfold title
  rw [dash_upper_undash, titleGo_upper]

/-- a name without underscores is not changed by `replace('_', '-')` -/
theorem dash_of_no_under (n : Str) (h : ∀ c ∈ n, c ≠ '_') : dash n = n := by
  rw [dash_eq]
  induction n with
  | nil => rfl
  | cons c s ih =>
    simp only [List.map_cons]
    rw [da_not_under c (h c (by simp)), ih (fun d hd => h d (by simp [hd]))]

end Ombott.WsgiHeaders
