import OmbottModel.Lemmas.ReqObjEnv
/-! The mapping protocol of a request object refines a finite map with insertion order plus the cache
invalidations of `_on_env_changed`: the abstract machine (`specStep` / `specRun`) and the one-step lemma. -/
namespace Ombott.ReqObj
open Py
open Ombott.EnvCache (Key Val todelete)

/-- mapping-protocol operations of one thread on one object -/
inductive MOp
  | get (k : Key) (d : Option RVal)
  | keys
  | iter
  | len
  | getItem (k : Key)
  | setItem (k : Key) (v : RVal)
  | delItem (k : Key)
  deriving Repr, DecidableEq

def MOp.toOp (t i : Nat) : MOp → Op
  | .get k d => .get t i k d
  | .keys => .keys t i
  | .iter => .iter t i
  | .len => .len t i
  | .getItem k => .getItem t i k
  | .setItem k v => .setItem t i k v
  | .delItem k => .delItem t i k

/-- the abstract assignment: nothing when the key already holds an equal value, else the plain dict
assignment followed by the removal of the cache keys that depend on `k` -/
def specSet (m : REnv) (k : Key) (v : RVal) : REnv :=
  if unchanged m k v then m else onEnvChanged (m.set k v) k

/-- the abstract machine: an insertion-ordered finite map `Key → RVal` -/
def specStep (m : REnv) : MOp → REnv × Ans
  | .get k d => (m, .val (match m.get? k with | some v => some v | none => d))
  | .keys => (m, .keys m.keys)
  | .iter => (m, .keys m.keys)
  | .len => (m, .len m.length)
  | .getItem k => (m, match m.get? k with | some v => .val (some v) | none => .err .keyError)
  | .setItem k v => (specSet m k v, .unit)
  | .delItem k => ((specSet m k (.plain (.str []))).del k, .unit)      -- no `KeyError` for a missing key

def specRun : REnv → List MOp → REnv × List Ans
  | m, [] => (m, [])
  | m, op :: ops =>
    let (m1, a) := specStep m op
    let (m2, as) := specRun m1 ops
    (m2, a :: as)

/-- the operations the refinement is stated for: the read-only flag is not assigned, and a deleted
key is not one of the cache keys its own assignment drops (true of every key of the generated table) -/
def MOp.safe : MOp → Bool
  | .setItem k _ => k != kReadonly
  | .delItem k => !(todelete k).contains k
  | _ => true

theorem setItem_unchanged (w : World) (t i : Nat) (k : Key) (v : RVal) (r : Req) (env : REnv)
    (hr : w.reqs[i]? = some r) (he : r.env t = some env)
    (hro : truthy w t (env.get? kReadonly) = .ok false) (hu : unchanged env k v = true) :
    setItem w t i k v = (.ok (), w) := by
  unfold setItem; simp only [hr, he, hro, hu, if_true]

theorem specSet_flag (env : REnv) (k : Key) (v : RVal) (hflag : env.get? kReadonly = none) (hk : k ≠ kReadonly) :
    (specSet env k v).get? kReadonly = none := by
  unfold specSet
  split
  · exact hflag
  · exact get?_onEnvChanged_none _ _ _ (by rw [get?_set_other _ _ _ _ (Ne.symm hk)]; exact hflag)

theorem step_refines (w : World) (t i : Nat) (r : Req) (env : REnv) (op : MOp)
    (hr : w.reqs[i]? = some r) (he : r.env t = some env)
    (hl : r.listeners.get? evChanged = some [.builtin])
    (hflag : env.get? kReadonly = none) (hs : op.safe = true) :
    ∃ r', (step w (op.toOp t i)).1.reqs[i]? = some r' ∧ r'.env t = some (specStep env op).1 ∧
      r'.listeners = r.listeners ∧ r'.config = r.config ∧ (step w (op.toOp t i)).2 = (specStep env op).2 ∧
      (specStep env op).1.get? kReadonly = none := by
  have hro : truthy w t (env.get? kReadonly) = .ok false := by rw [hflag]; rfl
  cases op with
  | get k d =>
    refine ⟨r, by simp [MOp.toOp, step, hr], he, rfl, rfl, ?_, hflag⟩
    cases hg : env.get? k <;> simp [MOp.toOp, step, hr, getR, he, specStep, ofExcept, hg]
  | keys => exact ⟨r, by simp [MOp.toOp, step, hr], he, rfl, rfl, by simp [MOp.toOp, step, hr, keysR, he, specStep, ofExcept], hflag⟩
  | iter => exact ⟨r, by simp [MOp.toOp, step, hr], he, rfl, rfl, by simp [MOp.toOp, step, hr, keysR, he, specStep, ofExcept], hflag⟩
  | len => exact ⟨r, by simp [MOp.toOp, step, hr], he, rfl, rfl, by simp [MOp.toOp, step, hr, lenR, he, specStep, ofExcept], hflag⟩
  | getItem k =>
    refine ⟨r, by simp [MOp.toOp, step, hr], he, rfl, rfl, ?_, hflag⟩
    cases hg : env.get? k <;> simp [MOp.toOp, step, hr, getItemR, he, specStep, ofExcept, hg]
  | setItem k v =>
    have hk : k ≠ kReadonly := by simpa [MOp.safe] using hs
    by_cases hu : unchanged env k v = true
    · refine ⟨r, ?_, ?_, rfl, rfl, ?_, ?_⟩
      · simp [MOp.toOp, step, setItem_unchanged w t i k v r env hr he hro hu, hr]
      · simp [specStep, specSet, hu, he]
      · simp [MOp.toOp, step, setItem_unchanged w t i k v r env hr he hro hu, specStep]
      · exact specSet_flag env k v hflag hk
    · have hu' : unchanged env k v = false := by simpa using hu
      refine ⟨r.setEnv t (onEnvChanged (env.set k v) k), ?_, ?_, rfl, rfl, ?_, ?_⟩
      · simp only [MOp.toOp, step, setItem_fresh w t i k v r env hr he hl hro hu']
        exact setReq_get w i _ r hr
      · simp [specStep, specSet, hu']
      · simp [MOp.toOp, step, setItem_fresh w t i k v r env hr he hl hro hu', specStep]
      · exact specSet_flag env k v hflag hk
  | delItem k =>
    have hk : k ∉ todelete k := by simpa [MOp.safe] using hs
    by_cases hu : unchanged env k (.plain (.str [])) = true
    · have hp : (env.get? k).isSome = true := by
        unfold unchanged at hu
        cases hg : env.get? k with
        | none => rw [hg] at hu; cases hu
        | some _ => rfl
      have hd : delItem w t i k = (.ok (), w.setReq i (r.setEnv t (env.del k))) := by
        unfold delItem
        simp only [setItem_unchanged w t i k _ r env hr he hro hu, hr, he, hp, if_true]
      refine ⟨r.setEnv t (env.del k), ?_, ?_, rfl, rfl, ?_, ?_⟩
      · simp only [MOp.toOp, step, hd]; exact setReq_get w i _ r hr
      · simp [specStep, specSet, hu]
      · simp [MOp.toOp, step, hd, specStep]
      · simp only [specStep, specSet, hu, if_true]; exact get?_del_none _ _ _ hflag
    · have hu' : unchanged env k (.plain (.str [])) = false := by simpa using hu
      have hget : (w.setReq i (r.setEnv t (onEnvChanged (env.set k (.plain (.str []))) k))).reqs[i]? =
          some (r.setEnv t (onEnvChanged (env.set k (.plain (.str []))) k)) := setReq_get w i _ r hr
      have hp : ((onEnvChanged (env.set k (.plain (.str []))) k).get? k).isSome = true := by
        unfold onEnvChanged
        rw [get?_foldl_del_other _ _ _ hk, get?_set_same]; rfl
      have hd : delItem w t i k =
          (.ok (), w.setReq i (r.setEnv t ((onEnvChanged (env.set k (.plain (.str []))) k).del k))) := by
        unfold delItem
        simp only [setItem_fresh w t i k _ r env hr he hl hro hu', hget, setEnv_env_same, hp, if_true,
          setReq_setReq, setEnv_setEnv]
      refine ⟨r.setEnv t ((onEnvChanged (env.set k (.plain (.str []))) k).del k), ?_, ?_, rfl, rfl, ?_, ?_⟩
      · simp only [MOp.toOp, step, hd]; exact setReq_get w i _ r hr
      · simp [specStep, specSet, hu']
      · simp [MOp.toOp, step, hd, specStep]
      · simp only [specStep, specSet, hu', Bool.false_eq_true, if_false]
        by_cases hkk : kReadonly = k
        · subst hkk; exact get?_del_same _ _
        · exact get?_del_none _ _ _ (get?_onEnvChanged_none _ _ _ (by rw [get?_set_other _ _ _ _ hkk]; exact hflag))

theorem run_refines (ops : List MOp) : ∀ (w : World) (t i : Nat) (r : Req) (env : REnv),
    w.reqs[i]? = some r → r.env t = some env → r.listeners.get? evChanged = some [.builtin] →
    env.get? kReadonly = none → (∀ op ∈ ops, op.safe = true) →
    ∃ r', (run w (ops.map (MOp.toOp t i))).1.reqs[i]? = some r' ∧ r'.env t = some (specRun env ops).1 ∧
      r'.listeners = r.listeners ∧ r'.config = r.config ∧
      (run w (ops.map (MOp.toOp t i))).2 = (specRun env ops).2 := by
  induction ops with
  | nil => intro w t i r env hr he _ _ _; exact ⟨r, hr, he, rfl, rfl, rfl⟩
  | cons op rest ih =>
    intro w t i r env hr he hl hflag hs
    obtain ⟨r1, h1, h2, h3, h4, h5, h6⟩ := step_refines w t i r env op hr he hl hflag (hs op (List.mem_cons_self ..))
    obtain ⟨r2, g1, g2, g3, g4, g5⟩ := ih (step w (op.toOp t i)).1 t i r1 (specStep env op).1 h1 h2 (by rw [h3]; exact hl) h6
      (fun o ho => hs o (List.mem_cons_of_mem _ ho))
    refine ⟨r2, ?_, ?_, by rw [g3, h3], by rw [g4, h4], ?_⟩
    · simpa [run, List.map_cons] using g1
    · simpa [specRun] using g2
    · simp only [run, List.map_cons, specRun, g5, h5]

end Ombott.ReqObj
