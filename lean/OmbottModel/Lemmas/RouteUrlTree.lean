import OmbottModel.Props.C01
import OmbottModel.Lemmas.RouteUrlSpec
/-!
A router holding only one rule: the tree lookup (`RadiDict.get`) is the rule-by-rule matcher on
that rule (from C01's `get_eq_spec`, `insert_wf`, `insert_denote`).  This carries `url_rematch`
from `matchRule` to the tree the driver (and `RadiRouter.resolve`) runs.
-/
namespace Ombott.RouteUrl
open Py Ombott.Router

theorem findSome_all_same {β} (f : Rule → Option β) (l : List Rule) (x : Rule)
    (hall : ∀ e ∈ l, e = x) (hne : l ≠ []) : l.findSome? f = f x := by
  induction l with
  | nil => exact absurd rfl hne
  | cons a l ih =>
    have ha : a = x := hall a (by simp)
    subst ha
    rw [List.findSome?_cons]
    cases hf : f a with
    | some b => rfl
    | none =>
      cases l with
      | nil => rfl
      | cons b l' =>
        rw [ih (fun e he => hall e (by simp [he])) (by simp)]
        exact hf

/-- the plain matcher over a rule list that holds one rule only -/
theorem specResolve_single (env : FilterEnv) (l : List Rule) (rule : Rule)
    (hall : ∀ e ∈ l, e = rule) (hne : l ≠ []) (path : Str) :
    specResolve env l path = (matchRule env rule.pat path).map fun vs => (rule, vs) := by
  unfold specResolve
  rw [findSome_all_same _ l rule hall hne]
  cases matchRule env rule.pat path with
  | none => rfl
  | some vs =>
    have : (l.all fun q => q.pat == rule.pat || (matchRule env q.pat path).isNone || prio rule.pat q.pat) = true := by
      rw [List.all_eq_true]
      intro q hq
      rw [hall q hq]
      simp
    simp [this]

/-- on the tree of a router holding only the rule `(pat, id, names)`, lookup = `matchRule` -/
theorem single_rule_get (env : FilterEnv) (hs : NoSel env) (pat : List Sym) (id : Nat) (names : List Str)
    (t : Node) (ht : treeAdd Node.root pat id names = .ok t) (path : Str) :
    (treeGet env t path).core = (matchRule env pat path).map fun vs => (id, names, vs) := by
  have hwf : WFN t := insert_wf Node.root t pat id names false root_wf.1 ht
  have hden := insert_denote Node.root t pat id names false root_wf.1 ht
  have hall : ∀ e ∈ denote t, e = ⟨pat, id, names⟩ := by
    intro e he
    rcases (hden e).mp he with h | ⟨h, _⟩
    · exact h
    · rw [root_wf.2] at h; cases h
  have hne : denote t ≠ [] := by
    intro hnil
    have : (⟨pat, id, names⟩ : Rule) ∈ denote t := (hden _).mpr (Or.inl rfl)
    rw [hnil] at this; cases this
  rw [get_eq_spec env hs t hwf path, specResolve_single env _ _ hall hne path]
  cases matchRule env pat path <;> rfl

end Ombott.RouteUrl
