import OmbottModel.Model.WsgiSpec
/-! `val.encode('utf8').decode('latin1')` cannot create a CR or LF that was not there. -/
namespace Ombott.Wsgi
open Py

theorem Char.toNat_ofNat_small (n : Nat) (h : n < 256) : (Char.ofNat n).toNat = n := by
  have hv : n.isValidChar := Or.inl (by omega)
  unfold Char.ofNat
  simp only [hv, dite_true]
  rfl

/-- a byte of the UTF-8 encoding of `c` that is below 0x80 is `c` itself -/
theorem utf8EncodeChar_small (c : Char) (b : UInt8) (hb : b ∈ String.utf8EncodeChar c)
    (hs : b.toNat < 128) : c.toNat = b.toNat := by
  unfold String.utf8EncodeChar at hb
  simp only at hb
  have hval : c.val.toNat = c.toNat := rfl
  split at hb
  · simp only [List.mem_cons, List.not_mem_nil, or_false] at hb
    subst hb
    rw [hval] at *
    simp only [UInt8.toNat_ofNat']
    omega
  · exfalso
    split at hb
    · simp only [List.mem_cons, List.not_mem_nil, or_false] at hb
      rcases hb with rfl | rfl <;> simp only [UInt8.toNat_ofNat'] at hs <;> omega
    · split at hb
      · simp only [List.mem_cons, List.not_mem_nil, or_false] at hb
        rcases hb with rfl | rfl | rfl <;> simp only [UInt8.toNat_ofNat'] at hs <;> omega
      · simp only [List.mem_cons, List.not_mem_nil, or_false] at hb
        rcases hb with rfl | rfl | rfl | rfl <;> simp only [UInt8.toNat_ofNat'] at hs <;> omega

theorem recode_mem (s : Str) (ch : Char) (h : ch ∈ recodeLatin1 s) (hs : ch.toNat < 128) : ch ∈ s := by
  unfold recodeLatin1 latin1Decode utf8 at h
  simp only [List.mem_map, List.mem_flatMap] at h
  obtain ⟨b, ⟨c, hc, hb⟩, rfl⟩ := h
  have hbn : b.toNat < 256 := b.toNat_lt
  have hof : (Char.ofNat b.toNat).toNat = b.toNat := by
    exact Char.toNat_ofNat_small _ hbn
  rw [hof] at hs
  have := utf8EncodeChar_small c b hb hs
  have hcc : c = Char.ofNat b.toNat := by
    apply Char.ext
    apply UInt32.toNat_inj.mp
    show c.toNat = (Char.ofNat b.toNat).toNat
    rw [hof, this]
  rw [← hcc]; exact hc

theorem recode_noCRLF (s : Str) (h : noCRLF s = true) : noCRLF (recodeLatin1 s) = true := by
  unfold noCRLF at *
  rw [List.all_eq_true] at *
  intro ch hch
  by_cases hs : ch.toNat < 128
  · exact h ch (recode_mem s ch hch hs)
  · simp only [Bool.and_eq_true, bne_iff_ne, ne_eq]
    constructor <;> (intro he; subst he; exact hs (by decide))

end Ombott.Wsgi
