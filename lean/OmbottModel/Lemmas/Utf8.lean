import OmbottModel.Model.Qs
/-! UTF-8: the replacing decoder of `Model/Qs.lean` undoes core Lean's encoder (C18). -/
namespace Ombott.Qs
open Py

theorem secondOK_iff (w x : Nat) : secondOK w x = true ↔ secondLo w ≤ x ∧ x ≤ secondHi w := by
  simp [secondOK]
theorem isCont_iff (x : Nat) : isCont x = true ↔ 0x80 ≤ x ∧ x ≤ 0xBF := by
  simp [isCont]

theorem decodeAt_one (w : Nat) (r : List Nat) (hw : w < 0x80) : decodeAt w r = (Char.ofNat w, 0) := by
  simp [decodeAt, hw]

theorem decodeAt_two (w x : Nat) (r : List Nat) (h1 : 0xC2 ≤ w) (h2 : w < 0xE0) (h3 : 0x80 ≤ x) (h4 : x ≤ 0xBF) :
    decodeAt w (x :: r) = (Char.ofNat (w % 32 * 64 + x % 64), 1) := by
  have a1 : ¬ w < 0x80 := by omega
  have a2 : ¬ (w < 0xC2 ∨ 0xF4 < w) := by omega
  have a3 : secondOK w x = true := by
    rw [secondOK_iff]; unfold secondLo secondHi
    repeat' split
    all_goals omega
  simp [decodeAt, a1, a2, a3, h2]

theorem decodeAt_three (w x y : Nat) (r : List Nat) (h1 : 0xE0 ≤ w) (h2 : w < 0xF0)
    (h3 : secondLo w ≤ x) (h4 : x ≤ secondHi w) (h5 : 0x80 ≤ y) (h6 : y ≤ 0xBF) :
    decodeAt w (x :: y :: r) = (Char.ofNat (w % 16 * 4096 + x % 64 * 64 + y % 64), 2) := by
  have a1 : ¬ w < 0x80 := by omega
  have a2 : ¬ (w < 0xC2 ∨ 0xF4 < w) := by omega
  have a3 : secondOK w x = true := by rw [secondOK_iff]; exact ⟨h3, h4⟩
  have a4 : ¬ w < 0xE0 := by omega
  have a5 : isCont y = true := by rw [isCont_iff]; omega
  simp [decodeAt, a1, a2, a3, a4, a5, h2]

theorem decodeAt_four (w x y z : Nat) (r : List Nat) (h1 : 0xF0 ≤ w) (h2 : w ≤ 0xF4)
    (h3 : secondLo w ≤ x) (h4 : x ≤ secondHi w) (h5 : 0x80 ≤ y) (h6 : y ≤ 0xBF) (h7 : 0x80 ≤ z) (h8 : z ≤ 0xBF) :
    decodeAt w (x :: y :: z :: r) =
      (Char.ofNat (w % 8 * 262144 + x % 64 * 4096 + y % 64 * 64 + z % 64), 3) := by
  have a1 : ¬ w < 0x80 := by omega
  have a2 : ¬ (w < 0xC2 ∨ 0xF4 < w) := by omega
  have a3 : secondOK w x = true := by rw [secondOK_iff]; exact ⟨h3, h4⟩
  have a4 : ¬ w < 0xE0 := by omega
  have a4' : ¬ w < 0xF0 := by omega
  have a5 : isCont y = true := by rw [isCont_iff]; omega
  have a6 : isCont z = true := by rw [isCont_iff]; omega
  simp [decodeAt, a1, a2, a3, a4, a4', a5, a6]

theorem char_valid (c : Char) : c.toNat < 0xD800 ∨ (0xDFFF < c.toNat ∧ c.toNat < 0x110000) := c.valid

/-- decoding what the encoder produced for one character gives that character back -/
theorem decGo_encodeChar (c : Char) (rest : List Nat) :
    decGo ((String.utf8EncodeChar c).map (·.toNat) ++ rest) 0 = c :: decGo rest 0 := by
  have hv := char_valid c
  have hc : Char.ofNat c.toNat = c := Char.ofNat_toNat c
  unfold String.utf8EncodeChar
  simp only
  have e : c.val.toNat = c.toNat := rfl
  rw [e]
  generalize c.toNat = v at *
  split
  · -- one byte
    have h0 : v % 2 ^ 8 = v := by omega
    simp only [List.map_cons, List.map_nil, UInt8.toNat_ofNat', List.cons_append, List.nil_append, decGo, h0]
    rw [decodeAt_one v rest (by omega), hc]
  · split
    · -- two bytes
      have h0 : (v / 64 % 32 + 192) % 2 ^ 8 = v / 64 + 192 := by omega
      have h1 : (v % 64 + 128) % 2 ^ 8 = v % 64 + 128 := by omega
      simp only [List.map_cons, List.map_nil, UInt8.toNat_ofNat', List.cons_append, List.nil_append, decGo, h0, h1]
      rw [decodeAt_two _ _ rest (by omega) (by omega) (by omega) (by omega)]
      have : (v / 64 + 192) % 32 * 64 + (v % 64 + 128) % 64 = v := by omega
      simp only [this, hc, decGo]
    · split
      · -- three bytes
        have h0 : (v / 4096 % 16 + 224) % 2 ^ 8 = v / 4096 + 224 := by omega
        have h1 : (v / 64 % 64 + 128) % 2 ^ 8 = v / 64 % 64 + 128 := by omega
        have h2 : (v % 64 + 128) % 2 ^ 8 = v % 64 + 128 := by omega
        simp only [List.map_cons, List.map_nil, UInt8.toNat_ofNat', List.cons_append, List.nil_append, decGo, h0, h1, h2]
        rw [decodeAt_three _ _ _ rest (by omega) (by omega)
          (by unfold secondLo; repeat' split
              all_goals omega)
          (by unfold secondHi; repeat' split
              all_goals omega) (by omega) (by omega)]
        have : (v / 4096 + 224) % 16 * 4096 + (v / 64 % 64 + 128) % 64 * 64 + (v % 64 + 128) % 64 = v := by omega
        simp only [this, hc, decGo]
      · -- four bytes
        have h0 : (v / 262144 % 8 + 240) % 2 ^ 8 = v / 262144 + 240 := by omega
        have h1 : (v / 4096 % 64 + 128) % 2 ^ 8 = v / 4096 % 64 + 128 := by omega
        have h2 : (v / 64 % 64 + 128) % 2 ^ 8 = v / 64 % 64 + 128 := by omega
        have h3 : (v % 64 + 128) % 2 ^ 8 = v % 64 + 128 := by omega
        simp only [List.map_cons, List.map_nil, UInt8.toNat_ofNat', List.cons_append, List.nil_append, decGo,
          h0, h1, h2, h3]
        rw [decodeAt_four _ _ _ _ rest (by omega) (by omega)
          (by unfold secondLo; repeat' split
              all_goals omega)
          (by unfold secondHi; repeat' split
              all_goals omega) (by omega) (by omega) (by omega) (by omega)]
        have : (v / 262144 + 240) % 8 * 262144 + (v / 4096 % 64 + 128) % 64 * 4096 +
            (v / 64 % 64 + 128) % 64 * 64 + (v % 64 + 128) % 64 = v := by omega
        simp only [this, hc, decGo]

theorem decN_utf8Enc (s : Str) : decN ((utf8Enc s).map (·.toNat)) = s := by
  unfold decN utf8Enc
  induction s with
  | nil => simp [decGo]
  | cons c r ih =>
    rw [List.flatMap_cons, List.map_append, decGo_encodeChar, ih]

theorem utf8DecReplace_utf8Enc (s : Str) : utf8DecReplace (utf8Enc s) = s := decN_utf8Enc s

end Ombott.Qs
