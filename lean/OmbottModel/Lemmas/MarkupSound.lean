import OmbottModel.Model.Multipart
import OmbottModel.Lemmas.MarkupWF
/-!
Soundness of the delimiter scanner for **arbitrary** input (any bytes, any chunking): whenever
`_eat_data` reports the end of a data section, the delimiter `CRLF--boundary` really is at that
position of the stream, and it does not start before the section does.  (Completeness — that the
*first* occurrence is found — is C06's `eatData_refines_R`.)  Used by C12
`delivered_fields_terminated`.
-/
namespace Ombott.Multipart
open Py

theorem slice_add (s : Bytes) (a n : Nat) : slice s a (a + n) = (s.drop a).take n := by
  simp [slice, List.drop_take]

/-! ### MatchTail -/

theorem matchTailGo_sound (tok s : Bytes) (start end_ : Nat) (last : UInt8) (cands : List Nat) (i : Nat)
    (h : matchTailGo tok s start end_ last cands = some i) :
    i ∈ cands ∧ i ≤ end_ - start ∧ slice s (start + (end_ - start - i)) end_ = tok.take i := by
  induction cands with
  | nil => simp [matchTailGo] at h
  | cons c cs ih =>
    rw [matchTailGo] at h
    split at h
    · have := ih h; exact ⟨List.mem_cons_of_mem _ this.1, this.2⟩
    · split at h
      · cases h
      · split at h
        · rename_i hlt heq
          simp only [Option.some.injEq] at h; subst h
          exact ⟨List.mem_cons_self, by omega, by simpa using heq⟩
        · have := ih h; exact ⟨List.mem_cons_of_mem _ this.1, this.2⟩

theorem matchTail_sound (tok s : Bytes) (start end_ i : Nat) (h : matchTail tok s start end_ = .ok (some i)) :
    1 ≤ i ∧ i ≤ tok.length ∧ i ≤ end_ - start ∧ slice s (start + (end_ - start - i)) end_ = tok.take i := by
  unfold matchTail at h
  split at h
  · cases h
  · split at h
    · cases h
    · split at h
      · cases h
      · simp only [Except.ok.injEq] at h
        have := matchTailGo_sound _ _ _ _ _ _ _ h
        obtain ⟨k, hk, rfl⟩ := List.mem_range'.mp this.1
        exact ⟨by omega, by omega, this.2⟩

/-! ### what the scanner remembers between calls -/

/-- `trest = token[m:]` means: the last `m` bytes seen (`S` = the stream up to the scan position)
are the first `m` bytes of the token, and they do not start before `lo` -/
def Pending (tok S : Bytes) (lo : Nat) (trest : Option Bytes) : Prop :=
  ∀ tr, trest = some tr →
    ∃ m, m ≤ tok.length ∧ tr = tok.drop m ∧ lo + m ≤ S.length ∧ S.drop (S.length - m) = tok.take m

/-- the chunk-relative position `r` is the absolute position `k ≥ lo` of an occurrence of the
token in the stream `X` (`preLen` bytes came before the chunk) -/
def FoundAt (tok X : Bytes) (lo preLen : Nat) (r : Int) : Prop :=
  ∃ k : Nat, (preLen : Int) + r = k ∧ lo ≤ k ∧ (X.drop k).take tok.length = tok

theorem pending_none (tok S : Bytes) (lo : Nat) : Pending tok S lo none := by
  intro tr h; cases h

/-- a partial match found at the end of `S` -/
theorem pending_of_tail (tok S : Bytes) (lo m : Nat) (hm : m ≤ tok.length) (hlo : lo + m ≤ S.length)
    (h : S.drop (S.length - m) = tok.take m) : Pending tok S lo (some (tok.drop m)) := by
  intro tr htr
  cases htr
  exact ⟨m, hm, rfl, hlo, h⟩

/-! ### `_eat_data`: the tail of a chunk -/

theorem drop_append_tail (A B : Bytes) (m : Nat) (hm : m ≤ B.length) :
    (A ++ B).drop ((A ++ B).length - m) = B.drop (B.length - m) := by
  rw [List.length_append, List.drop_append]
  have h1 : A.drop (A.length + B.length - m) = [] := List.drop_eq_nil_of_le (by omega)
  rw [h1, List.nil_append]
  congr 1; omega

theorem eatTail_sound (tok pre chunk : Bytes) (start lo : Nat) (trest : Option Bytes) (o : EatOut)
    (hs : start ≤ chunk.length) (hlo : lo ≤ pre.length + start)
    (hp : Pending tok (pre ++ chunk.take start) lo trest)
    (h : eatTail tok chunk start trest = .ok o) :
    (∀ r, o.res = some r → o.trest = none ∧ FoundAt tok (pre ++ chunk) lo pre.length r) ∧
    (o.res = none → Pending tok (pre ++ chunk) lo o.trest) := by
  have hX : pre ++ chunk = (pre ++ chunk.take start) ++ chunk.drop start := by
    rw [List.append_assoc, List.take_append_drop]
  have hSlen : (pre ++ chunk.take start).length = pre.length + start := by
    rw [List.length_append, List.length_take]; omega
  generalize hS : pre ++ chunk.take start = S at hX hSlen hp
  generalize hpart : chunk.drop start = part at hX
  unfold eatTail at h
  simp only [hpart] at h
  rw [hX]
  have fresh : ∀ o : EatOut,
      (match matchTail tok part 0 part.length with
        | .error e => (.error e : Except Err EatOut)
        | .ok (some m) => .ok ⟨none, some (tok.drop m)⟩
        | .ok none => .ok ⟨none, none⟩) = .ok o →
      o.res = none ∧ Pending tok (S ++ part) lo o.trest := by
    intro o ho
    split at ho
    · cases ho
    · rename_i m hm
      cases ho
      refine ⟨rfl, ?_⟩
      obtain ⟨h1, h2, h3, h4⟩ := matchTail_sound _ _ _ _ _ hm
      simp only [Nat.zero_add, Nat.sub_zero] at h3 h4
      apply pending_of_tail _ _ _ _ h2
      · rw [List.length_append]; omega
      · rw [drop_append_tail _ _ _ h3]
        rw [← h4, slice, List.take_of_length_le (Nat.le_refl _)]
    · cases ho; exact ⟨rfl, pending_none _ _ _⟩
  split at h
  · rename_i hempty
    cases h
    have : part = [] := by simpa using hempty
    subst this
    refine ⟨fun r hr => (by cases hr), fun _ => ?_⟩
    simpa using hp
  · split at h
    · rename_i tr
      obtain ⟨m, hm, htr, hlom, hSm⟩ := hp tr rfl
      split at h
      · rename_i hlt
        split at h
        · rename_i hsw
          cases h
          refine ⟨fun r hr => (by cases hr), fun _ => ?_⟩
          -- tr = part ++ u
          have hpre : part <+: tr := List.isPrefixOf_iff_prefix.mp hsw
          obtain ⟨u, hu⟩ := hpre
          have htrlen : tr.length = tok.length - m := by rw [htr, List.length_drop]
          have hdrop : tr.drop part.length = tok.drop (m + part.length) := by
            rw [htr, List.drop_drop]
          rw [hdrop]
          apply pending_of_tail
          · omega
          · rw [List.length_append]; omega
          · rw [List.length_append, List.drop_append]
            have e1 : S.length + part.length - (m + part.length) = S.length - m := by omega
            have e2 : S.length - m - S.length = 0 := by omega
            rw [e1, e2, List.drop_zero, hSm, List.take_add]
            congr 1
            rw [← htr, ← hu, List.take_left]
        · have := fresh o h
          exact ⟨fun r hr => (by rw [this.1] at hr; cases hr), fun _ => this.2⟩
      · rename_i hge
        split at h
        · rename_i hsw
          cases h
          refine ⟨fun r hr => ?_, fun hn => by cases hn⟩
          simp only [Option.some.injEq] at hr
          refine ⟨rfl, ?_⟩
          have hpre : tr <+: part := List.isPrefixOf_iff_prefix.mp hsw
          obtain ⟨t, ht⟩ := hpre
          have htrlen : tr.length = tok.length - m := by rw [htr, List.length_drop]
          refine ⟨S.length - m, ?_, by omega, ?_⟩
          · rw [← hr, hSlen]; omega
          · rw [List.drop_append_of_le_length (by omega), hSm, ← ht, htr, ← List.append_assoc,
              List.take_append_drop, List.take_left]
        · have := fresh o h
          exact ⟨fun r hr => (by rw [this.1] at hr; cases hr), fun _ => this.2⟩
    · have := fresh o h
      exact ⟨fun r hr => (by rw [this.1] at hr; cases hr), fun _ => this.2⟩

/-! ### `_eat_data`: the block loop -/

/-- a pending partial match that is completed by the next bytes -/
theorem found_by_trest (tok pre chunk : Bytes) (start lo : Nat) (tr : Bytes) (hs : start ≤ chunk.length)
    (hp : Pending tok (pre ++ chunk.take start) lo (some tr))
    (hpre : (chunk.drop start).take tr.length = tr) :
    FoundAt tok (pre ++ chunk) lo pre.length (((start + tr.length : Nat) : Int) - tok.length) := by
  have hX : pre ++ chunk = (pre ++ chunk.take start) ++ chunk.drop start := by
    rw [List.append_assoc, List.take_append_drop]
  have hSlen : (pre ++ chunk.take start).length = pre.length + start := by
    rw [List.length_append, List.length_take]; omega
  generalize pre ++ chunk.take start = S at hX hSlen hp
  obtain ⟨m, hm, htr, hlom, hSm⟩ := hp tr rfl
  have htrlen : tr.length = tok.length - m := by rw [htr, List.length_drop]
  have hpart : chunk.drop start = tr ++ (chunk.drop start).drop tr.length := by
    conv => lhs; rw [← List.take_append_drop tr.length (chunk.drop start), hpre]
  refine ⟨S.length - m, ?_, by omega, ?_⟩
  · rw [hSlen]; omega
  · rw [hX, List.drop_append_of_le_length (by omega), hSm, hpart, htr, ← List.append_assoc,
      List.take_append_drop, List.take_left]

theorem eatBlocks_sound (tok pre chunk : Bytes) (lo : Nat) (fuel : Nat) :
    ∀ (start : Nat) (trest : Option Bytes) (o : EatOut),
      start ≤ chunk.length → lo ≤ pre.length + start →
      Pending tok (pre ++ chunk.take start) lo trest →
      eatBlocks tok chunk fuel start trest = .ok o →
      (∀ r, o.res = some r → o.trest = none ∧ FoundAt tok (pre ++ chunk) lo pre.length r) ∧
      (o.res = none → Pending tok (pre ++ chunk) lo o.trest) := by
  induction fuel with
  | zero => intro start trest o _ _ _ h; simp [eatBlocks] at h
  | succ fuel ih =>
    intro start trest o hs hlo hp h
    rw [eatBlocks] at h
    simp only at h
    split at h
    · exact eatTail_sound tok pre chunk start lo trest o hs hlo hp h
    · rename_i hend
      have hend' : start + tok.length ≤ chunk.length := by omega
      have go : ∀ o : EatOut,
          (match matchTail tok chunk start (start + tok.length) with
            | .error e => (.error e : Except Err EatOut)
            | .ok (some m) =>
              if m = tok.length then .ok ⟨some (start : Int), none⟩
              else eatBlocks tok chunk fuel (start + tok.length) (some (tok.drop m))
            | .ok none => eatBlocks tok chunk fuel (start + tok.length) none) = .ok o →
          (∀ r, o.res = some r → o.trest = none ∧ FoundAt tok (pre ++ chunk) lo pre.length r) ∧
          (o.res = none → Pending tok (pre ++ chunk) lo o.trest) := by
        intro o ho
        split at ho
        · cases ho
        · rename_i m hm
          obtain ⟨h1, h2, h3, h4⟩ := matchTail_sound _ _ _ _ _ hm
          split at ho
          · rename_i hmt
            cases ho
            refine ⟨fun r hr => ?_, fun hn => by cases hn⟩
            simp only [Option.some.injEq] at hr
            refine ⟨rfl, pre.length + start, by rw [← hr]; omega, hlo, ?_⟩
            rw [List.drop_length_add_append]
            subst hmt
            have e : start + (start + tok.length - start - tok.length) = start := by omega
            rw [e, slice_add, List.take_of_length_le (Nat.le_refl _)] at h4
            exact h4
          · apply ih (start + tok.length) _ o hend' (by omega) _ ho
            apply pending_of_tail _ _ _ _ h2
            · rw [List.length_append, List.length_take]; omega
            · have hB : m ≤ (chunk.take (start + tok.length)).length := by
                rw [List.length_take]; omega
              rw [drop_append_tail _ _ _ hB, List.length_take, Nat.min_eq_left hend']
              have e : start + (start + tok.length - start - m) = start + tok.length - m := by omega
              rw [e] at h4
              exact h4
        · exact ih (start + tok.length) _ o hend' (by omega) (pending_none _ _ _) ho
      split at h
      · rename_i tr
        split at h
        · rename_i heq
          cases h
          refine ⟨fun r hr => ?_, fun hn => by cases hn⟩
          simp only [Option.some.injEq] at hr
          refine ⟨rfl, ?_⟩
          rw [← hr]
          apply found_by_trest tok pre chunk start lo tr hs hp
          have := eq_of_beq heq
          rw [slice_add] at this
          exact this
        · exact go o h
      · exact go o h

theorem eatData_sound (tok pre chunk : Bytes) (lo base : Nat) (trest : Option Bytes) (o : EatOut)
    (hs : base ≤ chunk.length) (hlo : lo ≤ pre.length + base)
    (hp : Pending tok (pre ++ chunk.take base) lo trest)
    (h : eatData tok chunk base trest = .ok o) :
    (∀ r, o.res = some r → o.trest = none ∧ FoundAt tok (pre ++ chunk) lo pre.length r) ∧
    (o.res = none → Pending tok (pre ++ chunk) lo o.trest) :=
  eatBlocks_sound tok pre chunk lo _ base trest o hs hlo hp h

/-! ### where a header block can end -/

theorem endHeadersGo_found (s : Bytes) (q : Nat) :
    ∀ (rest : Bytes) (i : Nat), rest = s.drop i → i ≤ s.length → endHeadersGo s i rest = .found q →
      q + 4 ≤ s.length := by
  intro rest
  induction rest with
  | nil => intro i _ _ h; simp [endHeadersGo] at h
  | cons c rest ih =>
    intro i hrest hi h
    have hlen : s.length - i = rest.length + 1 := by
      have := congrArg List.length hrest
      simp only [List.length_cons, List.length_drop] at this
      omega
    have hnext : rest = s.drop (i + 1) := by
      have : s.drop (i + 1) = (s.drop i).drop 1 := by rw [List.drop_drop]
      rw [this, ← hrest]; rfl
    rw [endHeadersGo] at h
    split at h
    · split at h
      · rename_i hpre
        simp only [EndSearch.found.injEq] at h
        have := (List.isPrefixOf_iff_prefix.mp hpre).length_le
        simp only [CRLFx2, List.length_cons, List.length_nil] at this
        omega
      · split at h
        · cases h
        · split at h
          · cases h
          · split at h
            · cases h
            · exact ih (i + 1) hnext (by omega) h
    · exact ih (i + 1) hnext (by omega) h

theorem eatHeaders_res_le (e e' : Eater) (chunk : Bytes) (base : Nat) (p : Int) (hb : base ≤ chunk.length)
    (h : eatHeaders e chunk base = .ok (e', some p)) : p + 4 ≤ chunk.length := by
  unfold eatHeaders at h
  simp only at h
  have search : ∀ e0 : Eater,
      (match endHeadersSearch chunk base with
        | .none => (.ok (e0, none) : Except Err (Eater × Option Int))
        | .found q => .ok (e0, some (q : Int))
        | .tail n => .ok ({ e0 with headersEndExpected := some (CRLFx2.drop n) }, none)) = .ok (e', some p) →
      p + 4 ≤ chunk.length := by
    intro e0 hs
    split at hs
    · cases hs
    · rename_i q hq
      simp only [Except.ok.injEq, Prod.mk.injEq, Option.some.injEq] at hs
      have := endHeadersGo_found chunk q _ base rfl hb hq
      omega
    · cases hs
  split at h
  · exact search _ h
  · rename_i expected _
    split at h
    · rename_i heq
      simp only [Except.ok.injEq, Prod.mk.injEq, Option.some.injEq] at h
      have hl := congrArg List.length heq
      simp only [slice, List.length_drop, List.length_take] at hl
      omega
    · split at h
      · cases h
      · split at h
        · cases h
        · split at h
          · cases h
          · split at h
            · cases h
            · exact search _ h

theorem eat_res_le (e e' : Eater) (chunk : Bytes) (base : Nat) (p : Int) (hb : base ≤ chunk.length)
    (h : eat e chunk base = .ok (e', some p)) : p + 4 ≤ chunk.length := by
  unfold eat at h
  simp only at h
  have finish : ∀ (x : Except Err (Eater × Option Int)),
      (∀ e1 q, x = .ok (e1, some q) → q + 4 ≤ chunk.length) →
      (match x with
        | .error y => (.error y : Except Err (Eater × Option Int))
        | .ok (e1, none) => .ok (e1, none)
        | .ok (e1, some pos) => .ok ({ e1 with eatMeth := .firstCrlfOrLastHyphens }, some pos)) = .ok (e', some p) →
      p + 4 ≤ chunk.length := by
    intro x hx hm
    split at hm
    · cases hm
    · cases hm
    · rename_i e1 pos
      simp only [Except.ok.injEq, Prod.mk.injEq, Option.some.injEq] at hm
      rw [← hm.2]; exact hx e1 pos rfl
  have pre : ∀ (x : Except Err (Eater × Option Int)),
      (∀ e1 q, x = .ok (e1, some q) → 0 ≤ q ∧ q ≤ chunk.length) →
      (match x with
        | .error y => (.error y : Except Err (Eater × Option Int))
        | .ok (e1, none) => .ok (e1, none)
        | .ok (e1, some pos) =>
          if e1.stopped then .error .stopMarkup
          else
            (match eatHeaders { e1 with eatMeth := .headers } chunk pos.toNat with
              | .error y => (.error y : Except Err (Eater × Option Int))
              | .ok (e2, none) => .ok (e2, none)
              | .ok (e2, some pos2) => .ok ({ e2 with eatMeth := .firstCrlfOrLastHyphens }, some pos2))) = .ok (e', some p) →
      p + 4 ≤ chunk.length := by
    intro x hx hm
    split at hm
    · cases hm
    · cases hm
    · rename_i e1 pos
      split at hm
      · cases hm
      · have := hx e1 pos rfl
        exact finish _ (fun e2 q hq => eatHeaders_res_le _ _ _ _ _ (by omega) hq) hm
  split at h
  · exact finish _ (fun e1 q hq => eatHeaders_res_le _ _ _ _ _ hb hq) h
  · apply pre _ _ h
    intro e1 q hq
    unfold eatFirst at hq
    simp only at hq
    split at hq
    · cases hq
    · split at hq
      · rename_i heq
        simp only [Except.ok.injEq, Prod.mk.injEq, Option.some.injEq] at hq
        have hl := congrArg List.length heq
        simp only [slice, List.length_drop, List.length_take, CRLF, List.length_cons, List.length_nil] at hl
        omega
      · split at hq
        · split at hq
          · cases hq
          · split at hq <;> cases hq
        · split at hq
          · rename_i heq
            simp only [Except.ok.injEq, Prod.mk.injEq, Option.some.injEq] at hq
            have hl := congrArg List.length heq
            simp only [slice, List.length_drop, List.length_take, HYPHENx2, List.length_cons, List.length_nil] at hl
            omega
          · cases hq
  · apply pre _ _ h
    intro e1 q hq
    unfold eatLf at hq
    split at hq
    · cases hq
    · rename_i c hc
      have hlt : base < chunk.length := by
        rcases Nat.lt_or_ge base chunk.length with hl | hge
        · exact hl
        · rw [List.getElem?_eq_none hge] at hc; cases hc
      split at hq
      · simp only [Except.ok.injEq, Prod.mk.injEq, Option.some.injEq] at hq; omega
      · cases hq
  · apply pre _ _ h
    intro e1 q hq
    unfold eatLastHyphen at hq
    split at hq
    · cases hq
    · rename_i c hc
      have hlt : base < chunk.length := by
        rcases Nat.lt_or_ge base chunk.length with hl | hge
        · exact hl
        · rw [List.getElem?_eq_none hge] at hc; cases hc
      split at hq
      · simp only [Except.ok.injEq, Prod.mk.injEq, Option.some.injEq] at hq; omega
      · cases hq
  · cases h

/-! ### upper bound and `trest` after a section end found by `_eat_data` (no invariant needed) -/

theorem eatTail_found (tok chunk : Bytes) (start : Nat) (trest : Option Bytes) (o : EatOut) (r : Int)
    (h : eatTail tok chunk start trest = .ok o) (hr : o.res = some r) :
    o.trest = none ∧ r + tok.length ≤ chunk.length := by
  unfold eatTail at h
  simp only at h
  split at h
  · cases h; cases hr
  · rename_i hne
    have hstart : start < chunk.length := by
      rcases Nat.lt_or_ge start chunk.length with hl | hge
      · exact hl
      · rw [List.drop_eq_nil_of_le hge] at hne; simp at hne
    have fresh : ∀ o : EatOut,
        (match matchTail tok (chunk.drop start) 0 (chunk.drop start).length with
          | .error e => (.error e : Except Err EatOut)
          | .ok (some m) => .ok ⟨none, some (tok.drop m)⟩
          | .ok none => .ok ⟨none, none⟩) = .ok o → o.res = none := by
      intro o ho
      split at ho
      · cases ho
      · cases ho; rfl
      · cases ho; rfl
    split at h
    · split at h
      · split at h
        · cases h; cases hr
        · rw [fresh o h] at hr; cases hr
      · split at h
        · rename_i tr hge hsw
          cases h
          simp only [Option.some.injEq] at hr; subst hr
          refine ⟨rfl, ?_⟩
          simp only [List.length_drop] at hge
          have := (List.isPrefixOf_iff_prefix.mp hsw).length_le
          simp only [List.length_drop] at this
          omega
        · rw [fresh o h] at hr; cases hr
    · rw [fresh o h] at hr; cases hr

theorem eatBlocks_found (tok chunk : Bytes) (fuel : Nat) :
    ∀ (start : Nat) (trest : Option Bytes) (o : EatOut) (r : Int),
      eatBlocks tok chunk fuel start trest = .ok o → o.res = some r →
      o.trest = none ∧ r + tok.length ≤ chunk.length := by
  induction fuel with
  | zero => intro start trest o r h; simp [eatBlocks] at h
  | succ fuel ih =>
    intro start trest o r h hr
    rw [eatBlocks] at h
    simp only at h
    split at h
    · exact eatTail_found _ _ _ _ _ _ h hr
    · rename_i hend
      have go : ∀ o : EatOut,
          (match matchTail tok chunk start (start + tok.length) with
            | .error e => (.error e : Except Err EatOut)
            | .ok (some m) =>
              if m = tok.length then .ok ⟨some (start : Int), none⟩
              else eatBlocks tok chunk fuel (start + tok.length) (some (tok.drop m))
            | .ok none => eatBlocks tok chunk fuel (start + tok.length) none) = .ok o →
          o.res = some r → o.trest = none ∧ r + tok.length ≤ chunk.length := by
        intro o ho hr
        split at ho
        · cases ho
        · split at ho
          · cases ho; simp only [Option.some.injEq] at hr; subst hr; exact ⟨rfl, by omega⟩
          · exact ih _ _ _ _ ho hr
        · exact ih _ _ _ _ ho hr
      split at h
      · split at h
        · rename_i tr heq
          cases h; simp only [Option.some.injEq] at hr; subst hr
          refine ⟨rfl, ?_⟩
          have hl := congrArg List.length (eq_of_beq heq)
          simp only [slice, List.length_drop, List.length_take] at hl
          omega
        · exact go o h hr
      · exact go o h hr

theorem eatDataM_found (mk mk' : Markuper) (chunk : Bytes) (base : Nat) (r : Int)
    (h : mk.eatDataM chunk base = .ok (mk', some r)) :
    mk'.trest = none ∧ r + mk.token.length ≤ chunk.length := by
  unfold Markuper.eatDataM eatData at h
  split at h
  · cases h
  · rename_i o ho
    simp only [Except.ok.injEq, Prod.mk.injEq] at h
    have := eatBlocks_found _ _ _ _ _ _ _ ho h.2
    rw [← h.1]; exact this

/-! ### the invariant of `iter_markup` and of `MultipartMarkup.parse` -/

/-- a data section that starts no later than it ends and is followed by the token in `X` -/
def Term (tok X : Bytes) (m : Markup) : Prop :=
  ∃ k : Nat, m.stop = (k : Int) ∧ m.start ≤ (k : Int) ∧ (X.drop k).take tok.length = tok

/-- every data section but the very first one (the preamble) is terminated -/
def Terminated (tok X : Bytes) (ms : List Markup) : Prop :=
  ∀ i m, ms[i]? = some m → 1 ≤ i → m.name = .data → Term tok X m

theorem term_append (tok X Y : Bytes) (m : Markup) (h : Term tok X m) : Term tok (X ++ Y) m := by
  obtain ⟨k, h1, h2, h3⟩ := h
  refine ⟨k, h1, h2, ?_⟩
  have hl := congrArg List.length h3
  simp only [List.length_take, List.length_drop] at hl
  rcases Nat.lt_or_ge X.length k with hlt | hge
  · -- then `tok = []`
    have : tok.length = 0 := by omega
    have : tok = [] := List.eq_nil_of_length_eq_zero this
    subst this; simp
  · rw [List.drop_append_of_le_length hge, List.take_append_of_le_length (by rw [List.length_drop]; omega)]
    exact h3

theorem terminated_append (tok X Y : Bytes) (ms : List Markup) (h : Terminated tok X ms) :
    Terminated tok (X ++ Y) ms :=
  fun i m hi h1 hn => term_append tok X Y m (h i m hi h1 hn)

theorem terminated_snoc (tok X : Bytes) (ms : List Markup) (m : Markup) (h : Terminated tok X ms)
    (hm : 1 ≤ ms.length → m.name = .data → Term tok X m) : Terminated tok X (ms ++ [m]) := by
  intro i x hi h1 hn
  rcases Nat.lt_or_ge i ms.length with hlt | hge
  · rw [List.getElem?_append_left hlt] at hi; exact h i x hi h1 hn
  · rw [List.getElem?_append_right hge] at hi
    have : i - ms.length = 0 := by
      rcases Nat.eq_zero_or_pos (i - ms.length) with h0 | hpos
      · exact h0
      · rw [List.getElem?_eq_none (by simp; omega)] at hi; cases hi
    rw [this] at hi
    simp only [List.getElem?_cons_zero, Option.some.injEq] at hi
    subst hi
    rcases Nat.eq_zero_or_pos ms.length with h0 | hpos
    · omega
    · exact hm hpos hn

/-- the state of the scanner between two chunks, `P` = everything consumed so far -/
def PhaseInv (tok : Bytes) (mk : Markuper) (nMarkups : Nat) (P : Bytes) : Prop :=
  mk.abspos = P.length ∧
  (mk.curMeth = .data → 0 ≤ mk.absStartSection ∧ mk.absStartSection ≤ P.length ∧
    Pending tok P mk.absStartSection.toNat mk.trest) ∧
  (mk.curMeth = .headers → mk.trest = none) ∧
  (mk.curMeth = .startBoundary → nMarkups = 0)

def SoundInv (tok : Bytes) (s : St) (P : Bytes) : Prop :=
  s.markuper.token = tok ∧ tok = CRLF ++ s.markuper.boundary ∧ Terminated tok P s.markups ∧
  (s.error = none → s.markuper.stopped = false → PhaseInv tok s.markuper s.markups.length P)

theorem call_headers_trest (mk mk' : Markuper) (chunk : Bytes) (base : Nat) (r : Option Int)
    (h : mk.call .headers chunk base = .ok (mk', r)) : mk'.trest = mk.trest := by
  unfold Markuper.call at h
  simp only at h
  split at h
  · cases h
  · cases h; rfl

theorem call_start_found (mk mk' : Markuper) (chunk : Bytes) (r : Int)
    (htok : mk.token = CRLF ++ mk.boundary)
    (h : mk.call .startBoundary chunk 0 = .ok (mk', some r)) :
    mk'.trest = none ∧ r + mk.token.length ≤ chunk.length := by
  unfold Markuper.call Markuper.eatStartBoundary at h
  simp only at h
  split at h
  · exact eatDataM_found _ _ _ _ _ h
  · rename_i htr
    split at h
    · cases h
    · split at h
      · exact eatDataM_found _ _ _ _ _ h
      · split at h
        · rename_i hsw
          simp only [Except.ok.injEq, Prod.mk.injEq, Option.some.injEq] at h
          rw [← h.1, ← h.2]
          refine ⟨htr, ?_⟩
          have := (List.isPrefixOf_iff_prefix.mp hsw).length_le
          rw [htok]
          simp only [CRLF, List.length_append, List.length_cons, List.length_nil]
          omega
        · split at h
          · cases h
          · exact eatDataM_found { mk with trest := some mk.boundary } _ _ _ _ h

theorem iterLoop_sound (tok pre chunk : Bytes) (pm : List Markup) (ht : 2 ≤ tok.length)
    (fuel : Nat) (mk : Markuper) (cur : CurMeth) (ass : Int) (sns : Nat) (acc : List Markup)
    (h1 : mk.token = tok) (h2 : tok = CRLF ++ mk.boundary) (h3 : mk.abspos = pre.length) (h4 : sns ≤ chunk.length)
    (h5 : cur = .data → 0 ≤ ass ∧ ass ≤ pre.length + sns ∧ Pending tok (pre ++ chunk.take sns) ass.toNat mk.trest)
    (h6 : cur = .headers → mk.trest = none)
    (h7 : cur = .startBoundary → pm ++ acc = [] ∧ sns = 0)
    (h8 : Terminated tok (pre ++ chunk) (pm ++ acc)) :
    let r := iterLoop chunk fuel mk cur ass sns acc
    r.mkr.token = tok ∧ tok = CRLF ++ r.mkr.boundary ∧ Terminated tok (pre ++ chunk) (pm ++ r.out) ∧
    (r.exc = none → r.mkr.stopped = false → PhaseInv tok r.mkr (pm ++ r.out).length (pre ++ chunk)) := by
  refine iterLoop_inv chunk
    (fun mk cur ass sns acc =>
      mk.token = tok ∧ tok = CRLF ++ mk.boundary ∧ mk.abspos = pre.length ∧ sns ≤ chunk.length ∧
      (cur = .data → 0 ≤ ass ∧ ass ≤ pre.length + sns ∧ Pending tok (pre ++ chunk.take sns) ass.toNat mk.trest) ∧
      (cur = .headers → mk.trest = none) ∧
      (cur = .startBoundary → pm ++ acc = [] ∧ sns = 0) ∧
      Terminated tok (pre ++ chunk) (pm ++ acc))
    (fun r => r.mkr.token = tok ∧ tok = CRLF ++ r.mkr.boundary ∧ Terminated tok (pre ++ chunk) (pm ++ r.out) ∧
      (r.exc = none → r.mkr.stopped = false → PhaseInv tok r.mkr (pm ++ r.out).length (pre ++ chunk)))
    ?_ ?_ ?_ ?_ ?_ ?_ fuel mk cur ass sns acc ⟨h1, h2, h3, h4, h5, h6, h7, h8⟩
  · intro mk cur ass sns acc h _
    exact ⟨h.1, h.2.1, h.2.2.2.2.2.2.2, fun _ hs => by simp at hs⟩
  · intro mk cur ass sns acc e h _
    exact ⟨h.1, h.2.1, h.2.2.2.2.2.2.2, fun he => by simp at he⟩
  · -- the chunk ends inside a section
    intro mk cur ass sns acc mk' h hc
    obtain ⟨g1, g2, g3, g4, g5, g6, g7, g8⟩ := h
    have hf := call_frame _ _ _ _ _ _ hc
    refine ⟨by simpa [hf.1] using g1, by simpa [hf.2.1] using g2, g8, fun _ _ => ?_⟩
    refine ⟨by simp [hf.2.2.1, g3], ?_, ?_, ?_⟩
    · intro hcur
      simp only at hcur
      subst hcur
      obtain ⟨a1, a2, a3⟩ := g5 rfl
      refine ⟨a1, by simp only [List.length_append]; omega, ?_⟩
      unfold Markuper.call Markuper.eatDataM at hc
      simp only at hc
      split at hc
      · cases hc
      · rename_i o ho
        simp only [Except.ok.injEq, Prod.mk.injEq] at hc
        rw [← hc.1]
        rw [g1] at ho
        exact (eatData_sound tok pre chunk ass.toNat sns mk.trest o g4 (by omega) a3 ho).2 hc.2
    · intro hcur
      simp only at hcur
      subst hcur
      simp only
      rw [call_headers_trest _ _ _ _ _ hc]; exact g6 rfl
    · intro hcur
      simp only at hcur
      subst hcur
      have := (g7 rfl).1
      simp [this]
  · intro mk cur ass sns acc mk' e h hc _
    have hf := call_frame _ _ _ _ _ _ hc
    exact ⟨by rw [hf.1]; exact h.1, by rw [hf.2.1]; exact h.2.1, h.2.2.2.2.2.2.2, fun he => by simp at he⟩
  · -- a section ends inside the chunk
    intro mk cur ass sns acc mk' e m cur' ass' sns' h hc he
    obtain ⟨g1, g2, g3, g4, g5, g6, g7, g8⟩ := h
    have hf := call_frame _ _ _ _ _ _ hc
    have hn := emit_name _ _ _ _ _ _ _ _ he
    have ha := emit_ass _ _ _ _ _ _ _ _ he
    have htok' : mk'.token = tok := by rw [hf.1]; exact g1
    refine ⟨htok', by rw [hf.2.1]; exact g2, by rw [hf.2.2.1]; exact g3, ?_⟩
    cases cur with
    | startBoundary =>
      obtain ⟨hem, hsns⟩ := g7 rfl
      subst hsns
      have hfound := call_start_found mk mk' chunk e (by rw [← g2]; exact g1) hc
      have hne : CurMeth.startBoundary ≠ CurMeth.headers := by simp
      obtain ⟨_, hcur'⟩ := hn.2.1 hne
      obtain ⟨hass', hsns'⟩ := ha.2.1 hne
      subst hcur'
      refine ⟨?_, by simp, fun _ => hfound.1, by simp, ?_⟩
      · rw [hsns', htok', ← g1]; have := hfound.2; omega
      · rw [← List.append_assoc]
        apply terminated_snoc _ _ _ _ g8
        intro hlen; rw [hem] at hlen; simp at hlen
    | data =>
      obtain ⟨a1, a2, a3⟩ := g5 rfl
      have hne : CurMeth.data ≠ CurMeth.headers := by simp
      obtain ⟨hname, hcur'⟩ := hn.2.1 hne
      obtain ⟨hass', hsns'⟩ := ha.2.1 hne
      have hstop := ha.2.2 rfl
      subst hcur'
      unfold Markuper.call Markuper.eatDataM at hc
      simp only at hc
      split at hc
      · cases hc
      · rename_i o ho
        simp only [Except.ok.injEq, Prod.mk.injEq] at hc
        rw [g1] at ho
        obtain ⟨htr, k, hk1, hk2, hk3⟩ :=
          (eatData_sound tok pre chunk ass.toNat sns mk.trest o g4 (by omega) a3 ho).1 e hc.2
        have hklen : k + tok.length ≤ (pre ++ chunk).length := by
          have hl := congrArg List.length hk3
          simp only [List.length_take, List.length_drop] at hl
          omega
        simp only [List.length_append] at hklen
        refine ⟨?_, by simp, fun _ => by rw [← hc.1]; exact htr, by simp, ?_⟩
        · rw [hsns', htok']; omega
        · rw [← List.append_assoc]
          apply terminated_snoc _ _ _ _ g8
          intro _ _
          refine ⟨k, ?_, ?_, hk3⟩
          · rw [hstop, hf.2.2.1, g3]; exact hk1
          · rw [hn.2.2]; omega
    | headers =>
      obtain ⟨hname, hcur'⟩ := hn.1 rfl
      obtain ⟨hass', hsns', _⟩ := ha.1 rfl
      subst hcur'
      have htr : mk'.trest = none := by rw [call_headers_trest _ _ _ _ _ hc]; exact g6 rfl
      have hge : 0 ≤ e + 4 := by
        have := (call_res_ge _ _ _ _ _ _ hc (by rw [g1]; exact ht)).1 rfl; exact this
      have hle : e + 4 ≤ chunk.length := by
        unfold Markuper.call at hc
        simp only at hc
        split at hc
        · cases hc
        · rename_i e' r' heat
          simp only [Except.ok.injEq, Prod.mk.injEq] at hc
          rw [hc.2] at heat
          exact eat_res_le _ _ _ _ _ g4 heat
      refine ⟨by rw [hsns']; omega, ?_, by simp, by simp, ?_⟩
      · intro _
        refine ⟨by rw [hass', hf.2.2.1, g3]; omega, by rw [hass', hsns', hf.2.2.1, g3]; omega, ?_⟩
        rw [htr]; exact pending_none _ _ _
      · rw [← List.append_assoc]
        apply terminated_snoc _ _ _ _ g8
        intro _ hd; rw [hname] at hd; cases hd
  · intro mk cur ass sns acc h
    exact ⟨h.1, h.2.1, h.2.2.2.2.2.2.2, fun he => by simp at he⟩

theorem parse_sound (tok : Bytes) (ht : 2 ≤ tok.length) (s : St) (P chunk : Bytes) (h : SoundInv tok s P) :
    SoundInv tok (parse s chunk) (P ++ chunk) := by
  obtain ⟨g1, g2, g3, g4⟩ := h
  unfold parse
  split
  · rename_i hcond
    refine ⟨g1, g2, terminated_append _ _ _ _ g3, fun he hs => ?_⟩
    simp only [Bool.or_eq_true, Option.isSome_iff_ne_none, ne_eq] at hcond
    rcases hcond with hc | hc
    · exact absurd he hc
    · rw [hs] at hc; cases hc
  · rename_i hcond
    simp only [Bool.or_eq_true, Option.isSome_iff_ne_none, ne_eq, not_or, Decidable.not_not,
      Bool.not_eq_true] at hcond
    obtain ⟨herr, hst⟩ := hcond
    obtain ⟨p1, p2, p3, p4⟩ := g4 herr hst
    unfold Markuper.iterMarkup
    simp only [hst, Bool.false_eq_true, ↓reduceIte]
    have := iterLoop_sound tok P chunk s.markups ht (chunk.length + 2) s.markuper s.markuper.curMeth
      s.markuper.absStartSection 0 [] g1 g2 p1 (Nat.zero_le _)
      (fun hc => by
        obtain ⟨a1, a2, a3⟩ := p2 hc
        exact ⟨a1, by omega, by simpa using a3⟩)
      p3
      (fun hc => ⟨by simpa using List.eq_nil_of_length_eq_zero (p4 hc), rfl⟩)
      (by simpa using terminated_append _ _ chunk _ g3)
    simp only at this
    obtain ⟨q1, q2, q3, q4⟩ := this
    refine ⟨q1, q2, q3, fun he hs => ?_⟩
    simp only at he hs
    split at he
    · cases he
    · rename_i hexc; exact q4 hexc hs

theorem feed_sound (tok : Bytes) (ht : 2 ≤ tok.length) (chunks : List Bytes) :
    ∀ (s : St) (P : Bytes), SoundInv tok s P → SoundInv tok (feed s chunks) (P ++ chunks.flatten) := by
  unfold feed
  induction chunks with
  | nil => intro s P h; simpa using h
  | cons c cs ih =>
    intro s P h
    have := ih _ _ (parse_sound tok ht s P c h)
    simpa [List.append_assoc] using this

theorem init_sound (b : Bytes) (s : St) (h : St.init b = .ok s) :
    SoundInv (CRLF ++ (HYPHENx2 ++ b)) s [] := by
  unfold St.init Markuper.init at h
  split at h
  · cases h
  · rename_i m hm
    split at hm
    · cases hm
    · cases hm; cases h
      refine ⟨rfl, rfl, ?_, fun _ _ => ⟨rfl, ?_, ?_, ?_⟩⟩
      · intro i m hi; simp at hi
      · intro hc; cases hc
      · intro hc; cases hc
      · intro _; rfl

/-- **Every data section but the preamble ends at an occurrence of the delimiter.**  For every
boundary the constructor accepts and every list of chunks (any bytes, any fragmentation): each
`data` section `(s, e)` of the markup, except the first one, has `s ≤ e` and
`body[e : e + len(T)] = T` for `T = CRLF--boundary` and `body` the concatenation of the chunks. -/
theorem feed_terminated (b : Bytes) (s0 : St) (chunks : List Bytes) (h : St.init b = .ok s0) :
    Terminated (CRLF ++ (HYPHENx2 ++ b)) chunks.flatten (feed s0 chunks).markups := by
  have := feed_sound (CRLF ++ (HYPHENx2 ++ b)) (by simp [CRLF]) chunks s0 [] (init_sound b s0 h)
  simpa using this.2.2.1

end Ombott.Multipart
