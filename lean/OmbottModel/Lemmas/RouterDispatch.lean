import OmbottModel.Lemmas.RouterResolve
import OmbottModel.Lemmas.Split
/-!
Method tables: keys stay duplicate free over every history, `sorted()` sorts, `",".join` can be
split again, and the candidate lists of `Ombott.to_route` (generated table) are
`[verb, GET if verb = HEAD, ANY]`.
-/
namespace Ombott.Router
open Py

/-! ### `sorted` on `str` -/

theorem strLt_irrefl (a : Str) : strLt a a = false := by
  induction a with
  | nil => rfl
  | cons x xs ih => simp [strLt, ih]

theorem strLt_asymm {a b : Str} (h : strLt a b = true) : strLt b a = false := by
  induction a generalizing b with
  | nil => cases b <;> simp [strLt] at h ⊢
  | cons x xs ih =>
    cases b with
    | nil => simp [strLt] at h
    | cons y ys =>
      simp only [strLt] at h ⊢
      by_cases h1 : x.toNat < y.toNat
      · have : ¬ y.toNat < x.toNat := by omega
        simp [this, h1]
      · by_cases h2 : y.toNat < x.toNat
        · simp [h1, h2] at h
        · simp only [h1, h2, if_false] at h ⊢
          exact ih h

/-- negative transitivity: `z < x → y < x ∨ z < y` -/
theorem strLt_negtrans {x y z : Str} (h : strLt z x = true) : strLt y x = true ∨ strLt z y = true := by
  induction z generalizing x y with
  | nil =>
    cases x with
    | nil => simp [strLt] at h
    | cons a as =>
      cases y with
      | nil => left; simp [strLt]
      | cons b bs => right; simp [strLt]
  | cons c cs ih =>
    cases x with
    | nil => simp [strLt] at h
    | cons a as =>
      cases y with
      | nil => left; simp [strLt]
      | cons b bs =>
        simp only [strLt] at h ⊢
        by_cases h1 : c.toNat < a.toNat
        · by_cases h2 : b.toNat < a.toNat
          · left; simp [h2]
          · by_cases h3 : c.toNat < b.toNat
            · right; simp [h3]
            · -- a ≤ b ≤ c < a impossible
              omega
        · by_cases h2 : a.toNat < c.toNat
          · simp [h1, h2] at h
          · simp only [h1, h2, if_false] at h
            have hac : a.toNat = c.toNat := by omega
            by_cases h3 : b.toNat < a.toNat
            · left; simp [h3]
            · by_cases h4 : a.toNat < b.toNat
              · right
                have : c.toNat < b.toNat := by omega
                simp [this]
              · have hab : a.toNat = b.toNat := by omega
                have h5 : ¬ c.toNat < b.toNat := by omega
                have h6 : ¬ b.toNat < c.toNat := by omega
                simp only [h3, h4, h5, h6, if_false]
                exact ih h

/-- `a` may stand before `b` in sorted order -/
def strLe (a b : Str) : Prop := strLt b a = false

theorem insertSorted_perm (x : Str) (l : List Str) : (insertSorted x l).Perm (x :: l) := by
  induction l with
  | nil => exact List.Perm.refl _
  | cons y ys ih =>
    unfold insertSorted
    split
    · exact (List.Perm.cons y ih).trans (List.Perm.swap x y ys)
    · exact List.Perm.refl _

theorem sortStrs_perm (l : List Str) : (sortStrs l).Perm l := by
  unfold sortStrs
  induction l with
  | nil => exact List.Perm.refl _
  | cons x xs ih =>
    simp only [List.foldr_cons]
    exact (insertSorted_perm x _).trans (List.Perm.cons x ih)

theorem insertSorted_sorted (x : Str) (l : List Str) (h : l.Pairwise strLe) :
    (insertSorted x l).Pairwise strLe := by
  induction l with
  | nil => simp [insertSorted]
  | cons y ys ih =>
    rw [List.pairwise_cons] at h
    unfold insertSorted
    split
    · rename_i hyx
      rw [List.pairwise_cons]
      refine ⟨?_, ih h.2⟩
      intro z hz
      rcases List.mem_cons.mp ((List.Perm.mem_iff (insertSorted_perm x ys)).mp hz) with rfl | hz
      · exact strLt_asymm hyx
      · exact h.1 z hz
    · rename_i hyx
      have hyx' : strLt y x = false := by simpa using hyx
      rw [List.pairwise_cons]
      refine ⟨?_, List.pairwise_cons.mpr h⟩
      intro z hz
      rcases List.mem_cons.mp hz with rfl | hz
      · exact hyx'
      · -- x ≤ y ≤ z
        have hyz := h.1 z hz
        unfold strLe at hyz ⊢
        cases hzx : strLt z x with
        | false => rfl
        | true =>
          rcases strLt_negtrans (y := y) hzx with h1 | h1
          · rw [hyx'] at h1; cases h1
          · rw [hyz] at h1; cases h1

theorem sortStrs_sorted (l : List Str) : (sortStrs l).Pairwise strLe := by
  unfold sortStrs
  induction l with
  | nil => simp
  | cons x xs ih => simp only [List.foldr_cons]; exact insertSorted_sorted x _ ih

/-! ### `",".join` and `split(",")` -/

theorem splitOn1_append_sep (a : Str) (h : ',' ∉ a) (rest : Str) :
    splitOn1 ',' (a ++ ',' :: rest) = a :: splitOn1 ',' rest := by
  induction a with
  | nil => simp [splitOn1]
  | cons c cs ih =>
    simp only [List.mem_cons, not_or] at h
    have hc : (c == ',') = false := by
      have : c ≠ ',' := fun e => h.1 e.symm
      simpa using this
    simp only [List.cons_append, splitOn1, hc, Bool.false_eq_true, if_false]
    rw [ih h.2]

theorem splitOn1_nosep (a : Str) (h : ',' ∉ a) : splitOn1 ',' a = [a] := by
  induction a with
  | nil => simp [splitOn1]
  | cons c cs ih =>
    simp only [List.mem_cons, not_or] at h
    have hc : (c == ',') = false := by
      have : c ≠ ',' := fun e => h.1 e.symm
      simpa using this
    simp only [splitOn1, hc, Bool.false_eq_true, if_false]
    rw [ih h.2]

/-- `",".join(names).split(",")` gives the names back (names without a comma, at least one) -/
theorem split_joinComma (l : List Str) (hne : l ≠ []) (h : ∀ a ∈ l, ',' ∉ a) :
    splitOn1 ',' (joinComma l) = l := by
  induction l with
  | nil => exact absurd rfl hne
  | cons x xs ih =>
    cases xs with
    | nil => simp only [joinComma]; exact splitOn1_nosep x (h x (by simp))
    | cons y ys =>
      simp only [joinComma]
      rw [splitOn1_append_sep x (h x (by simp))]
      rw [ih (by simp) (fun a ha => h a (by simp [ha]))]

/-! ### method tables over histories -/

/-- keys of every method table are pairwise different and every entry carries its key -/
def MethInv (R : Router) : Prop :=
  ∀ id r, R.obj? id = some r → (r.methods.map (·.1)).Nodup ∧ ∀ n rm, (n, rm) ∈ r.methods → rm.name = n

theorem Route.setMethods_inv (r : Route) (ms : List Str) (h : Nat) (ps : List Str)
    (hr : (r.methods.map (·.1)).Nodup ∧ ∀ n rm, (n, rm) ∈ r.methods → rm.name = n) :
    ((r.setMethods ms h ps).methods.map (·.1)).Nodup ∧
      ∀ n rm, (n, rm) ∈ (r.setMethods ms h ps).methods → rm.name = n := by
  unfold Route.setMethods
  induction ms generalizing r with
  | nil => exact hr
  | cons m ms ih =>
    simp only [List.foldl_cons]
    apply ih
    refine ⟨dictSet_keys_nodup _ _ _ hr.1, ?_⟩
    intro n rm hm
    rcases (mem_dictSet _ _ _ _ _).mp hm with ⟨rfl, rfl⟩ | ⟨_, hm⟩
    · rfl
    · exact hr.2 n rm hm

theorem dictPop_sublist {β} (d : List (Str × β)) (k : Str) : (dictPop d k).Sublist d := by
  unfold dictPop; exact List.filter_sublist

theorem Route.removeMethod_inv (r : Route) (ms : List Str)
    (hr : (r.methods.map (·.1)).Nodup ∧ ∀ n rm, (n, rm) ∈ r.methods → rm.name = n) :
    ((r.removeMethod ms).methods.map (·.1)).Nodup ∧
      ∀ n rm, (n, rm) ∈ (r.removeMethod ms).methods → rm.name = n := by
  have hsub : ((r.removeMethod ms).methods).Sublist r.methods := by
    unfold Route.removeMethod
    simp only
    generalize r.methods = d
    induction ms generalizing d with
    | nil => exact List.Sublist.refl _
    | cons m ms ih => simp only [List.foldl_cons]; exact (ih _).trans (dictPop_sublist d m)
  exact ⟨(hsub.map _).nodup hr.1, fun n rm hm => hr.2 n rm (hsub.subset hm)⟩

theorem MethInv.setObj {R : Router} (h : MethInv R) (id : Nat) (r' : Route)
    (hr' : (r'.methods.map (·.1)).Nodup ∧ ∀ n rm, (n, rm) ∈ r'.methods → rm.name = n) :
    MethInv (R.setObj id r') := by
  intro j rj hj
  rw [obj?_setObj] at hj
  split at hj
  · cases ho : R.obj? j with
    | none => rw [ho] at hj; cases hj
    | some r0 => rw [ho] at hj; simp only [Option.map_some, Option.some.injEq] at hj; subst hj; exact hr'
  · exact h j rj hj

theorem MethInv.step {R : Router} (h : MethInv R) (upper : Str → Str) (op : Op) :
    MethInv (R.step upper op) := by
  cases op with
  | removeMethod id ms =>
    simp only [Router.step, Router.removeMethod]
    cases hr : R.obj? id with
    | none => exact h
    | some r => exact h.setObj id _ (Route.removeMethod_inv r ms (h id r hr))
  | add cenv a =>
    simp only [Router.step, Router.add]
    cases hp : parseRule cenv a.rule with
    | error e => exact h
    | ok p =>
      simp only [Router.addParsed]
      split
      · exact h
      · cases hf : R.findOrInsert a.rule p with
        | mk R1 out =>
          have h1 : MethInv R1 := by
            intro j rj hj
            rcases findOrInsert_objs R a.rule p j rj (by rw [hf]; exact hj) with hold | ⟨hnil, _⟩
            · exact h j rj hold
            · rw [hnil]; simp
          cases out with
          | error e => exact h1
          | ok id =>
            simp only
            unfold Router.register
            cases hroute : R1.obj? id with
            | none => exact h1
            | some route =>
              simp only
              have hreg : ∀ R2 : Router, MethInv R2 → MethInv (R2.registerName a id).1 := by
                intro R2 h2 j rj hj
                rw [obj?_of_objs_eq (registerName_objs _ _ _)] at hj
                exact h2 j rj hj
              split
              · exact hreg _ (h1.setObj id _ (Route.setMethods_inv route _ _ _ (h1 id route hroute)))
              · cases ha : route.addMethod (List.map upper a.methods) a.handler p.params with
                | error e => exact h1
                | ok route' =>
                  simp only
                  have hsm : route' = route.setMethods (List.map upper a.methods) a.handler p.params := by
                    unfold Route.addMethod at ha
                    split at ha
                    · cases ha
                    · simp only [pure, Except.pure, Except.ok.injEq] at ha; exact ha.symm
                  rw [hsm]
                  exact hreg _ (h1.setObj id _ (Route.setMethods_inv route _ _ _ (h1 id route hroute)))

theorem run_methInv (upper : Str → Str) (ops : List Op) : MethInv (Router.run upper ops) := by
  unfold Router.run
  have : ∀ R, MethInv R → MethInv (ops.foldl (Router.step upper) R) := by
    induction ops with
    | nil => exact fun R h => h
    | cons op ops ih => exact fun R h => ih _ (h.step upper op)
  exact this {} (by intro id r hr; simp [Router.obj?] at hr)

/-! ### the generated candidate lists -/

/-- what `Ombott.to_route` passes to the router, read off the generated table: the verb, `GET`
after it for `HEAD`, then `ANY` -/
theorem candidates_eq (verb : Str) :
    candidates verb =
      if verb = "HEAD".toList then [verb, "GET".toList, "ANY".toList] else [verb, "ANY".toList] := by
  unfold candidates
  simp only [Gen.candSpecial, Gen.candDefault, List.find?]
  by_cases h1 : verb = ['H', 'E', 'A', 'D']
  · subst h1; rfl
  · by_cases h2 : verb = ['A', 'N', 'Y']
    · subst h2; rfl
    · have e1 : (['H', 'E', 'A', 'D'] == verb) = false := by
        simpa using fun e => h1 e.symm
      have e2 : (['A', 'N', 'Y'] == verb) = false := by
        simpa using fun e => h2 e.symm
      simp [h1, e1, e2]

end Ombott.Router
