import OmbottModel.Model.RespHelp
import OmbottModel.Lemmas.Headers
/-! Helper lemmas for the `resphelp` section of `Props/C14.lean`: the thread-indexed `HeaderDict`
(`tsGet/tsSet`), the cleanliness invariant under every guarded operation, `WSGIFileWrapper`'s loop,
`_closeiter.close`. -/
deriving instance DecidableEq for Except

namespace Ombott.RespHelp
open Py Ombott.Headers

instance instDecEqStore : DecidableEq Store := fun a b => instDecidableEqList a b
instance instDecEqHD : DecidableEq HD := fun a b => instDecidableEqList a b
instance instDecEqHDs : DecidableEq (List HD) := fun a b => instDecidableEqList a b

/-- a dict that is a proper, clean store -/
def Good (d : Store) : Prop := StoreClean d ∧ KeysNodup d

/-- every thread's dict of a `HeaderDict` object is a proper, clean store -/
def HDClean (h : HD) : Prop := ∀ p ∈ h, Good p.2

/-- the operations through which a value can enter unguarded -/
def HOp.unguarded : HOp → Bool
  | .update _ => true
  | .setDict _ => true
  | _ => false

theorem good_nil : Good [] := ⟨nil_clean, nil_nodup⟩

theorem tsGet_ok {h : HD} {t : Tid} {d : Store} (hg : tsGet h t = .ok d) : ∃ p ∈ h, p.1 = t ∧ p.2 = d := by
  unfold tsGet at hg
  cases hf : h.find? (·.1 == t) with
  | none => rw [hf] at hg; cases hg
  | some p =>
    rw [hf] at hg
    simp only [Except.ok.injEq] at hg
    have h1 := List.find?_some hf
    exact ⟨p, List.mem_of_find?_eq_some hf, by simpa using h1, hg⟩

theorem tsGet_good {h : HD} {t : Tid} {d : Store} (hc : HDClean h) (hg : tsGet h t = .ok d) : Good d := by
  obtain ⟨p, hp, _, rfl⟩ := tsGet_ok hg
  exact hc p hp

theorem tsSet_clean {h : HD} (hc : HDClean h) (t : Tid) {d : Store} (hd : Good d) : HDClean (tsSet h t d) := by
  induction h with
  | nil =>
    intro p hp
    simp only [tsSet, List.mem_singleton] at hp
    subst hp; exact hd
  | cons x r ih =>
    obtain ⟨t', d'⟩ := x
    intro p hp
    simp only [tsSet] at hp
    split at hp
    · rcases List.mem_cons.mp hp with rfl | hp
      · exact hd
      · exact hc p (List.mem_cons_of_mem _ hp)
    · rcases List.mem_cons.mp hp with rfl | hp
      · exact hc _ List.mem_cons_self
      · exact ih (fun q hq => hc q (List.mem_cons_of_mem _ hq)) p hp

theorem tsGet_tsSet_self (h : HD) (t : Tid) (d : Store) : tsGet (tsSet h t d) t = .ok d := by
  induction h with
  | nil => simp [tsSet, tsGet]
  | cons x r ih =>
    obtain ⟨t', d'⟩ := x
    simp only [tsSet]
    split
    · simp [tsGet]
    · rename_i hne
      unfold tsGet at ih ⊢
      simp only [List.find?_cons, hne]
      exact ih

theorem tsGet_tsSet_other (h : HD) (t t2 : Tid) (d : Store) (hne : t2 ≠ t) :
    tsGet (tsSet h t d) t2 = tsGet h t2 := by
  induction h with
  | nil =>
    have : (t == t2) = false := by simpa using fun h => hne h.symm
    simp [tsSet, tsGet, this]
  | cons x r ih =>
    obtain ⟨t', d'⟩ := x
    simp only [tsSet]
    split
    · rename_i heq
      have h1 : t' = t := by simpa using heq
      subst h1
      have : (t' == t2) = false := by simpa using fun h => hne h.symm
      simp [tsGet, List.find?_cons, this]
    · unfold tsGet at ih ⊢
      simp only [List.find?_cons]
      cases (t' == t2)
      · exact ih
      · rfl

theorem good_dropLast {d : Store} (hd : Good d) : Good d.dropLast := by
  constructor
  · intro e he; exact hd.1 e (List.dropLast_subset d he)
  · unfold KeysNodup
    exact ((List.dropLast_sublist d).map _).nodup hd.2

theorem good_ddel {d : Store} (hd : Good d) (k : Str) : Good (ddel d k) := ⟨ddel_clean hd.1 k, ddel_nodup hd.2 k⟩

theorem good_foldl_ddel {d : Store} (hd : Good d) (ks : List Str) : Good (ks.foldl ddel d) :=
  ⟨foldl_ddel_clean ks hd.1, foldl_ddel_nodup ks hd.2⟩

/-- one guarded operation keeps the invariant, on the object and on the object it creates -/
theorem stepH_clean (h : HD) (t : Tid) (fresh : Nat) (op : HOp) (hg : op.unguarded = false) (hc : HDClean h) :
    HDClean (stepH h t fresh op).1 ∧ ∀ c, (stepH h t fresh op).2.1 = some c → HDClean c := by
  have base : HDClean h ∧ ∀ c, (Option.none : Option HD) = some c → HDClean c := ⟨hc, fun _ hx => by cases hx⟩
  cases op with
  | update _ => cases hg
  | setDict _ => cases hg
  | len => exact base
  | iter => exact base
  | contains k => exact base
  | getitem k => exact base
  | keys => exact base
  | values => exact base
  | items => exact base
  | get k => exact base
  | repr => exact base
  | getDict => exact base
  | propGet i rd => simp only [stepH]; split <;> exact base
  | delitem k =>
    simp only [stepH]
    split
    · exact base
    · rename_i d hd
      split
      · exact ⟨tsSet_clean hc t (good_ddel (tsGet_good hc hd) k), fun _ hx => by cases hx⟩
      · exact base
  | setitem k v =>
    simp only [stepH]
    split
    · exact base
    · split
      · exact base
      · rename_i d hd
        split
        · rename_i d' hs
          have := setitem_inv hs (tsGet_good hc hd).1 (tsGet_good hc hd).2
          exact ⟨tsSet_clean hc t this, fun _ hx => by cases hx⟩
        · exact base
  | append k v =>
    simp only [stepH]
    split
    · exact base
    · rename_i d hd
      split
      · rename_i d' hs
        have := append_inv hs (tsGet_good hc hd).1 (tsGet_good hc hd).2
        exact ⟨tsSet_clean hc t this, fun _ hx => by cases hx⟩
      · exact base
  | setdefault k v =>
    simp only [stepH]
    split
    · exact base
    · rename_i d hd
      split
      · rename_i d' hs
        have := setdefault_inv hs (tsGet_good hc hd).1 (tsGet_good hc hd).2
        exact ⟨tsSet_clean hc t this, fun _ hx => by cases hx⟩
      · exact base
  | pop k dflt =>
    simp only [stepH]
    split
    · exact base
    · rename_i d hd
      split
      · exact ⟨tsSet_clean hc t (good_ddel (tsGet_good hc hd) k), fun _ hx => by cases hx⟩
      · exact base
  | popitem =>
    simp only [stepH]
    split
    · exact base
    · rename_i d hd
      split
      · exact ⟨tsSet_clean hc t (good_dropLast (tsGet_good hc hd)), fun _ hx => by cases hx⟩
      · exact base
  | copy =>
    simp only [stepH]
    split
    · exact base
    · rename_i d hd
      refine ⟨hc, fun c hx => ?_⟩
      simp only [Option.some.injEq] at hx
      subst hx
      apply tsSet_clean _ t (tsGet_good hc hd)
      intro p hp
      simp only [hdNew, List.mem_singleton] at hp
      subst hp; exact good_nil
  | clear ks =>
    simp only [stepH]
    split
    · exact base
    · rename_i d hd
      split
      · exact ⟨tsSet_clean hc t good_nil, fun _ hx => by cases hx⟩
      · exact ⟨tsSet_clean hc t (good_foldl_ddel (tsGet_good hc hd) ks), fun _ hx => by cases hx⟩
  | propSet i v fmt =>
    simp only [stepH]
    split
    · exact base
    · split
      · exact base
      · split
        · exact base
        · split
          · exact base
          · rename_i d hd
            split
            · rename_i d' hs
              have := setitem_inv hs (tsGet_good hc hd).1 (tsGet_good hc hd).2
              exact ⟨tsSet_clean hc t this, fun _ hx => by cases hx⟩
            · exact base
  | propDel i =>
    simp only [stepH]
    split
    · exact base
    · split
      · exact base
      · rename_i d hd
        split
        · exact ⟨tsSet_clean hc t (good_ddel (tsGet_good hc hd) _), fun _ hx => by cases hx⟩
        · exact base

/-- a whole program of guarded calls keeps every object clean -/
theorem runH_clean (calls : List (Nat × Tid × HOp)) (objs objs' : List HD) (rs : List (Except Err Res))
    (hg : ∀ c ∈ calls, c.2.2.unguarded = false) (hc : ∀ h ∈ objs, HDClean h)
    (hr : runH objs calls = some (objs', rs)) : ∀ h ∈ objs', HDClean h := by
  induction calls generalizing objs objs' rs with
  | nil =>
    simp only [runH, Option.some.injEq, Prod.mk.injEq] at hr
    obtain ⟨rfl, _⟩ := hr; exact hc
  | cons c rest ih =>
    obtain ⟨i, t, op⟩ := c
    simp only [runH] at hr
    split at hr
    · cases hr
    · rename_i h hi
      have hh : HDClean h := hc h (List.mem_of_getElem? hi)
      have hs := stepH_clean h t objs.length op (hg _ List.mem_cons_self) hh
      generalize stepH h t objs.length op = st at hr hs
      obtain ⟨h', created, res⟩ := st
      simp only at hr hs
      split at hr
      · rename_i o rs' hrun
        simp only [Option.some.injEq, Prod.mk.injEq] at hr
        obtain ⟨rfl, _⟩ := hr
        refine ih _ _ _ (fun c hc' => hg c (List.mem_cons_of_mem _ hc')) ?_ hrun
        intro x hx
        rcases List.mem_append.mp hx with hx | hx
        · rcases List.mem_or_eq_of_mem_set hx with hx | rfl
          · exact hc x hx
          · exact hs.1
        · cases created with
          | none => cases hx
          | some c =>
            simp only [Option.toList, List.mem_singleton] at hx
            subst hx; exact hs.2 _ rfl
      · cases hr

/-! ### WSGIFileWrapper -/

theorem fwLoop_spec (fuel : Nat) (s : Stream) (buff : Nat) (hb : 0 < buff) (hf : s.data.length < fuel) :
    (fwLoop fuel s buff).flatten = s.data ∧ ∀ p ∈ fwLoop fuel s buff, p ≠ [] ∧ p.length ≤ buff := by
  induction fuel generalizing s with
  | zero => omega
  | succ n ih =>
    simp only [fwLoop]
    have happ := Stream.read_append s buff
    have hle := Stream.read_length_le s buff
    have hnil := Stream.read_nil_iff s buff hb
    generalize s.read buff = rd at happ hle hnil
    obtain ⟨part, s'⟩ := rd
    simp only at happ hle hnil ⊢
    split
    · rename_i he
      have : part = [] := by simpa using he
      exact ⟨by simp [(hnil.mp this)], fun p hp => by cases hp⟩
    · rename_i he
      have hne : part ≠ [] := by simpa using he
      have hlen : s'.data.length < n := by
        have : s.data.length = part.length + s'.data.length := by rw [← happ]; simp
        have : 0 < part.length := List.length_pos_iff.mpr hne
        omega
      obtain ⟨h1, h2⟩ := ih s' hlen
      refine ⟨by simp [h1, happ], fun p hp => ?_⟩
      rcases List.mem_cons.mp hp with rfl | hp
      · exact ⟨hne, hle⟩
      · exact h2 p hp

/-! ### _closeiter -/

theorem closeiterClose_all_ok (cbs : List Cb) (h : ∀ cb ∈ cbs, cb.raises = false) :
    closeiterClose (cbs.map some) = (cbs.map fun cb => cb.id, Option.none) := by
  induction cbs with
  | nil => rfl
  | cons cb r ih =>
    have h1 := h cb List.mem_cons_self
    simp only [List.map_cons, closeiterClose, h1, Bool.false_eq_true, if_false]
    rw [ih (fun c hc => h c (List.mem_cons_of_mem _ hc))]

end Ombott.RespHelp
