import OmbottModel.Lemmas.RouterEditFreshStep
/-!
C11, helper lemmas (11): `Router.fresh` reproduces the three maps.  The three folds of
`Router.fresh` (routes with their method tables, names, hook pairs) are followed with the step
lemmas of `RouterEditFreshStep.lean`; the result is `fresh_maps`: the edited router and the one
rebuilt from its survivors hold the same `routes` and `named_routes` maps, and the same `hooks`
map at every pattern that is not at or below a removed `prefix*`.
-/
namespace Ombott.Router
open Py

section Folds
variable {R : Router} {T : Str → Prop}

/-! ### stage 1: the routes -/

theorem routes_fold (hE : EInv R T) (hI : FInv R) :
    ∀ (l : List (Str × Nat)) (F : Router), (∀ x ∈ l, x ∈ R.routes) → (l.map (·.1)).Nodup → FB R F →
      (∀ x ∈ l, F.routeAt x.1 = none) →
      FB R (l.foldl (fun F x => match R.obj? x.2 with | some r => F.plant r | none => F) F) ∧
      (l.foldl (fun F x => match R.obj? x.2 with | some r => F.plant r | none => F) F).named = F.named ∧
      (l.foldl (fun F x => match R.obj? x.2 with | some r => F.plant r | none => F) F).hookIdx = F.hookIdx ∧
      ∀ ps, (l.foldl (fun F x => match R.obj? x.2 with | some r => F.plant r | none => F) F).routeAt ps =
        if ps ∈ l.map (·.1) then R.routeAt ps else F.routeAt ps := by
  intro l
  induction l with
  | nil => intro F _ _ hF _; exact ⟨hF, rfl, rfl, fun ps => by simp⟩
  | cons x l ih =>
    intro F hsub hnd hF hnone
    obtain ⟨ps0, id⟩ := x
    have hx : (ps0, id) ∈ R.routes := hsub _ (by simp)
    obtain ⟨r, hr, hps⟩ := hE.inv.keys ps0 id hx
    have he : (⟨r.syms, id, r.params⟩ : Rule) ∈ denote R.tree :=
      (hE.inv.den _).mpr ((mem_rules R _).mpr ⟨ps0, id, r, hx, hr, rfl⟩)
    have hp : PatOf R r.syms := PatOf.of_route he
    have hnew : F.routeAt (patStr r.syms) = none := by rw [← hps]; exact hnone (ps0, id) (by simp)
    obtain ⟨t, ht, heq⟩ := plant_eq hE.inv.wf hF r hp (hI.slashR _ he) (hI.meth r (List.mem_of_getElem? hr)) hnew
    have hE1 : EInv (F.plant r) (fun _ => False) := hF.einv.plant r (hE.inv.notok _ he) (hE.nostar _ he)
    have htree : (F.plant r).tree = t := by rw [heq]
    have hF1 : FB R (F.plant r) := FB.of_treeAdd hF hE1 r.syms _ _ hp (by rw [htree]; exact ht)
    have hnamed : (F.plant r).named = F.named := by rw [heq]
    have hhook : (F.plant r).hookIdx = F.hookIdx := by rw [heq]
    have hroute : ∀ ps, (F.plant r).routeAt ps = if ps = ps0 then some r.view else F.routeAt ps := by
      intro ps; rw [heq, hps]; exact routeAt_plant hF.einv.inv t r hnew ps
    simp only [List.map_cons, List.nodup_cons] at hnd
    have hnone1 : ∀ y ∈ l, (F.plant r).routeAt y.1 = none := by
      intro y hy
      have hne : y.1 ≠ ps0 := fun hEq => hnd.1 (List.mem_map.mpr ⟨y, hy, hEq⟩)
      rw [hroute, if_neg hne]
      exact hnone y (by simp [hy])
    obtain ⟨h1, h2, h3, h4⟩ := ih (F.plant r) (fun y hy => hsub y (by simp [hy])) hnd.2 hF1 hnone1
    simp only [List.foldl_cons, hr]
    refine ⟨h1, h2.trans hnamed, h3.trans hhook, fun ps => ?_⟩
    rw [h4 ps, hroute ps]
    by_cases hin : ps ∈ l.map (·.1)
    · simp [hin]
    · by_cases h0 : ps = ps0
      · subst h0
        simp [hin, routeAt_of_mem hE.inv hx hr]
      · simp [hin, h0]

/-! ### stage 2: the names -/

theorem names_fold (hE : EInv R T) (hI : FInv R) :
    ∀ (l : List (Str × Nat)) (F : Router), (∀ x ∈ l, x ∈ R.named) → (l.map (·.1)).Nodup → FB R F →
      (∀ ps, F.routeAt ps = R.routeAt ps) → (∀ x ∈ l, dictGet F.named x.1 = none) →
      FB R (l.foldl (fun F x => match R.obj? x.2 with
        | some r => (F.addParsed { rule := r.rule, methods := [], handler := 0, name := some x.1 }
            ⟨r.syms, r.params, r.symsOut⟩).1
        | none => F) F) ∧
      (l.foldl (fun F x => match R.obj? x.2 with
        | some r => (F.addParsed { rule := r.rule, methods := [], handler := 0, name := some x.1 }
            ⟨r.syms, r.params, r.symsOut⟩).1
        | none => F) F).hookIdx = F.hookIdx ∧
      (∀ ps, (l.foldl (fun F x => match R.obj? x.2 with
        | some r => (F.addParsed { rule := r.rule, methods := [], handler := 0, name := some x.1 }
            ⟨r.syms, r.params, r.symsOut⟩).1
        | none => F) F).routeAt ps = R.routeAt ps) ∧
      ∀ nm, (l.foldl (fun F x => match R.obj? x.2 with
        | some r => (F.addParsed { rule := r.rule, methods := [], handler := 0, name := some x.1 }
            ⟨r.syms, r.params, r.symsOut⟩).1
        | none => F) F).nameAt nm = if nm ∈ l.map (·.1) then R.nameAt nm else F.nameAt nm := by
  intro l
  induction l with
  | nil => intro F _ _ hF hro _; exact ⟨hF, rfl, hro, fun nm => by simp⟩
  | cons x l ih =>
    intro F hsub hnd hF hro hfree
    obtain ⟨nm0, id⟩ := x
    have hx : (nm0, id) ∈ R.named := hsub _ (by simp)
    obtain ⟨r, hr, hroute⟩ := hE.named nm0 id hx
    have he : (⟨r.syms, id, r.params⟩ : Rule) ∈ denote R.tree :=
      (hE.inv.den _).mpr ((mem_rules R _).mpr ⟨_, id, r, hroute, hr, rfl⟩)
    -- the route as `F` holds it
    have hv : F.routeAt (patStr r.syms) = some r.view := by
      rw [hro]; exact routeAt_of_mem hE.inv hroute hr
    obtain ⟨id', r', hin', hr', hview⟩ := mem_of_routeAt hv
    have hsyms : r'.syms = r.syms := congrArg RouteView.syms hview
    have hmatch : F.matchPat r.syms = some id' :=
      (matchPat_iff hF.einv.inv.wf r.syms id').mpr ⟨r'.params,
        (hF.einv.inv.den _).mpr ((mem_rules F _).mpr ⟨_, id', r', hin', hr', by rw [hsyms]⟩)⟩
    have hfree0 : dictGet F.named nm0 = none := hfree (nm0, id) (by simp)
    have heq := addParsed_name (F := F) { rule := r.rule, methods := [], handler := 0, name := some nm0 }
      ⟨r.syms, r.params, r.symsOut⟩ id' r' (hI.slashR _ he) hmatch hr' rfl nm0 rfl
      (hI.nameNe (nm0, id) hx) rfl hfree0
    have hE1 := hF.einv.addParsed { rule := r.rule, methods := [], handler := 0, name := some nm0 }
      ⟨r.syms, r.params, r.symsOut⟩ (hE.inv.notok _ he) (hE.nostar _ he)
    rw [heq] at hE1
    have hF1 : FB R ({ F with named := F.named ++ [(nm0, id')] } : Router) := hF.of_tree_eq hE1 rfl
    have hname : ∀ nm, ({ F with named := F.named ++ [(nm0, id')] } : Router).nameAt nm =
        if nm = nm0 then some r.view else F.nameAt nm := by
      intro nm
      unfold Router.nameAt
      simp only [dictGet_append_new _ _ _ _ (dictGet_none_keys hfree0)]
      split
      · show (F.obj? id').map Route.view = _
        rw [hr', Option.map_some, hview]
      · rfl
    simp only [List.map_cons, List.nodup_cons] at hnd
    have hfree1 : ∀ y ∈ l, dictGet ({ F with named := F.named ++ [(nm0, id')] } : Router).named y.1 = none := by
      intro y hy
      have hne : y.1 ≠ nm0 := fun hEq => hnd.1 (List.mem_map.mpr ⟨y, hy, hEq⟩)
      show dictGet (F.named ++ [(nm0, id')]) y.1 = none
      rw [dictGet_append_new _ _ _ _ (dictGet_none_keys hfree0), if_neg hne]
      exact hfree y (by simp [hy])
    obtain ⟨h1, h2, h3, h4⟩ := ih _ (fun y hy => hsub y (by simp [hy])) hnd.2 hF1 (fun ps => hro ps) hfree1
    simp only [List.foldl_cons, hr, heq]
    refine ⟨h1, h2, h3, fun nm => ?_⟩
    rw [h4 nm, hname nm]
    have hRn : R.nameAt nm0 = some r.view := by
      unfold Router.nameAt
      rw [dictGet_of_mem hE.nnodup hx]
      simp [hr]
    by_cases hin : nm ∈ l.map (·.1)
    · simp [hin]
    · by_cases h0 : nm = nm0
      · subst h0; simp [hin, hRn]
      · simp [hin, h0]

/-! ### stage 3: the hook pairs -/

/-- the `hooks` map of the router under construction lists exactly the pairs replayed so far -/
def HDone (F : Router) (done : List (List Sym × HookPair)) : Prop :=
  (∀ ps hp, F.hookAt ps = some hp → ∃ x ∈ done, patStr x.1 = ps ∧ x.2 = hp) ∧
  (∀ x ∈ done, F.hookAt (patStr x.1) = some x.2)

theorem hookList_rule (hx : x ∈ hookListN [] R.tree) : (⟨x.1, encPair x.2, []⟩ : Rule) ∈ hdenN encPair R.tree :=
  (mem_hookListN encPair R.tree _).mpr ⟨x, hx, rfl⟩

/-- one pattern string, one pair -/
theorem hookList_inj (hE : EInv R T) {x y : List Sym × HookPair} (hx : x ∈ hookListN [] R.tree)
    (hy : y ∈ hookListN [] R.tree) (hps : patStr x.1 = patStr y.1) : x = y := by
  have hinj := denN_patStrInj (hvN encPair R.tree) ((WFN_hvN encPair R.tree).mpr hE.inv.wf)
  rw [denN_hvN] at hinj
  have := hinj _ (hookList_rule hx) _ (hookList_rule hy) (hE.hnotok encPair _ (hookList_rule hx))
    (hE.hnotok encPair _ (hookList_rule hy)) hps
  simp only [Rule.mk.injEq, and_true] at this
  exact Prod.ext this.1 (encPair_inj this.2)

theorem hooks_fold (hE : EInv R T) (hI : FInv R) :
    ∀ (l done : List (List Sym × HookPair)) (F : Router), (∀ x ∈ done ++ l, x ∈ hookListN [] R.tree) →
      FB R F → HDone F done →
      FB R (l.foldl (fun F x => F.plantHook x.1 x.2) F) ∧
      (∀ ps, (l.foldl (fun F x => F.plantHook x.1 x.2) F).routeAt ps = F.routeAt ps) ∧
      (∀ nm, (l.foldl (fun F x => F.plantHook x.1 x.2) F).nameAt nm = F.nameAt nm) ∧
      HDone (l.foldl (fun F x => F.plantHook x.1 x.2) F) (done ++ l) := by
  intro l
  induction l with
  | nil => intro done F _ hF hD; exact ⟨hF, fun _ => rfl, fun _ => rfl, by simpa using hD⟩
  | cons x l ih =>
    intro done F hsub hF hD
    have hx : x ∈ hookListN [] R.tree := hsub x (by simp)
    have hrule := hookList_rule hx
    have hgood := hI.slashH _ hrule
    have hne : x.2 ≠ ⟨none, none⟩ := fun hEq => hgood.2 (by rw [hEq])
    obtain ⟨hF1, hr1, hn1, hh1⟩ := plantHook_step hE.inv.wf hF x.1 (PatOf.of_hook hrule)
      (hE.hnotok encPair _ hrule) hgood.1 x.2
    -- the pair now listed at the pattern is the replayed one
    have hat : (F.plantHook x.1 x.2).hookAt (patStr x.1) = some x.2 := by
      rw [hh1, if_pos rfl]
      cases hold : F.hookAt (patStr x.1) with
      | none => exact install2_none x.2 hne
      | some hp0 =>
        obtain ⟨y, hy, hyp, hy2⟩ := hD.1 _ _ hold
        have := hookList_inj hE (hsub y (by simp [hy])) hx hyp
        rw [← hy2, this]
        exact install2_same x.2
    have hD1 : HDone (F.plantHook x.1 x.2) (done ++ [x]) := by
      constructor
      · intro ps hp hps
        by_cases h0 : ps = patStr x.1
        · subst h0
          rw [hat] at hps
          exact ⟨x, by simp, rfl, Option.some.inj hps⟩
        · rw [hh1, if_neg h0] at hps
          obtain ⟨y, hy, hy1, hy2⟩ := hD.1 ps hp hps
          exact ⟨y, by simp [hy], hy1, hy2⟩
      · intro y hy
        rcases List.mem_append.mp hy with hy | hy
        · by_cases h0 : patStr y.1 = patStr x.1
          · have := hookList_inj hE (hsub y (by simp [hy])) hx h0
            rw [this]; exact hat
          · rw [hh1, if_neg h0]; exact hD.2 y hy
        · simp only [List.mem_singleton] at hy
          rw [hy]; exact hat
    obtain ⟨h1, h2, h3, h4⟩ := ih (done ++ [x]) (F.plantHook x.1 x.2)
      (fun y hy => hsub y (by simpa [List.append_assoc] using hy)) hF1 hD1
    simp only [List.foldl_cons]
    refine ⟨h1, fun ps => (h2 ps).trans (hr1 ps), fun nm => (h3 nm).trans (hn1 nm), ?_⟩
    simpa [List.append_assoc] using h4

end Folds

/-! ### the router rebuilt from the survivors holds the same three maps -/

theorem dictGet_nil {β} (k : Str) : dictGet ([] : List (Str × β)) k = none := rfl

theorem dictGet_none_of_not_mem {β} {d : List (Str × β)} {k : Str} (h : k ∉ d.map (·.1)) : dictGet d k = none := by
  cases hg : dictGet d k with
  | none => rfl
  | some v => exact absurd (List.mem_map.mpr ⟨(k, v), dictGet_mem hg, rfl⟩) h

/-- stage 1 of `Router.fresh`: the routes with their method tables -/
def Router.fresh1 (R : Router) : Router :=
  R.routes.foldl (fun F x =>
    match R.obj? x.2 with
    | some r => F.plant r
    | none => F) {}

/-- stage 2 of `Router.fresh`: the names -/
def Router.fresh2 (R : Router) : Router :=
  R.named.foldl (fun F x =>
    match R.obj? x.2 with
    | some r => (F.addParsed { rule := r.rule, methods := [], handler := 0, name := some x.1 } ⟨r.syms, r.params, r.symsOut⟩).1
    | none => F) R.fresh1

theorem fresh_eq (R : Router) :
    R.fresh = (hookListN [] R.tree).foldl (fun F x => F.plantHook x.1 x.2) R.fresh2 := rfl

/-- **`Router.fresh` reproduces the maps.**  `R` is any router state an edit history reaches
(`EInv`, `FInv`).  Registering its routes with their method tables, its names and the hook pairs
of its tree one call at a time on an empty router gives a router with the same `routes` map and
the same `named_routes` map, and with the same pair in `hooks` at every pattern string outside
`T` (the patterns at or below a removed `prefix*`, where tree and index of `R` may differ). -/
theorem fresh_maps {R : Router} {T : Str → Prop} (hE : EInv R T) (hI : FInv R) :
    (∀ ps, R.routeAt ps = R.fresh.routeAt ps) ∧ (∀ nm, R.nameAt nm = R.fresh.nameAt nm) ∧
    (∀ ps, ¬ T ps → R.hookAt ps = R.fresh.hookAt ps) := by
  -- stage 1
  obtain ⟨a1, a2, a3, a4⟩ := routes_fold hE hI R.routes {} (fun _ hx => hx) hE.inv.nodup (FB.init R)
    (fun _ _ => rfl)
  change FB R R.fresh1 at a1
  change R.fresh1.named = [] at a2
  change R.fresh1.hookIdx = [] at a3
  change ∀ ps, R.fresh1.routeAt ps = if ps ∈ R.routes.map (·.1) then R.routeAt ps else none at a4
  have a5 : ∀ ps, R.fresh1.routeAt ps = R.routeAt ps := by
    intro ps
    rw [a4 ps]
    split
    · rfl
    · rename_i hin
      unfold Router.routeAt
      rw [dictGet_none_of_not_mem hin]; rfl
  have a6 : ∀ nm, R.fresh1.nameAt nm = none := by
    intro nm
    unfold Router.nameAt
    rw [a2]; rfl
  -- stage 2
  obtain ⟨b1, b2, b3, b4⟩ := names_fold hE hI R.named R.fresh1 (fun _ hx => hx) hE.nnodup a1 a5
    (fun x _ => by rw [a2]; rfl)
  change FB R R.fresh2 at b1
  change R.fresh2.hookIdx = R.fresh1.hookIdx at b2
  change ∀ ps, R.fresh2.routeAt ps = R.routeAt ps at b3
  change ∀ nm, R.fresh2.nameAt nm = if nm ∈ R.named.map (·.1) then R.nameAt nm else R.fresh1.nameAt nm at b4
  have b5 : ∀ nm, R.fresh2.nameAt nm = R.nameAt nm := by
    intro nm
    rw [b4 nm]
    split
    · rfl
    · rename_i hin
      rw [a6]
      unfold Router.nameAt
      rw [dictGet_none_of_not_mem hin]; rfl
  have b6 : HDone R.fresh2 [] := by
    refine ⟨fun ps hp h => ?_, fun _ hx => (by cases hx)⟩
    unfold Router.hookAt at h
    rw [b2, a3] at h
    cases h
  -- stage 3
  obtain ⟨c1, c2, c3, c4⟩ := hooks_fold hE hI (hookListN [] R.tree) [] R.fresh2
    (fun _ hx => by simpa using hx) b1 b6
  rw [← fresh_eq] at c1 c2 c3 c4
  simp only [List.nil_append] at c4
  refine ⟨fun ps => ((c2 ps).trans (b3 ps)).symm, fun nm => ((c3 nm).trans (b5 nm)).symm, fun ps hT => ?_⟩
  cases hR : R.hookAt ps with
  | some hp =>
    obtain ⟨q, hq, he⟩ := hE.hidx encPair ps hp (dictGet_mem hR) hT
    obtain ⟨x, hx, hxe⟩ := (mem_hookListN encPair R.tree _).mp he
    simp only [Rule.mk.injEq, and_true] at hxe
    have := c4.2 x hx
    rw [← hxe.1, hq, ← encPair_inj hxe.2] at this
    exact this.symm
  | none =>
    cases hF : R.fresh.hookAt ps with
    | none => rfl
    | some hp =>
      exfalso
      obtain ⟨x, hx, hx1, _⟩ := c4.1 ps hp hF
      have he := hookList_rule (R := R) hx
      obtain ⟨hp', hmem, _⟩ := hE.htree encPair _ he (by simpa [hx1] using hT)
      simp only [hx1] at hmem
      have := dictGet_of_mem hE.hnodup hmem
      unfold Router.hookAt at hR
      rw [hR] at this; cases this

/-! ### answers of two states with the same maps, hooks compared where both are specified -/

theorem specHooks_congr (env : FilterEnv) {H H' : List Sym → Option HookPair} (pat : List Sym) (path : Str)
    (h : ∀ q, q <+: pat → H q = H' q) : specHooks env H pat path = specHooks env H' pat path := by
  unfold specHooks
  rw [h [] (List.nil_prefix)]
  congr 1
  apply specHooksFrom_congr
  intro q hq _
  simpa using h q hq

/-- `answers_of_same_survivors` with the `hooks` maps compared only at the patterns specified on
both sides -/
theorem answers_of_same_maps {R F : Router} {T T' : Str → Prop} (hR : EInv R T) (hF : EInv F T')
    (hroutes : ∀ ps, R.routeAt ps = F.routeAt ps) (hnames : ∀ nm, R.nameAt nm = F.nameAt nm)
    (hhooks : ∀ ps, ¬ T ps → ¬ T' ps → R.hookAt ps = F.hookAt ps) (env : FilterEnv) (hns : NoSel env) :
    (∀ path ms, (R.resolve env path ms).answer = (F.resolve env path ms).answer) ∧
    (∀ path ms rule vs, specResolve env R.rules (stripSlash path) = some (rule, vs) →
      (∀ q, q <+: rule.pat → ¬ T (patStr q) ∧ ¬ T' (patStr q)) →
      (R.resolve env path ms).hooks = (F.resolve env path ms).hooks) ∧
    (∀ nm, ((R.byName nm).bind R.obj?).map Route.view = ((F.byName nm).bind F.obj?).map Route.view) ∧
    (∀ cenv rule, (R.byRule cenv rule).map (fun o => (o.bind R.obj?).map Route.view) =
      (F.byRule cenv rule).map (fun o => (o.bind F.obj?).map Route.view)) := by
  refine ⟨fun path ms => (answer_of_same_routes hR.inv hF.inv hroutes env hns path ms).1, ?_, hnames, ?_⟩
  · intro path ms rule vs hsr hT
    rcases (answer_of_same_routes hR.inv hF.inv hroutes env hns path ms).2 rule vs hsr with
      ⟨h1, h2⟩ | ⟨rule', _, hpat, h1, h2⟩
    · rw [h1, h2]
    · have hmem : rule ∈ denote R.tree := (hR.inv.den _).mpr (specResolve_mem hsr).1
      have hnt := hR.inv.notok rule hmem
      rw [h1, h2, specHooks_index hR env rule.pat hnt (fun q hq => (hT q hq).1),
        specHooks_index hF env rule.pat hnt (fun q hq => (hT q hq).2)]
      exact specHooks_congr env rule.pat _ (fun q hq => hhooks (patStr q) (hT q hq).1 (hT q hq).2)
  · intro cenv rule
    unfold Router.byRule
    cases parseRule cenv rule with
    | error e => rfl
    | ok p =>
      simp only
      split
      · rfl
      · simp only [Except.map]
        rw [matchPat_view hR.inv, matchPat_view hF.inv, hroutes]

end Ombott.Router
