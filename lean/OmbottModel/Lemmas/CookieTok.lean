import OmbottModel.Lemmas.Regex
import OmbottModel.Lemmas.Cookies
/-! The `http.cookies` tokeniser of the model (`parseCookies`, i.e. `_CookiePattern` run by the
backtracking matcher) meets the contract `TokContract` the C15 round-trip theorems assume: a
header holding one pair `name=<what _quote printed>` is read as that one cookie. -/
namespace Ombott.Cookies
open Py Py.Regex

def wsR : Re := .star (.cls isSpaceC) true
def bodyAtom : Re := .alt (.cls fun c => c != '\\' && c != '"') (.seq (chr '\\') (.cls (· != '\n')))
def quotedR : Re := seqs [chr '"', .star bodyAtom true, chr '"']
def expiresR : Re := seqs [.rep (.cls isWord) 3 3, chr ',', .cls isSpaceC,
    .rep (.cls fun c => isWord c || isSpaceC c || c == '-') 9 11, .cls isSpaceC,
    .rep (.cls fun c => isDigitC c || c == ':') 8 8, .cls isSpaceC, lit "GMT"]
def wordR : Re := .star (.cls isValChar) true
def valR : Re := .alt quotedR (.alt expiresR wordR)
def keyR : Re := .grp 0 (plus (.cls isKeyChar) false)
def groupR : Re := opt (seqs [wsR, chr '=', wsR, .grp 1 valR])
def tailR : Re := .alt (plus (.cls isSpaceC)) (.alt (chr ';') .eos)

theorem cookiePattern_eq : cookiePattern = seqs [wsR, keyR, groupR, wsR, tailR] := rfl

variable {R : Type}

/-- greedy white space before a character that is not white space (or the end) matches nothing -/
theorem ws_none (g : Nat) (s : List Char) (c : Caps) (k : List Char → Caps → Option R)
    (hs : s = [] ∨ ∃ y t, s = y :: t ∧ isSpaceC y = false) : m (g + 1) wsR s c k = k s c := by
  unfold wsR
  rw [m_star_greedy]
  rcases hs with rfl | ⟨y, t, rfl, hy⟩
  · rw [m_cls_nil, orElse'_none]
  · rw [m_cls_neg _ _ y t _ _ hy, orElse'_none]

theorem tail_nil (g : Nat) (c : Caps) (k : List Char → Caps → Option R) :
    m (g + 6) (.seq wsR tailR) [] c k = k [] c := by
  rw [m_seq, ws_none _ _ _ _ (Or.inl rfl)]
  unfold tailR plus chr
  rw [m_alt, m_seq, m_cls_nil, orElse'_none, m_alt, m_cls_nil, orElse'_none, m_eos_nil]

theorem exact_single (x : Char) (h : (x != '\\' && x != '"') = true) : Exact bodyAtom [x] 3 := by
  refine ⟨by simp, ?_⟩
  intro R g t c k hg
  obtain ⟨g', rfl⟩ : ∃ g', g = g' + 3 := ⟨g - 3, by omega⟩
  have hx : x ≠ '\\' := by
    simp only [Bool.and_eq_true, bne_iff_ne, ne_eq] at h; exact h.1
  unfold bodyAtom chr
  rw [List.singleton_append, m_alt, m_cls_pos _ _ x t c k h, m_seq,
    m_cls_neg _ _ x t _ _ (by simpa using hx)]
  cases k t c <;> rfl

theorem exact_pair (y : Char) (h : y ≠ '\n') : Exact bodyAtom ['\\', y] 3 := by
  refine ⟨by simp, ?_⟩
  intro R g t c k hg
  obtain ⟨g', rfl⟩ : ∃ g', g = g' + 3 := ⟨g - 3, by omega⟩
  unfold bodyAtom chr
  show m (g' + 3) _ ('\\' :: y :: t) c k = k t c
  rw [m_alt, m_cls_neg _ (fun c => c != '\\' && c != '"') '\\' _ _ _ (by decide), orElse'_none, m_seq,
    m_cls_pos _ (fun x => x == '\\') '\\' _ _ _ (by decide),
    m_cls_pos _ (fun x => x != '\n') y t c k (by simpa using h)]

/-- the units (one iteration of the quoted-string loop each) `str.translate` produces for a character -/
def unitsOf (c : Char) : List (List Char) :=
  if c == '"' then [['\\', '"']]
  else if c == '\\' then [['\\', '\\']]
  else if unescapedChars.contains c then [[c]]
  else if c.toNat < 256 then
    [['\\', octDigit (c.toNat / 64)], [octDigit (c.toNat / 8 % 8)], [octDigit (c.toNat % 8)]]
  else [[c]]

theorem unitsOf_flatten (c : Char) : (unitsOf c).flatten = translateChar c := by
  unfold unitsOf translateChar
  split
  · rfl
  · split
    · rfl
    · split
      · rfl
      · split <;> rfl

theorem octDigit_ok (k : Nat) (hk : k ≤ 7) :
    octDigit k ≠ '\n' ∧ (octDigit k != '\\' && octDigit k != '"') = true := by
  have h := octDigit_toNat k hk
  have ne : ∀ (d : Char), d.toNat < 48 ∨ 55 < d.toNat → octDigit k ≠ d := by
    intro d hd he; rw [he] at h; omega
  refine ⟨ne _ (by decide), ?_⟩
  simp only [Bool.and_eq_true, bne_iff_ne, ne_eq]
  exact ⟨ne _ (by decide), ne _ (by decide)⟩

theorem unescaped_not_special : unescapedChars.all (fun c => c != '\\' && c != '"') = true := by decide

theorem unitsOf_exact (c : Char) (hc : c.toNat < 256) : ∀ u ∈ unitsOf c, Exact bodyAtom u 3 := by
  intro u hu
  unfold unitsOf at hu
  split at hu
  · simp only [List.mem_singleton] at hu; subst hu; exact exact_pair '"' (by decide)
  · split at hu
    · simp only [List.mem_singleton] at hu; subst hu; exact exact_pair '\\' (by decide)
    · split at hu
      · rename_i hun
        simp only [List.mem_singleton] at hu; subst hu
        exact exact_single c (List.all_eq_true.mp unescaped_not_special c (by simpa using hun))
      · simp only [List.mem_cons, List.not_mem_nil, or_false] at hu
        rcases hu with rfl | rfl | rfl
        · exact exact_pair _ (octDigit_ok _ (by omega)).1
        · exact exact_single _ (octDigit_ok _ (by omega)).2
        · exact exact_single _ (octDigit_ok _ (by omega)).2

/-- what the tokeniser needs to know about a legal name character -/
def legalTok (c : Char) : Bool :=
  c != ',' && c != '"' && c != '=' && c != ';' && isValChar c && isKeyChar c && !isSpaceC c

theorem legalTok_all : legalChars.all legalTok = true := by decide

theorem isLegal_tok {c : Char} (h : isLegal c = true) :
    c ≠ ',' ∧ c ≠ '"' ∧ c ≠ '=' ∧ c ≠ ';' ∧ isValChar c = true ∧ isKeyChar c = true ∧ isSpaceC c = false := by
  unfold isLegal at h
  have := List.all_eq_true.mp legalTok_all c (by simpa using h)
  simp only [legalTok, Bool.and_eq_true, bne_iff_ne, ne_eq, Bool.not_eq_eq_eq_not, Bool.not_true] at this
  obtain ⟨⟨⟨⟨⟨⟨h1, h2⟩, h3⟩, h4⟩, h5⟩, h6⟩, h7⟩ := this
  exact ⟨h1, h2, h3, h4, h5, h6, h7⟩

theorem flatMap_units (v : Str) : (v.flatMap unitsOf).flatten = v.flatMap translateChar := by
  induction v with
  | nil => rfl
  | cons c cs ih => simp [List.flatMap_cons, ih, unitsOf_flatten]

theorem unitsOf_length (c : Char) : (unitsOf c).length ≤ 3 := by
  unfold unitsOf
  split
  · simp
  · split
    · simp
    · split
      · simp
      · split <;> simp

theorem flatMap_units_length (v : Str) : (v.flatMap unitsOf).length ≤ 3 * v.length := by
  induction v with
  | nil => simp
  | cons c cs ih =>
    have := unitsOf_length c
    simp only [List.flatMap_cons, List.length_append, List.length_cons]
    omega

theorem bodyAtom_quote (g : Nat) (c : Caps) (k : List Char → Caps → Option R) : m g bodyAtom ['"'] c k = none := by
  unfold bodyAtom chr
  cases g with
  | zero => rfl
  | succ g =>
    rw [m_alt, m_cls_neg _ (fun c => c != '\\' && c != '"') '"' [] _ _ (by decide), orElse'_none]
    cases g with
    | zero => rfl
    | succ g => rw [m_seq, m_cls_neg _ (fun x => x == '\\') '"' [] _ _ (by decide)]

/-- a quoted string as `_quote` prints it is matched whole by the first alternative of the value -/
theorem quoted_success (v : Str) (hv : ∀ c ∈ v, c.toNat < 256) (c : Caps)
    (K : List Char → Caps → Option R) (r : R) (hK : K [] c = some r) (g : Nat)
    (hg : 3 * v.length + 10 ≤ g) :
    m g quotedR ('"' :: (v.flatMap translateChar ++ ['"'])) c K = some r := by
  obtain ⟨g', rfl⟩ : ∃ g', g = g' + 3 := ⟨g - 3, by omega⟩
  simp only [quotedR, seqs, chr]
  rw [m_seq, m_cls_pos _ (fun x => x == '"') '"' _ _ _ (by decide), m_seq, ← flatMap_units]
  apply star_greedy_units bodyAtom 3 (v.flatMap unitsOf) ['"'] c _ r
  · intro u hu
    simp only [List.mem_flatMap] at hu
    obtain ⟨x, hx, hux⟩ := hu
    exact unitsOf_exact x (hv x hx) u hux
  · intro g c' k'; exact bodyAtom_quote g c' k'
  · rw [m_cls_pos _ (fun x => x == '"') '"' [] _ _ (by decide)]; exact hK
  · have := flatMap_units_length v; omega

theorem quotedR_fail (x : Char) (t : List Char) (hx : x ≠ '"') (g : Nat) (c : Caps)
    (k : List Char → Caps → Option R) : m g quotedR (x :: t) c k = none := by
  simp only [quotedR, seqs, chr]
  cases g with
  | zero => rfl
  | succ g => rw [m_seq, m_cls_neg _ (fun y => y == '"') x t _ _ (by simpa using hx)]

theorem expiresR_fail (s : Str) (hs : ∀ x ∈ s, x ≠ ',') (g : Nat) (c : Caps)
    (k : List Char → Caps → Option R) : m g expiresR s c k = none := by
  simp only [expiresR, seqs, chr]
  cases g with
  | zero => rfl
  | succ g =>
    rw [m_seq]
    apply m_none_of_cont_none
    intro s' c' hs'
    cases g with
    | zero => rfl
    | succ g =>
      rw [m_seq]
      cases s' with
      | nil => exact m_cls_nil _ _ _ _
      | cons y t' =>
        have hy : y ∈ s := hs'.subset (by simp)
        exact m_cls_neg _ (fun z => z == ',') y t' _ _ (by simpa using hs y hy)

/-- a word of legal characters is matched whole by the third alternative -/
theorem word_success (w : Str) (hw : ∀ x ∈ w, isLegal x = true) (hne : w ≠ []) (c : Caps)
    (K : List Char → Caps → Option R) (r : R) (hK : K [] c = some r) (g : Nat) (hg : w.length + 10 ≤ g) :
    m g valR w c K = some r := by
  obtain ⟨g', rfl⟩ : ∃ g', g = g' + 2 := ⟨g - 2, by omega⟩
  cases w with
  | nil => exact absurd rfl hne
  | cons x t =>
    unfold valR
    rw [m_alt, quotedR_fail x t (isLegal_tok (hw x (by simp))).2.1, orElse'_none, m_alt,
      expiresR_fail (x :: t) (fun y hy => (isLegal_tok (hw y hy)).1), orElse'_none]
    unfold wordR
    have := star_greedy_cls isValChar (x :: t) [] c K r (fun y hy => (isLegal_tok (hw y hy)).2.2.2.2.1)
      (Or.inl rfl) hK g' (by simp at hg ⊢; omega)
    simpa using this

theorem quote_head (v : Str) : ∃ y t, quote v = y :: t ∧ isSpaceC y = false := by
  unfold quote
  split
  · rename_i hl
    simp only [isLegalKey, Bool.and_eq_true, List.all_eq_true] at hl
    cases v with
    | nil => simp at hl
    | cons y t => exact ⟨y, t, rfl, (isLegal_tok (hl.2 y (by simp))).2.2.2.2.2.2⟩
  · exact ⟨'"', _, rfl, by decide⟩

/-- the value alternative matches all of `_quote(v)` -/
theorem val_success (v : Str) (hv : ∀ c ∈ v, c.toNat < 256) (c : Caps)
    (K : List Char → Caps → Option R) (r : R) (hK : K [] c = some r) (g : Nat)
    (hg : 3 * v.length + 12 ≤ g) : m g valR (quote v) c K = some r := by
  unfold quote
  split
  · rename_i hl
    simp only [isLegalKey, Bool.and_eq_true, List.all_eq_true, Bool.not_eq_eq_eq_not, Bool.not_true] at hl
    exact word_success v hl.2 (by intro h; subst h; simp at hl) c K r hK g (by omega)
  · obtain ⟨g', rfl⟩ : ∃ g', g = g' + 1 := ⟨g - 1, by omega⟩
    unfold valR
    rw [m_alt, quoted_success v hv c K r hK g' (by omega)]
    rfl

/-- `= value` after the key: the optional group matches and captures the whole coded value -/
theorem group_success (v : Str) (hv : ∀ c ∈ v, c.toNat < 256) (c : Caps)
    (K : List Char → Caps → Option R) (r : R) (hK : K [] (capSet c 1 (quote v, [])) = some r) (g : Nat)
    (hg : 3 * v.length + 20 ≤ g) : m g groupR ('=' :: quote v) c K = some r := by
  obtain ⟨g', rfl⟩ : ∃ g', g = g' + 7 := ⟨g - 7, by omega⟩
  simp only [groupR, opt, seqs, chr]
  rw [m_alt, m_seq, ws_none _ _ _ _ (Or.inr ⟨'=', _, rfl, by decide⟩), m_seq,
    m_cls_pos _ (fun x => x == '=') '=' _ _ _ (by decide), m_seq, ws_none _ _ _ _ (Or.inr (quote_head v)),
    m_grp, val_success v hv c _ r hK _ (by omega)]
  rfl

theorem tail_fail (x : Char) (t : List Char) (h1 : isSpaceC x = false) (h2 : x ≠ ';') (g : Nat) (c : Caps)
    (k : List Char → Caps → Option R) : m g (.seq wsR tailR) (x :: t) c k = none := by
  cases g with
  | zero => rfl
  | succ g =>
    rw [m_seq]
    cases g with
    | zero => rfl
    | succ g =>
      rw [ws_none _ _ _ _ (Or.inr ⟨x, t, rfl, h1⟩)]
      simp only [tailR, plus, chr]
      rw [m_alt]
      have e1 : m g (.seq (.cls isSpaceC) (.star (.cls isSpaceC) true)) (x :: t) c k = none := by
        cases g with
        | zero => rfl
        | succ g => rw [m_seq, m_cls_neg _ _ x t _ _ h1]
      rw [e1, orElse'_none]
      cases g with
      | zero => rfl
      | succ g =>
        rw [m_alt, m_cls_neg _ (fun y => y == ';') x t _ _ (by simpa using h2), orElse'_none, m_eos_cons]

/-- after a proper prefix of the name nothing but more name can follow: the rest of the pattern
fails on input that starts with a legal name character -/
theorem rest_fail (x : Char) (t : List Char) (hx : isLegal x = true) (g : Nat) (c : Caps)
    (k : List Char → Caps → Option R) : m g (seqs [groupR, wsR, tailR]) (x :: t) c k = none := by
  obtain ⟨_, _, h3, h4, _, _, h7⟩ := isLegal_tok hx
  simp only [seqs]
  cases g with
  | zero => rfl
  | succ g =>
    rw [m_seq]
    simp only [groupR, opt, seqs, chr]
    cases g with
    | zero => rfl
    | succ g =>
      rw [m_alt]
      have e1 : ∀ (K : List Char → Caps → Option R),
          m g (.seq wsR (.seq (.cls fun y => y == '=') (.seq wsR (.grp 1 valR)))) (x :: t) c K = none := by
        intro K
        cases g with
        | zero => rfl
        | succ g =>
          rw [m_seq]
          cases g with
          | zero => rfl
          | succ g =>
            rw [ws_none _ _ _ _ (Or.inr ⟨x, t, rfl, h7⟩), m_seq,
              m_cls_neg _ (fun y => y == '=') x t _ _ (by simpa using h3)]
      rw [e1, orElse'_none]
      cases g with
      | zero => rfl
      | succ g => rw [m_eps]; exact tail_fail x t h7 h4 _ c k

/-- the rest of the pattern after the key, on `=<coded value>` up to the end of the header -/
theorem rest_success (v : Str) (hv : ∀ c ∈ v, c.toNat < 256) (c : Caps)
    (k : List Char → Caps → Option R) (r : R) (hk : k [] (capSet c 1 (quote v, [])) = some r) (g : Nat)
    (hg : 3 * v.length + 30 ≤ g) : m g (seqs [groupR, wsR, tailR]) ('=' :: quote v) c k = some r := by
  obtain ⟨g', rfl⟩ : ∃ g', g = g' + 7 := ⟨g - 7, by omega⟩
  simp only [seqs]
  rw [m_seq]
  apply group_success v hv c _ r _ _ (by omega)
  rw [tail_nil]; exact hk

/-- the lazy key group takes exactly the name -/
theorem key_success (n0 : Char) (nr t : Str) (hn : ∀ x ∈ n0 :: nr, isLegal x = true) (c : Caps)
    (K : List Char → Caps → Option R) (r : R)
    (hfail : ∀ x s c', isLegal x = true → K (x :: s) c' = none)
    (hK : K t (capSet c 0 (n0 :: nr ++ t, t)) = some r) (g : Nat) (hg : nr.length + 5 ≤ g) :
    m g keyR (n0 :: nr ++ t) c K = some r := by
  obtain ⟨g', rfl⟩ : ∃ g', g = g' + 3 := ⟨g - 3, by omega⟩
  simp only [keyR, plus]
  rw [m_grp, m_seq, List.cons_append, m_cls_pos _ _ n0 _ _ _ (isLegal_tok (hn n0 (by simp))).2.2.2.2.2.1]
  apply star_lazy_cls isKeyChar nr t c _ r
  · intro x hx; exact (isLegal_tok (hn x (by simp [hx]))).2.2.2.2.2.1
  · intro i hi
    have hd : nr.drop i ≠ [] := by
      intro h
      have := congrArg List.length h
      simp at this; omega
    obtain ⟨y, ys, hy⟩ := List.exists_cons_of_ne_nil hd
    have hmem : y ∈ nr := by
      have : y ∈ nr.drop i := by rw [hy]; simp
      exact List.mem_of_mem_drop this
    rw [hy]
    exact hfail y _ _ (hn y (by simp [hmem]))
  · exact hK
  · omega

theorem translateChar_length (c : Char) : 1 ≤ (translateChar c).length := by
  unfold translateChar
  split
  · simp
  · split
    · simp
    · split
      · simp
      · split <;> simp

theorem flatMap_translate_length (v : Str) : v.length ≤ (v.flatMap translateChar).length := by
  induction v with
  | nil => simp
  | cons c cs ih =>
    have hc := translateChar_length c
    simp only [List.flatMap_cons, List.length_append, List.length_cons]
    omega

/-- `_CookiePattern.match` on `name=<coded>`: the whole header is consumed, group `key` is the name
and group `val` the coded value -/
theorem matchAt_single (name v : Str) (hn : LegalName name) (hv : ∀ c ∈ v, c.toNat < 256) :
    matchAt cookiePattern (name ++ '=' :: quote v) =
      some (capSet (capSet [] 0 (name ++ '=' :: quote v, '=' :: quote v)) 1 (quote v, []), []) := by
  have hl := hn.1
  simp only [isLegalKey, Bool.and_eq_true, List.all_eq_true, Bool.not_eq_eq_eq_not, Bool.not_true] at hl
  obtain ⟨hne, hall⟩ := hl
  cases name with
  | nil => simp at hne
  | cons n0 nr =>
    unfold matchAt
    rw [cookiePattern_eq]
    have hqlen : v.length ≤ (quote v).length := by
      unfold quote
      split
      · exact Nat.le_refl _
      · have := flatMap_translate_length v
        simp only [List.length_cons, List.length_append]
        omega
    generalize hF : 4 * (n0 :: nr ++ '=' :: quote v).length + 200 = F
    have hFb : 3 * v.length + nr.length + 60 ≤ F := by
      rw [← hF]; simp only [List.length_append, List.length_cons]; omega
    obtain ⟨F', rfl⟩ : ∃ F', F = F' + 3 := ⟨F - 3, by omega⟩
    have hsp : isSpaceC n0 = false := (isLegal_tok (hall n0 (by simp))).2.2.2.2.2.2
    simp only [seqs]
    rw [m_seq, List.cons_append, ws_none _ _ _ _ (Or.inr ⟨n0, _, rfl, hsp⟩), m_seq, ← List.cons_append]
    apply key_success n0 nr ('=' :: quote v) hall [] _ _
    · intro x s c' hx
      exact rest_fail x s hx _ c' _
    · exact rest_success v hv _ _ _ rfl _ (by omega)
    · omega

theorem capGet_single (name coded : Str) :
    capGet (capSet (capSet [] 0 (name ++ '=' :: coded, '=' :: coded)) 1 (coded, [])) 0 = some name ∧
    capGet (capSet (capSet [] 0 (name ++ '=' :: coded, '=' :: coded)) 1 (coded, [])) 1 = some coded := by
  simp [capGet, capSet]

/-- **the tokeniser contract holds for the model's own `parseCookies`** -/
theorem parseCookies_single (name v : Str) (hn : LegalName name) (hv : ∀ c ∈ v, c.toNat < 256) :
    parseCookies (name ++ '=' :: quote v) = .ok [(name, unquote (quote v))] := by
  have hne : (name ++ '=' :: quote v).isEmpty = false := by simp
  have hd : (name.head? == some '$') = false := by
    have := hn.2.2
    cases name with
    | nil => rfl
    | cons a t =>
      simp only [List.head?_cons, ne_eq, Option.some.injEq] at this
      simpa using this
  unfold parseCookies
  simp only [scan, hne, Bool.false_eq_true, if_false, matchAt_single name v hn hv,
    (capGet_single name (quote v)).1, (capGet_single name (quote v)).2, Option.getD_some, hd, hn.2.1,
    Bool.not_false]
  have hscan : ∀ f acc, scan f [] true acc = some acc.reverse := by
    intro f acc; cases f <;> simp [scan]
  simp only [hscan, List.reverse_cons, List.reverse_nil, List.nil_append, applyItems, hn.2.1, hn.1,
    Bool.not_true, Bool.or_self, Bool.false_eq_true, if_false, jarSet_nil]

theorem tokContract_parseCookies (L : Lib) (h : L.load = parseCookies) : TokContract L := by
  intro name v hn hv
  unfold TokAt
  rw [h]
  exact parseCookies_single name v hn hv

/-! ### the jar through `copy()`: the rendering `" name=coded"` is read back as it was -/

/-- as `matchAt_single`, with leading white space (`output(header='')` puts a space first) -/
theorem matchAt_ws (pre name v : Str) (hpre : ∀ x ∈ pre, isSpaceC x = true) (hn : LegalName name)
    (hv : ∀ c ∈ v, c.toNat < 256) :
    matchAt cookiePattern (pre ++ (name ++ '=' :: quote v)) =
      some (capSet (capSet [] 0 (name ++ '=' :: quote v, '=' :: quote v)) 1 (quote v, []), []) := by
  have hl := hn.1
  simp only [isLegalKey, Bool.and_eq_true, List.all_eq_true, Bool.not_eq_eq_eq_not, Bool.not_true] at hl
  obtain ⟨hne, hall⟩ := hl
  cases name with
  | nil => simp at hne
  | cons n0 nr =>
    unfold matchAt
    rw [cookiePattern_eq]
    have hqlen : v.length ≤ (quote v).length := by
      unfold quote
      split
      · exact Nat.le_refl _
      · have := flatMap_translate_length v
        simp only [List.length_cons, List.length_append]
        omega
    generalize hF : 4 * (pre ++ (n0 :: nr ++ '=' :: quote v)).length + 200 = F
    have hFb : 3 * v.length + nr.length + pre.length + 60 ≤ F := by
      rw [← hF]; simp only [List.length_append, List.length_cons]; omega
    obtain ⟨F', rfl⟩ : ∃ F', F = F' + 3 := ⟨F - 3, by omega⟩
    have hsp : isSpaceC n0 = false := (isLegal_tok (hall n0 (by simp))).2.2.2.2.2.2
    simp only [seqs]
    rw [m_seq]
    unfold wsR
    apply star_greedy_cls isSpaceC pre _ [] _ _ hpre (Or.inr ⟨n0, _, rfl, hsp⟩) _ _ (by omega)
    rw [m_seq]
    apply key_success n0 nr ('=' :: quote v) hall [] _ _
    · intro x s c' hx
      exact rest_fail x s hx _ c' _
    · exact rest_success v hv _ _ _ rfl _ (by omega)
    · omega

theorem parseCookiesRaw_ws (pre name v : Str) (hpre : ∀ x ∈ pre, isSpaceC x = true) (hn : LegalName name)
    (hv : ∀ c ∈ v, c.toNat < 256) :
    parseCookiesRaw (pre ++ (name ++ '=' :: quote v)) = .ok [(name, quote v)] := by
  have hne : (pre ++ (name ++ '=' :: quote v)).isEmpty = false := by simp
  have hd : (name.head? == some '$') = false := by
    have := hn.2.2
    cases name with
    | nil => rfl
    | cons a t =>
      simp only [List.head?_cons, ne_eq, Option.some.injEq] at this
      simpa using this
  unfold parseCookiesRaw
  simp only [scan, hne, Bool.false_eq_true, if_false, matchAt_ws pre name v hpre hn hv,
    (capGet_single name (quote v)).1, (capGet_single name (quote v)).2, Option.getD_some, hd, hn.2.1,
    Bool.not_false]
  have hscan : ∀ f acc, scan f [] true acc = some acc.reverse := by
    intro f acc; cases f <;> simp [scan]
  simp only [hscan, List.reverse_cons, List.reverse_nil, List.nil_append, applyItemsRaw, hn.2.1, hn.1,
    Bool.not_true, Bool.or_self, Bool.false_eq_true, if_false, jarSet_nil]

/-- `response.copy()` carries a one-cookie jar over exactly: same name, same coded value -/
theorem copyJar_single (name v : Str) (hn : LegalName name) (hv : ∀ c ∈ v, c.toNat < 256) :
    copyJar [(name, quote v)] = .ok [(name, quote v)] := by
  unfold copyJar
  have hr : renderJar [(name, quote v)] = [' '] ++ (name ++ '=' :: quote v) := by
    simp [renderJar, sortJar, insertByKey, List.intercalate]
  rw [hr]
  simp only [List.isEmpty_cons, Bool.false_eq_true, if_false]
  exact parseCookiesRaw_ws [' '] name v (by decide) hn hv

end Ombott.Cookies
