import OmbottModel.Lemmas.Config
/-! Frames: what the NameSpace edits of one application can reach; the cached_property machine per instance; the
first-wins characterisation of `MixableMeta._mixin`. -/
namespace Ombott.Config

/-- the objects a NameSpace's `__dict__` refers to -/
def refsOf (d : AList Val) : List Nat := d.filterMap fun kv => match kv.2 with | .ref o => some o | _ => none

/-- every object the configuration reads of an application go through: its two NameSpaces and the dicts they hold -/
def readSet (h : Heap) (y : App) : List Nat :=
  [y.config, y.reqConfig] ++ refsOf (hget h y.config) ++ refsOf (hget h y.reqConfig)

/-- setattr / setitem / setdefault / update (with scalars or with NEW dicts) on the config of application `a` or of its
request -/
def isEdit (a : Nat) : Op → Bool
  | .nsSet t _ _ | .nsSetDict t _ _ | .nsSetDefault t _ _ | .nsUpdate t _ => t == .appConfig a || t == .reqConfig a
  | _ => false

/-- `t[k][dk]` -/
def readDictEntry (w : World) (t : Target) (k dk : Name) : Option Val :=
  match w.resolve t with
  | none => none
  | some o =>
    match nsGetItem w.heap o k with
    | .ok (.ref d) => aget (hget w.heap d) dk
    | _ => none

theorem mem_refsOf {d : AList Val} {k : Name} {o : Nat} (h : (k, Val.ref o) ∈ d) : o ∈ refsOf d := by
  simp only [refsOf, List.mem_filterMap]
  exact ⟨(k, .ref o), h, rfl⟩

theorem deepItems_congr (h h' : Heap) (o : Nat) (h1 : hget h' o = hget h o)
    (h2 : ∀ d ∈ refsOf (hget h o), hget h' d = hget h d) : deepItems h' o = deepItems h o := by
  unfold deepItems
  rw [h1]
  apply List.map_congr_left
  intro p hp
  obtain ⟨k, v⟩ := p
  cases v with
  | ref d => simp [h2 d (mem_refsOf hp)]
  | _ => rfl

theorem exec_cons (w : World) (op : Op) (r : List Op) : exec w (op :: r) = exec (step w op).1 r := by
  simp [exec, run]

theorem edit_step (w : World) (a : Nat) (x : App) (ha : w.app a = some x) (op : Op) (he : isEdit a op = true) :
    (step w op).1.apps = w.apps ∧ w.heap.length ≤ (step w op).1.heap.length ∧
    ∀ o, o ≠ x.config → o ≠ x.reqConfig → o < w.heap.length → hget (step w op).1.heap o = hget w.heap o := by
  have hres : ∀ t : Target, (t == .appConfig a || t == .reqConfig a) = true →
      w.resolve t = some x.config ∨ w.resolve t = some x.reqConfig := by
    intro t ht
    simp only [Bool.or_eq_true, beq_iff_eq] at ht
    rcases ht with rfl | rfl <;> simp [World.resolve, ha]
  cases op with
  | nsSet t k v =>
    have hr := hres t he
    simp only [step, withTarget]
    rcases hr with hr | hr <;> rw [hr] <;> by_cases hd : isDunder k = true <;>
      simp [hd, nsSetItem, hset_length] <;> intro o h1 h2 _ <;>
      first | exact hget_hset_ne _ _ _ _ h1 | exact hget_hset_ne _ _ _ _ h2
  | nsSetDict t k d =>
    have hr := hres t he
    simp only [step, withTarget]
    rcases hr with hr | hr <;> rw [hr] <;> by_cases hd : isDunder k = true <;>
      simp [hd, nsSetItem, hset_length, alloc] <;> intro o h1 h2 h3 <;>
      first
        | (rw [hget_hset_ne _ _ _ _ h1]; simp [hget, List.getElem?_append_left h3])
        | (rw [hget_hset_ne _ _ _ _ h2]; simp [hget, List.getElem?_append_left h3])
  | nsSetDefault t k d =>
    have hr := hres t he
    simp only [step, withTarget, nsSetDefault]
    rcases hr with hr | hr
    · rw [hr]
      cases hg : aget (hget w.heap x.config) k with
      | some v => simp [hg]
      | none => simp only [hg]; exact ⟨trivial, by simp [hset_length], fun o h1 _ _ => hget_hset_ne w.heap x.config o _ h1⟩
    · rw [hr]
      cases hg : aget (hget w.heap x.reqConfig) k with
      | some v => simp [hg]
      | none => simp only [hg]; exact ⟨trivial, by simp [hset_length], fun o _ h2 _ => hget_hset_ne w.heap x.reqConfig o _ h2⟩
  | nsUpdate t d =>
    have hr := hres t he
    simp only [step, withTarget, nsUpdate]
    rcases hr with hr | hr <;> rw [hr] <;> simp [hset_length] <;> intro o h1 h2 _ <;>
      first | exact hget_hset_ne _ _ _ _ h1 | exact hget_hset_ne _ _ _ _ h2
  | _ => simp [isEdit] at he

theorem appView_frame (w w' : World) (b : Nat) (y : App) (hb : w.app b = some y) (hb' : w'.app b = some y)
    (hh : ∀ o ∈ readSet w.heap y, hget w'.heap o = hget w.heap o) :
    appView w' b = appView w b ∧ readSet w'.heap y = readSet w.heap y := by
  have c1 : hget w'.heap y.config = hget w.heap y.config := hh _ (by simp [readSet])
  have c2 : hget w'.heap y.reqConfig = hget w.heap y.reqConfig := hh _ (by simp [readSet])
  refine ⟨?_, by simp [readSet, c1, c2]⟩
  simp only [appView, hb, hb', Option.map_some]
  rw [deepItems_congr _ _ _ c1 (fun d hd => hh d (by simp [readSet, hd])),
      deepItems_congr _ _ _ c2 (fun d hd => hh d (by simp [readSet, hd]))]

theorem edits_frame (a b : Nat) (x y : App) (ops : List Op) (hops : ∀ op ∈ ops, isEdit a op = true) :
    ∀ w : World, w.app a = some x → w.app b = some y →
      (∀ o ∈ readSet w.heap y, o ≠ x.config ∧ o ≠ x.reqConfig ∧ o < w.heap.length) →
      appView (exec w ops) b = appView w b := by
  induction ops with
  | nil => intro w _ _ _; simp [exec, run]
  | cons op r ih =>
    intro w ha hb hsep
    rw [exec_cons]
    obtain ⟨e1, e2, e3⟩ := edit_step w a x ha op (hops op (by simp))
    have ha' : (step w op).1.app a = some x := by simp only [World.app, e1]; exact ha
    have hb' : (step w op).1.app b = some y := by simp only [World.app, e1]; exact hb
    obtain ⟨v1, v2⟩ := appView_frame w (step w op).1 b y hb hb'
      (fun o ho => e3 o (hsep o ho).1 (hsep o ho).2.1 (hsep o ho).2.2)
    rw [ih (fun op' h' => hops op' (by simp [h'])) (step w op).1 ha' hb' ?_, v1]
    intro o ho
    rw [v2] at ho
    exact ⟨(hsep o ho).1, (hsep o ho).2.1, Nat.lt_of_lt_of_le (hsep o ho).2.2 e2⟩

/-- the exception an answer is, if it is one (`Except` has no decidable equality of its own) -/
def errOf {α} : Except CErr α → Option CErr
  | .error e => some e
  | .ok _ => none

/-! ### construction -/

theorem getFrom_new (cs : Classes) (h h' : Heap) (c : CClass) (src : Option (AList Val)) (kw : AList Val)
    (o : Nat) (hg : getFrom cs h c src kw = .ok (h', o)) :
    o = h.length ∧ h'.length = h.length + 1 ∧ ∀ o' < h.length, hget h' o' = hget h o' := by
  unfold getFrom at hg
  cases hi : classItems cs c with
  | error e => simp [hi] at hg
  | ok items =>
    simp only [hi, Except.ok.injEq, alloc, Prod.mk.injEq] at hg
    obtain ⟨rfl, rfl⟩ := hg
    refine ⟨rfl, by simp, fun o' ho' => ?_⟩
    simp [hget, List.getElem?_append_left ho']

theorem buildConfigs_spec (w : World) (src : Option (AList Val)) (h : Heap) (c r : Nat)
    (hb : buildConfigs w src = .ok (h, c, r)) :
    c = w.heap.length ∧ r = w.heap.length + 1 ∧ h.length = w.heap.length + 2 ∧
    ∀ o < w.heap.length, hget h o = hget w.heap o := by
  unfold buildConfigs at hb
  cases hdc : findClass w.classes "DefaultConfig" with
  | none => simp [hdc] at hb
  | some dc =>
    cases hrc : findClass w.classes "RequestConfig" with
    | none => simp [hdc, hrc] at hb
    | some rc =>
      simp only [hdc, hrc] at hb
      cases h1 : getFrom w.classes w.heap dc src [] with
      | error e => simp [h1] at hb
      | ok r1 =>
        obtain ⟨h1', c1⟩ := r1
        simp only [h1] at hb
        cases h2 : getFrom w.classes h1' rc (some (hget h1' c1)) [] with
        | error e => simp [h2] at hb
        | ok r2 =>
          obtain ⟨h2', r2'⟩ := r2
          simp only [h2, Except.ok.injEq, Prod.mk.injEq] at hb
          obtain ⟨rfl, rfl, rfl⟩ := hb
          obtain ⟨e1, l1, f1⟩ := getFrom_new _ _ _ _ _ _ _ h1
          obtain ⟨e2, l2, f2⟩ := getFrom_new _ _ _ _ _ _ _ h2
          exact ⟨e1, by omega, by omega, fun o ho => by rw [f2 o (by omega), f1 o ho]⟩

/-! ### cached_property, per instance -/

/-- the operation concerns instance `i` -/
def CpOp.touches (i : Nat) : CpOp → Bool
  | .get j _ | .del j | .set j _ => j == i
  | .cls => false

/-- which operations ran the getter -/
def cpTrace (s : CpState) (ops : List CpOp) : List (CpOp × Bool) := ops.zip ((cpRun s ops).2.map (·.2))

theorem cpTrace_cons (s : CpState) (op : CpOp) (r : List CpOp) :
    cpTrace s (op :: r) = (op, (cpStep s op).2.2) :: cpTrace (cpStep s op).1 r := by
  simp [cpTrace, cpRun]

theorem cpStep_other (s : CpState) (op : CpOp) (i : Nat) (h : op.touches i = false) :
    (cpStep s op).1.slot i = s.slot i := by
  cases op with
  | get j m =>
    have hj : i ≠ j := by intro e; simp [CpOp.touches, e] at h
    simp only [cpStep]
    cases hs : s.slot j with
    | some v => simp
    | none => cases m <;> simp [cpGet, cpGetter, CpState.setSlot, CpState.slot, hj]
  | del j =>
    have hj : i ≠ j := by intro e; simp [CpOp.touches, e] at h
    simp only [cpStep]
    cases hs : s.slot j <;> simp [CpState.setSlot, CpState.slot, hj]
  | set j v =>
    have hj : i ≠ j := by intro e; simp [CpOp.touches, e] at h
    simp [cpStep, CpState.setSlot, CpState.slot, hj]
  | cls => simp [cpStep]

theorem cpStep_same (s s' : CpState) (op : CpOp) (i : Nat) (h : op.touches i = true)
    (hp : (s.slot i).isSome = (s'.slot i).isSome) :
    (cpStep s op).2.2 = (cpStep s' op).2.2 ∧ ((cpStep s op).1.slot i).isSome = ((cpStep s' op).1.slot i).isSome := by
  simp only [CpState.slot] at hp ⊢
  cases op with
  | get j m =>
    have hj : j = i := by simpa [CpOp.touches] using h
    subst hj
    simp only [cpStep, CpState.slot]
    cases hs : s.slots j <;> cases hs' : s'.slots j <;> simp [hs, hs'] at hp ⊢
    · cases m <;> simp [cpGet, cpGetter, CpState.setSlot, hs, hs']
  | del j =>
    have hj : j = i := by simpa [CpOp.touches] using h
    subst hj
    simp only [cpStep, CpState.slot]
    cases hs : s.slots j <;> cases hs' : s'.slots j <;> simp [hs, hs'] at hp ⊢ <;>
      simp [CpState.setSlot, hs, hs']
  | set j v =>
    have hj : j = i := by simpa [CpOp.touches] using h
    simp [cpStep, CpState.setSlot, hj]
  | cls => simp [CpOp.touches] at h

end Ombott.Config
