import OmbottModel.Lemmas.HelpersChar
import OmbottModel.Model.EnvCache
/-! `WSGIHeaderDict`: `_ekey` against `__iter__`, the view shows exactly the header entries of the environ, and no
mutator of `MutableMapping` changes the environ.  Three facts about the GENERATED `cgikeys` are used (checked by
evaluation, so editing the table in the source re-opens them). -/
namespace Ombott.WsgiHeaders
open Py

/-- no CGI key starts with `HTTP_` (otherwise iteration would strip the prefix from it) -/
theorem cgikeys_no_prefix : ∀ k ∈ cgikeys, httpPrefix.isPrefixOf k = false := by decide +kernel

/-- the CGI keys are in `_ekey`'s own normal form (upper case, `_`) -/
theorem cgikeys_normal : ∀ k ∈ cgikeys, upper (undash k) = k := by decide +kernel

theorem drop_prefix (k : Str) : (httpPrefix ++ k).drop 5 = k := rfl

theorem isPrefixOf_append (k : Str) : httpPrefix.isPrefixOf (httpPrefix ++ k) = true := by
  simp [httpPrefix]

theorem eq_of_isPrefixOf (k : Str) (h : httpPrefix.isPrefixOf k = true) : k = httpPrefix ++ k.drop 5 := by
  have hp : httpPrefix <+: k := List.isPrefixOf_iff_prefix.mp h
  obtain ⟨t, rfl⟩ := hp
  rfl

/-- `_ekey` in terms of the normal form of the name -/
theorem ekey_eq (n : Str) : ekey n = if upper (undash n) ∈ cgikeys then upper (undash n) else httpPrefix ++ upper (undash n) := rfl

/-- names with the same normal form have the same environ key -/
theorem ekey_congr (n m : Str) (h : upper (undash n) = upper (undash m)) : ekey n = ekey m := by
  rw [ekey_eq, ekey_eq, h]

/-- what iteration shows for the key `_ekey` computes -/
theorem iterName_ekey (n : Str) : iterName (ekey n) = some (title (dash n)) := by
  rw [ekey_eq]
  split
  · rename_i h
    unfold iterName
    rw [cgikeys_no_prefix _ h]
    simp only [Bool.false_eq_true, if_false, h, if_true]
    rw [title_dash_upper_undash]
  · unfold iterName
    rw [isPrefixOf_append]
    simp only [if_true, drop_prefix]
    rw [title_dash_upper_undash]

theorem ekey_title_dash (n : Str) : ekey (title (dash n)) = ekey n :=
  ekey_congr _ _ (upper_undash_title_dash n)

/-- the key `_ekey` computes is always one the view shows -/
theorem isHeaderKey_ekey (n : Str) : isHeaderKey (ekey n) = true := by
  rw [ekey_eq]
  unfold isHeaderKey
  split
  · rename_i h
    simp [h]
  · rw [isPrefixOf_append]; rfl

theorem iterName_isSome (k : Str) : (iterName k).isSome = isHeaderKey k := by
  unfold iterName isHeaderKey
  by_cases h1 : httpPrefix.isPrefixOf k = true
  · simp [h1]
  · by_cases h2 : k ∈ cgikeys
    · simp [h1, h2]
    · simp [h1, h2]

/-- the name shown for a header key -/
def nameOf (k : Str) : Str :=
  if httpPrefix.isPrefixOf k then title (dash (k.drop 5)) else title (dash k)

theorem iterName_of_header (k : Str) (h : isHeaderKey k = true) : iterName k = some (nameOf k) := by
  unfold iterName nameOf
  by_cases h1 : httpPrefix.isPrefixOf k = true
  · simp [h1]
  · have h2 : k ∈ cgikeys := by
      unfold isHeaderKey at h
      simp only [h1, Bool.false_or] at h
      exact List.contains_iff_mem.mp h
    simp [h1, h2]

theorem iterName_of_not_header (k : Str) (h : isHeaderKey k = false) : iterName k = none := by
  have := iterName_isSome k
  rw [h] at this
  cases hk : iterName k with
  | none => rfl
  | some _ => rw [hk] at this; cases this

/-- `keys()`: one name per header entry of the environ, in environ order -/
theorem keys_eq (e : Env) : keys e = (e.filter fun p => isHeaderKey p.1).map fun p => nameOf p.1 := by
  induction e with
  | nil => rfl
  | cons p r ih =>
    unfold keys at ih ⊢
    by_cases h : isHeaderKey p.1 = true
    · simp [iterName_of_header _ h, h, ih]
    · have h' : isHeaderKey p.1 = false := by simpa using h
      simp [iterName_of_not_header _ h', h', ih]

theorem get?_mem (e : Env) (k : Str) (v : HV) (h : e.get? k = some v) : (k, v) ∈ e := by
  induction e with
  | nil => cases h
  | cons p r ih =>
    obtain ⟨k', v'⟩ := p
    unfold Env.get? at h
    split at h
    · rename_i hk; subst hk; cases h; simp
    · exact List.mem_cons_of_mem _ (ih h)

theorem get?_of_mem (e : Env) (k : Str) (v : HV) (hn : (e.map (·.1)).Nodup) (h : (k, v) ∈ e) : e.get? k = some v := by
  induction e with
  | nil => cases h
  | cons p r ih =>
    obtain ⟨k', v'⟩ := p
    simp only [List.map_cons, List.nodup_cons] at hn
    unfold Env.get?
    rcases List.mem_cons.mp h with h | h
    · cases h; simp
    · have : k' ≠ k := by
        intro e; subst e
        exact hn.1 (List.mem_map.mpr ⟨(k', v), h, rfl⟩)
      simp [this, ih hn.2 h]

/-- a header key as a WSGI server writes it: a CGI key, or `HTTP_` + an upper-case, hyphen-free name that is not
itself a CGI key -/
def canonKey (k : Str) : Bool :=
  cgikeys.contains k ||
    (httpPrefix.isPrefixOf k && upper (undash (k.drop 5)) == k.drop 5 && !cgikeys.contains (k.drop 5))

theorem canonKey_header (k : Str) (h : canonKey k = true) : isHeaderKey k = true := by
  unfold canonKey at h
  unfold isHeaderKey
  simp only [Bool.or_eq_true, Bool.and_eq_true] at h ⊢
  rcases h with h | h
  · exact Or.inr h
  · exact Or.inl h.1.1

/-- the listed name of a canonical header key leads back to that key -/
theorem ekey_nameOf (k : Str) (h : canonKey k = true) : ekey (nameOf k) = k := by
  unfold canonKey at h
  simp only [Bool.or_eq_true, Bool.and_eq_true, beq_iff_eq, Bool.not_eq_true', List.contains_iff_mem] at h
  rcases h with h | ⟨⟨hp, hu⟩, hc⟩
  · have hnp := cgikeys_no_prefix k h
    unfold nameOf
    simp only [hnp, Bool.false_eq_true, if_false]
    rw [ekey_title_dash, ekey_eq, cgikeys_normal k h]
    simp [h]
  · unfold nameOf
    simp only [hp, if_true]
    rw [ekey_title_dash, ekey_eq, hu]
    have hc' : k.drop 5 ∉ cgikeys := by
      intro hm
      have := List.contains_iff_mem.mpr hm
      rw [hc] at this; cases this
    simp only [hc', if_false]
    exact (eq_of_isPrefixOf k hp).symm

theorem getitem_ok_iff (e : Env) (n s : Str) :
    getitem e n = .ok s ↔ ∃ v, e.get? (ekey n) = some v ∧ s = touni v := by
  unfold getitem
  cases h : e.get? (ekey n) with
  | none => simp
  | some v =>
    simp only [Except.ok.injEq, Option.some.injEq, exists_eq_left']
    exact eq_comm

theorem getitem_error (e : Env) (n : Str) (x : Err) (h : getitem e n = .error x) : x = .keyError := by
  unfold getitem at h
  split at h
  · cases h; rfl
  · cases h

theorem mapM_ok {α β} (f : α → Except Err β) (g : α → β) (l : List α) (h : ∀ x ∈ l, f x = .ok (g x)) :
    l.mapM f = .ok (l.map g) := by
  induction l with
  | nil => rfl
  | cons a r ih =>
    rw [List.mapM_cons, h a (by simp), ih (fun x hx => h x (by simp [hx]))]
    rfl

/-- every mutator leaves the environ alone -/
theorem popitem_env (e : Env) : (popitem e).2 = e := by
  unfold popitem
  split
  · rfl
  · split <;> rfl

theorem clear_env (e : Env) : (clear e).2 = e := by
  have h := popitem_env e
  unfold clear
  cases hp : popitem e with
  | mk r e' =>
    rw [hp] at h
    simp only at h
    subst h
    cases r with
    | error x => cases x <;> rfl
    | ok v => rfl

theorem applyOp_env (e : Env) (op : Op) : (applyOp e op).2 = e := by
  cases op with
  | setitem k v => rfl
  | delitem k => rfl
  | pop k d =>
    simp only [applyOp]
    split <;> rfl
  | popitem => exact popitem_env e
  | clear => exact clear_env e
  | update ps =>
    simp only [applyOp]
    cases ps with
    | nil => rfl
    | cons p r => obtain ⟨k, v⟩ := p; rfl
  | setdefault k d =>
    simp only [applyOp]
    split <;> rfl

theorem applyOps_env (e : Env) (ops : List Op) : (applyOps e ops).2 = e := by
  induction ops generalizing e with
  | nil => rfl
  | cons op ops ih =>
    have h1 := applyOp_env e op
    have h2 := ih (applyOp e op).2
    simp only [applyOps]
    rw [h2, h1]

/-- the name iteration shows is the one the cache-layer model (`Model/EnvCache.lean`) uses for the `headers` observable -/
theorem iterName_eq_envcache (k : Str) : iterName k = Ombott.EnvCache.headerName k := by
  have hc : ∀ k : Str, (k ∈ cgikeys) ↔ (k = cs!"CONTENT_TYPE" ∨ k = cs!"CONTENT_LENGTH") := by
    intro k
    have : cgikeys = [cs!"CONTENT_LENGTH", cs!"CONTENT_TYPE"] := by decide +kernel
    rw [this]
    simp only [List.mem_cons, List.mem_nil_iff, or_false]
    exact Or.comm
  unfold iterName Ombott.EnvCache.headerName
  by_cases h1 : httpPrefix.isPrefixOf k = true
  · have h1' : (cs!"HTTP_").isPrefixOf k = true := h1
    simp only [h1, h1', if_true]
    rfl
  · have h1' : ¬ (cs!"HTTP_").isPrefixOf k = true := h1
    simp only [h1, h1']
    by_cases h2 : k ∈ cgikeys
    · have := (hc k).mp h2
      simp only [h2, this, if_true]
      rfl
    · have : ¬ (k = cs!"CONTENT_TYPE" ∨ k = cs!"CONTENT_LENGTH") := fun h => h2 ((hc k).mpr h)
      simp only [h2, this, if_false]
      rfl

end Ombott.WsgiHeaders
