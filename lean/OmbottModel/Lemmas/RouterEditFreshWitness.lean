import OmbottModel.Lemmas.RouterEditWitness
/-!
C11, a history whose `prefix*` removal leaves a hook pair in the `hooks` index that the tree no
longer holds (non-vacuity / necessity witness for `fresh_same_survivors` of `Props/C11.lean`).
-/
namespace Ombott.Router
open Py

/-- a hook below a prefix, a route below the same prefix, then `remove('/ab*')` -/
def exOpsT : List EditOp :=
  [.addHook cenv0 "/ab/c".toList 2 false, exAdd "/ab/d" 0, .removeRule cenv0 "/ab*".toList]

theorem notok_of_chars (p : List Sym) (h : (p.all fun s => match s with | .lit c => c != Gen.paramToken | .tok _ => true) = true) :
    NoLitTok p := by
  intro c hc
  rw [List.all_eq_true] at h
  simpa using h _ hc

theorem exOpsT_ok : ∀ op ∈ exOpsT, EditOK op := by
  intro op hop
  simp only [exOpsT, List.mem_cons, List.mem_nil_iff, or_false] at hop
  rcases hop with rfl | rfl | rfl
  · intro p hp
    have h0 : parseRule cenv0 "/ab/c".toList =
        .ok ⟨[.lit 'a', .lit 'b', .lit '/', .lit 'c'], [], [.lit 'a', .lit 'b', .lit '/', .lit 'c']⟩ := rfl
    rw [h0] at hp; cases hp
    exact notok_of_chars _ (by decide)
  · intro p hp
    have h0 : parseRule cenv0 "/ab/d".toList =
        .ok ⟨[.lit 'a', .lit 'b', .lit '/', .lit 'd'], [], [.lit 'a', .lit 'b', .lit '/', .lit 'd']⟩ := rfl
    simp only at hp
    rw [h0] at hp; cases hp
    exact ⟨notok_of_chars _ (by decide), by unfold NoStar; decide⟩
  · intro p hp
    have h0 : parseRule cenv0 "/ab*".toList =
        .ok ⟨[.lit 'a', .lit 'b', .lit '*'], [], [.lit 'a', .lit 'b', .lit '*']⟩ := rfl
    rw [h0] at hp; cases hp
    exact notok_of_chars _ (by decide)

end Ombott.Router
