import OmbottModel.Model.WsgiSpec
import OmbottModel.Lemmas.PyInt
/-! The status setter produces a status line that belongs to its code (for `int` statuses
100..999 and for string statuses of the documented form). -/
namespace Ombott.Wsgi
open Py

theorem natStr_length3 : ∀ n, n < 1000 → 100 ≤ n → (natStr n).length = 3 := by
  decide +kernel

/-- every line of `_HTTP_STATUS_LINES` whose code is in range is `ddd reason` for that code -/
theorem statusLines_ok :
    Gen.wsgiStatusLines.all (fun p => lineFor p.1 p.2.toList || !(decide (100 ≤ p.1) && decide (p.1 ≤ 999))) = true := by
  decide +kernel

theorem unknown_tail_ok : (match " Unknown".toList with
    | ' ' :: r => !r.isEmpty && noCRLF r
    | _ => false) = true := by decide

theorem lineOfCode_ok (n : Nat) (h1 : 100 ≤ n) (h2 : n ≤ 999) : lineFor n (lineOfCode n) = true := by
  unfold lineOfCode lookupLine
  cases hf : Gen.wsgiStatusLines.find? (·.1 == n) with
  | some p =>
    have hm := List.mem_of_find?_eq_some hf
    have hk := List.find?_some hf
    simp only [beq_iff_eq] at hk
    have := (List.all_eq_true.mp statusLines_ok) p hm
    simp only [Option.map_some, Option.getD_some]
    rw [hk] at this
    simpa [h1, h2] using this
  | none =>
    simp only [Option.map_none, Option.getD_none]
    have hl := natStr_length3 n (by omega) h1
    unfold lineFor
    simp only [h1, h2, decide_true, Bool.true_and, Bool.and_eq_true, beq_iff_eq]
    constructor
    · rw [List.take_append_of_le_length (by omega), List.take_of_length_le (by omega)]
    · rw [List.drop_append_of_le_length (by omega), List.drop_of_length_le (by omega)]
      exact unknown_tail_ok

/-- a status line that belongs to a code 100..999 has the PEP 3333 shape -/
theorem lineFor_statusLineOK (code : Nat) (line : Str) (h : lineFor code line = true) :
    statusLineOK line = true := by
  unfold lineFor at h
  simp only [Bool.and_eq_true, decide_eq_true_eq, beq_iff_eq] at h
  obtain ⟨⟨⟨h1, h2⟩, htake⟩, hdrop⟩ := h
  have hlen := natStr_length3 code (by omega) h1
  have hdig := natStr_digits code
  have hsplit : line = line.take 3 ++ line.drop 3 := (List.take_append_drop 3 line).symm
  rw [htake] at hsplit
  rcases hn : natStr code with _ | ⟨a, _ | ⟨b, _ | ⟨c, _ | ⟨d, t⟩⟩⟩⟩
  all_goals rw [hn] at hlen hdig hsplit
  all_goals simp only [List.length_nil, List.length_cons] at hlen
  all_goals try omega
  split at hdrop
  · rename_i r hr
    rw [hr] at hsplit
    rw [hsplit]
    simp only [List.cons_append, List.nil_append, statusLineOK, Bool.and_eq_true]
    simp only [Bool.and_eq_true] at hdrop
    exact ⟨⟨⟨⟨hdig a (by simp), hdig b (by simp)⟩, hdig c (by simp)⟩, hdrop.1⟩, hdrop.2⟩
  · cases hdrop

theorem statusSet_code_ok (n c : Nat) (l : Str) (h : statusSet (.code n) = some (c, l)) :
    lineFor c l = true := by
  simp only [statusSet] at h
  split at h
  · rename_i hr
    simp only [Option.some.injEq, Prod.mk.injEq] at h
    obtain ⟨rfl, rfl⟩ := h
    exact lineOfCode_ok _ hr.1 hr.2
  · cases h

theorem isDigit_not_isWs (c : Char) (h : c.isDigit = true) : isWsChar c = false := by
  have := isDigit_bounds c h
  unfold isWsChar isWsNat
  simp only [Bool.or_eq_false_iff, Bool.and_eq_false_iff, beq_eq_false_iff_ne, ne_eq, decide_eq_false_iff_not]
  omega

theorem stripBy_ends {α} (p : α → Bool) (l : List α) (a z : α) (hne : l ≠ [])
    (h1 : p (l.headD a) = false) (h2 : p (l.getLastD z) = false) : stripBy p l = l := by
  unfold stripBy
  have hd : l.dropWhile p = l := by
    cases l with
    | nil => rfl
    | cons x xs =>
      simp only [List.headD_cons] at h1
      simp only [List.dropWhile_cons, h1, Bool.false_eq_true, if_false]
  rw [hd]
  have hr : l.reverse.dropWhile p = l.reverse := by
    cases hl : l.reverse with
    | nil => rfl
    | cons y ys =>
      have : l.getLastD z = y := by
        have hl' : l = (y :: ys).reverse := by rw [← hl, List.reverse_reverse]
        rw [hl', List.reverse_cons]
        simp
      rw [this] at h2
      simp only [List.dropWhile_cons, h2, Bool.false_eq_true, if_false]
  rw [hr, List.reverse_reverse]

theorem splitWsGo_tok (tok cur rest : Str) (h : ∀ c ∈ tok, isWsChar c = false) (hne : tok ≠ [] ∨ cur ≠ []) :
    splitWsGo (tok ++ ' ' :: rest) cur = (cur.reverse ++ tok) :: splitWsGo rest [] := by
  induction tok generalizing cur with
  | nil =>
    have hc : cur ≠ [] := by rcases hne with h | h; exact absurd rfl h; exact h
    have hsp : isWsChar ' ' = true := by decide
    simp only [List.nil_append, splitWsGo, hsp, if_true, List.append_nil]
    cases cur with
    | nil => exact absurd rfl hc
    | cons x xs => simp
  | cons c cs ih =>
    have hcw := h c (List.mem_cons_self ..)
    simp only [List.cons_append, splitWsGo, hcw, Bool.false_eq_true, if_false]
    rw [ih (c :: cur) (fun x hx => h x (List.mem_cons_of_mem _ hx)) (Or.inr (by simp))]
    simp

theorem contains_space (a b c : Char) (r : Str) : (a :: b :: c :: ' ' :: r).contains ' ' = true := by
  cases h1 : ' ' == a <;> cases h2 : ' ' == b <;> cases h3 : ' ' == c <;>
    simp [List.contains, List.elem, h1, h2, h3]

/-- a string status of the documented form is accepted unchanged and belongs to its code -/
theorem statusSet_line_ok (s : Str) (h : statusStrOK s = true) :
    ∃ c, statusSet (.line s) = some (c, s) ∧ lineFor c s = true := by
  unfold statusStrOK at h
  split at h
  · rename_i a b c r
    simp only [Bool.and_eq_true, decide_eq_true_eq, beq_iff_eq] at h
    obtain ⟨⟨⟨h100, h999⟩, hnat⟩, hr⟩ := h
    generalize hn : (a.toNat - 48) * 100 + (b.toNat - 48) * 10 + (c.toNat - 48) = n at *
    have hdig := natStr_digits n
    rw [hnat] at hdig
    have ha := hdig a (by simp)
    have hb := hdig b (by simp)
    have hc := hdig c (by simp)
    unfold reasonOK at hr
    simp only [Bool.and_eq_true, Bool.not_eq_eq_eq_not, Bool.not_true, List.all_eq_true,
      decide_eq_true_eq, bne_iff_ne, ne_eq] at hr
    obtain ⟨⟨⟨hrne, hctl⟩, hhead⟩, hlast⟩ := hr
    have hrne' : r ≠ [] := by
      intro hh; subst hh; simp at hrne
    -- strip is the identity
    have hstrip : strip (a :: b :: c :: ' ' :: r) = a :: b :: c :: ' ' :: r := by
      apply stripBy_ends isWsChar _ 'x' 'x' (by simp)
      · simpa using isDigit_not_isWs a ha
      · have : (a :: b :: c :: ' ' :: r).getLastD 'x' = r.getLastD 'x' := by
          cases r with
          | nil => exact absurd rfl hrne'
          | cons x xs => simp [List.getLastD]
        rw [this]; exact hlast
    have hsplit : splitWs (a :: b :: c :: ' ' :: r) = [a, b, c] :: splitWsGo r [] := by
      have := splitWsGo_tok [a, b, c] [] r (by
        intro x hx
        simp only [List.mem_cons, List.not_mem_nil, or_false] at hx
        rcases hx with rfl | rfl | rfl
        · exact isDigit_not_isWs _ ha
        · exact isDigit_not_isWs _ hb
        · exact isDigit_not_isWs _ hc) (Or.inl (by simp))
      simpa [splitWs] using this
    have hint : pyIntLim [a, b, c] = some (n : Int) := by
      rw [pyIntLim_of_length_le (by simp [Ombott.Gen.intMaxStrDigits])]; rw [← hnat]; exact pyInt_natStr n
    refine ⟨n, ?_, ?_⟩
    · unfold statusSet
      simp only [contains_space, if_true, hstrip, hsplit, hint]
      have : (100 : Int) ≤ (n : Int) ∧ (n : Int) ≤ 999 := by omega
      simp only [this, and_self, if_true, Int.toNat_natCast]
    · unfold lineFor
      simp only [h100, h999, decide_true, Bool.true_and, List.take_succ_cons, List.take_zero,
        List.drop_succ_cons, List.drop_zero, hnat, beq_self_eq_true, Bool.and_eq_true]
      refine ⟨by simpa using hrne', ?_⟩
      unfold noCRLF
      rw [List.all_eq_true]
      intro ch hch
      have := hctl ch hch
      simp only [Bool.and_eq_true, bne_iff_ne, ne_eq]
      constructor
      · intro he; subst he; exact absurd this.1 (by decide)
      · intro he; subst he; exact absurd this.1 (by decide)
  · cases h

end Ombott.Wsgi
